//! C13 engine: the real `ConfigFile::new` -> `Manager::load` -> `prepare` -> `spawn_internal`
//! (recording closures, exactly as the manager's own tests do) vs the Lean model `Model/Mgr.lean`.
//!
//! One case = one sequence of (re)loads into one `Manager`. Every document is generated from an
//! abstract description (components, types, `sources` shapes) that is both rendered to TOML for
//! the real code and written to the case line for the model. Where the real outcome depends on
//! `HashMap` order (which gates a failing `prepare` had moved, which links a failing
//! deserialisation had created) the observed subset is added to the case line as an input.
//! Observation: per load `ok:<sorted actions>` / `err` / `panic`, then the running sets.
//! Oracle (no Lean): own computation of "is this document valid" and "what must run after it".
use std::collections::{BTreeMap, BTreeSet};
use std::panic::{catch_unwind, AssertUnwindSafe};
use std::time::Instant;

use rotonda::verif::manager as vm;
use verif_harness::{join, parse_args, rng::Rng, Recorder};

#[path = "../c13_live.rs"]
mod live;

#[derive(Clone, Debug, PartialEq)]
enum V { S(u32), Bad }
#[derive(Clone, Debug, PartialEq)]
enum Srcs { Absent, One(V), Many(Vec<V>) }
#[derive(Clone, Debug, PartialEq)]
struct RawComp { name: u32, ty: Option<u32>, sources: Srcs, source: Option<V>, filters: u32 }
#[derive(Clone, Debug, PartialEq, Default)]
struct Doc { not_toml: bool, roto: bool, units: Vec<RawComp>, targets: Vec<RawComp> }

const UNIT_TYPES: [&str; 5] = ["bmp-tcp-in", "bgp-tcp-in", "mrt-file-in", "filter", "rib"];
const TARGET_TYPES: [&str; 3] = ["null-out", "file-out", "mqtt-out"];

// ------------------------------------------------------------ names, text forms

fn name_str(n: u32) -> String { if n >= 100 { format!("u{}-vRIB-{}", (n - 100) / 10, (n - 100) % 10) } else { format!("u{n}") } }
fn tname_str(n: u32) -> String { format!("t{n}") }
fn name_id(s: &str) -> u32 {
    if let Some((base, k)) = s.split_once("-vRIB-") { 100 + base[1..].parse::<u32>().unwrap_or(0) * 10 + k.parse::<u32>().unwrap_or(0) }
    else { s[1..].parse().unwrap_or(9999) }
}

fn show_v(v: &V) -> String { match v { V::S(n) => format!("s{n}"), V::Bad => "b".into() } }
fn show_srcs(s: &Srcs) -> String {
    match s { Srcs::Absent => "-".into(), Srcs::One(v) => format!("1{}", show_v(v)), Srcs::Many(vs) => format!("[{}]", join(vs.iter().map(show_v), "+")) }
}
fn show_comp(c: &RawComp) -> String {
    format!("{}.{}.{}.{}.{}", c.name, c.ty.map(|t| t.to_string()).unwrap_or("?".into()), show_srcs(&c.sources), c.source.as_ref().map(show_v).unwrap_or("-".into()), c.filters)
}
fn parse_v(s: &str) -> V { if s == "b" { V::Bad } else { V::S(s[1..].parse().unwrap()) } }
fn parse_srcs(s: &str) -> Srcs {
    if s == "-" { Srcs::Absent } else if let Some(r) = s.strip_prefix('1') { Srcs::One(parse_v(r)) }
    else { let inner = s.trim_start_matches('[').trim_end_matches(']'); if inner.is_empty() { Srcs::Many(vec![]) } else { Srcs::Many(inner.split('+').map(parse_v).collect()) } }
}
fn parse_comp(s: &str) -> RawComp {
    let f: Vec<&str> = s.split('.').collect();
    RawComp { name: f[0].parse().unwrap(), ty: if f[1] == "?" { None } else { Some(f[1].parse().unwrap()) }, sources: parse_srcs(f[2]),
        source: if f[3] == "-" { None } else { Some(parse_v(f[3])) }, filters: f[4].parse().unwrap() }
}
fn show_step(d: &Doc, residue: &BTreeSet<u32>, moved: &BTreeSet<u32>) -> String {
    let mut fl = String::new();
    if d.not_toml { fl.push('x'); }
    if d.roto { fl.push('o'); }
    if fl.is_empty() { fl.push('-'); }
    format!("{};U:{};T:{};r:{};m:{}", fl, join(d.units.iter().map(show_comp), ","), join(d.targets.iter().map(show_comp), ","), join(residue.iter(), "+"), join(moved.iter(), "+"))
}
fn parse_step(s: &str) -> Doc {
    let f: Vec<&str> = s.split(';').collect();
    let comps = |x: &str| -> Vec<RawComp> { if x.is_empty() { vec![] } else { x.split(',').map(parse_comp).collect() } };
    Doc { not_toml: f[0].contains('x'), roto: f[0].contains('o'), units: comps(&f[1][2..]), targets: comps(&f[2][2..]) }
}

// ------------------------------------------------------------------- TOML text

fn toml_v(v: &V, rng_salt: u32) -> String { match v { V::S(n) => format!("\"{}\"", name_str(*n)), V::Bad => ["1", "true", "{ a = 1 }", "1.5"][(rng_salt % 4) as usize].to_string() } }
fn render(d: &Doc) -> String {
    let mut s = String::from("http_listen = [\"127.0.0.1:0\"]\n");
    if d.roto { s.push_str("roto_script = \"does-not-exist.roto\"\n"); }
    let comp = |s: &mut String, c: &RawComp, is_unit: bool| {
        s.push_str(&format!("\n[{}.{}]\n", if is_unit { "units" } else { "targets" }, if is_unit { name_str(c.name) } else { tname_str(c.name) }));
        match c.ty {
            Some(t) if is_unit => {
                s.push_str(&format!("type = \"{}\"\n", UNIT_TYPES[t as usize]));
                match t { 0 => s.push_str("listen = \"127.0.0.1:0\"\n"), 1 => s.push_str("listen = \"127.0.0.1:0\"\nmy_asn = 65000\nmy_bgp_id = [1, 2, 3, 4]\n"),
                    2 => s.push_str("filename = \"x.mrt\"\n"), 3 => s.push_str("filter_name = \"f\"\n"), _ => {} }
            }
            Some(t) => {
                s.push_str(&format!("type = \"{}\"\n", TARGET_TYPES[t as usize]));
                match t { 1 => s.push_str("format = \"csv\"\nfilename = \"out.csv\"\n"), 2 => s.push_str("destination = \"localhost\"\nclient_id = \"c\"\n"), _ => {} }
            }
            None => if c.name % 2 == 0 { s.push_str("type = \"no-such-type\"\n") },
        }
        match &c.sources {
            Srcs::Absent => {}
            Srcs::One(v) => s.push_str(&format!("sources = {}\n", toml_v(v, c.name))),
            Srcs::Many(vs) => s.push_str(&format!("sources = [{}]\n", join(vs.iter().enumerate().map(|(i, v)| toml_v(v, c.name + i as u32)), ", "))),
        }
        if let Some(v) = &c.source { s.push_str(&format!("source = {}\n", toml_v(v, c.name))); }
        if c.filters > 0 { s.push_str(&format!("filter_names = [{}]\n", join((0..c.filters).map(|i| format!("\"f{i}\"")), ", "))); }
    };
    if d.units.is_empty() { s.push_str("\n[units]\n"); }
    for c in &d.units { comp(&mut s, c, true); }
    if d.targets.is_empty() { s.push_str("\n[targets]\n"); }
    for c in &d.targets { comp(&mut s, c, false); }
    if d.not_toml { s.push_str("\n[[[ this is not TOML\n"); }
    s
}

// ---------------------------------------------- the oracle's own reading of a document

/// `None`: the document is not a valid configuration (must be rejected without a panic).
/// `Some((units that must run, targets that must run))` for a valid one: units referenced by
/// some component's sources (after the documented vRIB expansion), and all targets.
fn spec_running(d: &Doc) -> Option<(BTreeMap<u32, u32>, BTreeMap<u32, u32>)> {
    if d.not_toml || d.roto { return None; }
    let names = |vs: &Vec<V>| -> Option<Vec<u32>> { vs.iter().map(|v| if let V::S(n) = v { Some(*n) } else { None }).collect() };
    // an ill-typed value under a key the component's type reads makes the document invalid
    // (a key the type does not know is ignored by rotonda, like any other unknown key)
    let bad_sources = |c: &RawComp| match &c.sources { Srcs::One(V::Bad) => true, Srcs::Many(vs) => vs.contains(&V::Bad), _ => false };
    for c in &d.units { if c.ty.map(|t| t >= 3).unwrap_or(false) && bad_sources(c) { return None; } }
    for c in &d.targets { if bad_sources(c) || (c.ty == Some(0) && matches!(c.source, Some(V::Bad))) { return None; } }
    let mut units: BTreeMap<u32, u32> = BTreeMap::new();
    let mut refs: BTreeSet<u32> = BTreeSet::new();
    let mut last: BTreeMap<u32, u32> = BTreeMap::new(); // shorthand unit -> its last vRIB
    for c in &d.units { if c.ty == Some(4) && c.filters >= 2 { last.insert(c.name, 100 + c.name * 10 + (c.filters - 2)); } }
    let remap = |n: u32| *last.get(&n).unwrap_or(&n);
    for c in &d.units {
        let ty = c.ty?;
        units.insert(c.name, ty);
        if ty >= 3 {
            if c.source.is_some() && false { return None; }
            match &c.sources { Srcs::Many(vs) if !vs.is_empty() => for n in names(vs)? { refs.insert(remap(n)); }, _ => return None }
        }
        if ty == 4 && c.filters >= 2 {
            for k in 0..c.filters - 1 { units.insert(100 + c.name * 10 + k, 4); if k > 0 { refs.insert(100 + c.name * 10 + k - 1); } }
            refs.insert(c.name);
        }
    }
    let mut targets = BTreeMap::new();
    for c in &d.targets {
        let ty = c.ty?;
        targets.insert(c.name, ty);
        match (ty, &c.sources, &c.source) {
            (0, Srcs::One(V::S(n)), None) | (1, Srcs::One(V::S(n)), _) | (0, Srcs::Absent, Some(V::S(n))) => { refs.insert(remap(*n)); }
            (0, Srcs::Many(vs), None) => for n in names(vs)? { refs.insert(remap(n)); },
            (2, Srcs::Many(vs), _) if !vs.is_empty() => for n in names(vs)? { refs.insert(remap(n)); },
            _ => return None,
        }
    }
    if refs.iter().any(|n| !units.contains_key(n)) { return None; } // unresolved link
    Some((units.into_iter().filter(|(n, _)| refs.contains(n)).collect(), targets))
}

// --------------------------------------------------------------- the real code

#[derive(Debug, PartialEq)]
enum Res { Ok(Vec<String>), Err, Panic }

fn show_action(a: &vm::Action) -> String {
    let ut = |t: &str| UNIT_TYPES.iter().position(|x| *x == t).unwrap_or(99);
    let tt = |t: &str| TARGET_TYPES.iter().position(|x| *x == t).unwrap_or(99);
    match a {
        vm::Action::SpawnUnit(n, t) => format!("su{}:{}", name_id(n), ut(t)),
        vm::Action::ReconfigureUnit(n, _) => format!("ru{}", name_id(n)),
        vm::Action::TerminateUnit(n) => format!("tu{}", name_id(n)),
        vm::Action::SpawnTarget(n, t) => format!("st{}:{}", name_id(n), tt(t)),
        vm::Action::ReconfigureTarget(n, _) => format!("rt{}", name_id(n)),
        vm::Action::TerminateTarget(n) => format!("tt{}", name_id(n)),
    }
}

struct Real { manager: vm::Manager, dir: std::path::PathBuf }

/// One real (re)load. Returns the result and the loader residue / moved-gates hints.
fn real_step(r: &mut Real, d: &Doc) -> (Res, BTreeSet<u32>, BTreeSet<u32>) {
    let text = render(d);
    let path = r.dir.join("rotonda.conf");
    let none = BTreeSet::new();
    let file = match catch_unwind(AssertUnwindSafe(|| vm::ConfigFile::new(text.into_bytes(), vm::Source::from(&path)))) {
        Err(_) => return (Res::Panic, none.clone(), none),
        Ok(Err(_)) => return (Res::Err, none.clone(), none),
        Ok(Ok(f)) => f,
    };
    let ids = |v: Vec<String>| -> BTreeSet<u32> { v.iter().map(|s| name_id(s)).collect() };
    let mut config = match catch_unwind(AssertUnwindSafe(|| r.manager.load(&file))) {
        Err(_) => return (Res::Panic, ids(vm::loader_gate_names()), none),
        Ok(Err(_)) => return (Res::Err, ids(vm::loader_gate_names()), none),
        Ok(Ok(c)) => c,
    };
    match catch_unwind(AssertUnwindSafe(|| r.manager.prepare(&config, &file))) {
        Err(_) => return (Res::Panic, none.clone(), none),
        Ok(Err(_)) => return (Res::Err, ids(vm::loader_gate_names()), ids(vm::pending_gate_names(&r.manager))),
        Ok(Ok(())) => {}
    }
    match catch_unwind(AssertUnwindSafe(|| vm::spawn_recording(&mut r.manager, &mut config))) {
        Err(_) => (Res::Panic, none.clone(), none),
        Ok(acts) => { let mut a: Vec<String> = acts.iter().map(show_action).collect(); a.sort(); (Res::Ok(a), none.clone(), none) }
    }
}

fn run_sequence(rec: &mut Recorder, rt: &tokio::runtime::Runtime, dir: &std::path::Path, docs: &[Doc], kind: &str) -> Vec<Res> {
    let _g = rt.enter();
    vm::reset_loader(); // a fresh process
    let mut real = Real { manager: vm::Manager::new(), dir: dir.to_path_buf() };
    let mut steps = vec![];
    let mut results = vec![];
    let mut fails: Vec<String> = vec![];
    // oracle state: what runs according to the documents alone
    let mut want: (BTreeMap<u32, u32>, BTreeMap<u32, u32>) = Default::default();
    let mut had_failure = false;
    let mut kinds = BTreeSet::new();
    for d in docs {
        let before = vm::running_names(&real.manager);
        let (res, residue, moved) = real_step(&mut real, d);
        steps.push(show_step(d, &residue, &moved));
        let after = vm::running_names(&real.manager);
        let as_set = |v: &Vec<String>| -> BTreeSet<u32> { v.iter().map(|s| name_id(s)).collect() };
        let spec = spec_running(d);
        match (&res, &spec) {
            (Res::Panic, _) => fails.push("panic:config.rs:remap-sources-unreachable loading a configuration panicked instead of failing with an error".into()),
            (Res::Err, None) => {}
            (Res::Err, Some(_)) => fails.push(format!("valid-config-rejected:{} a valid configuration was rejected", if had_failure { "after-failed-load" } else { "fresh" })),
            (Res::Ok(_), None) => fails.push("invalid-config-accepted a document the oracle considers invalid was loaded".into()),
            (Res::Ok(acts), Some((wu, wt))) => {
                // exactly the difference
                let mut exp: Vec<String> = vec![];
                for (n, t) in wu { match want.0.get(n) { Some(t0) if t0 == t => exp.push(format!("ru{n}")), Some(_) => { exp.push(format!("tu{n}")); exp.push(format!("su{n}:{t}")) } None => exp.push(format!("su{n}:{t}")) } }
                for n in want.0.keys() { if !wu.contains_key(n) { exp.push(format!("tu{n}")); } }
                for (n, t) in wt { match want.1.get(n) { Some(t0) if t0 == t => exp.push(format!("rt{n}")), Some(_) => { exp.push(format!("tt{n}")); exp.push(format!("st{n}:{t}")) } None => exp.push(format!("st{n}:{t}")) } }
                for n in want.1.keys() { if !wt.contains_key(n) { exp.push(format!("tt{n}")); } }
                exp.sort();
                if *acts != exp {
                    let extra: Vec<&String> = acts.iter().filter(|a| !exp.contains(a)).collect();
                    let sig = if extra.iter().any(|a| a.starts_with("su")) && had_failure { "unused-unit-started:after-failed-load" }
                        else if extra.iter().any(|a| a.starts_with("su")) { "unused-unit-started:fresh" }
                        else if extra.iter().any(|a| a.starts_with("ru")) && had_failure { "unused-unit-kept-running:after-failed-load" }
                        else { "actions-not-the-difference" };
                    fails.push(format!("{} expected [{}] got [{}]", sig, exp.join(","), acts.join(",")));
                }
                want = (wu.clone(), wt.clone());
                let ru = as_set(&after.0); let rtg = as_set(&after.1);
                if ru != want.0.keys().cloned().collect() || rtg != want.1.keys().cloned().collect() {
                    fails.push(format!("running-set-wrong:{} running units {:?} targets {:?}, the file says {:?} {:?}", if had_failure { "after-failed-load" } else { "fresh" }, ru, rtg, want.0.keys().collect::<Vec<_>>(), want.1.keys().collect::<Vec<_>>()));
                }
            }
        }
        if !matches!(res, Res::Ok(_)) {
            had_failure = true;
            if as_set(&before.0) != as_set(&after.0) || as_set(&before.1) != as_set(&after.1) { fails.push("failed-load-touched-running-set".into()); }
        }
        kinds.insert(match &res { Res::Ok(_) => "ok", Res::Err => "err", Res::Panic => "panic" });
        rec.bump(&format!("step.{}", match &res { Res::Ok(_) => "ok", Res::Err => "err", Res::Panic => "panic" }));
        results.push(res);
    }
    let fin = vm::running_names(&real.manager);
    let ids = |v: &Vec<String>| -> String { let mut x: Vec<String> = v.iter().map(|s| name_id(s).to_string()).collect(); x.sort(); x.join(",") };
    let imp = format!("{} => U={} T={}", join(results.iter().map(|r| match r { Res::Ok(a) => format!("ok:{}", a.join(",")), Res::Err => "err".into(), Res::Panic => "panic".into() }), " / "), ids(&fin.0), ids(&fin.1));
    let oracle = if fails.is_empty() { "ok".to_string() } else { format!("fail {}", fails[0]) };
    rec.bump(&format!("kind.{kind}"));
    let nontrivial = docs.len() >= 2 && results.iter().any(|r| matches!(r, Res::Ok(a) if !a.is_empty()));
    rec.case(steps.join("/"), imp, oracle, nontrivial);
    results
}

// ----------------------------------------------------------------- generator

struct Gen { rng: Rng }
impl Gen {
    /// a valid component graph over the five unit and three target types
    fn valid_doc(&mut self) -> Doc {
        let nu = self.rng.range(1, 6) as u32;
        let mut units: Vec<RawComp> = vec![];
        for i in 0..nu {
            // sources may only point to earlier units: no cycles, everything resolvable
            let ty = if i == 0 { self.rng.below(3) as u32 } else { self.rng.below(5) as u32 };
            let sources = if ty >= 3 {
                let k = self.rng.range(1, 2);
                Srcs::Many((0..k).map(|_| V::S(self.rng.below(i as u64) as u32)).collect())
            } else { Srcs::Absent };
            let filters = if ty == 4 && self.rng.chance(35, 100) { self.rng.range(1, 4) as u32 } else { 0 };
            units.push(RawComp { name: i, ty: Some(ty), sources, source: None, filters });
        }
        // rename units so that names differ between documents of a sequence only sometimes
        let nt = self.rng.range(1, 3) as u32;
        let mut targets = vec![];
        for j in 0..nt {
            let ty = self.rng.below(3) as u32;
            let pick = |g: &mut Gen| V::S(g.rng.below(nu as u64) as u32);
            let (sources, source) = match ty {
                0 => match self.rng.below(3) { 0 => (Srcs::One(pick(self)), None), 1 => (Srcs::Absent, Some(pick(self))), _ => { let k = self.rng.range(1, 2); (Srcs::Many((0..k).map(|_| pick(self)).collect()), None) } },
                1 => (Srcs::One(pick(self)), None),
                _ => { let k = self.rng.range(1, 2); (Srcs::Many((0..k).map(|_| pick(self)).collect()), None) }
            };
            targets.push(RawComp { name: j, ty: Some(ty), sources, source, filters: 0 });
        }
        Doc { not_toml: false, roto: false, units, targets }
    }
    /// a small edit of a document: what an operator does between two SIGHUPs
    fn edit(&mut self, d: &Doc) -> Doc {
        let mut d = d.clone();
        d.not_toml = false; d.roto = false;
        match self.rng.below(8) {
            0 if !d.targets.is_empty() => { let i = self.rng.below(d.targets.len() as u64) as usize; d.targets.remove(i); }
            1 => { let n = d.targets.iter().map(|t| t.name).max().map(|m| m + 1).unwrap_or(0); let u = self.rng.pick(&d.units).name; d.targets.push(RawComp { name: n, ty: Some(0), sources: Srcs::One(V::S(u)), source: None, filters: 0 }); }
            2 => { let n = d.units.iter().map(|t| t.name).max().map(|m| m + 1).unwrap_or(0); if n < 10 { d.units.push(RawComp { name: n, ty: Some(self.rng.below(3) as u32), sources: Srcs::Absent, source: None, filters: 0 }); } }
            3 => { let i = self.rng.below(d.units.len() as u64) as usize; if d.units[i].ty.map(|t| t < 3).unwrap_or(false) { d.units[i].ty = Some(self.rng.below(3) as u32); } }
            4 => { let i = self.rng.below(d.targets.len().max(1) as u64) as usize; if let Some(t) = d.targets.get_mut(i) { if t.ty == Some(0) { if let Srcs::One(_) = t.sources { t.ty = Some(1); } } else if t.ty == Some(1) { t.ty = Some(0); } } }
            5 => { for u in d.units.iter_mut() { if u.ty == Some(4) { u.filters = self.rng.below(4) as u32; } } }
            6 => { if d.units.len() > 1 { d.units.pop(); } } // may leave unresolved links: an operator mistake
            _ => {}
        }
        d
    }
    /// a malformed variant of a document
    fn breakit(&mut self, d: &Doc) -> Doc {
        let mut d = d.clone();
        match self.rng.below(9) {
            0 => d.not_toml = true,
            1 => d.roto = true,
            2 => { let i = self.rng.below(d.units.len() as u64) as usize; d.units[i].ty = None; }
            3 => { if let Some(t) = d.targets.last_mut() { t.ty = None; } }
            4 => { let i = self.rng.below(d.units.len() as u64) as usize; d.units[i].sources = Srcs::One(V::Bad); }                  // `sources = 1`
            5 => { if let Some(t) = d.targets.first_mut() { t.sources = Srcs::Many(vec![V::S(0), V::Bad]); t.source = None; } }
            6 => { if let Some(t) = d.targets.first_mut() { t.sources = Srcs::One(V::S(self.rng.range(20, 25) as u32)); t.source = None; } }   // unresolved link
            7 => { let n = d.units.len() as u32; d.units.push(RawComp { name: n, ty: Some(3), sources: Srcs::Many(vec![V::S(self.rng.range(30, 33) as u32), V::S(0)]), source: None, filters: 0 }); } // unresolved among resolvable
            _ => { if let Some(t) = d.targets.first_mut() { t.source = Some(V::Bad); } }
        }
        d
    }
    /// keys a component's type does not read (ignored by serde, but seen by `remap_sources`)
    fn stray(&mut self, d: &Doc) -> Doc {
        let mut d = d.clone();
        match self.rng.below(4) {
            0 => { if let Some(t) = d.targets.iter_mut().find(|t| t.ty != Some(0)) { t.source = Some(V::S(self.rng.below(3) as u32)); } }
            1 => { let i = self.rng.below(d.units.len() as u64) as usize; d.units[i].source = Some(V::S(self.rng.below(40) as u32)); }
            2 => { if let Some(u) = d.units.iter_mut().find(|u| u.ty.map(|t| t < 3).unwrap_or(false)) { u.sources = Srcs::Many(vec![V::S(self.rng.below(40) as u32)]); } }
            _ => { if let Some(t) = d.targets.iter_mut().find(|t| t.ty == Some(0) && t.source.is_none()) { t.source = Some(V::S(0)); } } // null-out with both keys: duplicate field
        }
        d
    }
}

fn main() {
    let args = parse_args();
    let t0 = Instant::now();
    if args.rest.iter().any(|a| a == "--live-debug") { live::debug_main(); return; }
    std::panic::set_hook(Box::new(|_| {}));
    let mut rec = Recorder::new("(a) reload sequences (1-6 loads) of generated TOML documents (valid component graphs over the five unit and three target types incl. vRIB shorthand; operator edits between loads; malformed documents: not TOML, unknown/missing type, ill-typed source(s), unresolved links, uncompilable roto script) into the real ConfigFile::new -> Manager::load -> prepare -> spawn_internal with recording closures; non-trivial = a sequence of >= 2 loads with at least one successful load that produced actions. (b) `L|` cases: a really spawned pipeline (bmp-tcp-in x1-2 -> rib -> null-out on a multi-threaded runtime), real BMP/TCP router sessions, announcements / withdrawals, reloads of edited files (rib limits / path / sources, listen address, added or removed units and targets, malformed files), observed after every event through the real HTTP handler, the sockets and /proc/net/tcp; sequential, racing (updates written while the reload runs: sampled interleavings) and forced-window cases; non-trivial = a successful reload while a router session existed; distinct = distinct case lines");
    let rt = tokio::runtime::Builder::new_current_thread().enable_all().build().unwrap();
    let dir = std::env::temp_dir().join(format!("verif-c13-{}", std::process::id()));
    std::fs::create_dir_all(&dir).unwrap();

    if let Some(path) = &args.replay {
        let lines = verif_harness::replay_cases(path);
        let mut lrng = Rng::new(args.seed ^ 0x13);
        let flags = if lines.iter().any(|l| l.starts_with("L|")) { Some(live::witnesses(&dir, &mut lrng, &mut rec, false)) } else { None };
        for line in lines {
            if line.starts_with("L|") { live::replay(&dir, &line, flags.unwrap(), &mut lrng, &mut rec); continue; }
            let docs: Vec<Doc> = line.split('/').map(parse_step).collect();
            run_sequence(&mut rec, &rt, &dir, &docs, "replay");
        }
        rec.finish(&args, t0.elapsed().as_secs_f64());
        let _ = std::fs::remove_dir_all(&dir);
        return;
    }

    let unit = |name: u32, ty: u32, srcs: Srcs| RawComp { name, ty: Some(ty), sources: srcs, source: None, filters: 0 };
    let null = |name: u32, src: u32| RawComp { name, ty: Some(0), sources: Srcs::One(V::S(src)), source: None, filters: 0 };
    // 0. witnesses of the counterexample theorems; they decide which variant this tree is
    //    (a) `sources = 1`
    let w1 = Doc { units: vec![unit(0, 4, Srcs::One(V::Bad))], targets: vec![null(0, 0)], ..Default::default() };
    let r1 = run_sequence(&mut rec, &rt, &dir, &[w1], "witness-unreachable");
    rec.variant("unreach", if r1[0] == Res::Panic { "as-written" } else { "repaired" });
    //    (b) a load with one unresolved link among resolvable ones, then a valid file in which those units are unused
    let many_units: Vec<RawComp> = (0..8).map(|i| unit(i, 0, Srcs::Absent)).collect();
    let mut bad_targets: Vec<RawComp> = (0..8).map(|i| null(i, i)).collect();
    bad_targets.push(null(8, 40)); // unresolved
    let w2a = Doc { units: many_units.clone(), targets: bad_targets, ..Default::default() };
    let w2b = Doc { units: many_units.clone(), targets: vec![null(0, 0)], ..Default::default() };
    let r2 = run_sequence(&mut rec, &rt, &dir, &[w2a, w2b], "witness-stale-pending");
    //    (c) serde rejects a document after creating links; the next, valid, document does not have those units
    let w3a = Doc { units: vec![unit(0, 0, Srcs::Absent), unit(5, 0, Srcs::Absent)], targets: vec![null(0, 5), RawComp { name: 1, ty: None, sources: Srcs::One(V::S(0)), source: None, filters: 0 }], ..Default::default() };
    let w3b = Doc { units: vec![unit(0, 0, Srcs::Absent)], targets: vec![null(0, 0)], ..Default::default() };
    let r3 = run_sequence(&mut rec, &rt, &dir, &[w3a, w3b], "witness-stale-loader-gates");
    let stale = matches!(&r2[1], Res::Ok(a) if a.iter().filter(|x| x.starts_with("su")).count() > 1) || r3[1] == Res::Err;
    rec.variant("stale", if stale { "as-written" } else { "repaired" });
    // corpus: the manager's own test scenarios
    let c1 = Doc { units: vec![unit(0, 0, Srcs::Absent), unit(1, 0, Srcs::Absent)], targets: vec![null(0, 1)], ..Default::default() };
    run_sequence(&mut rec, &rt, &dir, &[c1.clone(), c1.clone()], "corpus");
    let mut c2 = c1.clone(); c2.targets.push(null(1, 1));
    run_sequence(&mut rec, &rt, &dir, &[c1.clone(), c2.clone(), c1.clone()], "corpus");
    let c3 = Doc { units: vec![unit(0, 0, Srcs::Absent), RawComp { name: 1, ty: Some(4), sources: Srcs::Many(vec![V::S(0)]), source: None, filters: 3 }], targets: vec![null(0, 1)], ..Default::default() };
    run_sequence(&mut rec, &rt, &dir, &[c3.clone(), c1.clone(), c3], "corpus");

    let mut g = Gen { rng: Rng::new(args.seed) };
    let n = if args.thorough { 60_000 } else { 2_500 };
    let budget = if args.thorough { 400.0 } else { 45.0 };
    for i in 0..n {
        if i % 64 == 0 && t0.elapsed().as_secs_f64() > budget { rec.bump("gen.stopped-by-time-budget"); break; }
        let len = g.rng.range(1, 6);
        let mut docs: Vec<Doc> = vec![];
        let mut cur = g.valid_doc();
        for _ in 0..len {
            let d = match g.rng.below(11) { 0 => g.valid_doc(), 1..=3 => g.breakit(&cur), 4 => g.stray(&cur), _ => g.edit(&cur) };
            if spec_running(&d).is_some() { cur = d.clone(); }
            docs.push(d);
        }
        run_sequence(&mut rec, &rt, &dir, &docs, "generated");
    }
    // ---- the executed pipeline (see c13_live.rs): real units, real BMP sessions, reloads under traffic
    let mut lrng = Rng::new(args.seed ^ 0x13);
    let flags = live::witnesses(&dir, &mut lrng, &mut rec, true);
    rec.variant("apipath", if flags.path_ignored { "as-written" } else { "repaired" });
    rec.variant("clonesender", if flags.clone_stale { "as-written" } else { "repaired" });
    rec.variant("clonequeue", if flags.queue_wedge { "as-written" } else { "repaired" });
    let (n_seq, n_race, secs) = if args.thorough { (2500, 5000, 300) } else { (110, 260, 40) };
    live::streams(&dir, flags, &mut lrng, &mut rec, n_seq, n_race, Instant::now() + std::time::Duration::from_secs(secs));
    rec.finish(&args, t0.elapsed().as_secs_f64());
    let _ = std::fs::remove_dir_all(&dir);
}
