//! HttpServer engine (part 1 of area HttpServer, attached to C12): the PRODUCTION HTTP server of rotonda
//! (`Server::run` -> `single_listener` -> `HttpAccept` / `HttpStream` -> hyper -> the per-connection service ->
//! `handle_request` -> `encode_response`, access log) bound on loopback ports, spoken to in raw HTTP/1.x bytes
//! over TCP, vs the Lean model `Model/HttpServer.lean` (connection-level state machine on top of `Model/Http.lean`).
//!
//! One case = one TCP connection. Case line (exact input of the Lean driver, `lean/Driver/HttpServer.lean`):
//!   reg|shape|stream-hex|deps|meta
//! `reg` the registry of the server (as in C12), `stream-hex` every byte the client sends on the connection,
//! `deps` the answers of code outside /repo for strings found in the requests (as in C12), `shape` how the bytes
//! are put on the wire (segmentation, pauses, half-close, access log on/off) and `meta` the generator's item
//! boundaries — both ignored by the model (only used to re-run a case from its line).
//! Observation: the sequence of responses read until the server closes the connection.
use std::collections::BTreeMap;
use std::io::{Read, Write};
use std::net::{Shutdown, SocketAddr, TcpStream};
use std::str::FromStr;
use std::sync::atomic::{AtomicBool, Ordering};
use std::sync::{Arc, Mutex};
use std::time::{Duration, Instant};

use verif_harness::{join, parse_args, rng::Rng, Recorder};

// ------------------------------------------------------------------ access log capture

static LOG_ON: AtomicBool = AtomicBool::new(false);
static LOG_LINES: Mutex<Vec<String>> = Mutex::new(Vec::new());
static PANICS: Mutex<Vec<String>> = Mutex::new(Vec::new());
/// every client thread connects from its own loopback address: an access-log line names its connection uniquely
thread_local! { static SRC_IP: std::cell::Cell<u8> = const { std::cell::Cell::new(1) }; }
static RT_HANDLE: std::sync::OnceLock<tokio::runtime::Handle> = std::sync::OnceLock::new();
fn connect_from_here(addr: SocketAddr) -> Result<TcpStream, String> {
    let src = SRC_IP.with(|c| c.get());
    if src == 1 { return TcpStream::connect_timeout(&addr, Duration::from_secs(10)).map_err(|e| format!("connect: {e}")); }
    let h = RT_HANDLE.get().ok_or("no runtime")?;
    let s = h.block_on(async {
        let sock = tokio::net::TcpSocket::new_v4().map_err(|e| format!("socket: {e}"))?;
        sock.bind(SocketAddr::from(([127, 0, 0, src], 0))).map_err(|e| format!("bind: {e}"))?;
        tokio::time::timeout(Duration::from_secs(10), sock.connect(addr)).await.map_err(|_| "connect: timeout".to_string())?.map_err(|e| format!("connect: {e}"))
    })?;
    let s = s.into_std().map_err(|e| format!("into_std: {e}"))?;
    s.set_nonblocking(false).map_err(|e| format!("blocking: {e}"))?;
    Ok(s)
}
thread_local! { static ASKING_DEPS: std::cell::Cell<bool> = const { std::cell::Cell::new(false) }; }
struct CapLog;
impl log::Log for CapLog {
    fn enabled(&self, m: &log::Metadata) -> bool { m.target() == "rotonda::http" && (m.level() <= log::Level::Info || LOG_ON.load(Ordering::SeqCst)) }
    fn log(&self, r: &log::Record) { if self.enabled(r.metadata()) { LOG_LINES.lock().unwrap().push(format!("{} {}", r.level(), r.args())); } }
    fn flush(&self) {}
}
static CAPLOG: CapLog = CapLog;

fn hex(b: &[u8]) -> String {
    const H: &[u8; 16] = b"0123456789abcdef";
    let mut s = String::with_capacity(1 + 2 * b.len());
    s.push('x');
    for x in b { s.push(H[(x >> 4) as usize] as char); s.push(H[(x & 15) as usize] as char); }
    s
}
fn unhex(s: &str) -> Option<Vec<u8>> {
    let s = s.strip_prefix('x')?;
    if s.len() % 2 != 0 { return None; }
    (0..s.len() / 2).map(|i| u8::from_str_radix(&s[2 * i..2 * i + 2], 16).ok()).collect()
}

// ------------------------------------------------------------------ the real server

struct Srv {
    desc: String,
    compress: bool,
    addrs: Vec<SocketAddr>,
    _manager: rotonda::manager::Manager,
}

fn free_port() -> u16 { std::net::TcpListener::bind("127.0.0.1:0").unwrap().local_addr().unwrap().port() }

/// The start-up sequence of `main.rs::run_with_config`: `Manager::load` + `prepare` of a real configuration,
/// `config.http.run(metrics, resources)` (the production server), `manager.spawn`.
fn start_server(rt: &tokio::runtime::Runtime, compress: bool, n_listen: usize) -> Result<Srv, String> {
    use rotonda::config::{ConfigFile, Source};
    for _attempt in 0..20 {
        let ports: Vec<u16> = (0..n_listen).map(|_| free_port()).collect();
        let listen = if n_listen == 1 { format!("\"127.0.0.1:{}\"", ports[0]) } else { format!("[{}]", join(ports.iter().map(|p| format!("\"127.0.0.1:{p}\"")), ", ")) };
        let toml = format!(r#"
http_listen = {listen}
{}
[units.bmp-in]
type = "bmp-tcp-in"
listen = "127.0.0.1:0"

[units.mrt-in]
type = "mrt-file-in"
filename = []

[units.rib]
type = "rib"
sources = ["bmp-in", "mrt-in"]

[targets.null]
type = "null-out"
sources = ["rib"]
"#, if compress { "" } else { "compress_responses = false\n" });
        let _g = rt.enter();
        rotonda::verif::manager::reset_loader();
        let mut manager = rotonda::manager::Manager::new();
        let file = ConfigFile::new(toml.as_bytes().to_vec(), Source::default()).map_err(|e| format!("config: {e}"))?;
        let mut config = manager.load(&file).map_err(|_| "load failed".to_string())?;
        manager.prepare(&config, &file).map_err(|_| "prepare failed".to_string())?;
        if config.http.run(manager.metrics(), manager.http_resources()).is_err() { continue; } // somebody took a port in between
        let before = manager.link_report_updated_at();
        manager.spawn(&mut config);
        let ready = rt.block_on(async {
            for _ in 0..3000 {
                if manager.link_report_updated_at() != before { return true; }
                tokio::time::sleep(Duration::from_millis(2)).await;
            }
            false
        });
        if !ready { return Err("pipeline did not report its links".into()); }
        let desc = format!("z{};T;G;L:{};M:{}:0;R:{}:8:19", compress as u8, hex(b"/routers/"), hex(b"/mrt/mrt-in/"), hex(b"/prefixes/"));
        let addrs = ports.iter().map(|p| SocketAddr::from(([127, 0, 0, 1], *p))).collect();
        return Ok(Srv { desc, compress, addrs, _manager: manager });
    }
    Err("no free port".into())
}

// ------------------------------------------------------------------ the raw client

#[derive(Clone, Debug)]
enum Act { Write(Vec<u8>), Pause(u64), Await(usize), ShutWr }

#[derive(Clone, Debug, Default)]
struct RawResp { v11: bool, status: u16, headers: Vec<(String, Vec<u8>)>, body: Vec<u8>, framing: &'static str, defects: Vec<String> }
impl RawResp {
    fn get(&self, name: &str) -> Vec<&Vec<u8>> { self.headers.iter().filter(|(n, _)| n.eq_ignore_ascii_case(name)).map(|(_, v)| v).collect() }
}

#[derive(Debug)]
enum Tail { Clean, H2, Truncated(usize), Junk(usize) }

fn find(h: &[u8], n: &[u8]) -> Option<usize> { h.windows(n.len()).position(|w| w == n) }

/// Strict client-side parser of a response stream. `heads[i]` = the i-th request was a HEAD (no body follows).
fn parse_responses(buf: &[u8], heads: &[bool]) -> (Vec<RawResp>, Tail) {
    let mut out = vec![];
    let mut at = 0;
    loop {
        if at == buf.len() { return (out, Tail::Clean); }
        let rest = &buf[at..];
        if out.is_empty() && rest.len() >= 9 && rest[3] == 4 && rest[5..9] == [0, 0, 0, 0] && !rest.starts_with(b"HTTP") { return (out, Tail::H2); }
        if !b"HTTP/1.".starts_with(&rest[..rest.len().min(7)]) { return (out, Tail::Junk(rest.len())); }
        let Some(he) = find(rest, b"\r\n\r\n") else { return (out, Tail::Truncated(rest.len())); };
        let head = &rest[..he];
        let mut r = RawResp::default();
        let mut lines = head.split(|b| *b == b'\n').map(|l| l.strip_suffix(b"\r").unwrap_or(l));
        let sl = lines.next().unwrap_or(b"");
        // status-line = HTTP-version SP 3DIGIT SP reason-phrase
        if sl.len() < 13 || !(sl.starts_with(b"HTTP/1.1 ") || sl.starts_with(b"HTTP/1.0 ")) || !sl[9..12].iter().all(u8::is_ascii_digit) || sl[12] != b' ' {
            r.defects.push("status-line".into());
        } else {
            r.v11 = sl[7] == b'1';
            r.status = std::str::from_utf8(&sl[9..12]).unwrap().parse().unwrap();
            if sl[13..].is_empty() || !sl[13..].iter().all(|b| *b == 9 || (32..127).contains(b)) { r.defects.push("reason-phrase".into()); }
        }
        if head.iter().any(|b| *b == b'\r') && head.windows(2).any(|w| w[0] == b'\r' && w[1] != b'\n') { r.defects.push("bare-cr".into()); }
        for l in lines {
            match l.iter().position(|b| *b == b':') {
                Some(c) if c > 0 && l[..c].iter().all(|b| b.is_ascii_alphanumeric() || b"!#$%&'*+-.^_`|~".contains(b)) => {
                    let v: &[u8] = &l[c + 1..];
                    let v = &v[v.iter().position(|b| *b != b' ' && *b != 9).unwrap_or(v.len())..];
                    if !v.iter().all(|b| *b == 9 || (32..127).contains(b) || *b >= 128) { r.defects.push("header-value".into()); }
                    r.headers.push((String::from_utf8_lossy(&l[..c]).to_ascii_lowercase(), v.to_vec()));
                }
                _ => r.defects.push("header-line".into()),
            }
        }
        let body_at = at + he + 4;
        let is_head = heads.get(out.len()).copied().unwrap_or(false);
        let cl: Vec<Vec<u8>> = r.get("content-length").into_iter().cloned().collect();
        let te: Vec<Vec<u8>> = r.get("transfer-encoding").into_iter().cloned().collect();
        let no_body = is_head || r.status / 100 == 1 || r.status == 204 || r.status == 304;
        if cl.len() > 1 { r.defects.push("content-length-repeated".into()); }
        if !te.is_empty() && !cl.is_empty() { r.defects.push("content-length-and-transfer-encoding".into()); }
        if no_body {
            r.framing = "head";
            at = body_at;
        } else if !te.is_empty() {
            r.framing = "chunked";
            let mut p = body_at;
            loop {
                let Some(le) = find(&buf[p..], b"\r\n") else { return (out, Tail::Truncated(buf.len() - at)); };
                let size_txt = std::str::from_utf8(&buf[p..p + le]).unwrap_or("zz");
                let Ok(n) = usize::from_str_radix(size_txt.split(';').next().unwrap_or("zz").trim(), 16) else { r.defects.push("chunk-size".into()); out.push(r); return (out, Tail::Junk(buf.len() - p)); };
                p += le + 2;
                if n == 0 {
                    let Some(te) = find(&buf[p - 2..], b"\r\n\r\n") else { return (out, Tail::Truncated(buf.len() - at)); };
                    p = p - 2 + te + 4;
                    break;
                }
                if buf.len() < p + n + 2 { return (out, Tail::Truncated(buf.len() - at)); }
                r.body.extend_from_slice(&buf[p..p + n]);
                if &buf[p + n..p + n + 2] != b"\r\n" { r.defects.push("chunk-end".into()); }
                p += n + 2;
            }
            at = p;
        } else if let Some(v) = cl.first() {
            r.framing = "cl";
            match std::str::from_utf8(v).ok().filter(|s| !s.is_empty() && s.bytes().all(|b| b.is_ascii_digit())).and_then(|s| s.parse::<usize>().ok()) {
                Some(n) => {
                    if buf.len() < body_at + n { return (out, Tail::Truncated(buf.len() - at)); }
                    r.body = buf[body_at..body_at + n].to_vec();
                    at = body_at + n;
                }
                None => { r.defects.push("content-length-value".into()); out.push(r); return (out, Tail::Junk(buf.len() - body_at)); }
            }
        } else {
            // close-delimited: everything up to EOF
            r.framing = "eof";
            r.body = buf[body_at..].to_vec();
            at = buf.len();
        }
        out.push(r);
    }
}

struct Exchange { received: Vec<u8>, end: &'static str, local_port: u16, write_failed: bool, log_from: usize, log_to: usize }

const DEADLINE: Duration = Duration::from_secs(40);

fn exchange(addr: SocketAddr, acts: &[Act], heads: &[bool]) -> Result<Exchange, String> {
    let mut s = connect_from_here(addr)?;
    let _ = s.set_nodelay(true);
    let _ = s.set_read_timeout(Some(Duration::from_millis(50)));
    let _ = s.set_write_timeout(Some(Duration::from_secs(15)));
    let local_port = s.local_addr().map(|a| a.port()).unwrap_or(0);
    let log_from = LOG_LINES.lock().unwrap().len();
    let t0 = Instant::now();
    let mut received = vec![];
    let mut end: Option<&'static str> = None;
    let mut write_failed = false;
    let mut tmp = [0u8; 65536];
    // one read attempt; returns false when the stream is over
    let mut pump = |s: &mut TcpStream, received: &mut Vec<u8>, end: &mut Option<&'static str>| {
        if end.is_some() { return; }
        match s.read(&mut tmp) {
            Ok(0) => *end = Some("eof"),
            Ok(n) => received.extend_from_slice(&tmp[..n]),
            Err(e) if e.kind() == std::io::ErrorKind::WouldBlock || e.kind() == std::io::ErrorKind::TimedOut => {}
            Err(e) if e.kind() == std::io::ErrorKind::ConnectionReset => *end = Some("rst"),
            Err(_) => *end = Some("err"),
        }
    };
    for a in acts {
        match a {
            Act::Write(b) => { if !write_failed && s.write_all(b).is_err() { write_failed = true; } }
            Act::Pause(ms) => std::thread::sleep(Duration::from_millis(*ms)),
            Act::ShutWr => { let _ = s.shutdown(Shutdown::Write); }
            Act::Await(n) => {
                while end.is_none() && t0.elapsed() < DEADLINE {
                    let (rs, tail) = parse_responses(&received, heads);
                    if rs.len() >= *n || matches!(tail, Tail::H2 | Tail::Junk(_)) { break; }
                    pump(&mut s, &mut received, &mut end);
                }
            }
        }
    }
    while end.is_none() && t0.elapsed() < DEADLINE { pump(&mut s, &mut received, &mut end); }
    // while the socket is still ours nobody else can own (and log under) its local port
    let log_to = LOG_LINES.lock().unwrap().len();
    drop(s);
    Ok(Exchange { received, end: end.unwrap_or("hang"), local_port, write_failed, log_from, log_to })
}

// ------------------------------------------------------------------ items, connections, cases

/// One thing the client puts on the connection: a request (well framed or not).
#[derive(Clone, Debug)]
struct Item {
    bytes: Vec<u8>,
    /// offset of the end of the head (= start of the body) inside `bytes`
    head_len: usize,
    is_head: bool,
    /// generator's reading: hyper rejects it by itself (4xx + close)
    bad: Option<u16>,
    /// generator's reading: the connection is over after the answer to this item
    closes: bool,
    /// generator-tagged status expectation (valid only when the item is reached)
    expect: Option<u16>,
    method_get: bool,
    /// the first Accept-Encoding value the item carries
    ae: Option<Vec<u8>>,
    kind: &'static str,
    /// CONNECT or an `Upgrade` header: hyper then ends the connection without shutting its sending side down first
    /// (a pending upgrade is never cleared), so responses still held back by Nagle are lost if the client is still sending
    upgradey: bool,
}

#[derive(Clone, Debug, PartialEq)]
enum Shape {
    /// everything in one write
    One,
    /// cut the stream at these offsets, pause between the pieces
    Split(Vec<usize>, u64),
    /// request i+1 only after response i has arrived
    Step,
    /// all bytes, then wait for `n` responses, then shut down the sending side
    HalfAfter(usize),
    /// all bytes, then shut down the sending side at once (outcome is timing dependent: see notes)
    HalfNow,
}

#[derive(Clone, Debug)]
struct Case { srv: usize, addr_ix: usize, items: Vec<Item>, shape: Shape, log: bool, kind: String }

impl Case {
    fn stream(&self) -> Vec<u8> { self.items.iter().flat_map(|i| i.bytes.iter().copied()).collect() }
    fn heads(&self) -> Vec<bool> { self.items.iter().map(|i| i.is_head).collect() }
    fn shape_txt(&self) -> String {
        let s = match &self.shape {
            Shape::One => "one".to_string(),
            Shape::Split(c, p) => format!("split:{}:{}", p, join(c.iter(), ",")),
            Shape::Step => "step".into(),
            Shape::HalfAfter(n) => format!("half-after:{n}"),
            Shape::HalfNow => "half-now".into(),
        };
        format!("{s};log{};a{}", self.log as u8, self.addr_ix)
    }
    fn meta_txt(&self) -> String {
        join(self.items.iter().map(|i| format!("{}.{}.{}{}{}{}.{}.{}", i.bytes.len(), i.head_len,
            if i.is_head { "H" } else { "" }, if i.closes { "C" } else { "" }, if i.method_get { "G" } else { "" }, "",
            i.bad.map(|c| format!("b{c}")).unwrap_or("-".into()), i.expect.map(|c| format!("e{c}")).unwrap_or("-".into()))), ",")
    }
    fn acts(&self) -> Vec<Act> {
        let stream = self.stream();
        match &self.shape {
            Shape::One => vec![Act::Write(stream)],
            Shape::Split(cuts, pause) => {
                let mut acts = vec![];
                let mut prev = 0;
                for &c in cuts.iter().chain(std::iter::once(&stream.len())) {
                    if c > prev && c <= stream.len() { acts.push(Act::Write(stream[prev..c].to_vec())); acts.push(Act::Pause(*pause)); prev = c; }
                }
                acts
            }
            Shape::Step => {
                let mut acts = vec![];
                for (i, it) in self.items.iter().enumerate() { acts.push(Act::Write(it.bytes.clone())); acts.push(Act::Await(i + 1)); }
                acts
            }
            Shape::HalfAfter(n) => vec![Act::Write(stream), Act::Await(*n), Act::ShutWr],
            Shape::HalfNow => vec![Act::Write(stream), Act::ShutWr],
        }
    }
}

fn parse_case(line: &str, srvs: &[Srv]) -> Option<Case> {
    let f: Vec<&str> = line.split('|').collect();
    if f.len() != 5 { return None; }
    let srv = srvs.iter().position(|s| s.desc == f[0])?;
    let stream = unhex(f[2])?;
    let mut sh = f[1].split(';');
    let s0 = sh.next()?;
    let log = sh.next()? == "log1";
    let addr_ix: usize = sh.next()?.strip_prefix('a')?.parse().ok()?;
    let shape = if s0 == "one" { Shape::One } else if s0 == "step" { Shape::Step } else if s0 == "half-now" { Shape::HalfNow }
        else if let Some(n) = s0.strip_prefix("half-after:") { Shape::HalfAfter(n.parse().ok()?) }
        else if let Some(r) = s0.strip_prefix("split:") { let (p, c) = r.split_once(':')?; Shape::Split(c.split(',').filter(|x| !x.is_empty()).filter_map(|x| x.parse().ok()).collect(), p.parse().ok()?) }
        else { return None };
    let mut items = vec![];
    let mut at = 0;
    for m in f[4].split(',') {
        let p: Vec<&str> = m.split('.').collect();
        if p.len() != 5 { return None; }
        let len: usize = p[0].parse().ok()?;
        let bytes = stream.get(at..at + len)?.to_vec();
        at += len;
        let ae = first_accept_encoding(&bytes[..p[1].parse::<usize>().ok()?.min(bytes.len())]);
        items.push(Item { bytes, head_len: p[1].parse().ok()?, is_head: p[2].contains('H'), closes: p[2].contains('C'), method_get: p[2].contains('G'),
            bad: p[3].strip_prefix('b').and_then(|c| c.parse().ok()), expect: p[4].strip_prefix('e').and_then(|c| c.parse().ok()), ae, kind: "replay", upgradey: false });
    }
    if at != stream.len() { return None; }
    Some(Case { srv, addr_ix: addr_ix.min(srvs[srv].addrs.len() - 1), items, shape, log, kind: "replay".into() })
}

/// The value of the first `Accept-Encoding` header line of a request head (client-side reading, for the oracle).
fn first_accept_encoding(head: &[u8]) -> Option<Vec<u8>> {
    for l in head.split(|b| *b == b'\n').skip(1) {
        let l = l.strip_suffix(b"\r").unwrap_or(l);
        if let Some(c) = l.iter().position(|b| *b == b':') {
            if l[..c].eq_ignore_ascii_case(b"accept-encoding") {
                let v = &l[c + 1..];
                let a = v.iter().position(|b| *b != b' ' && *b != 9).unwrap_or(v.len());
                let z = v.iter().rposition(|b| *b != b' ' && *b != 9).map(|i| i + 1).unwrap_or(a);
                return Some(v[a..z.max(a)].to_vec());
            }
        }
    }
    None
}

// ------------------------------------------------------------------ generator (request grammar of C12 + wire shapes)

fn pct(b: u8) -> Vec<u8> { format!("%{:02X}", b).into_bytes() }

#[derive(Clone, Debug)]
struct ReqSpec { method: String, target: Vec<u8>, version: &'static str, headers: Vec<(Vec<u8>, Vec<u8>)>, body: Vec<u8>, eol: &'static [u8], lead: Vec<u8>, kind: &'static str, expect: Option<u16> }

impl ReqSpec {
    fn get(target: &str) -> ReqSpec { ReqSpec { method: "GET".into(), target: target.as_bytes().to_vec(), version: "HTTP/1.1", headers: vec![(b"Host".to_vec(), b"localhost".to_vec())], body: vec![], eol: b"\r\n", lead: vec![], kind: "plain", expect: None } }
    fn hdr(mut self, n: &str, v: &[u8]) -> ReqSpec { self.headers.push((n.as_bytes().to_vec(), v.to_vec())); self }
    fn render(&self) -> (Vec<u8>, usize) {
        let mut b = self.lead.clone();
        b.extend_from_slice(self.method.as_bytes()); b.push(b' '); b.extend_from_slice(&self.target); b.push(b' '); b.extend_from_slice(self.version.as_bytes()); b.extend_from_slice(self.eol);
        for (n, v) in &self.headers { b.extend_from_slice(n); b.extend_from_slice(b": "); b.extend_from_slice(v); b.extend_from_slice(self.eol); }
        b.extend_from_slice(self.eol);
        let hl = b.len();
        b.extend_from_slice(&self.body);
        (b, hl)
    }
    /// hyper's keep-alive reading of the request (Server::parse): version default, then every Connection header in order
    fn keep_alive(&self) -> bool {
        let has = |v: &[u8], needle: &str| v.iter().all(|b| *b == 9 || (32..127).contains(b)) && std::str::from_utf8(v).map(|s| s.split(',').any(|t| t.trim().eq_ignore_ascii_case(needle))).unwrap_or(false);
        let mut ka = self.version == "HTTP/1.1";
        for (n, v) in &self.headers { if n.eq_ignore_ascii_case(b"connection") { ka = if ka { !has(v, "close") } else { has(v, "keep-alive") }; } }
        ka
    }
    fn item(&self) -> Item {
        let (bytes, head_len) = self.render();
        let ae = self.headers.iter().find(|(n, _)| n.eq_ignore_ascii_case(b"accept-encoding")).map(|(_, v)| { let t: &[u8] = v; let a = t.iter().position(|b| *b != 32 && *b != 9).unwrap_or(t.len()); let z = t.iter().rposition(|b| *b != 32 && *b != 9).map(|i| i + 1).unwrap_or(a); t[a..z.max(a)].to_vec() });
        // a chunked body is drained by at most two decode steps (one eager, one after the handler is done; only the
        // second one under `Expect: 100-continue`); every data chunk and the last chunk take one step each
        let expect = self.headers.iter().any(|(n, v)| n.eq_ignore_ascii_case(b"expect") && v.eq_ignore_ascii_case(b"100-continue"));
        let data_chunks = self.body.split(|b| *b == b'\n').step_by(2).filter(|l| !l.is_empty() && *l != b"0\r" && *l != b"\r").count();
        let chunked_open = self.headers.iter().any(|(n, _)| n.eq_ignore_ascii_case(b"transfer-encoding")) && data_chunks + 1 > if expect { 1 } else { 2 };
        let upgradey = self.method == "CONNECT" || self.headers.iter().any(|(n, _)| n.eq_ignore_ascii_case(b"upgrade"));
        Item { bytes, head_len, is_head: self.method == "HEAD", bad: None, closes: !self.keep_alive() || chunked_open, expect: self.expect, method_get: self.method == "GET", ae, kind: self.kind, upgradey }
    }
}

fn bad_item(bytes: Vec<u8>, code: u16, kind: &'static str) -> Item {
    let n = bytes.len();
    Item { bytes, head_len: n, is_head: false, bad: Some(code), closes: true, expect: None, method_get: false, ae: None, kind, upgradey: false }
}

struct Gen { rng: Rng }
impl Gen {
    fn maybe_pct(&mut self, s: &[u8], num: u64) -> Vec<u8> {
        let mut out = vec![];
        for &b in s { if self.rng.chance(num, 100) { out.extend(pct(b)); } else { out.push(b); } }
        out
    }
    fn junk_segment(&mut self) -> Vec<u8> {
        let n = self.rng.range(0, 12);
        let mut out = vec![];
        for _ in 0..n {
            match self.rng.below(8) {
                0 => out.extend(pct(self.rng.below(256) as u8)),
                1 => out.extend("€".bytes().flat_map(pct)),
                2 => out.extend("é".bytes().flat_map(pct)),
                3 => out.extend("😀".bytes().flat_map(pct)),
                4 => out.extend(pct(*self.rng.pick(&[0xE2u8, 0xF0, 0xC3, 0x80, 0xBF, 0xED, 0xA0]))),
                5 => out.push(*self.rng.pick(b"%/:+.-_~!$&'()*,;=@")),
                _ => out.push(*self.rng.pick(b"abcdefghijklmnopqrstuvwxyzABCXYZ0123456789")),
            }
        }
        out
    }
    fn prefix_str(&mut self) -> (String, Option<u16>) {
        match self.rng.below(12) {
            0 => (format!("{}.{}.{}.0/24", self.rng.below(256), self.rng.below(256), self.rng.below(256)), Some(200)),
            1 => (format!("{}.0.0.0/8", self.rng.below(224)), Some(200)),
            2 => (format!("{}.{}.{}.{}/32", self.rng.below(256), self.rng.below(256), self.rng.below(256), self.rng.below(256)), Some(200)),
            3 => ("2001:db8::/32".into(), Some(200)),
            4 => (format!("2804:{:x}:100::/48", self.rng.below(65536)), Some(200)),
            5 => ("1.2.3.4/24".into(), Some(400)),
            6 => (format!("10.0.0.0/{}", self.rng.range(33, 300)), Some(400)),
            7 => ("not_a_valid_prefix".into(), Some(400)),
            8 => ("::/0".into(), Some(200)),
            9 => ("0.0.0.0/0".into(), Some(200)),
            10 => ("2001:db8::1/64".into(), Some(400)),
            _ => (format!("{}.{}.0.0/16", self.rng.below(256), self.rng.below(256)), Some(200)),
        }
    }
    fn rib_query(&mut self) -> (Option<Vec<u8>>, bool) {
        if self.rng.chance(35, 100) { return (None, true); }
        let mut parts: Vec<String> = vec![];
        let mut good = true;
        for _ in 0..self.rng.range(1, 4) {
            let (p, ok): (&str, bool) = *self.rng.pick(&[
                ("include=lessSpecifics", true), ("include=moreSpecifics", false), ("include=lessSpecifics,moreSpecifics", false),
                ("include=", false), ("include=bogus", false), ("details=communities", true), ("details=x", false),
                ("select[as_path]=AS1,AS2", true), ("select[as_path]=1,x", false), ("select[peer_as]=65000", true), ("select[peer_as]=", false),
                ("discard[community]=BLACKHOLE", true), ("discard[community]=65000:1", true), ("select[community]=zzz", false),
                ("select=1", false), ("select[nope]=1", false), ("filter_op=any", true), ("filter_op=all", true), ("filter_op=some", false),
                ("sort=/a/b", true), ("format=dump", true), ("format=json", false), ("unknown=1", false), ("include[x]=lessSpecifics", true),
                ("select%5Bas_path%5D=1", true), ("include=less%53pecifics", true), ("a+b=c+d", false), ("=", false), ("&", true), ("format", false),
                ("select[as_path]=4294967296", false), ("select[as_path", false), ("details=communities,communities", true),
                ("select[peer_as]=a%C3%A9", false), ("select[as_path]=1,a%C3%A9", false), ("discard[peer_as]=%E2%82%AC1", false),
            ]);
            good &= ok;
            parts.push(p.to_string());
        }
        let names: Vec<&str> = parts.iter().map(|p| p.split(['=', '[', '%']).next().unwrap()).collect();
        for n in ["include", "details", "filter_op", "sort", "format"] { if names.iter().filter(|x| **x == n).count() > 1 { good = false; } }
        (Some(parts.join("&").into_bytes()), good)
    }
    /// every Accept-Encoding shape C12 knows, plus weighted / wildcard / odd-case codings
    fn accept_encoding(&mut self) -> Option<Vec<u8>> {
        match self.rng.below(34) {
            0..=7 => None,
            8..=10 => Some(b"gzip".to_vec()),
            11 => Some(b"gzip, deflate, br".to_vec()),
            12 => Some(b"identity".to_vec()),
            13 => Some(b"deflate,\tgzip".to_vec()),
            14 => Some(b"GZIP".to_vec()),
            15 => Some(b"br;q=1.0, gzip;q=0.8".to_vec()),
            16 => Some(vec![0xff, b'g']),
            17 => { let mut v = b"gzip".to_vec(); v.insert(self.rng.below(5) as usize, self.rng.range(128, 255) as u8); Some(v) }
            18 => Some(b"".to_vec()),
            19 => Some("gzip, ünicode".as_bytes().to_vec()),
            20 => { let n = self.rng.range(1, 10); Some((0..n).map(|_| { let b = self.rng.range(32, 255) as u8; if b == 127 { 9 } else { b } }).collect()) }
            21 => Some(b"xgzipx".to_vec()),
            22 => Some(b"gzip;q=0".to_vec()),
            23 => Some(b"*;q=0".to_vec()),
            24 => Some(b"gzip; q=0.0, identity".to_vec()),
            25 => Some(b"*".to_vec()),
            26 => Some(b"identity;q=1, *;q=0".to_vec()),
            27 => Some(b"gzip;q=0.001".to_vec()),
            28 => Some(b"deflate, gzip;q=1.0, *;q=0.5".to_vec()),
            29 => Some(b"GZip;Q=0".to_vec()),
            30 => Some(b"x-gzip".to_vec()),
            31 => Some(b"gzip;q=0.000".to_vec()),
            32 => Some(b"br, zstd".to_vec()),
            _ => Some(b"gzip ; q=1".to_vec()),
        }
    }
    /// C12's request classes against the live registry (T, G, /routers/, /mrt/mrt-in/ without update path, /prefixes/)
    fn request(&mut self) -> ReqSpec {
        let method = if self.rng.chance(86, 100) { "GET".to_string() } else { self.rng.pick(&["POST", "HEAD", "PUT", "DELETE", "OPTIONS", "PATCH", "TRACE", "CONNECT", "FOO", "get", "G-E.T", "M!"]).to_string() };
        let mut query: Option<Vec<u8>> = None;
        let mut expect = None;
        let kind: &'static str;
        let rib = "/prefixes/";
        let path: Vec<u8> = match self.rng.below(100) {
            0..=11 => { kind = "fixed"; expect = Some(200); self.rng.pick(&["/metrics", "/status", "/status/traces", "/status/graph"]).as_bytes().to_vec() }
            12..=15 => { kind = "fixed-encoded"; let p = self.rng.pick(&["/metrics", "/status", "/status/traces"]).as_bytes().to_vec(); let mut e = self.maybe_pct(&p[1..], 25); e.insert(0, b'/'); expect = Some(200); e }
            16..=19 => { kind = "fixed-near"; let mut p = self.rng.pick(&["/metrics", "/status", "/status/traces", "/Status", "/metrics/"]).as_bytes().to_vec(); p.extend(self.junk_segment()); p }
            20..=25 => { kind = "graph-traces"; expect = Some(200); format!("/status/graph/traces/{}", self.rng.pick(&["0", "7", "255", "256", "abc", "", "+1", "-1"])).into_bytes() }
            26..=31 => { kind = "graph-junk"; let mut p = b"/status/graph".to_vec(); p.extend(self.junk_segment()); if self.rng.chance(70, 100) { p.extend(b"/traces/"); p.extend(self.junk_segment()); } p }
            32..=53 => {
                kind = "rib-prefix";
                let (pfx, exp) = self.prefix_str();
                let (q, good) = self.rib_query();
                query = q;
                let enc = if self.rng.chance(30, 100) { self.maybe_pct(pfx.as_bytes(), 20) } else { pfx.clone().into_bytes() };
                let slash_kept = enc.iter().filter(|b| **b == b'/').count() == pfx.bytes().filter(|b| *b == b'/').count();
                let segs = rib.matches('/').count() + pfx.matches('/').count() + 1;
                if slash_kept && segs != 3 { expect = if exp == Some(200) && !good { None } else { exp }; }
                let mut p = rib.as_bytes().to_vec(); p.extend(enc); p
            }
            54..=61 => {
                kind = "rib-ingress";
                let id = self.rng.pick(&["0", "1", "42", "4294967295", "4294967296", "+7", "-1", "abc", "", "1.2.3.4", "００７"]).to_string();
                let mut p = rib.as_bytes().to_vec(); p.extend(self.maybe_pct(id.as_bytes(), if id.is_ascii() { 10 } else { 100 })); p
            }
            62..=66 => { kind = "rib-junk"; let mut p = rib.as_bytes().to_vec(); p.extend(self.junk_segment()); if self.rng.chance(50, 100) { p.push(b'/'); p.extend(self.junk_segment()); } query = self.rib_query().0; p }
            67..=74 => {
                kind = "mrt";
                let file = self.rng.pick(&["a.mrt", "sub/b.mrt", "missing.mrt", "../outside.mrt", "/etc/passwd", "", "a.mrt%00"]).to_string();
                query = match self.rng.below(6) { 0 => None, 1 => Some(format!("file[x]={file}")), 2 => Some(format!("x=1&file={file}")), _ => Some(format!("file={file}")) }.map(|s| s.into_bytes());
                let action = self.rng.pick(&["queue", "queue/", "queued", "que", "", "Queue", "queue%2F"]).to_string();
                if action.starts_with("queue") { expect = Some(400); }
                let mut p = b"/mrt/mrt-in/".to_vec(); p.extend(action.bytes()); p
            }
            75..=80 => {
                kind = "router-list";
                let sb = self.rng.pick(&["addr", "sys_name", "sys_desc", "state", "peers_up", "invalid_messages", "bogus", "", "Addr"]).to_string();
                let so = self.rng.pick(&["asc", "desc", "up", ""]).to_string();
                query = match self.rng.below(6) { 0 => None, 1 => Some(format!("sort_by={sb}")), 2 => Some(format!("sort_order={so}")), 3 => Some(format!("sort_by[x]={sb}&sort_order={so}&other=1")), _ => Some(format!("sort_by={sb}&sort_order={so}")) }.map(|s| s.into_bytes());
                self.rng.pick(&["/routers/", "/routers", "/routers/1", "/Routers/", "/routers/%2F"]).as_bytes().to_vec()
            }
            81..=88 => { kind = "unknown"; expect = None; let mut p = b"/".to_vec(); p.extend(self.junk_segment()); if self.rng.chance(40, 100) { p.push(b'/'); p.extend(self.junk_segment()); } p }
            89..=91 => { kind = "overlong"; let n = self.rng.range(2000, 20000) as usize; let mut p = self.rng.pick(&["/", "/status/graph", "/prefixes/", "/status"]).as_bytes().to_vec(); let unit = self.rng.pick(&["a", "%E2%82%AC", "/", "%FF", "/traces/"]).as_bytes().to_vec(); while p.len() < n { p.extend(&unit); } p }
            92..=95 => { kind = "other-form"; self.rng.pick(&["*", "http://example.net/status", "http://example.net/prefixes/1.2.3.0/24", "example.net:80", "/status#frag", "//status", "/./status", "/status/../metrics", "https://h:8443/metrics?x=1", "http://example.net", "HTTP://Example.NET/status"]).as_bytes().to_vec() }
            _ => { kind = "legal-odd-bytes"; let n = self.rng.range(1, 10); let mut p = b"/".to_vec(); for _ in 0..n { p.push(*self.rng.pick(b"\"{}|^_[]\\@!$&'()*+,;=:~-.")); } p }
        };
        if query.is_none() && kind != "other-form" && self.rng.chance(8, 100) { query = Some(self.junk_segment()); if kind == "rib-prefix" { expect = None; } }
        if method != "GET" { expect = Some(405); }
        let mut target = path;
        if let Some(q) = &query { target.push(b'?'); target.extend_from_slice(q); }
        let mut r = ReqSpec::get("/");
        r.method = method; r.target = target; r.kind = kind; r.expect = expect;
        r.headers.clear();
        r
    }
    /// dress a request: version, Host, Connection, Accept-Encoding (name casing, repetition), filler headers, line ends, body
    fn dress(&mut self, mut r: ReqSpec, allow_close: bool) -> ReqSpec {
        if self.rng.chance(8, 100) { r.version = "HTTP/1.0"; }
        if !self.rng.chance(1, 12) { r.headers.push((self.rng.pick(&["Host", "host", "HOST"]).as_bytes().to_vec(), self.rng.pick(&["localhost", "127.0.0.1:8080", "example.net", ""]).as_bytes().to_vec())); }
        if self.rng.chance(1, 3) { r.headers.push((b"User-Agent".to_vec(), b"curl/8.5.0".to_vec())); }
        if self.rng.chance(1, 3) { r.headers.push((b"Accept".to_vec(), b"*/*".to_vec())); }
        if let Some(ae) = self.accept_encoding() {
            let name = *self.rng.pick(&["Accept-Encoding", "Accept-Encoding", "accept-encoding", "ACCEPT-ENCODING", "aCCept-eNCoding"]);
            r.headers.push((name.as_bytes().to_vec(), ae));
            if self.rng.chance(6, 100) { r.headers.push((b"Accept-Encoding".to_vec(), self.rng.pick(&["gzip", "identity", "gzip;q=0"]).as_bytes().to_vec())); }
        }
        if self.rng.chance(1, 6) { let n = self.rng.range(1, 20); let v: Vec<u8> = (0..n).map(|_| { let b = self.rng.range(32, 255) as u8; if b == 127 { 9 } else { b } }).collect(); r.headers.push((b"X-Filler".to_vec(), v)); }
        // Connection header: keep the connection unless the caller lets this request end it
        let conn: Option<&str> = match self.rng.below(if allow_close { 14 } else { 8 }) {
            0..=4 => None, 5 => Some("keep-alive"), 6 => Some("Keep-Alive, TE"), 7 => Some("upgrade"),
            8 | 9 => Some("close"), 10 => Some("CLOSE"), 11 => Some("keep-alive, close"), 12 => Some("x, close ,y"), _ => Some("Close"),
        };
        if r.version == "HTTP/1.0" && !allow_close { r.headers.push((b"Connection".to_vec(), b"keep-alive".to_vec())); }
        else if let Some(c) = conn { r.headers.push((self.rng.pick(&["Connection", "connection"]).as_bytes().to_vec(), c.as_bytes().to_vec())); }
        if allow_close && self.rng.chance(2, 100) { r.headers.push((b"Connection".to_vec(), b"close".to_vec())); r.headers.push((b"Connection".to_vec(), b"keep-alive".to_vec())); }
        if self.rng.chance(3, 100) { r.eol = b"\n"; }
        if self.rng.chance(3, 100) { r.lead = self.rng.pick(&[&b"\r\n"[..], b"\r\n\r\n", b"\n"]).to_vec(); }
        // a body (the handlers never read it)
        if self.rng.chance(7, 100) {
            match self.rng.below(if r.version == "HTTP/1.1" { 6 } else { 3 }) {
                0 => r.headers.push((b"Content-Length".to_vec(), b"0".to_vec())),
                1 | 2 => { let n = self.rng.range(1, 300) as usize; r.body = (0..n).map(|i| b"{\"a\":1, \"b\":[2,3]}\r\n\r\nGET /x HTTP/1.1\r\n"[i % 38]).collect(); r.headers.push((self.rng.pick(&["Content-Length", "content-length"]).as_bytes().to_vec(), n.to_string().into_bytes())); if self.rng.chance(1, 4) { r.headers.push((b"Content-Length".to_vec(), n.to_string().into_bytes())); } }
                3 => { r.headers.push((b"Transfer-Encoding".to_vec(), self.rng.pick(&["chunked", "Chunked", "gzip, chunked"]).as_bytes().to_vec())); r.body = b"0\r\n\r\n".to_vec(); }
                4 => { r.headers.push((b"Transfer-Encoding".to_vec(), b"chunked".to_vec())); r.body = self.rng.pick(&[&b"5\r\nhello\r\n0\r\n\r\n"[..], b"5\r\nhello\r\n1\r\n!\r\n0\r\n\r\n", b"A\r\n0123456789\r\n0\r\n\r\n"]).to_vec(); }
                _ => { let n = self.rng.range(1, 40) as usize; r.body = vec![b'z'; n]; r.headers.push((b"Content-Length".to_vec(), n.to_string().into_bytes())); r.headers.push((b"Expect".to_vec(), b"100-continue".to_vec())); }
            }
        }
        r
    }
    /// requests hyper refuses by itself; `(bytes, status hyper answers)`
    fn malformed(&mut self) -> Item {
        let host = "Host: x\r\n";
        let t: (Vec<u8>, u16, &'static str) = match self.rng.below(40) {
            0 => (b"G{T / HTTP/1.1\r\nHost: x\r\n\r\n".to_vec(), 400, "bad.method-char"),
            1 => (vec![0, 1, 2, 3, 13, 10, 13, 10], 400, "bad.binary"),
            2 => (b"<html>\r\n\r\n".to_vec(), 400, "bad.html"),
            3 => (b" GET / HTTP/1.1\r\n\r\n".to_vec(), 400, "bad.leading-space"),
            4 => (b"GET  / HTTP/1.1\r\nHost: x\r\n\r\n".to_vec(), 400, "bad.two-spaces"),
            5 => (b"GET / HTTP/2.0\r\nHost: x\r\n\r\n".to_vec(), 400, "bad.version-2.0"),
            6 => (b"GET / HTTP/1.2\r\nHost: x\r\n\r\n".to_vec(), 400, "bad.version-1.2"),
            7 => (b"GET / http/1.1\r\nHost: x\r\n\r\n".to_vec(), 400, "bad.version-lowercase"),
            8 => (b"GET /\r\n\r\n".to_vec(), 400, "bad.no-version"),
            9 => (b"GET / HTTP/1.1 \r\nHost: x\r\n\r\n".to_vec(), 400, "bad.space-after-version"),
            10 => ("GET /é HTTP/1.1\r\nHost: x\r\n\r\n".as_bytes().to_vec(), 400, "bad.target-raw-utf8"),
            11 => (b"GET /\xff\xfe HTTP/1.1\r\nHost: x\r\n\r\n".to_vec(), 400, "bad.target-invalid-utf8"),
            12 => (format!("GET /a{}b HTTP/1.1\r\n{host}\r\n", self.rng.pick(&["<", ">", "`"])).into_bytes(), 400, "bad.target-char"),
            13 => (b"GET /a?x=\"1\" HTTP/1.1\r\nHost: x\r\n\r\n".to_vec(), 400, "bad.query-char"),
            14 => (b"GET /a\x01b HTTP/1.1\r\nHost: x\r\n\r\n".to_vec(), 400, "bad.target-ctl"),
            15 => (b"GET / HTTP/1.1\r\nHost x\r\n\r\n".to_vec(), 400, "bad.header-no-colon"),
            16 => (b"GET / HTTP/1.1\r\nHost : x\r\n\r\n".to_vec(), 400, "bad.header-space-before-colon"),
            17 => (b"GET / HTTP/1.1\r\nHost: x\r\nX: a\x00b\r\n\r\n".to_vec(), 400, "bad.header-value-nul"),
            18 => (b"GET / HTTP/1.1\r\nHost: x\r\nX: a\x7fb\r\n\r\n".to_vec(), 400, "bad.header-value-del"),
            19 => (b"GET / HTTP/1.1\r\nHost: x\r\nX: a\rb\r\n\r\n".to_vec(), 400, "bad.header-value-bare-cr"),
            20 => (b"GET / HTTP/1.1\r\nHost: x\r\n folded\r\n\r\n".to_vec(), 400, "bad.obs-fold"),
            21 => (b"GET / HTTP/1.1\r\n: v\r\n\r\n".to_vec(), 400, "bad.empty-header-name"),
            22 => { let mut b = b"GET / HTTP/1.1\r\n".to_vec(); for i in 0..101 { b.extend(format!("X-{i}: v\r\n").bytes()); } b.extend(b"\r\n"); (b, 431, "bad.101-headers") }
            23 => (format!("GET / HTTP/1.1\r\n{host}Content-Length: {}\r\n\r\n", self.rng.pick(&["abc", "-1", "+1", "1, 2", "", "1 2", "0x10", "99999999999999999999999"])).into_bytes(), 400, "bad.content-length"),
            24 => (b"GET / HTTP/1.1\r\nContent-Length: 3\r\nContent-Length: 4\r\n\r\nabcd".to_vec(), 400, "bad.content-length-differ"),
            25 => (format!("GET / HTTP/1.1\r\n{host}Content-Length: {}\r\n\r\n", self.rng.pick(&["18446744073709551615", "18446744073709551614"])).into_bytes(), 431, "bad.content-length-max"),
            26 => (b"GET / HTTP/1.0\r\nTransfer-Encoding: chunked\r\n\r\n0\r\n\r\n".to_vec(), 400, "bad.te-on-1.0"),
            27 => (format!("GET / HTTP/1.1\r\n{host}Transfer-Encoding: {}\r\n\r\n", self.rng.pick(&["gzip", "chunked, gzip", "identity", ""])).into_bytes(), 400, "bad.te-not-chunked"),
            28 => (b"GET / HTTP/1.1\r\nTransfer-Encoding: chunked\r\nTransfer-Encoding: gzip\r\n\r\n".to_vec(), 400, "bad.te-last-not-chunked"),
            29 => { let n = 65535 + self.rng.below(3) as usize; let mut b = b"GET /".to_vec(); b.extend(std::iter::repeat(b'a').take(n - 1)); b.extend(b" HTTP/1.1\r\nHost: x\r\n\r\n"); (b, 414, "bad.uri-too-long") }
            30 => (b"GET / HTTP/1.1\r\nHost: x\r\nContent-Length: 1\r\nContent-Length: 1, 1\r\n\r\nx".to_vec(), 400, "bad.content-length-list"),
            31 => (b"G#T / HTTP/1.1\r\nHost: x\r\n\r\n".to_vec(), 400, "bad.method-char-http-crate"),
            32 => (b"GET / HTTP/1.1\nHost: x\r\rX: y\r\n\r\n".to_vec(), 400, "bad.cr-without-lf"),
            // every malformed head is followed by an empty line: hyper only re-parses a head that arrived in pieces once
            // it sees the end-of-head marker (`is_complete_fast`), so without one the verdict would depend on segmentation
            33 => (b"GET / HTTP/1.1\r\nHost: x\r\n\rX\r\n\r\n".to_vec(), 400, "bad.cr-x-at-end"),
            34 => (b"\r\rGET / HTTP/1.1\r\n\r\n".to_vec(), 400, "bad.leading-cr-cr"),
            35 => (b"GET http://exa mple/ HTTP/1.1\r\n\r\n".to_vec(), 400, "bad.space-in-target"),
            36 => (b"GET / HTTP/1.1\r\nHost: x\r\nX y: z\r\n\r\n".to_vec(), 400, "bad.space-in-header-name"),
            37 => (b"GET / HTTP/1.1\r\nHost: x\r\n\tX: z\r\n\r\n".to_vec(), 400, "bad.tab-before-header"),
            38 => (b"GET / HTTP/11\r\n\r\n".to_vec(), 400, "bad.version-short"),
            _ => { let n = self.rng.range(1, 40); let mut b: Vec<u8> = (0..n).map(|_| self.rng.below(256) as u8).collect(); b[0] = *self.rng.pick(&[0u8, 0x16, b'{', b'<', 0xff, b'(', 0x80, 0x7f, b'"', b'@']); b.extend(b"\r\n\r\n"); (b, 400, "bad.random-bytes") }
        };
        bad_item(t.0, t.1, t.2)
    }
}

// ------------------------------------------------------------------ dependencies of the model (as in C12)

fn target_of(item: &[u8]) -> Option<Vec<u8>> {
    let s = &item[item.iter().position(|b| *b != b'\r' && *b != b'\n')?..];
    let line = &s[..s.iter().position(|b| *b == b'\n').unwrap_or(s.len())];
    let mut p = line.split(|b| *b == b' ');
    p.next()?;
    p.next().map(|t| t.to_vec())
}

fn deps_into(d: &mut BTreeMap<String, String>, target: &[u8]) {
    use rotonda::verif::http::PercentDecodedPath;
    let Ok(uri) = hyper::Uri::from_maybe_shared(bytes::Bytes::from(target.to_vec())) else { return };
    let dec = uri.decoded_path().into_owned();
    if let Some(suffix) = dec.strip_prefix("/prefixes/") {
        let v = match std::panic::catch_unwind(|| inetnum::addr::Prefix::from_str(suffix)) {
            Ok(Ok(p)) => format!("{}.{}", if p.is_v4() { 4 } else { 6 }, p.len()),
            _ => "e".into(),
        };
        d.insert(format!("p:{}", hex(suffix.as_bytes())), v);
    }
    let Ok(req) = hyper::Request::builder().uri(uri).body(hyper::Body::empty()) else { return };
    for p in rotonda::http::extract_params(&req).iter().take(12) {
        let v = p.value();
        let filterish = matches!(p.name().split(&['[', ']'][..]).next(), Some("select") | Some("discard"));
        let mut pieces: Vec<&str> = if filterish { v.split(',').collect() } else if v.len() <= 64 { v.split(',').take(8).collect() } else { vec![] };
        if filterish || v.len() <= 64 { pieces.push(v); }
        for piece in pieces {
            let tri = |r: std::thread::Result<bool>| match r { Ok(true) => "1", Ok(false) => "0", Err(_) => "p" }.to_string();
            let a = tri(std::panic::catch_unwind(|| inetnum::asn::Asn::from_str(piece).is_ok()));
            let c = tri(std::panic::catch_unwind(|| routecore::bgp::communities::HumanReadableCommunity::from_str(piece).is_ok()));
            d.insert(format!("a:{}", hex(piece.as_bytes())), a);
            d.insert(format!("c:{}", hex(piece.as_bytes())), c);
        }
        if p.name() == "file" { d.insert(format!("f:{}", hex(v.as_bytes())), "m".into()); }
    }
}

// ------------------------------------------------------------------ the property, judged on the wire (no Lean)

fn gunzip(b: &[u8]) -> Option<Vec<u8>> {
    let mut out = vec![];
    flate2::read::GzDecoder::new(b).read_to_end(&mut out).ok()?;
    Some(out)
}

/// RFC 9110 §12.5.3: does this Accept-Encoding field value make `gzip` acceptable? `Err(why)` = it does not,
/// with the reason class (used in the failure signature). A value that is not visible ASCII lists nothing we can read.
fn rfc_accepts_gzip(v: &[u8]) -> Result<(), &'static str> {
    if !v.iter().all(|b| *b == 9 || (32..127).contains(b)) { return Err("unreadable"); }
    let s = std::str::from_utf8(v).unwrap();
    let weight = |params: Option<&str>| -> Option<bool> {
        // Some(true) = q > 0 (or no weight), Some(false) = q = 0, None = not a weight we can read
        let Some(p) = params else { return Some(true) };
        let p = p.trim();
        let (k, q) = p.split_once('=')?;
        if !k.trim().eq_ignore_ascii_case("q") { return None; }
        let q = q.trim();
        let mut it = q.chars();
        let first = it.next()?;
        let rest: String = it.collect();
        if !(first == '0' || first == '1') { return None; }
        if !rest.is_empty() && !(rest.starts_with('.') && rest.len() <= 4 && rest[1..].chars().all(|c| c.is_ascii_digit())) { return None; }
        Some(first == '1' || rest.chars().any(|c| ('1'..='9').contains(&c)))
    };
    let mut star: Option<bool> = None;
    let mut explicit: Option<bool> = None;
    for el in s.split(',') {
        let el = el.trim();
        if el.is_empty() { continue; }
        let (coding, params) = match el.split_once(';') { Some((c, p)) => (c.trim(), Some(p)), None => (el, None) };
        if coding.eq_ignore_ascii_case("gzip") { let w = weight(params).unwrap_or(false); explicit = Some(explicit.unwrap_or(false) || w); }
        else if coding == "*" { star = Some(weight(params).unwrap_or(false)); }
    }
    match (explicit, star) {
        (Some(true), _) => Ok(()),
        (Some(false), _) => Err("weight-zero"),
        (None, Some(true)) => Ok(()),
        (None, Some(false)) => Err("not-listed"),
        (None, None) => Err(if s.to_ascii_lowercase().contains("gzip") { "substring-of-other-token" } else { "not-listed" }),
    }
}

#[derive(Default)]
struct Judged { imp: String, fails: Vec<String>, n_resp: usize, n_handler: usize, gz: usize, info: String }

fn judge(case: &Case, srv: &Srv, ex: &Exchange, log_lines: &[String]) -> Judged {
    let mut j = Judged::default();
    let heads = case.heads();
    let (resps, tail) = parse_responses(&ex.received, &heads);
    j.n_resp = resps.len();
    // what the generator (the client) expects: one response per item up to and including the first one that ends the connection
    let upto = case.items.iter().position(|i| i.bad.is_some() || i.closes).map(|p| p + 1).unwrap_or(case.items.len());
    let expected_n = case.items[..upto].iter().filter(|i| i.bad != Some(0)).count();
    let mut toks = vec![];
    for (i, r) in resps.iter().enumerate() {
        let item = case.items.get(i);
        let gz = r.get("content-encoding").iter().any(|v| v.as_slice() == b"gzip");
        let plain = if gz { gunzip(&r.body) } else { Some(r.body.clone()) };
        let conn = r.get("connection");
        let ctok = if conn.is_empty() { "-" } else if conn.iter().any(|v| v.eq_ignore_ascii_case(b"keep-alive")) { "k" } else if conn.iter().any(|v| v.eq_ignore_ascii_case(b"close")) { "c" } else { "o" };
        let btok = if r.framing == "head" { "h" } else if r.status == 400 { if plain.as_ref().map(|p| !p.is_empty()).unwrap_or(false) { "r1" } else { "r0" } } else { "-" };
        toks.push(format!("{}/{}/g{}/{}/{}", if r.v11 { 11 } else { 10 }, r.status, gz as u8, ctok, btok));
        // -- every response is well formed
        for d in &r.defects { j.fails.push(format!("httpserver:response:malformed:{d} response {i}")); }
        if r.framing == "eof" { j.fails.push(format!("httpserver:response:no-length response {i} has neither Content-Length nor chunked framing")); }
        if r.get("date").len() != 1 { j.fails.push(format!("httpserver:response:date-header response {i}")); }
        if gz && plain.is_none() && r.framing != "head" { j.fails.push(format!("httpserver:gzip:body-does-not-decode response {i}")); }
        let Some(item) = item else { continue };
        let by_hyper = item.bad.is_some();
        if by_hyper {
            if Some(r.status) != item.bad { j.fails.push(format!("httpserver:malformed:answered-{} expected {} for {}", r.status, item.bad.unwrap(), item.kind)); }
            continue;
        }
        j.n_handler += 1;
        if gz { j.gz += 1; }
        // -- the status classes of the property
        if ![200u16, 400, 404, 405].contains(&r.status) { j.fails.push(format!("httpserver:status:unexpected-{} response {i}", r.status)); }
        if !item.method_get && r.status != 405 { j.fails.push(format!("httpserver:status:non-get-not-405 answered {}", r.status)); }
        if item.method_get && r.status == 405 { j.fails.push("httpserver:status:get-answered-405".into()); }
        if r.status == 400 && btok == "r0" { j.fails.push("httpserver:status:bad-request-without-reason".into()); }
        if let Some(e) = item.expect { if r.status != e { j.fails.push(format!("httpserver:pipeline:status-expected-{e}-got-{} item {i} of {} ({}): responses out of order or wrong", r.status, case.items.len(), item.kind)); } }
        if item.is_head && !r.body.is_empty() { j.fails.push("httpserver:response:body-after-head".into()); }
        // -- gzip only when the client accepts it (RFC 9110 12.5.3), and when it clearly does and compression is on
        if gz {
            if !srv.compress { j.fails.push("httpserver:gzip:while-compression-off".into()); }
            match &item.ae {
                None => j.fails.push("httpserver:gzip:not-accepted:no-header".into()),
                Some(v) => if let Err(why) = rfc_accepts_gzip(v) { j.fails.push(format!("httpserver:gzip:not-accepted:{why} Accept-Encoding: {} answered with Content-Encoding: gzip", String::from_utf8_lossy(v).replace(|c: char| c.is_control(), "?"))); }
            }
        } else if srv.compress && item.method_get && item.ae.as_deref() == Some(b"gzip") { j.fails.push("httpserver:gzip:missing client sent Accept-Encoding: gzip, compression on".into()); }
    }
    let end = match (&tail, ex.end) { (Tail::H2, _) => "h2".to_string(), (Tail::Junk(n), _) => format!("junk{n}"), (Tail::Truncated(_), _) => "truncated".into(), (_, "hang") => "hang".into(), (_, "err") => "ioerr".into(), _ => "closed".into() };
    toks.push(format!("end:{end}"));
    match end.as_str() {
        "hang" => j.fails.push("httpserver:conn:hang the server neither answered nor closed within the deadline".into()),
        "truncated" => j.fails.push("httpserver:response:truncated the connection ended inside a response".into()),
        "ioerr" => j.fails.push("httpserver:conn:io-error".into()),
        e if e.starts_with("junk") => j.fails.push("httpserver:response:not-http bytes that are no HTTP/1.x response".into()),
        _ => {}
    }
    let h2_case = case.items.iter().any(|i| i.kind == "h2-preface");
    if case.shape == Shape::HalfNow {
        if resps.len() > expected_n { j.fails.push(format!("httpserver:pipeline:response-count expected at most {expected_n} got {}", resps.len())); }
        j.info = format!("answered {} of {}", resps.len(), expected_n);
        j.imp = format!("race ## {}", toks.join(" "));
    } else {
        if !h2_case && resps.len() != expected_n { j.fails.push(format!("httpserver:pipeline:response-count {} well-framed requests before the connection ends, {} responses", expected_n, resps.len())); }
        j.imp = toks.join(" ");
    }
    // -- access log: one line per request that reached the handler, in order, with the status sent
    if case.log {
        let me = format!("127.0.0.{}:{} - - ", SRC_IP.with(|c| c.get()), ex.local_port);
        let mine: Vec<&String> = log_lines.iter().filter(|l| l.starts_with("TRACE ") && l[6..].starts_with(&me)).collect();
        let sent: Vec<u16> = resps.iter().enumerate().filter(|(i, _)| case.items.get(*i).map(|it| it.bad.is_none()).unwrap_or(false)).map(|(_, r)| r.status).collect();
        let logged: Vec<u16> = mine.iter().filter_map(|l| { let mut w = l.rsplit(' '); w.next()?; w.next()?.parse().ok() }).collect();
        // a response may be lost to a client that shut down early, but never the other way round
        let ok = if case.shape == Shape::HalfNow { logged.len() >= sent.len() && logged[..sent.len()] == sent[..] } else { logged == sent };
        if !ok { j.fails.push(format!("httpserver:accesslog:mismatch statuses sent {:?} logged {:?}", sent, logged)); }
        for l in &mine { if !(l.contains(" HTTP/1.1 ") || l.contains(" HTTP/1.0 ")) { j.fails.push("httpserver:accesslog:line-format".into()); } }
    }
    j
}

/// A fresh connection must still be accepted and answered.
fn probe(addr: SocketAddr) -> Result<(), String> {
    let ex = exchange(addr, &[Act::Write(b"GET /status HTTP/1.1\r\nHost: probe\r\nConnection: close\r\n\r\n".to_vec())], &[false])?;
    let (rs, _) = parse_responses(&ex.received, &[false]);
    match rs.first() { Some(r) if r.status == 200 && !r.body.is_empty() => Ok(()), Some(r) => Err(format!("status {}", r.status)), None => Err(format!("no response ({})", ex.end)) }
}

/// A long-lived keep-alive connection next to the cases: it must go on being served.
struct Control { s: Option<TcpStream>, addr: SocketAddr }
impl Control {
    fn new(addr: SocketAddr) -> Control { Control { s: None, addr } }
    fn ping(&mut self) -> Result<(), String> {
        let fresh = self.s.is_none();
        if fresh { let s = connect_from_here(self.addr)?; let _ = s.set_nodelay(true); let _ = s.set_read_timeout(Some(Duration::from_secs(30))); self.s = Some(s); }
        let s = self.s.as_mut().unwrap();
        let r: Result<(), String> = (|| {
            s.write_all(b"GET /metrics HTTP/1.1\r\nHost: control\r\n\r\n").map_err(|e| format!("write: {e}"))?;
            let mut buf = vec![];
            let mut tmp = [0u8; 16384];
            loop {
                let (rs, _) = parse_responses(&buf, &[false]);
                if let Some(r) = rs.first() { return if r.status == 200 { Ok(()) } else { Err(format!("status {}", r.status)) }; }
                match s.read(&mut tmp) { Ok(0) => return Err("closed".into()), Ok(n) => buf.extend_from_slice(&tmp[..n]), Err(e) => return Err(format!("read: {e}")) }
            }
        })();
        if r.is_err() { self.s = None; if fresh { return r.map_err(|e| format!("fresh control connection: {e}")); } }
        r
    }
}

// ------------------------------------------------------------------ building connections

fn closer(kind: u64) -> Item {
    let mut r = match kind % 4 {
        0 => ReqSpec::get("/status").hdr("Connection", b"close"),
        1 => { let mut r = ReqSpec::get("/metrics"); r.version = "HTTP/1.0"; r }
        2 => ReqSpec::get("/nothing/here").hdr("connection", b"Close"),
        _ => ReqSpec::get("/status/traces").hdr("Accept-Encoding", b"gzip").hdr("Connection", b"keep-alive, close"),
    };
    r.expect = Some(if kind % 4 == 2 { 404 } else { 200 });
    r.kind = "closer";
    r.item()
}

fn conn(srv: usize, items: Vec<Item>, shape: Shape, kind: &str) -> Case { Case { srv, addr_ix: 0, items, shape, log: false, kind: kind.into() } }

/// cut offsets of every boundary class of a request stream: inside / around every token of the request line,
/// around CR and LF, inside header names and values, around the empty line, across the request boundary
fn boundary_cuts(stream: &[u8]) -> Vec<Vec<usize>> {
    let mut sets: Vec<Vec<usize>> = vec![];
    let n = stream.len();
    let pos = |b: u8| -> Vec<usize> { stream.iter().enumerate().filter(|(_, x)| **x == b).map(|(i, _)| i).collect() };
    sets.push(pos(b' '));                                         // before every space
    sets.push(pos(b' ').iter().map(|i| i + 1).collect());         // after every space
    sets.push(pos(b'\r'));                                        // before every CR
    sets.push(pos(b'\r').iter().map(|i| i + 1).collect());        // between CR and LF
    sets.push(pos(b'\n').iter().map(|i| i + 1).collect());        // after every LF (line and request boundaries)
    sets.push(pos(b':').iter().flat_map(|i| [*i, i + 1]).collect());
    sets.push((1..n).step_by(7).collect());
    sets.push(vec![1]);
    sets.push(vec![n.saturating_sub(1)]);
    sets.push(vec![n.saturating_sub(2)]);
    sets.push(vec![n.saturating_sub(3)]);
    sets.into_iter().map(|mut s| { s.retain(|c| *c > 0 && *c < n); s.dedup(); s }).filter(|s| !s.is_empty()).collect()
}

fn corpus(g: &mut Gen) -> Vec<Case> {
    let mut cs = vec![];
    let e = |mut r: ReqSpec, st: u16, kind: &'static str| { r.expect = Some(st); r.kind = kind; r.item() };
    let five = || vec![
        e(ReqSpec::get("/status").hdr("Accept-Encoding", b"gzip"), 200, "p.status"),
        e(ReqSpec::get("/no/such/path"), 404, "p.unknown"),
        e({ let mut r = ReqSpec::get("/metrics"); r.method = "POST".into(); r }, 405, "p.post"),
        e(ReqSpec::get("/prefixes/not_a_valid_prefix").hdr("Accept-Encoding", b"identity"), 400, "p.bad-prefix"),
        e(ReqSpec::get("/prefixes/1.2.3.0/24?include=lessSpecifics").hdr("accept-encoding", b"br, gzip;q=0.5"), 200, "p.rib"),
        e({ let mut r = ReqSpec::get("/metrics"); r.method = "HEAD".into(); r }, 405, "p.head"),
        e(ReqSpec::get("/status/graph"), 200, "p.graph"),
    ];
    for srv in 0..2 {
        // pipelined, one write
        let mut items = five(); items.push(closer(0));
        cs.push(conn(srv, items.clone(), Shape::One, "pipeline"));
        // the same stream cut at every boundary class, and byte by byte
        let stream: Vec<u8> = items.iter().flat_map(|i| i.bytes.iter().copied()).collect();
        for cuts in boundary_cuts(&stream) { cs.push(conn(srv, items.clone(), Shape::Split(cuts, 2), "split-boundary")); }
        cs.push(conn(srv, items.clone(), Shape::Split((1..stream.len()).collect(), 0), "split-bytewise"));
        // keep-alive, one at a time, then close
        cs.push(conn(srv, items.clone(), Shape::Step, "keepalive-step"));
        // no closing request: the client shuts its sending side down once everything is answered
        cs.push(conn(srv, five(), Shape::HalfAfter(7), "half-close-after"));
        cs.push(conn(srv, five(), Shape::HalfNow, "half-close-now"));
        // nothing at all, only line ends, half a request
        cs.push(conn(srv, vec![bad_item(vec![], 0, "empty")], Shape::HalfAfter(0), "connect-and-leave"));
        cs.push(conn(srv, vec![bad_item(b"\r\n\r\n\n".to_vec(), 0, "only-newlines")], Shape::HalfAfter(0), "only-newlines"));
        for part in [&b"GET /status HTTP/1.1\r\nHost: x\r\n"[..], b"GET /sta", b"G", b"GET /status HTTP/1.1\r\nHost: x\r\n\r", b"GET /status HTTP/1."] {
            cs.push(conn(srv, vec![five()[0].clone(), bad_item(part.to_vec(), 0, "partial")], Shape::HalfAfter(1), "partial-then-leave"));
        }
        // no Host, HTTP/1.0 with and without keep-alive
        let mut nohost = ReqSpec::get("/status"); nohost.headers.clear();
        let mut h10 = ReqSpec::get("/metrics"); h10.version = "HTTP/1.0"; h10.headers.clear();
        let h10ka = { let mut r = h10.clone().hdr("Connection", b"Keep-Alive"); r.kind = "http10-keepalive"; r };
        cs.push(conn(srv, vec![e(nohost.clone(), 200, "no-host"), closer(3)], Shape::One, "no-host"));
        cs.push(conn(srv, vec![e(h10.clone(), 200, "http10"), e(nohost.clone(), 200, "never-answered")], Shape::One, "http10-closes"));
        cs.push(conn(srv, vec![e(h10ka.clone(), 200, "http10-ka"), e(h10ka.clone().hdr("Accept-Encoding", b"gzip"), 200, "http10-ka"), e(h10.clone(), 200, "http10")], Shape::One, "http10-keepalive"));
        // a body on GET: sized, empty, chunked (last chunk only), chunked with data (ends the connection)
        let body = |cl: &str, te: Option<&str>, b: &[u8]| { let mut r = ReqSpec::get("/status"); if !cl.is_empty() { r = r.hdr("Content-Length", cl.as_bytes()); } if let Some(t) = te { r = r.hdr("Transfer-Encoding", t.as_bytes()); } r.body = b.to_vec(); r };
        cs.push(conn(srv, vec![e(body("11", None, b"hello world"), 200, "get-body"), e(body("0", None, b""), 200, "get-body0"), e(body("", Some("chunked"), b"0\r\n\r\n"), 200, "get-chunked0"), closer(1)], Shape::One, "body-on-get"));
        cs.push(conn(srv, vec![e(body("", Some("chunked"), b"5\r\nhello\r\n0\r\n\r\n"), 200, "get-chunked1"), closer(2)], Shape::One, "chunked-body-one-chunk"));
        cs.push(conn(srv, vec![e(body("", Some("chunked"), b"5\r\nhello\r\n1\r\n!\r\n0\r\n\r\n"), 200, "get-chunked2"), e(nohost.clone(), 200, "never-answered")], Shape::One, "chunked-body-ends-connection"));
        cs.push(conn(srv, vec![e(body("", Some("chunked"), b"5\r\nhello\r\n0\r\n\r\n").hdr("Expect", b"100-continue"), 200, "get-chunked1-expect"), e(nohost.clone(), 200, "never-answered")], Shape::One, "chunked-body-ends-connection"));
        cs.push(conn(srv, vec![e(body("5", Some("chunked"), b"0\r\n\r\n"), 200, "get-te-and-cl"), closer(0)], Shape::One, "te-and-cl"));
        cs.push(conn(srv, vec![e(body("5", None, b"hello").hdr("Expect", b"100-continue"), 200, "expect-continue"), closer(0)], Shape::One, "expect-continue"));
        // limits: 100 headers pass, the 101st does not; the longest URI hyper takes
        let mut h100 = ReqSpec::get("/status"); for i in 0..99 { h100 = h100.hdr(&format!("X-{i}"), b"v"); }
        cs.push(conn(srv, vec![e(h100, 200, "100-headers"), closer(2)], Shape::One, "100-headers"));
        let long = format!("/{}", "a".repeat(65533));
        cs.push(conn(srv, vec![e(ReqSpec::get(&long), 404, "uri-65534"), closer(0)], Shape::One, "uri-max"));
        // a head far beyond hyper's buffer limit (417 792 bytes; the limit is only checked between reads and a read
        // fills whatever capacity the buffer has grown to, at most four times the limit: a head of 430 kB and one of
        // 1 MB were both seen to pass under load; the oversized one here is 1.8 MB)
        { let mut b = b"GET / HTTP/1.1\r\nHost: x\r\nX-Big: ".to_vec(); b.extend(std::iter::repeat(b'v').take(1_800_000)); b.extend(b"\r\n\r\n");
          cs.push(conn(srv, vec![five()[0].clone(), bad_item(b, 431, "bad.header-block-too-large")], Shape::One, "malformed")); }
        // HTTP/2 prior-knowledge preface: the listener speaks h2 as well (hyper feature unification)
        cs.push(conn(srv, vec![{ let mut i = bad_item(b"PRI * HTTP/2.0\r\n\r\nSM\r\n\r\n".to_vec(), 0, "h2-preface"); i.kind = "h2-preface"; i }], Shape::HalfAfter(1), "h2-preface"));
        // upgrade request, CONNECT, OPTIONS *
        cs.push(conn(srv, vec![e(ReqSpec::get("/status").hdr("Connection", b"Upgrade").hdr("Upgrade", b"websocket"), 200, "upgrade"), closer(0)], Shape::One, "upgrade"));
        let m = |m: &str, t: &str| { let mut r = ReqSpec::get(t); r.method = m.into(); r };
        cs.push(conn(srv, vec![e(m("CONNECT", "example.net:443"), 405, "connect"), e(m("OPTIONS", "*"), 405, "options-star"), e(ReqSpec::get("*"), 404, "get-star"), e(ReqSpec::get("example.net:80"), 404, "authority-form"), e(ReqSpec::get("http://example.net/status?x=1#f"), 200, "absolute-form"), closer(0)], Shape::One, "target-forms"));
        // every malformed class alone, after a good request, and followed by a good one that must never be answered
        for k in 0..40u64 {
            let mut gg = Gen { rng: Rng::new(1000 + k) };
            // walk the table deterministically
            let mut it = gg.malformed(); let mut guard = 0;
            while guard < 400 && cs.iter().filter(|c: &&Case| c.srv == srv && c.kind == "malformed").any(|c| c.items.iter().any(|i| i.kind == it.kind)) { it = gg.malformed(); guard += 1; }
            if guard >= 400 { continue; }
            if it.bytes.len() < 4000 { cs.push(conn(srv, vec![five()[k as usize % 5].clone(), it.clone(), five()[0].clone()], Shape::One, "malformed")); }
            else { cs.push(conn(srv, vec![five()[k as usize % 5].clone(), it.clone()], Shape::One, "malformed")); }
            if it.bytes.len() < 2000 { cs.push(conn(srv, vec![it.clone()], Shape::Split(vec![1, it.bytes.len() / 2], 2), "malformed-split")); }
        }
    }
    // the second listen address of server 0 serves the same resources
    let mut c = conn(0, { let mut i = five(); i.push(closer(1)); i }, Shape::One, "second-listener"); c.addr_ix = 1; cs.push(c);
    let _ = g;
    cs
}

fn random_case(g: &mut Gen, srv: usize, n_addrs: usize) -> Case {
    let n = match g.rng.below(10) { 0..=2 => 1, 3..=5 => g.rng.range(2, 4), 6..=8 => g.rng.range(4, 8), _ => g.rng.range(8, 16) } as usize;
    let mut items = vec![];
    for _ in 0..n {
        if g.rng.chance(4, 100) { items.push(g.malformed()); continue; }
        let r = g.request();
        let r = g.dress(r, g.rng.clone().chance(5, 100));
        items.push(r.item());
    }
    let has_body = items.iter().any(|i| i.bytes.len() > i.head_len);
    let total: usize = items.iter().map(|i| i.bytes.len()).sum();
    let mut shape = match g.rng.below(100) { 0..=44 => Shape::One, 45..=74 => Shape::Split(vec![], 0), 75..=84 => Shape::Step, 85..=94 => Shape::HalfAfter(0), _ => Shape::HalfNow };
    // a request body is only drained when hyper finds it complete in its buffer (one write, one read): see notes
    if has_body { if total > 7000 { for i in items.iter_mut() { if i.bytes.len() > i.head_len { *i = closer(0); i.closes = false; i.bytes = ReqSpec::get("/status").item().bytes; i.head_len = i.bytes.len(); } } } if items.iter().any(|i| i.bytes.len() > i.head_len) { shape = Shape::One; } }
    // Bytes behind the item that ends the connection: the server closes with them unread (a TCP reset), and what it
    // sent last may never reach the client (held back by Nagle, discarded by the abortive close). Keep them only where
    // hyper has read them already when it closes: one write of less than its first read (8192 bytes).
    let total: usize = items.iter().map(|i| i.bytes.len()).sum();
    if let Some(e) = items.iter().position(|i| i.bad.is_some() || i.closes) { if shape != Shape::One || total > 8000 { items.truncate(e + 1); } }
    if items.iter().any(|i| i.upgradey) && !matches!(shape, Shape::HalfAfter(_) | Shape::HalfNow) { let total: usize = items.iter().map(|i| i.bytes.len()).sum(); shape = if total <= 8000 { Shape::One } else { Shape::Step }; }
    let ends = items.iter().any(|i| i.bad.is_some() || i.closes);
    match shape {
        Shape::HalfAfter(_) => { let upto = items.iter().position(|i| i.bad.is_some() || i.closes).map(|p| p + 1).unwrap_or(items.len()); shape = Shape::HalfAfter(upto); }
        Shape::HalfNow => {}
        _ => if !ends { items.push(closer(g.rng.below(4))); }
    }
    if let Shape::Split(_, _) = shape {
        let total: usize = items.iter().map(|i| i.bytes.len()).sum();
        let k = g.rng.range(1, 6);
        let mut cuts: Vec<usize> = (0..k).map(|_| g.rng.range(1, total.max(2) as u64 - 1) as usize).collect();
        // often right at or next to a line end
        let stream: Vec<u8> = items.iter().flat_map(|i| i.bytes.iter().copied()).collect();
        let crs: Vec<usize> = stream.iter().enumerate().filter(|(_, b)| **b == b'\r' || **b == b'\n').map(|(i, _)| i).collect();
        if !crs.is_empty() { for _ in 0..g.rng.below(3) { cuts.push(*g.rng.pick(&crs) + g.rng.below(2) as usize); } }
        cuts.sort(); cuts.dedup(); cuts.retain(|c| *c > 0 && *c < total);
        shape = Shape::Split(cuts, g.rng.below(3));
    }
    Case { srv, addr_ix: g.rng.below(n_addrs as u64) as usize, items, shape, log: false, kind: "random".into() }
}


// ------------------------------------------------------------------ registry churn: requests in flight while processors come and go
//
// Case line `R|<t|h>|ev ev …`: a fresh `Resources`, processors registered through the real `Resources::register`
// (`r<id>.<s|n>.<claims>`: sub-resource or not, the path numbers it answers), dropped (`d<id>`: the component goes
// away, its `Weak` dangles until the next registration prunes it), complete requests (`q<path>`), and one request
// held IN FLIGHT inside its processor (`b<path>` … `f`) while the events between happen. Mode `t`: a `Server::run`
// listener of its own over loopback TCP; mode `h`: `Server::handle_request` directly. Path 0 is `/status`.

#[derive(Clone, Debug, PartialEq)]
enum REv { Reg(u32, bool, Vec<u32>), Drop(u32), Req(u32), Begin(u32), Finish }

fn rev_txt(e: &REv) -> String {
    match e { REv::Reg(id, sub, cl) => format!("r{id}.{}.{}", if *sub { 's' } else { 'n' }, join(cl.iter(), "+")), REv::Drop(id) => format!("d{id}"), REv::Req(p) => format!("q{p}"), REv::Begin(p) => format!("b{p}"), REv::Finish => "f".into() }
}
fn parse_rev(t: &str) -> Option<REv> {
    let (k, r) = t.split_at(1);
    match k {
        "r" => { let f: Vec<&str> = r.split('.').collect(); if f.len() != 3 { return None; } Some(REv::Reg(f[0].parse().ok()?, f[1] == "s", if f[2].is_empty() { vec![] } else { f[2].split('+').map(|x| x.parse().ok()).collect::<Option<Vec<u32>>>()? })) }
        "d" => Some(REv::Drop(r.parse().ok()?)), "q" => Some(REv::Req(r.parse().ok()?)), "b" => Some(REv::Begin(r.parse().ok()?)), "f" => Some(REv::Finish), _ => None,
    }
}
fn rpath(p: u32) -> String { if p == 0 { "/status".into() } else { format!("/c/p{p}") } }

/// A request processor of a test component: answers the paths it claims with its own name; a request that carries
/// `?slow` is held (after telling the engine that it has arrived) until the engine lets it go.
struct TestProc { id: u32, claims: Vec<String>, entered: Mutex<std::sync::mpsc::Sender<u32>>, release: Arc<tokio::sync::Semaphore> }
impl rotonda::http::ProcessRequest for TestProc {
    fn process_request<'life0, 'life1, 'async_trait>(&'life0 self, request: &'life1 hyper::Request<hyper::Body>)
        -> std::pin::Pin<Box<dyn std::future::Future<Output = Option<hyper::Response<hyper::Body>>> + Send + 'async_trait>>
    where 'life0: 'async_trait, 'life1: 'async_trait, Self: 'async_trait {
        Box::pin(async move {
            if !self.claims.iter().any(|c| c == request.uri().path()) { return None; }
            if request.uri().query() == Some("slow") {
                let _ = self.entered.lock().unwrap().send(self.id);
                if let Ok(p) = self.release.acquire().await { p.forget(); }
            }
            Some(hyper::Response::builder().header("Content-Type", "text/plain").body(format!("P{}", self.id).into()).unwrap())
        })
    }
}

fn registry_case(rec: &mut Recorder, rt: &tokio::runtime::Runtime, tcp: bool, evs: &[REv], kind: &str) {
    use rotonda::verif::http as vh;
    let _g = rt.enter();
    let resources = vh::Resources::default();
    let metrics: vh::MetricsCollection = Default::default();
    let panics_from = PANICS.lock().unwrap().len();
    let mut fails: Vec<String> = vec![];
    // mode t: the production server over this registry, on a port of its own
    let mut addr: Option<SocketAddr> = None;
    if tcp {
        for _ in 0..20 {
            let port = free_port();
            let server: rotonda::http::Server = toml::from_str(&format!("http_listen = \"127.0.0.1:{port}\"\ncompress_responses = false\n")).unwrap();
            if server.run(metrics.clone(), resources.clone()).is_ok() { addr = Some(SocketAddr::from(([127, 0, 0, 1], port))); break; }
        }
        if addr.is_none() { fails.push("httpserver:listener:refused no port for the registry server".into()); }
    }
    let (etx, erx) = std::sync::mpsc::channel::<u32>();
    let release = Arc::new(tokio::sync::Semaphore::new(0));
    let mut procs: BTreeMap<u32, Arc<TestProc>> = BTreeMap::new();
    // the engine's own reading of who may answer: registered and not yet dropped, claiming the path
    let mut live: BTreeMap<u32, Vec<u32>> = BTreeMap::new();
    let mut toks: Vec<String> = vec![];
    // one answer: `P<id>` / `404` / `S` (/status) / `405`, `X` when there is none
    let tok_of = |status: u16, body: &[u8]| -> String { match status { 200 if body.starts_with(b"P") => String::from_utf8_lossy(body).into_owned(), 200 => "S".into(), n => n.to_string() } };
    let judge = |tok: &str, p: u32, live_at: &BTreeMap<u32, Vec<u32>>, fails: &mut Vec<String>| {
        let claimants: Vec<u32> = live_at.iter().filter(|(_, c)| c.contains(&p)).map(|(i, _)| *i).collect();
        if tok == "X" { fails.push(format!("httpserver:registry:no-response GET {} got no response", rpath(p))); }
        else if p == 0 { if tok != "S" { fails.push(format!("httpserver:registry:wrong-processor /status answered {tok}")); } }
        else if let Some(id) = tok.strip_prefix('P').and_then(|x| x.parse::<u32>().ok()) { if !claimants.contains(&id) { fails.push(format!("httpserver:registry:wrong-processor GET {} answered by processor {id}, which is gone or does not serve that path (serving it: {:?})", rpath(p), claimants)); } }
        else if tok == "404" { if !claimants.is_empty() { fails.push(format!("httpserver:registry:wrong-processor GET {} answered 404 although {:?} serve it", rpath(p), claimants)); } }
        else { fails.push(format!("httpserver:registry:unlawful-answer GET {} answered {tok}", rpath(p))); }
    };
    // a complete exchange
    let ask = |p: u32, slow: bool| -> Box<dyn FnOnce() -> String + Send> {
        let target = format!("{}{}", rpath(p), if slow { "?slow" } else { "" });
        if let Some(a) = addr {
            Box::new(move || {
                let req = format!("GET {target} HTTP/1.1\r\nHost: r\r\nConnection: close\r\n\r\n").into_bytes();
                match exchange(a, &[Act::Write(req)], &[false]) { Ok(ex) => { let (rs, _) = parse_responses(&ex.received, &[false]); match rs.first() { Some(r) => match r.status { 200 if r.body.starts_with(b"P") => String::from_utf8_lossy(&r.body).into_owned(), 200 => "S".into(), n => n.to_string() }, None => "X".into() } } Err(_) => "X".into() }
            })
        } else { Box::new(move || target) }
    };
    let run_h = |target: String, resources: vh::Resources, metrics: vh::MetricsCollection| async move {
        let req = hyper::Request::builder().uri(target).body(hyper::Body::empty()).unwrap();
        let res = vh::handle_request(req, &metrics, &resources).await;
        let status = res.status().as_u16();
        let body = hyper::body::to_bytes(res.into_body()).await.map(|b| b.to_vec()).unwrap_or_default();
        (status, body)
    };
    let mut inflight: Option<(u32, BTreeMap<u32, Vec<u32>>, std::thread::JoinHandle<String>)> = None;
    let mut held: Option<u32> = None;
    let mut lingering: Option<(u32, Vec<u32>)> = None;
    for ev in evs {
        match ev {
            REv::Reg(id, sub, claims) => {
                let p = Arc::new(TestProc { id: *id, claims: claims.iter().map(|c| rpath(*c)).collect(), entered: Mutex::new(etx.clone()), release: release.clone() });
                let w: std::sync::Weak<dyn rotonda::http::ProcessRequest> = { let a: Arc<dyn rotonda::http::ProcessRequest> = p.clone(); Arc::downgrade(&a) };
                resources.register(w, format!("c{id}").into(), "test", &format!("/c/p{}", claims.first().copied().unwrap_or(0)), *sub);
                procs.insert(*id, p);
                live.insert(*id, claims.clone());
            }
            // a processor with a request inside it stays alive (the request holds the upgraded `Arc`) until that request is done
            REv::Drop(id) => { procs.remove(id); if held == Some(*id) { if let Some(c) = live.get(id) { lingering = Some((*id, c.clone())); } } live.remove(id); }
            REv::Req(p) => {
                let f = ask(*p, false);
                let tok = if addr.is_some() { f() } else { let t = f(); match rt.block_on(async { tokio::spawn(run_h(t, resources.clone(), metrics.clone())).await }) { Ok((st, b)) => tok_of(st, &b), Err(_) => "X".into() } };
                let mut may = live.clone(); if let Some((i, c)) = &lingering { may.insert(*i, c.clone()); }
                judge(&tok, *p, &may, &mut fails);
                toks.push(tok);
            }
            REv::Begin(p) => {
                if inflight.is_some() { continue; }
                let f = ask(*p, true);
                let h = if addr.is_some() { std::thread::spawn(f) } else {
                    let t = f(); let (res, met, handle) = (resources.clone(), metrics.clone(), rt.handle().clone());
                    std::thread::spawn(move || match handle.block_on(async { tokio::spawn(run_h(t, res, met)).await }) { Ok((st, b)) => match st { 200 if b.starts_with(b"P") => String::from_utf8_lossy(&b).into_owned(), 200 => "S".into(), n => n.to_string() }, Err(_) => "X".into() })
                };
                // only go on once the request sits inside its processor (a path nobody serves, or /status, is answered at once)
                let claimed = *p != 0 && live.values().any(|c| c.contains(p));
                if claimed { match erx.recv_timeout(Duration::from_secs(20)) { Ok(id) => held = Some(id), Err(_) => fails.push("httpserver:registry:no-response the request never reached its processor".into()) } }
                // nobody holds it: it is answered now (its answer is reported at `f`, as the model does)
                let h = if claimed { h } else { let tok = h.join().unwrap_or_else(|_| "X".into()); std::thread::spawn(move || tok) };
                inflight = Some((*p, live.clone(), h));
            }
            REv::Finish => {
                if let Some((p, live_at, h)) = inflight.take() {
                    if held.is_some() { release.add_permits(1); }
                    let tok = h.join().unwrap_or_else(|_| "X".into());
                    judge(&tok, p, &live_at, &mut fails);
                    toks.push(tok);
                    held = None; lingering = None;
                }
            }
        }
    }
    if let Some((p, live_at, h)) = inflight.take() { if held.is_some() { release.add_permits(1); } let tok = h.join().unwrap_or_else(|_| "X".into()); judge(&tok, p, &live_at, &mut fails); toks.push(tok); }
    let new_panics: Vec<String> = PANICS.lock().unwrap()[panics_from..].to_vec();
    if let Some(p) = new_panics.last() { let site = p.split(' ').next().unwrap_or("?").rsplit('/').next().unwrap_or("?").to_string(); fails.insert(0, format!("httpserver:registry:panic:{site} {} request(s) made the server panic while the registry changed ({p})", new_panics.len())); }
    let oracle = if fails.is_empty() { "ok".to_string() } else { format!("fail {}", fails[0]) };
    rec.bump(&format!("registry.{kind}.{}", if tcp { "tcp" } else { "direct" }));
    let churn_in_flight = { let b = evs.iter().position(|e| matches!(e, REv::Begin(_))); let f = evs.iter().position(|e| matches!(e, REv::Finish)); match (b, f) { (Some(b), Some(f)) => evs[b..f].iter().any(|e| matches!(e, REv::Reg(..) | REv::Drop(_))), _ => false } };
    if churn_in_flight { rec.bump("registry.churn-while-in-flight"); }
    rec.case(format!("R|{}|{}", if tcp { 't' } else { 'h' }, join(evs.iter().map(rev_txt), " ")), toks.join(" "), oracle, churn_in_flight);
}

/// the enumerated interleavings: 0-3 dead processors, the slow processor at the head or the tail of the list, a
/// registration (sub-resource or not) before / while / after its request is in flight, then the same and other paths again
fn registry_corpus() -> Vec<Vec<REv>> {
    let mut out = vec![];
    for dead in 0..4u32 { for at_head in [false, true] { for timing in 0..3 { for newsub in [false, true] { for drop_during in [false, true] {
        let mut e = vec![REv::Reg(1, false, vec![1, 9])];
        for k in 0..dead { e.push(REv::Reg(10 + k, k % 2 == 1, vec![5, 9])); }
        e.push(REv::Reg(2, at_head, vec![2, 9]));     // the slow one: head (sub-resource) or tail
        for k in 0..dead { e.push(REv::Drop(10 + k)); }
        e.push(REv::Req(2)); e.push(REv::Req(9));
        let newreg = REv::Reg(3, newsub, vec![3, 9]);
        if timing == 0 { e.push(newreg.clone()); }
        e.push(REv::Begin(2));
        if timing == 1 { e.push(newreg.clone()); }
        if drop_during { e.push(REv::Drop(1)); }
        e.push(REv::Req(1));
        e.push(REv::Finish);
        if timing == 2 { e.push(newreg); }
        for p in [2, 2, 2, 1, 3, 9, 5, 7, 0, 2] { e.push(REv::Req(p)); }
        out.push(e);
    } } } } }
    out
}

fn registry_random(g: &mut Gen) -> Vec<REv> {
    let mut e = vec![];
    let mut next_id = 1u32;
    let mut live: Vec<u32> = vec![];
    let mut in_flight = false;
    let n = g.rng.range(6, 22);
    for _ in 0..n {
        match g.rng.below(10) {
            0..=2 => { let k = g.rng.range(1, 3); let claims: Vec<u32> = (0..k).map(|_| g.rng.range(1, 6) as u32).collect(); e.push(REv::Reg(next_id, g.rng.chance(1, 3), claims)); live.push(next_id); next_id += 1; }
            3 | 4 if !live.is_empty() => { let i = g.rng.below(live.len() as u64) as usize; e.push(REv::Drop(live.remove(i))); }
            5 if !in_flight => { e.push(REv::Begin(g.rng.range(1, 6) as u32)); in_flight = true; }
            6 if in_flight => { e.push(REv::Finish); in_flight = false; }
            _ => e.push(REv::Req(g.rng.below(8) as u32)),
        }
    }
    if in_flight { e.push(REv::Finish); }
    for p in 0..7 { e.push(REv::Req(p)); }
    e
}

// ------------------------------------------------------------------ running

struct Done { case_line: String, j: Judged, nontrivial: bool, dist: Vec<String> }

fn run_one(case: &Case, srvs: &[Srv], controls: &mut Vec<Control>) -> Done {
    let srv = &srvs[case.srv];
    let addr = srv.addrs[case.addr_ix.min(srv.addrs.len() - 1)];
    let mut deps: BTreeMap<String, String> = BTreeMap::new();
    ASKING_DEPS.with(|a| a.set(true));
    for it in &case.items { if it.bad.is_none() { if let Some(t) = target_of(&it.bytes) { deps_into(&mut deps, &t); } } }
    ASKING_DEPS.with(|a| a.set(false));
    let deps = if deps.is_empty() { "-".to_string() } else { join(deps.iter().map(|(k, v)| format!("{k}={v}")), " ") };
    let case_line = format!("{}|{}|{}|{}|{}", srv.desc, case.shape_txt(), hex(&case.stream()), deps, case.meta_txt());
    let heads = case.heads();
    let panics_from = PANICS.lock().unwrap().len();
    let mut j = match exchange(addr, &case.acts(), &heads) {
        Ok(ex) => {
            // lines logged since this connection was made: an earlier owner of the local port logged before it closed
            let lines: Vec<String> = if case.log { let l = LOG_LINES.lock().unwrap(); l[ex.log_from.min(l.len())..ex.log_to.min(l.len())].to_vec() } else { vec![] };
            let mut j = judge(case, srv, &ex, &lines);
            if ex.write_failed { j.info.push_str(" write-failed"); }
            if std::env::var("HS_DEBUG").is_ok() { eprintln!("debug: received {} bytes, end {}, write_failed {}, log {:?}", ex.received.len(), ex.end, ex.write_failed, lines); }
            // a request that makes the handler panic loses its connection: name the site
            let new_panics: Vec<String> = PANICS.lock().unwrap()[panics_from..].to_vec();
            if !j.fails.is_empty() { if let Some(p) = new_panics.last() {
                let site = p.split(' ').next().unwrap_or("?").rsplit('/').next().unwrap_or("?").to_string();
                j.fails.insert(0, format!("httpserver:panic:{site} a request made the handler panic ({p}): the connection was dropped without an answer"));
            } }
            j
        }
        Err(e) => Judged { imp: format!("no-connection ## {e}"), fails: vec![format!("httpserver:listener:refused {e}")], ..Default::default() },
    };
    // the listener keeps accepting, and a connection that was open all the time keeps being served
    if let Err(e) = probe(addr) { j.fails.push(format!("httpserver:listener:dead-after a fresh connection after the case got: {e}")); }
    if let Err(e) = controls[case.srv].ping() { j.fails.push(format!("httpserver:other-connection:broken the long-lived connection next to the case got: {e}")); }
    let nontrivial = j.n_handler >= 1 && (case.items.len() >= 2 || case.shape != Shape::One || case.items.iter().any(|i| i.ae.is_some()));
    let mut dist = vec![format!("kind.{}", case.kind), format!("shape.{}", case.shape_txt().split([':', ';']).next().unwrap_or("?")), format!("responses.{:02}", j.n_resp.min(16)), format!("log.{}", case.log as u8)];
    for it in &case.items { dist.push(format!("item.{}", it.kind)); }
    if j.gz > 0 { dist.push("obs.gzip-response".into()); }
    for t in j.imp.split(" ## ").next().unwrap_or("").split(' ') { if let Some(st) = t.split('/').nth(1) { dist.push(format!("status.{st}")); } if t.starts_with("end:") { dist.push(format!("obs.{t}")); } }
    if case.shape == Shape::HalfNow { dist.push(format!("half-now.{}", j.info.replace(' ', "-"))); }
    Done { case_line, j, nontrivial, dist }
}

fn record(rec: &mut Recorder, d: Done) {
    for k in &d.dist { rec.bump(k); }
    let oracle = if d.j.fails.is_empty() { "ok".to_string() } else if d.j.fails.len() == 1 { format!("fail {}", d.j.fails[0]) }
        else { format!("fail {} ;; also: {}", d.j.fails[0], d.j.fails[1..].iter().take(4).map(|f| f.chars().take(160).collect::<String>()).collect::<Vec<_>>().join(" ;; ")) };
    rec.case(d.case_line, d.j.imp.replace('\n', " "), oracle.replace('\n', " "), d.nontrivial);
}

fn show(b: &[u8]) -> String { b.iter().map(|c| match c { b'\r' => "\\r".into(), b'\n' => "\\n\n    ".into(), 32..=126 => (*c as char).to_string(), _ => format!("\\x{c:02x}") }).collect() }

fn main() {
    let args = parse_args();
    let t0 = Instant::now();
    // a panic of the real code is an observation (the connection is dropped); its site goes to PANICS for the oracle
    std::panic::set_hook(Box::new(|info| {
        let loc = info.location().map(|l| format!("{}:{}", l.file(), l.line())).unwrap_or("?".into());
        let msg = info.payload().downcast_ref::<String>().cloned().or_else(|| info.payload().downcast_ref::<&str>().map(|s| s.to_string())).unwrap_or_default();
        let msg: String = msg.chars().map(|c| if c.is_ascii_graphic() { c } else { '_' }).take(100).collect();
        if !ASKING_DEPS.with(|a| a.get()) { PANICS.lock().unwrap().push(format!("{loc} {msg}")); }
    }));
    let _ = log::set_logger(&CAPLOG);
    log::set_max_level(log::LevelFilter::Trace);
    let mut rec = Recorder::new("raw HTTP/1.x connections to the production server (Server::run on loopback, two servers: compression on with two listen addresses / off with one, live bmp-tcp-in + mrt-file-in -> rib -> null-out pipeline): C12's request classes dressed with versions, Host / Connection / Accept-Encoding variants (weights, wildcard, casing, repetition, obs-text), bodies, bare-LF line ends; pipelined, cut at every boundary class and byte by byte, one at a time, half-closed, HTTP/1.0, oversized heads, every malformed class; non-trivial = at least one response from the handler on a connection with >= 2 items, a non-trivial wire shape or an Accept-Encoding header; distinct = distinct case lines");
    let rt = tokio::runtime::Builder::new_multi_thread().worker_threads(4).enable_all().build().unwrap();
    let _ = RT_HANDLE.set(rt.handle().clone());
    let srvs: Vec<Srv> = match (start_server(&rt, true, 2), start_server(&rt, false, 1)) {
        (Ok(a), Ok(b)) => vec![a, b],
        (a, b) => { eprintln!("httpserver: could not start the servers: {:?} {:?}", a.err(), b.err()); std::process::exit(3); }
    };
    // binding an address that is taken is fatal for `run` and leaves the running listeners alone
    {
        let _g = rt.enter();
        let taken = srvs[0].addrs[0];
        let second: Result<rotonda::http::Server, _> = toml::from_str(&format!("http_listen = [\"127.0.0.1:0\", \"{taken}\"]\n"));
        let refused = match second { Ok(s) => s.run(Default::default(), Default::default()).is_err(), Err(_) => false };
        rec.bump(if refused { "listen.conflict-refused" } else { "listen.conflict-NOT-refused" });
        let oracle = if refused && probe(taken).is_ok() { "ok".to_string() } else { "fail httpserver:listen:conflict a second server on a taken address was not refused, or the first one stopped answering".to_string() };
        rec.case(format!("{}|listen-conflict|x|-|-", srvs[0].desc), "listen-conflict".into(), oracle, false);
    }

    if args.rest.iter().any(|a| a == "--probe") {
        for (name, bytes, half) in [
            ("plain", &b"GET /status HTTP/1.1\r\nHost: x\r\nAccept-Encoding: gzip;q=0\r\nConnection: close\r\n\r\n"[..], false),
            ("http10", b"GET /nothing HTTP/1.0\r\n\r\n", false),
            ("http10ka", b"GET /nothing HTTP/1.0\r\nConnection: keep-alive\r\n\r\nGET /x HTTP/1.0\r\n\r\n", false),
            ("bad", b"G{T / HTTP/1.1\r\n\r\n", false),
            ("head", b"HEAD /status HTTP/1.1\r\nConnection: close\r\n\r\n", false),
            ("rib", b"GET /prefixes/1.2.3.0/24 HTTP/1.1\r\nConnection: close\r\n\r\n", false),
            ("h2", b"PRI * HTTP/2.0\r\n\r\nSM\r\n\r\n", true),
            ("halfnow", b"GET /status HTTP/1.1\r\n\r\n", true),
        ] {
            let acts = if half { vec![Act::Write(bytes.to_vec()), Act::ShutWr] } else { vec![Act::Write(bytes.to_vec())] };
            let ex = exchange(srvs[0].addrs[0], &acts, &[name == "head"]).unwrap();
            println!("== {name} end={} \n    {}", ex.end, show(&ex.received[..ex.received.len().min(700)]));
        }
        println!("{:?}", LOG_LINES.lock().unwrap());
        return;
    }

    let mut controls: Vec<Control> = srvs.iter().map(|s| Control::new(s.addrs[0])).collect();
    if let Some(path) = &args.replay {
        for line in verif_harness::replay_cases(path) {
            if line.contains("|listen-conflict|") { continue; }
            if let Some(r) = line.strip_prefix("R|") { let tcp = r.starts_with('t'); if let Some(evs) = r.get(2..).map(|x| x.split(' ').filter(|t| !t.is_empty()).map(parse_rev).collect::<Option<Vec<REv>>>()).flatten() { registry_case(&mut rec, &rt, tcp, &evs, "replay"); } continue; }
            let Some(case) = parse_case(&line, &srvs) else { rec.bump("replay.unparsable-line"); continue };
            LOG_ON.store(case.log, Ordering::SeqCst);
            let d = run_one(&case, &srvs, &mut controls);
            record(&mut rec, d);
        }
        rec.finish(&args, t0.elapsed().as_secs_f64());
        return;
    }

    // 0. witnesses of the counterexample theorems (they decide the variant), then the hand-made wire shapes
    let mut cases: Vec<Case> = vec![];
    for ae in [&b"gzip;q=0"[..], b"xgzipx", b"identity, gzip;q=0.0"] {
        let mut r = ReqSpec::get("/status").hdr("Accept-Encoding", ae).hdr("Connection", b"close"); r.expect = Some(200); r.kind = "witness-gzip";
        cases.push(conn(0, vec![r.item()], Shape::One, "witness"));
    }
    let mut g = Gen { rng: Rng::new(args.seed) };
    cases.extend(corpus(&mut g));
    let n_random = if args.thorough { 60_000 } else { 2_500 };
    for _ in 0..n_random { let srv = g.rng.below(2) as usize; cases.push(random_case(&mut g, srv, srvs[srv].addrs.len())); }
    // access log on for every other block of 64 cases
    for (i, c) in cases.iter_mut().enumerate() { c.log = (i / 64) % 2 == 1; }

    let budget = if args.thorough { 420.0 } else { 45.0 };
    let workers = 6usize;
    let mut done: Vec<Option<Done>> = (0..cases.len()).map(|_| None).collect();
    let mut stopped = false;
    for (b, block) in cases.chunks(64).enumerate() {
        if t0.elapsed().as_secs_f64() > budget { stopped = true; break; }
        LOG_ON.store(block[0].log, Ordering::SeqCst);
        LOG_LINES.lock().unwrap().clear();
        let next = std::sync::atomic::AtomicUsize::new(0);
        let results: Mutex<Vec<(usize, Done)>> = Mutex::new(vec![]);
        std::thread::scope(|sc| {
            for w in 0..workers.min(block.len()) {
                let (next, results, srvs) = (&next, &results, &srvs);
                sc.spawn(move || {
                    SRC_IP.with(|c| c.set(10 + w as u8));
                    let mut controls: Vec<Control> = srvs.iter().map(|s| Control::new(s.addrs[0])).collect();
                    loop {
                        let i = next.fetch_add(1, Ordering::SeqCst);
                        if i >= block.len() { break; }
                        let d = run_one(&block[i], &srvs, &mut controls);
                        results.lock().unwrap().push((i, d));
                    }
                });
            }
        });
        for (i, d) in results.into_inner().unwrap() { done[b * 64 + i] = Some(d); }
    }
    if stopped { rec.bump("gen.stopped-by-time-budget"); }
    let mut gz_q0 = None;
    for (i, d) in done.into_iter().enumerate() {
        let Some(d) = d else { continue };
        if i == 0 { gz_q0 = Some(d.j.gz > 0); }
        record(&mut rec, d);
    }
    rec.variant("aegzip", if gz_q0 == Some(true) { "as-written" } else { "repaired" });
    // registry churn: every enumerated interleaving directly, every fourth also through a listener of its own; random histories
    for (i, evs) in registry_corpus().iter().enumerate() { registry_case(&mut rec, &rt, false, evs, "enumerated"); if i % 4 == 0 { registry_case(&mut rec, &rt, true, evs, "enumerated"); } }
    let mut rg = Gen { rng: Rng::new(args.seed ^ 0x5245_4749) };
    for i in 0..(if args.thorough { 3000 } else { 150 }) { let evs = registry_random(&mut rg); registry_case(&mut rec, &rt, !args.thorough && i % 10 == 0 || args.thorough && i % 25 == 0, &evs, "random"); }
    rec.extra.insert("servers".into(), serde_json::json!(srvs.iter().map(|s| format!("{} on {:?}", s.desc, s.addrs)).collect::<Vec<_>>()));
    rec.finish(&args, t0.elapsed().as_secs_f64());
    let _ = Arc::new(0);
}
