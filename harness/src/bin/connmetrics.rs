//! prototype
use rotonda::verif::bmp_conn::{Item, TracingMode, World};
use verif_harness::bmp::{self, Spec};

fn main() {
    let rt = tokio::runtime::Builder::new_multi_thread().worker_threads(1).enable_all().build().unwrap();
    rt.block_on(async { tokio::spawn(async {
        let w = World::new(true, None, TracingMode::Off).await;
        let c = w.connect("10.1.1.1:1000".parse().unwrap()).await;
        println!("--- after connect\n{}", w.metrics_text());
        for s in [Spec::Init, Spec::PeerUp(0, true), Spec::Rm(0, "a3".into()), Spec::PeerDown(1)] {
            let b = bmp::build(&s).unwrap();
            c.push(Item::Data(b.bytes.to_vec()));
            let done = c.settled().await;
            println!("--- after {} done={done}\n{}", b.token, w.metrics_text());
        }
        c.push(Item::Eof);
        let done = c.settled().await;
        println!("--- after eof done={done}\n{}", w.metrics_text());
        println!("sunk {} slots {:?}", w.num_sunk_updates(), (w.gate_slots)());
        let c2 = w.connect("10.1.1.1:1001".parse().unwrap()).await;
        c2.push(Item::Data(bmp::build(&Spec::Init).unwrap().bytes.to_vec()));
        c2.settled().await;
        println!("--- reconnect\n{}", w.metrics_text());
    }).await.unwrap() });
}
