//! ConnMetrics engine (extends C15; Prometheus clause of C19).
//!
//! `w|…` cases: the real accept loop of `BmpTcpInRunner` and the real
//! `RouterHandler::read_from_router` on in-memory connections
//! (`rotonda::verif::bmp_conn::World`), real links on the unit's real gate.
//! After every event the exported metrics (real `Source::append` into a real
//! Prometheus `Target`, plus the atomics) are compared with the Lean model
//! (`Model/ConnMetrics.lean`, driver `rmodel-connmetrics`).
//! `p|…` cases: arbitrary `Target::append` call sequences on the real
//! `metrics::Target`; the text is compared byte for byte with the model's
//! `render` and the verdict of the model's grammar with an independent parser.
//!
//! Oracle (Rust, no Lean): a ledger kept from the traffic alone — connections
//! made / ended, messages sent per connection and type, lifecycle violations
//! per RFC 7854 (first message Initiation, nothing after Termination, Route
//! Monitoring / Peer Down only for a peer that is up, no second Peer Up),
//! unparsable frames and read errors, which links could take an update at each
//! moment and how many updates each link actually received.
use std::collections::{BTreeMap, BTreeSet};
use std::net::SocketAddr;
use std::sync::Arc;
use std::time::{Duration, Instant};

use futures::FutureExt;
use rotonda::comms::{AnyDirectUpdate, DirectLink, Link};
use rotonda::metrics::{Metric, MetricType, MetricUnit, OutputFormat, Target};
use rotonda::payload::Update;
use rotonda::verif::bmp_conn::{Conn, Item, Sink, TracingMode, World};
use rotonda::verif::gate as vg;
use verif_harness::bmp::{self, Spec, NHDR};
use verif_harness::{join, parse_args, replay_cases, rng::Rng, Recorder};

const SHARED_SIG: &str = "identity:routers-from-one-address-share-router-id";
const ESC_SIG: &str = "prometheus:label-value-not-escaped";
const DUP_SIG: &str = "prometheus:duplicate-help-type-lines";

// ------------------------------------------------------------------ exposition parser (independent of Lean)
#[derive(Clone, Debug, PartialEq)]
enum PLine { Help(String, String), Type(String, String), Sample(String, Option<Vec<(String, String)>>, String) }

fn lname_start(c: char) -> bool { c.is_ascii_alphabetic() || c == '_' }
fn lname_char(c: char) -> bool { lname_start(c) || c.is_ascii_digit() }
fn name_start(c: char) -> bool { lname_start(c) || c == ':' }
fn name_char(c: char) -> bool { name_start(c) || c.is_ascii_digit() }
fn is_name(s: &[char]) -> bool { !s.is_empty() && name_start(s[0]) && s[1..].iter().all(|c| name_char(*c)) }
fn is_lname(s: &[char]) -> bool { !s.is_empty() && lname_start(s[0]) && s[1..].iter().all(|c| lname_char(*c)) }
fn is_number(s: &[char]) -> bool {
    let d = if s.first() == Some(&'-') { &s[1..] } else { s };
    !d.is_empty() && d.iter().all(|c| c.is_ascii_digit())
}
fn doc_ok(s: &[char]) -> bool {
    let mut i = 0;
    while i < s.len() {
        if s[i] == '\\' { if i + 1 < s.len() && (s[i + 1] == '\\' || s[i + 1] == 'n') { i += 2; continue; } return false; }
        if s[i] == '\n' { return false; }
        i += 1;
    }
    true
}
fn take_while(s: &[char], p: fn(char) -> bool) -> (&[char], &[char]) {
    let n = s.iter().take_while(|c| p(**c)).count();
    (&s[..n], &s[n..])
}
fn not_nl(c: char) -> bool { c != '\n' }
fn strip<'a>(s: &'a [char], p: &str) -> Option<&'a [char]> {
    let pc: Vec<char> = p.chars().collect();
    if s.len() >= pc.len() && s[..pc.len()] == pc[..] { Some(&s[pc.len()..]) } else { None }
}
fn parse_lval(s: &[char]) -> Option<(String, &[char])> {
    let mut out = String::new();
    let mut i = 0;
    loop {
        let c = *s.get(i)?;
        if c == '"' { return Some((out, &s[i + 1..])); }
        if c == '\n' { return None; }
        if c == '\\' {
            let d = *s.get(i + 1)?;
            if d == '\\' || d == '"' { out.push(d); } else if d == 'n' { out.push('\n'); } else { return None; }
            i += 2;
            continue;
        }
        out.push(c);
        i += 1;
    }
}
fn parse_pair(s: &[char]) -> Option<((String, String), &[char])> {
    let (n, rest) = take_while(s, lname_char);
    if !is_lname(n) || rest.len() < 2 || rest[0] != '=' || rest[1] != '"' { return None; }
    let (v, rest) = parse_lval(&rest[2..])?;
    Some(((n.iter().collect(), v), rest))
}
fn parse_labels(s: &[char]) -> Option<(Vec<(String, String)>, &[char])> {
    if s.first() == Some(&'}') { return Some((vec![], &s[1..])); }
    let (p, mut rest) = parse_pair(s)?;
    let mut out = vec![p];
    loop {
        match rest.first() {
            Some('}') => return Some((out, &rest[1..])),
            Some(',') => { let (p, r) = parse_pair(&rest[1..])?; out.push(p); rest = r; }
            _ => return None,
        }
    }
}
fn parse_value(s: &[char]) -> Option<(String, &[char])> {
    if s.first() != Some(&' ') { return None; }
    let (v, rest) = take_while(&s[1..], not_nl);
    if !is_number(v) || rest.first() != Some(&'\n') { return None; }
    Some((v.iter().collect(), &rest[1..]))
}
fn parse_line(s: &[char]) -> Option<(PLine, &[char])> {
    for (kw, is_help) in [("# HELP ", true), ("# TYPE ", false)] {
        if let Some(r) = strip(s, kw) {
            let (n, rest) = take_while(r, name_char);
            if !is_name(n) || rest.first() != Some(&' ') { return None; }
            let (d, rest) = take_while(&rest[1..], not_nl);
            if rest.first() != Some(&'\n') { return None; }
            let ds: String = d.iter().collect();
            if is_help {
                if !doc_ok(d) { return None; }
                return Some((PLine::Help(n.iter().collect(), ds), &rest[1..]));
            }
            if !["counter", "gauge", "histogram", "summary"].contains(&ds.as_str()) { return None; }
            return Some((PLine::Type(n.iter().collect(), ds), &rest[1..]));
        }
    }
    let (n, rest) = take_while(s, name_char);
    if !is_name(n) { return None; }
    let name: String = n.iter().collect();
    if rest.first() == Some(&'{') {
        let (ls, rest) = parse_labels(&rest[1..])?;
        let (v, rest) = parse_value(rest)?;
        return Some((PLine::Sample(name, Some(ls), v), rest));
    }
    let (v, rest) = parse_value(rest)?;
    Some((PLine::Sample(name, None, v), rest))
}
fn parse_text(text: &str) -> Option<Vec<PLine>> {
    let cs: Vec<char> = text.chars().collect();
    let mut s = &cs[..];
    let mut out = vec![];
    while !s.is_empty() { let (l, r) = parse_line(s)?; out.push(l); s = r; }
    Some(out)
}
fn hex(s: &str) -> String { s.bytes().map(|b| format!("{b:02x}")).collect() }
fn xhex(s: &str) -> String { format!("x{}", hex(s)) }
fn unxhex(s: &str) -> Option<String> {
    let h = s.strip_prefix('x')?;
    if h.len() % 2 != 0 { return None; }
    let b: Option<Vec<u8>> = (0..h.len() / 2).map(|i| u8::from_str_radix(&h[2 * i..2 * i + 2], 16).ok()).collect();
    String::from_utf8(b?).ok()
}
fn show_parse(p: &Option<Vec<PLine>>) -> String {
    match p {
        None => "parse=fail".into(),
        Some(ls) => {
            let pairs: Vec<&(String, String)> = ls.iter().flat_map(|l| match l { PLine::Sample(_, Some(v), _) => v.iter().collect::<Vec<_>>(), _ => vec![] }).collect();
            let samples = ls.iter().filter(|l| matches!(l, PLine::Sample(..))).count();
            format!("parse=ok lines={} samples={} pairs={} values={}", ls.len(), samples, pairs.len(), join(pairs.iter().map(|p| format!("{}={}", hex(&p.0), hex(&p.1))), ","))
        }
    }
}
fn duplicate_meta(ls: &[PLine]) -> Option<String> {
    let (mut h, mut t) = (BTreeSet::new(), BTreeSet::new());
    for l in ls {
        match l {
            PLine::Help(n, _) => if !h.insert(n.clone()) { return Some(n.clone()); },
            PLine::Type(n, _) => if !t.insert(n.clone()) { return Some(n.clone()); },
            _ => {}
        }
    }
    None
}

// ------------------------------------------------------------------ p cases
#[derive(Clone, Debug)]
struct PRec { suffix: Option<String>, value: String, labels: Option<Vec<(String, String)>> }
#[derive(Clone, Debug)]
struct PCall { name: String, help: String, ty: char, unit: u8, unit_name: Option<String>, recs: Vec<PRec> }

fn unit_of(u: u8) -> (MetricUnit, &'static str) {
    match u { 0 => (MetricUnit::Second, "seconds"), 1 => (MetricUnit::Millisecond, "milliseconds"), 2 => (MetricUnit::Microsecond, "microseconds"),
        3 => (MetricUnit::Byte, "bytes"), 4 => (MetricUnit::Total, "total"), 5 => (MetricUnit::State, "state"), _ => (MetricUnit::Info, "info") }
}
fn type_of(t: char) -> MetricType {
    match t { 'c' => MetricType::Counter, 'g' => MetricType::Gauge, 'h' => MetricType::Histogram, 's' => MetricType::Summary, _ => MetricType::Text }
}
fn leak(s: &str) -> &'static str { Box::leak(s.to_string().into_boxed_str()) }

fn pcase_line(calls: &[PCall]) -> String {
    let o = |s: &Option<String>| s.as_ref().map(|s| xhex(s)).unwrap_or("-".into());
    format!("p|{}", join(calls.iter().map(|c| format!("{},{},{},{},{},{}", xhex(&c.name), xhex(&c.help), c.ty, c.unit, o(&c.unit_name),
        join(c.recs.iter().map(|r| format!("{}:{}:{}", o(&r.suffix), xhex(&r.value), match &r.labels {
            None => "-".to_string(), Some(ls) => join(ls.iter().map(|(n, v)| format!("{}={}", xhex(n), xhex(v))), "&") })), "/"))), ";"))
}
fn parse_pcase(line: &str) -> Option<Vec<PCall>> {
    let body = line.strip_prefix("p|")?;
    if body.is_empty() { return Some(vec![]); }
    let o = |s: &str| -> Option<Option<String>> { if s == "-" { Some(None) } else { unxhex(s).map(Some) } };
    body.split(';').map(|c| {
        let f: Vec<&str> = c.split(',').collect();
        if f.len() != 6 { return None; }
        let recs: Option<Vec<PRec>> = if f[5].is_empty() { Some(vec![]) } else { f[5].split('/').map(|r| {
            let g: Vec<&str> = r.split(':').collect();
            if g.len() != 3 { return None; }
            let labels = if g[2] == "-" { None } else if g[2].is_empty() { Some(vec![]) } else {
                Some(g[2].split('&').map(|p| { let (n, v) = p.split_once('=')?; Some((unxhex(n)?, unxhex(v)?)) }).collect::<Option<Vec<_>>>()?) };
            Some(PRec { suffix: o(g[0])?, value: unxhex(g[1])?, labels })
        }).collect() };
        Some(PCall { name: unxhex(f[0])?, help: unxhex(f[1])?, ty: f[2].chars().next()?, unit: f[3].parse().ok()?, unit_name: o(f[4])?, recs: recs? })
    }).collect()
}

fn render_real(calls: &[PCall]) -> Result<String, String> {
    let calls = calls.to_vec();
    std::panic::catch_unwind(move || {
        let mut target = Target::new(OutputFormat::Prometheus);
        for c in &calls {
            let metric = Metric::new(leak(&c.name), leak(&c.help), type_of(c.ty), unit_of(c.unit).0);
            target.append(&metric, c.unit_name.as_deref(), |records| {
                for r in &c.recs {
                    match (&r.labels, &r.suffix) {
                        (None, None) => records.value(r.value.clone()),
                        (None, Some(s)) => records.suffixed_value(r.value.clone(), Some(s)),
                        (Some(ls), suf) => {
                            let refs: Vec<(&str, &str)> = ls.iter().map(|(n, v)| (n.as_str(), v.as_str())).collect();
                            match suf { None => records.label_value(&refs, r.value.clone()), Some(s) => records.suffixed_label_value(&refs, r.value.clone(), Some(s)) }
                        }
                    }
                }
            });
        }
        target.into_string()
    }).map_err(|_| "panic".to_string())
}

fn needs_escape(s: &str) -> bool { s.contains('"') || s.contains('\\') || s.contains('\n') }

/// The sample lines the calls must produce, from the calls alone.
fn expected_samples(calls: &[PCall]) -> Vec<(String, Vec<(String, String)>, String)> {
    let mut out = vec![];
    for c in calls {
        if c.ty == 't' { continue; }
        for r in &c.recs {
            let mut name = format!("rotonda_{}_{}", c.name, unit_of(c.unit).1);
            if let Some(s) = &r.suffix { name.push('_'); name.push_str(s); }
            let mut ls = vec![];
            if let Some(u) = &c.unit_name { ls.push(("component".to_string(), u.clone())); }
            if let Some(l) = &r.labels { ls.extend(l.iter().cloned()); }
            out.push((name, ls, r.value.clone()));
        }
    }
    out
}

/// The same samples in the order of a `Target` that keeps one block per metric name (order of first appearance).
fn grouped(calls: &[PCall]) -> Vec<(String, Vec<(String, String)>, String)> {
    let head = |c: &PCall| format!("rotonda_{}_{}", c.name, unit_of(c.unit).1);
    let mut names: Vec<String> = vec![];
    for c in calls { if c.ty != 't' && !names.contains(&head(c)) { names.push(head(c)); } }
    names.iter().flat_map(|n| expected_samples(&calls.iter().filter(|c| head(c) == *n).cloned().collect::<Vec<_>>())).collect()
}

fn run_pcase(calls: &[PCall]) -> (String, String, String, bool) {
    let case = pcase_line(calls);
    let text = match render_real(calls) { Ok(t) => t, Err(e) => return (case, e.clone(), format!("fail panic:metrics.rs:target-append {e}"), false) };
    let parsed = parse_text(&text);
    let imp = format!("{} {}", xhex(&text), show_parse(&parsed));
    let nasty = calls.iter().any(|c| c.unit_name.as_deref().is_some_and(needs_escape)
        || c.recs.iter().any(|r| r.labels.as_ref().is_some_and(|l| l.iter().any(|(_, v)| needs_escape(v)))));
    let want = expected_samples(calls);
    let oracle = match &parsed {
        None => if nasty { format!("fail {ESC_SIG} the text does not parse") } else { "fail prometheus-text-unparsable".to_string() },
        Some(ls) => {
            let got: Vec<(String, Vec<(String, String)>, String)> = ls.iter().filter_map(|l| match l { PLine::Sample(n, v, x) => Some((n.clone(), v.clone().unwrap_or_default(), x.clone())), _ => None }).collect();
            if got != want && got != grouped(calls) {
                if nasty { format!("fail {ESC_SIG} the text parses into different labels than were supplied") } else { "fail prometheus-samples-differ".to_string() }
            } else if let Some(n) = duplicate_meta(ls) { format!("fail {DUP_SIG} {n}") } else { "ok".into() }
        }
    };
    let nt = nasty || calls.len() >= 2;
    (case, imp, oracle, nt)
}

// ------------------------------------------------------------------ w cases
#[derive(Clone, Debug, PartialEq)]
enum Ev {
    Accept { c: usize, ip: usize },
    Msg { c: usize, spec: Spec },
    Unparsed { c: usize },
    Fault { c: usize, kind: char }, // n f e s p
    Sub { slot: usize, direct: bool, susp: bool },
    Suspend(usize), Unsuspend(usize), Unsub(usize), Kill(usize),
}

/// Template 3 contains a quote: an operator-supplied string that reaches the `router` label of the real unit.
const TEMPLATES: &[&str] = &["{sys_name}", "R{sys_name}", "bmp-{sys_name}-{router_ip}", "r\"{sys_name}"];
fn label_of(tmpl: usize, ingress_id: u32) -> String {
    TEMPLATES[tmpl].replace("{sys_name}", &ingress_id.to_string()).replace("{router_ip}", "IP").replace("{router_port}", "PORT")
}

fn ev_token(e: &Ev) -> Option<String> {
    Some(match e {
        Ev::Accept { c, ip } => format!("+{c}.{ip}.{ip}"),
        Ev::Msg { c, spec } => format!("{c}:{}", bmp::build(spec)?.token),
        Ev::Unparsed { c } => format!("{c}!u"),
        Ev::Fault { c, kind } => format!("{c}!{kind}"),
        Ev::Sub { slot, direct, susp } => format!("L+{slot}.{}{}", if *direct { 'd' } else { 'q' }, if *susp { 's' } else { 'a' }),
        Ev::Suspend(s) => format!("Ls{s}"), Ev::Unsuspend(s) => format!("Ln{s}"), Ev::Unsub(s) => format!("Lx{s}"), Ev::Kill(s) => format!("Lk{s}"),
    })
}
fn parse_ev(t: &str) -> Option<Ev> {
    if let Some(r) = t.strip_prefix("L+") {
        let (slot, k) = r.split_once('.')?;
        let k: Vec<char> = k.chars().collect();
        return Some(Ev::Sub { slot: slot.parse().ok()?, direct: k.first()? == &'d', susp: k.get(1)? == &'s' });
    }
    if let Some(r) = t.strip_prefix('+') { let p: Vec<&str> = r.split('.').collect(); return Some(Ev::Accept { c: p.first()?.parse().ok()?, ip: p.get(2)?.parse().ok()? }); }
    for (p, f) in [("Ls", Ev::Suspend as fn(usize) -> Ev), ("Ln", Ev::Unsuspend), ("Lx", Ev::Unsub), ("Lk", Ev::Kill)] {
        if let Some(r) = t.strip_prefix(p) { return Some(f(r.parse().ok()?)); }
    }
    if let Some((c, tok)) = t.split_once(':') { return Some(Ev::Msg { c: c.parse().ok()?, spec: bmp::parse_token(tok)? }); }
    let (c, k) = t.split_once('!')?;
    let c = c.parse().ok()?;
    match k { "u" => Some(Ev::Unparsed { c }), "n" | "f" | "e" | "s" | "p" => Some(Ev::Fault { c, kind: k.chars().next()? }), _ => None }
}

/// What the engine knows about one connection, from what it sent.
struct ConnRef {
    conn: Conn, rid: usize, live: bool, started: bool, terminated: bool, up: BTreeSet<usize>,
    recv: [u64; 7], processed: u64, invalid: u64, ioerr: u64,
    /// another connection with the same router id ended while this one was live
    disturbed: bool,
}
enum LinkObj { Q(Link), D(DirectLink) }
/// `flag`: the link's own `suspended` field (what `Link::suspend` looks at); `sink`: the only strong reference to a direct link's target.
struct LinkRef { obj: LinkObj, connected: bool, flag: bool, alive: bool, seen: usize, sink: Option<Arc<Sink>> }

#[derive(Clone, Default, PartialEq, Debug)]
struct Snap { acc: u64, lost: u64, bound: u64, clients: Option<u64>, g: (u64, u64, u64, bool), routers: BTreeMap<usize, [u64; 10]>, slots: (usize, usize), problems: Vec<String>, unescaped: Option<String> }

fn show_snap(s: &Snap) -> String {
    let cl = s.clients.map(|c| c.to_string()).unwrap_or("P".into());
    let rs = if s.routers.is_empty() { "-".to_string() } else {
        join(s.routers.iter().map(|(r, v)| format!("{r}[{};{};{};{}]", join(v[..7].iter(), ","), v[7], v[8], v[9])), "/") };
    format!("a{}l{}b{}c{cl}|g{}.{}.{}.{}|{rs}|s{}.{}", s.acc, s.lost, s.bound, s.g.0, s.g.1, s.g.2, s.g.3 as u8, s.slots.0, s.slots.1)
}

const TYPE_NAMES: [&str; 7] = ["Route Monitoring", "Statistics Report", "Peer Down Notification", "Peer Up Notification", "Initiation Message", "Termination Message", "Route Mirroring Message"];

fn snapshot(w: &World, labels: &BTreeMap<String, usize>) -> Snap {
    use std::sync::atomic::Ordering::SeqCst;
    let mut s = Snap::default();
    s.acc = w.bmp_in_metrics.connection_accepted_count.load(SeqCst) as u64;
    s.lost = w.bmp_in_metrics.connection_lost_count.load(SeqCst) as u64;
    s.bound = w.bmp_in_metrics.listener_bound_count.load(SeqCst) as u64;
    let (st, _) = w.graph_status();
    s.clients = st.and_then(|t| t.lines().next().and_then(|l| l.strip_prefix("clients: ").and_then(|n| n.parse().ok())));
    s.g = (w.gate_metrics.num_updates.load(SeqCst) as u64, w.gate_metrics.num_dropped_updates.load(SeqCst) as u64,
        w.gate_metrics.update_set_size.load(SeqCst) as u64, w.gate_metrics.update.load().is_some());
    s.slots = (w.gate_slots)();
    let mut text = w.metrics_text();
    if parse_text(&text).is_none() {
        // a router label that needs escaping was written as it is: to read the values nevertheless, the harness
        // escapes exactly those label strings itself (the oracle reports the unparsable text)
        let mut fixed = text.clone();
        for l in labels.keys().filter(|l| needs_escape(l)) {
            let esc = l.replace('\\', "\\\\").replace('"', "\\\"").replace('\n', "\\n");
            fixed = fixed.replace(&format!("router=\"{l}\""), &format!("router=\"{esc}\""));
        }
        if fixed != text && parse_text(&fixed).is_some() { s.unescaped = labels.keys().find(|l| needs_escape(l)).cloned(); text = fixed; }
    }
    let Some(lines) = parse_text(&text) else {
        let bad = text.lines().find(|l| { let mut c: Vec<char> = l.chars().collect(); c.push('\n'); parse_line(&c).is_none() }).unwrap_or("?");
        s.problems.push(format!("prometheus-text-unparsable {}", bad.replace(' ', "_")));
        return s;
    };
    let pre = "rotonda_bmp_tcp_in_";
    for l in &lines {
        let PLine::Sample(name, ls, v) = l else { continue };
        let v: i64 = v.parse().unwrap_or(-7);
        let ls = ls.clone().unwrap_or_default();
        let get = |k: &str| ls.iter().find(|(n, _)| n == k).map(|(_, v)| v.clone());
        if get("component").as_deref() != Some("bmp-in") { s.problems.push(format!("prometheus-component-label {name}")); }
        let rid = |s: &mut Snap| -> Option<usize> {
            let lab = get("router")?;
            match labels.get(&lab) { Some(r) => Some(*r), None => { s.problems.push(format!("prometheus-unexpected-router-label {}", lab.replace(' ', "_"))); None } }
        };
        let global = |s: &mut Snap, want: u64| if v != want as i64 { s.problems.push(format!("text-differs-from-atomic {name} {v} vs {want}")); };
        match name.as_str() {
            "rotonda_num_updates_total" => { let x = s.g.0; global(&mut s, x) },
            "rotonda_num_dropped_updates_total" => { let x = s.g.1; global(&mut s, x) },
            "rotonda_update_set_size_total" => { let x = s.g.2; global(&mut s, x) },
            "rotonda_bmp_tcp_in_listener_bound_count_total" => { let x = s.bound; global(&mut s, x) },
            "rotonda_bmp_tcp_in_connection_accepted_count_total" => { let x = s.acc; global(&mut s, x) },
            "rotonda_bmp_tcp_in_connection_lost_count_total" => { let x = s.lost; global(&mut s, x) },
            n if n == format!("{pre}num_bmp_messages_received_total") => {
                if let (Some(r), Some(t)) = (rid(&mut s), get("msg_type").and_then(|t| TYPE_NAMES.iter().position(|x| *x == t))) { s.routers.entry(r).or_insert([0; 10])[t] = v as u64; }
                else { s.problems.push("prometheus-unexpected-msg-type-label".into()); }
            }
            n if n == format!("{pre}num_bmp_messages_processed_total") => if let Some(r) = rid(&mut s) { s.routers.entry(r).or_insert([0; 10])[7] = v as u64; },
            "rotonda_bmp_in_num_invalid_bmp_messages_total" => if let Some(r) = rid(&mut s) { s.routers.entry(r).or_insert([0; 10])[8] = v as u64; },
            n if n == format!("{pre}num_receive_io_errors_total") => if let Some(r) = rid(&mut s) { s.routers.entry(r).or_insert([0; 10])[9] = v as u64; },
            _ => {}
        }
    }
    if s.g.3 != lines.iter().any(|l| matches!(l, PLine::Sample(n, _, _) if n == "rotonda_update_set_size_total")) { s.problems.push("text-differs-from-atomic update_set_size presence".into()); }
    s
}

fn type_idx(s: &Spec) -> usize { match s { Spec::Rm(..) => 0, Spec::Stats(_) => 1, Spec::PeerDown(_) => 2, Spec::PeerUp(..) => 3, Spec::Init => 4, Spec::Term => 5, Spec::Mirror(_) => 6 } }

/// Lets the accept loop (root gate) and every router task (gate clones) handle the commands a link sent. One worker
/// thread: every yield runs all tasks that are ready.
async fn settle_links() { for _ in 0..64 { tokio::task::yield_now().await; } }
async fn settle_conn(c: &Conn) -> Option<bool> { tokio::time::timeout(Duration::from_secs(10), c.settled()).await.ok() }

fn count_update(u: &Update, last_bulk: &mut Option<usize>) { if let Update::Bulk(b) = u { *last_bulk = Some(b.len()); } }

struct WorldOut { obs: Vec<String>, unknown: Vec<String>, known: Vec<String>, flags: BTreeSet<&'static str> }

async fn world_case(tmpl: usize, evs: Vec<Ev>) -> WorldOut {
    let mut out = WorldOut { obs: vec![], unknown: vec![], known: vec![], flags: BTreeSet::new() };
    let template = if tmpl == 0 { None } else { Some(TEMPLATES[tmpl].to_string()) };
    let w = World::with_queue_len(512, false, template, TracingMode::Off).await;
    let mut conns: BTreeMap<usize, ConnRef> = BTreeMap::new();
    let mut links: BTreeMap<usize, LinkRef> = BTreeMap::new();
    let mut labels: BTreeMap<String, usize> = BTreeMap::new();
    let mut prev = snapshot(&w, &labels);
    let mut last_bulk: Option<usize> = Some(0);
    let mut agent = w.agent.clone();
    for ev in evs {
        let (mut need_min, mut need_max) = (0u64, 0u64);
        let mut ended_rid: Option<usize> = None;
        let mut stuck = false;
        match &ev {
            Ev::Accept { c, ip } => {
                let addr: SocketAddr = format!("10.9.{ip}.1:{}", 2000 + c).parse().unwrap();
                let conn = match tokio::time::timeout(Duration::from_secs(10), w.connect(addr)).await { Ok(c) => c, Err(_) => { out.obs.push("stuck".into()); out.unknown.push("engine-stuck accept".into()); break; } };
                if let Some(id) = w.router_ingress_id(addr.ip()) { labels.insert(label_of(tmpl, id), *ip); } else { out.unknown.push("no-router-ingress-id".into()); }
                if conns.values().any(|x| x.live && x.rid == *ip) { out.flags.insert("shared-rid"); }
                conns.insert(*c, ConnRef { conn, rid: *ip, live: true, started: false, terminated: false, up: BTreeSet::new(), recv: [0; 7], processed: 0, invalid: 0, ioerr: 0, disturbed: false });
            }
            Ev::Msg { c, spec } => {
                let Some(x) = conns.get_mut(c).filter(|x| x.live) else { out.obs.push(show_snap(&prev)); continue };
                let built = bmp::build(spec).expect("buildable");
                // the ledger, from the protocol rules
                let violation = if !x.started { *spec != Spec::Init } else if x.terminated { true } else {
                    match spec { Spec::Rm(h, _) | Spec::PeerDown(h) => !x.up.contains(h), Spec::PeerUp(h, _) => x.up.contains(h), _ => false } };
                x.recv[type_idx(spec)] += 1;
                x.processed += 1;
                let mut ends = false;
                if violation { x.invalid += 1; out.flags.insert("invalid"); } else {
                    match spec {
                        Spec::Init => x.started = true,
                        Spec::Term => { x.terminated = true; ends = true; need_max += 1; if !x.up.is_empty() { need_min += 1; } x.up.clear(); }
                        Spec::PeerUp(h, _) => { x.up.insert(*h); }
                        Spec::PeerDown(h) => { x.up.remove(h); need_min += 1; need_max += 1; }
                        Spec::Rm(..) => {
                            // an UPDATE that carries routes must be passed on; End-of-RIB markers / empty UPDATEs may or may not be
                            let f: Vec<&str> = built.token.split('.').collect();
                            need_max += 1;
                            if f[3] == "-" && f[5].parse::<u32>().unwrap_or(0) + f[6].parse::<u32>().unwrap_or(0) > 0 { need_min += 1; }
                        }
                        _ => {}
                    }
                }
                if ends { need_min += 2; need_max += 2; x.live = false; ended_rid = Some(x.rid); }
                x.conn.push(Item::Data(built.bytes.to_vec()));
                match settle_conn(&x.conn).await { None => stuck = true, Some(done) => if done != ends { out.unknown.push(format!("connection-{}", if done { "closed-unexpectedly" } else { "still-open-after-termination" })); } }
            }
            Ev::Unparsed { c } => {
                let Some(x) = conns.get_mut(c).filter(|x| x.live) else { out.obs.push(show_snap(&prev)); continue };
                x.ioerr += 1;
                x.conn.push(Item::Data(vec![3, 0, 0, 0, 6, 9]));
                match settle_conn(&x.conn).await { None => stuck = true, Some(done) => if done { out.unknown.push("connection-closed-unexpectedly".into()); } }
            }
            Ev::Fault { c, kind } => {
                let Some(x) = conns.get_mut(c).filter(|x| x.live) else { out.obs.push(show_snap(&prev)); continue };
                x.ioerr += 1;
                let fatal = *kind != 'n';
                match kind {
                    'n' => x.conn.push(Item::Fault(std::io::ErrorKind::TimedOut)),
                    'f' => x.conn.push(Item::Fault(std::io::ErrorKind::ConnectionReset)),
                    'e' => x.conn.push(Item::Eof),
                    's' => x.conn.push(Item::Data(vec![3, 0, 0, 0, 3])),
                    _ => { x.conn.push(Item::Data(vec![3, 0, 0])); x.conn.push(Item::Eof); }
                }
                if fatal { need_min += 2; need_max += 2; x.live = false; ended_rid = Some(x.rid); out.flags.insert("lost"); }
                match settle_conn(&x.conn).await { None => stuck = true, Some(done) => if done != fatal { out.unknown.push(format!("connection-{}", if done { "closed-unexpectedly" } else { "still-open-after-fatal-error" })); } }
            }
            Ev::Sub { slot, direct, susp } => {
                if links.contains_key(slot) { out.obs.push(show_snap(&prev)); continue; }
                let sink = Arc::new(Sink::default());
                let (obj, ok, sink) = if *direct {
                    let mut dl = DirectLink::from(agent.create_link());
                    let t: Arc<dyn AnyDirectUpdate> = sink.clone();
                    let ok = tokio::time::timeout(Duration::from_secs(10), dl.connect(t, *susp)).await.map(|r| r.is_ok()).unwrap_or(false);
                    (LinkObj::D(dl), ok, Some(sink))
                } else {
                    let mut l = agent.create_link();
                    let ok = tokio::time::timeout(Duration::from_secs(10), l.connect(*susp)).await.map(|r| r.is_ok()).unwrap_or(false);
                    (LinkObj::Q(l), ok, None)
                };
                if !ok { out.unknown.push("link-connect-failed".into()); }
                links.insert(*slot, LinkRef { obj, connected: ok, flag: *susp, alive: true, seen: 0, sink });
            }
            Ev::Suspend(s) => {
                // `Link::suspend` itself does nothing when the link's flag is set
                if let Some(l) = links.get_mut(s).filter(|l| l.connected) {
                    match &mut l.obj { LinkObj::Q(q) => q.suspend().await, LinkObj::D(d) => d.suspend().await }
                    l.flag = true;
                }
            }
            Ev::Unsuspend(s) => {
                if let Some(l) = links.get_mut(s).filter(|l| l.connected) {
                    match &mut l.obj { LinkObj::Q(q) => vg::link_unsuspend(q).await, LinkObj::D(d) => vg::direct_link_unsuspend(d).await }
                    l.flag = false;
                }
            }
            Ev::Unsub(s) => {
                if let Some(l) = links.get_mut(s).filter(|l| l.connected) {
                    match &mut l.obj { LinkObj::Q(q) => q.disconnect().await, LinkObj::D(d) => d.disconnect().await }
                    l.connected = false;
                }
            }
            Ev::Kill(s) => {
                if let Some(l) = links.get_mut(s).filter(|l| l.connected) {
                    if let LinkObj::Q(q) = &mut l.obj { q.close() }
                    l.sink = None; // the gate holds a Weak only
                    l.alive = false;
                }
            }
        }
        if stuck { out.obs.push("stuck".into()); out.unknown.push("engine-stuck handler does not settle (panic in the router task?)".into()); break; }
        settle_links().await;
        if let Some(r) = ended_rid { for x in conns.values_mut() { if x.live && x.rid == r { x.disturbed = true; } } }

        // ---- what every link received during this event
        let mut deltas: BTreeMap<usize, usize> = BTreeMap::new();
        let mut bulk_seen: Option<usize> = None;
        for (k, l) in links.iter_mut() {
            let mut n = 0;
            match &mut l.obj {
                LinkObj::Q(q) => { if l.connected && l.alive { while let Some(Ok(u)) = q.query().now_or_never() { n += 1; count_update(&u, &mut bulk_seen); } } }
                LinkObj::D(..) => if let Some(sink) = &l.sink { let got = sink.updates.lock().unwrap(); n = got.len() - l.seen; for u in &got[l.seen..] { count_update(u, &mut bulk_seen); } l.seen = got.len(); },
            }
            deltas.insert(*k, n);
        }
        let receivers: Vec<usize> = deltas.iter().filter(|(_, n)| **n > 0).map(|(k, _)| *k).collect();
        let snap = snapshot(&w, &labels);
        out.obs.push(show_snap(&snap));

        // ---- the oracle
        out.unknown.extend(snap.problems.iter().cloned());
        if let Some(l) = &snap.unescaped { out.known.push(format!("{ESC_SIG} the unit's exposition does not parse: router label {} written as it is", xhex(l))); }
        let live = conns.values().filter(|x| x.live).count() as u64;
        if snap.acc != conns.len() as u64 { out.unknown.push(format!("metrics-disagree:accepted {} want {}", snap.acc, conns.len())); }
        if snap.lost != conns.len() as u64 - live { out.unknown.push(format!("metrics-disagree:lost {} want {}", snap.lost, conns.len() as u64 - live)); }
        if snap.bound != 1 { out.unknown.push(format!("metrics-disagree:bound {}", snap.bound)); }
        match snap.clients { None => out.unknown.push("gauge-underflow clients (status_text panicked)".into()), Some(c) => if c != live { out.unknown.push(format!("metrics-disagree:clients {c} want {live}")); } }
        if snap.acc < prev.acc || snap.lost < prev.lost || snap.bound < prev.bound || snap.g.0 < prev.g.0 || snap.g.1 < prev.g.1 { out.unknown.push("counter-decreased unit or gate counter".into()); }
        // gate
        let (dn, dd) = (snap.g.0 - prev.g.0.min(snap.g.0), snap.g.1 - prev.g.1.min(snap.g.1));
        if dd > dn || snap.g.1 > snap.g.0 { out.unknown.push(format!("metrics-disagree:gate dropped {} exceeds updates {}", snap.g.1, snap.g.0)); }
        if dn < need_min || dn > need_max { out.unknown.push(format!("metrics-disagree:gate-updates {dn} new updates, the traffic implies {need_min}..{need_max}")); }
        if receivers.is_empty() {
            // nobody received anything: every update of this event was dropped
            if dd != dn { out.unknown.push(format!("metrics-disagree:gate-dropped {dd} of {dn} updates counted as dropped, no link received one")); }
            if dn > 0 { out.flags.insert("dropped"); last_bulk = None; }
        } else {
            if dd != 0 { out.unknown.push(format!("metrics-disagree:gate-dropped {dd} updates counted as dropped although link {} received them", receivers[0])); }
            for k in &receivers { if deltas[k] as u64 != dn { out.unknown.push(format!("metrics-disagree:gate-updates counter moved by {dn}, link {k} received {}", deltas[k])); } }
            if bulk_seen.is_some() { last_bulk = bulk_seen; }
            out.flags.insert("delivered");
        }
        if let Some(b) = last_bulk { if snap.g.2 != b as u64 { out.unknown.push(format!("metrics-disagree:update_set_size {} want {b}", snap.g.2)); } }
        if snap.g.3 != (snap.g.0 > 0) { out.unknown.push("metrics-disagree:last_update presence".into()); }
        // per router
        let rids: BTreeSet<usize> = conns.values().filter(|x| x.live).map(|x| x.rid).collect();
        for r in rids {
            let mut want = [0u64; 10];
            let mut disturbed = false;
            for x in conns.values().filter(|x| x.live && x.rid == r) {
                for i in 0..7 { want[i] += x.recv[i]; }
                want[7] += x.processed; want[8] += x.invalid; want[9] += x.ioerr;
                disturbed |= x.disturbed;
            }
            let got = snap.routers.get(&r).copied().unwrap_or([0; 10]);
            if got != want {
                if disturbed { out.known.push(format!("{SHARED_SIG} router {r}: exported {got:?}, its live connection(s) delivered {want:?}")); }
                else {
                    let f = (0..10).find(|i| got[*i] != want[*i]).unwrap();
                    let name = match f { 0..=6 => "received", 7 => "processed", 8 => "invalid", _ => "io_errors" };
                    out.unknown.push(format!("metrics-disagree:{name} router {r}: exported {got:?}, the traffic implies {want:?}"));
                }
            }
            // a router that stayed connected over this event: nothing may go down
            if ended_rid != Some(r) || conns.values().any(|x| x.live && x.rid == r) {
                if let Some(p) = prev.routers.get(&r) {
                    if (0..10).any(|i| got[i] < p[i]) {
                        if ended_rid == Some(r) { out.known.push(format!("{SHARED_SIG} router {r}: counters went from {p:?} to {got:?} while a connection of it stayed up")); }
                        else { out.unknown.push(format!("counter-decreased router {r}: {p:?} -> {got:?}")); }
                    }
                }
            }
        }
        prev = snap;
    }
    // ---- end of case: the exposition-level rule (one HELP / TYPE per metric name)
    if let Some(ls) = parse_text(&w.metrics_text()) { if let Some(n) = duplicate_meta(&ls) { out.known.push(format!("{DUP_SIG} {n}")); } }
    if conns.len() >= 2 { out.flags.insert("two-connections"); }
    w.runner.abort();
    out
}

fn run_wcase(tmpl: usize, evs: &[Ev], rec: &mut Recorder) -> Option<(String, String, String, bool)> {
    let toks: Option<Vec<String>> = evs.iter().map(ev_token).collect();
    let case = format!("w|{tmpl}|{}|{}", join(bmp::key_classes(), ","), join(toks?, " "));
    let rt = tokio::runtime::Builder::new_multi_thread().worker_threads(1).enable_all().build().unwrap();
    let evs2 = evs.to_vec();
    let res = rt.block_on(async move { tokio::spawn(world_case(tmpl, evs2)).await });
    rt.shutdown_timeout(Duration::from_millis(200));
    let out = match res { Ok(o) => o, Err(_) => return Some((case, "panic".into(), "fail panic:engine-task".into(), false)) };
    for k in &out.known { rec.bump(&format!("known.{}", k.split_whitespace().next().unwrap())); }
    for f in &out.flags { rec.bump(&format!("w.{f}")); }
    let oracle = match (out.unknown.first(), out.known.first()) { (Some(u), _) => format!("fail {u}"), (None, Some(k)) => format!("fail {k}"), _ => "ok".into() };
    let nt = ["two-connections", "lost", "invalid", "delivered", "dropped"].iter().all(|f| out.flags.contains(f));
    Some((case, join(out.obs, " "), oracle, nt))
}

// ------------------------------------------------------------------ generators
const RM_OK: &[&str] = &["a1", "a3", "w1", "w2", "x2", "A2", "W1", "e4", "e6"];

fn gen_world(rng: &mut Rng, long: bool) -> (usize, Vec<Ev>) {
    let tmpl = if rng.chance(7, 10) { 0 } else if rng.chance(1, 6) { 3 } else { 1 + rng.below(2) as usize };
    let len = if long { rng.range(40, 90) } else { rng.range(6, 40) } as usize;
    let nip = rng.range(1, 3) as usize;
    let share = rng.chance(1, 4); // allow a second live connection from an address that already has one
    let mut evs = vec![];
    // generator-side guess of the state (only steers the distribution)
    struct G { ip: usize, live: bool, started: bool, up: Vec<usize> }
    let mut cs: Vec<G> = vec![];
    let mut slots: Vec<(usize, bool, bool, bool)> = vec![]; // slot, connected, active, alive
    let mut link_cmds = 0;
    while evs.len() < len {
        let live: Vec<usize> = (0..cs.len()).filter(|i| cs[*i].live).collect();
        let r = rng.below(100);
        if live.is_empty() || (r < 6 && cs.len() < 6) {
            let ip = rng.below(nip as u64) as usize;
            if !share && cs.iter().any(|g| g.live && g.ip == ip) { if live.is_empty() { continue; } } else {
                evs.push(Ev::Accept { c: cs.len(), ip });
                cs.push(G { ip, live: true, started: false, up: vec![] });
                continue;
            }
        }
        if r < 18 {
            // link events (at most 12 subscribe / unsubscribe commands per case: every router task holds a gate clone
            // whose command queue of 16 is never read)
            let k = rng.below(10);
            let pick = |rng: &mut Rng, v: &Vec<(usize, bool, bool, bool)>| if v.is_empty() { None } else { Some(rng.below(v.len() as u64) as usize) };
            if (k < 4 || slots.is_empty()) && link_cmds < 12 && slots.len() < 4 {
                let slot = slots.len();
                let susp = rng.chance(1, 4);
                evs.push(Ev::Sub { slot, direct: rng.chance(2, 3), susp });
                slots.push((slot, true, !susp, true));
                link_cmds += 1;
            } else if let Some(i) = pick(rng, &slots) {
                let s = &mut slots[i];
                if !s.1 { continue; }
                match k { 4 | 5 => { evs.push(Ev::Suspend(s.0)); s.2 = false; } 6 | 7 => { evs.push(Ev::Unsuspend(s.0)); s.2 = true; }
                    8 => { evs.push(Ev::Kill(s.0)); s.3 = false; } _ => if link_cmds < 12 { evs.push(Ev::Unsub(s.0)); s.1 = false; link_cmds += 1; } }
            }
            continue;
        }
        if live.is_empty() { continue; }
        let c = *rng.pick(&live);
        let g = &mut cs[c];
        let any_h = rng.below(NHDR as u64) as usize;
        let up_h = if g.up.is_empty() { any_h } else { *rng.pick(&g.up) };
        let e = if !g.started && rng.chance(9, 10) { g.started = true; Ev::Msg { c, spec: Spec::Init } }
            else if r < 24 { Ev::Unparsed { c } }
            else if r < 28 { Ev::Fault { c, kind: 'n' } }
            else if r < 34 { g.live = false; Ev::Fault { c, kind: *rng.pick(&['f', 'e', 'e', 's', 'p']) } }
            else if r < 38 { if g.started { g.live = false; } Ev::Msg { c, spec: Spec::Term } }
            else if r < 52 { if !g.up.contains(&any_h) { g.up.push(any_h); } Ev::Msg { c, spec: Spec::PeerUp(any_h, rng.chance(1, 2)) } }
            else if r < 62 { let h = if rng.chance(5, 6) { up_h } else { any_h }; g.up.retain(|x| *x != h); Ev::Msg { c, spec: Spec::PeerDown(h) } }
            else if r < 90 { let h = if rng.chance(9, 10) { up_h } else { any_h }; Ev::Msg { c, spec: Spec::Rm(h, rng.pick(RM_OK).to_string()) } }
            else if r < 94 { Ev::Msg { c, spec: Spec::Stats(any_h) } }
            else if r < 97 { Ev::Msg { c, spec: Spec::Mirror(any_h) } }
            else { Ev::Msg { c, spec: Spec::Init } };
        evs.push(e);
    }
    (tmpl, evs)
}

const NAMES: &[&str] = &["num_updates", "bmp_tcp_in_connection_lost_count", "m", "a:b", "X_9", "bmp_state_machine_state"];
const HELPS: &[&str] = &["the number of updates sent through the gate", "h", "", "per cent: 100% (of what?) {x}", "two  spaces # and a hash"];
const LNAMES: &[&str] = &["router", "msg_type", "topic", "l_1", "_x"];
const SUFFIXES: &[&str] = &["count", "sum", "bucket"];
const VALUES: &[&str] = &["0", "1", "17", "-1", "18446744073709551615", "007"];

fn gen_string(rng: &mut Rng, nasty: bool) -> String {
    let plain = ["bmp-in", "2", "rib-in-pre", "Route Monitoring", "10.0.0.1", "", "mqtt/topic", "x{y}z", "a=b,c", "ünï-cødé", "per cent %", "#1"];
    if !nasty { return rng.pick(&plain).to_string(); }
    let alphabet = ['"', '\\', '\n', 'a', 'b', ' ', '{', '}', ',', '=', 'n', 'é', '"', '\\'];
    // one nasty string in ten is long: plain text up to a length around 64 / 128 / 256 / 1024 with a character that
    // needs escaping (or a multi-byte one) right at that length, so that any cap, truncation or chunking of a label
    // value — before or after escaping — meets an escape sequence or a character at its edge
    if rng.chance(1, 10) {
        let at = *rng.pick(&[60usize, 63, 64, 120, 126, 127, 128, 129, 130, 250, 254, 255, 256, 1022, 1023, 1024]) + rng.below(3) as usize;
        let mut t: String = std::iter::repeat('a').take(at).collect();
        for _ in 0..rng.range(1, 4) { t.push(*rng.pick(&['"', '\\', '\n', 'é', '"'])); }
        for _ in 0..rng.below(6) { t.push('z'); }
        return t;
    }
    let n = rng.range(1, 7);
    (0..n).map(|_| *rng.pick(&alphabet)).collect()
}

fn gen_prom(rng: &mut Rng) -> Vec<PCall> {
    let n = rng.range(1, 4);
    let nasty_case = rng.chance(1, 2);
    let mut calls: Vec<PCall> = vec![];
    for _ in 0..n {
        if !calls.is_empty() && rng.chance(1, 5) { let mut c = calls[0].clone(); for r in &mut c.recs { r.value = rng.pick(VALUES).to_string(); } calls.push(c); continue; }
        let unit_name = if rng.chance(1, 6) { None } else { let n = nasty_case && rng.chance(1, 4); Some(gen_string(rng, n)) };
        let nrec = rng.range(0, 3);
        let recs = (0..nrec).map(|_| {
            let labels = if rng.chance(1, 3) { None } else {
                let k = rng.range(0, 3);
                Some((0..k).map(|_| { let n = nasty_case && rng.chance(1, 2); (rng.pick(LNAMES).to_string(), gen_string(rng, n)) }).collect())
            };
            PRec { suffix: if rng.chance(1, 5) { Some(rng.pick(SUFFIXES).to_string()) } else { None }, value: rng.pick(VALUES).to_string(), labels }
        }).collect();
        calls.push(PCall { name: rng.pick(NAMES).to_string(), help: rng.pick(HELPS).to_string(), ty: *rng.pick(&['c', 'g', 'c', 'g', 'h', 's', 't']), unit: rng.below(7) as u8, unit_name, recs });
    }
    calls
}

fn lv(n: &str, v: &str) -> (String, String) { (n.to_string(), v.to_string()) }
fn simple_call(unit: &str, labels: Vec<(String, String)>) -> PCall {
    PCall { name: "m".into(), help: "h".into(), ty: 'c', unit: 4, unit_name: Some(unit.into()), recs: vec![PRec { suffix: None, value: "1".into(), labels: Some(labels) }] }
}

fn main() {
    std::panic::set_hook(Box::new(|_| {}));
    let args = parse_args();
    let t0 = Instant::now();
    let mut rec = Recorder::new("a w case (one BMP unit: accept loop, router handlers, links on its gate) is non-trivial if it has at least two connections, a connection that ended, a message rejected as a lifecycle violation, a gate update delivered to a link and one dropped; a p case (Target::append calls) is non-trivial if a label value or unit name contains a quote, backslash or newline, or it has at least two append calls");
    let emit_w = |tmpl: usize, evs: &[Ev], rec: &mut Recorder| -> Option<String> {
        match run_wcase(tmpl, evs, rec) { Some((c, i, o, nt)) => { rec.case(c, i.clone(), o, nt); Some(i) } None => { rec.bump("unbuildable-skipped"); None } }
    };
    let emit_p = |calls: &[PCall], rec: &mut Recorder| -> String { let (c, i, o, nt) = run_pcase(calls); rec.case(c, i.clone(), o, nt); i };

    if let Some(path) = &args.replay {
        for line in replay_cases(path) {
            if line.starts_with("p|") { match parse_pcase(&line) { Some(c) => { emit_p(&c, &mut rec); } None => rec.bump("unparsable-replay-line") } continue; }
            let parts: Vec<&str> = line.split('|').collect();
            let evs: Option<Vec<Ev>> = parts.get(3).and_then(|m| m.split_whitespace().map(parse_ev).collect());
            match (parts.get(1).and_then(|t| t.parse::<usize>().ok()).filter(|t| *t < TEMPLATES.len()), evs) { (Some(t), Some(e)) => { emit_w(t, &e, &mut rec); } _ => rec.bump("unparsable-replay-line") }
        }
        rec.finish(&args, t0.elapsed().as_secs_f64());
        return;
    }

    // ---- witnesses first
    // (a) the label-value witness of the Lean counterexample: does `Target` escape a quote?
    let w = emit_p(&[simple_call("u", vec![lv("a", "b\"c")])], &mut rec);
    rec.variant("promescape", if w.contains(&hex("b\\\"c")) { "repaired" } else { "as-written" });
    // (b) injection: the value closes its quotes and adds a label of its own
    emit_p(&[simple_call("u", vec![lv("a", "x\",evil=\"1")])], &mut rec);
    emit_p(&[simple_call("u\nrotonda_fake 1", vec![])], &mut rec);
    emit_p(&[simple_call("u", vec![lv("a", "tail\\")])], &mut rec);
    // (c) two appends of one metric (what `append_per_router_metric` does per router)
    let w = emit_p(&[simple_call("u", vec![lv("router", "1")]), simple_call("u", vec![lv("router", "2")])], &mut rec);
    rec.variant("promgroup", if w.matches(&hex("# HELP rotonda_m_total")).count() >= 2 { "as-written" } else { "repaired" });
    // two metrics interleaved, one of them with a suffix
    emit_p(&[simple_call("u", vec![lv("router", "1")]), PCall { name: "n".into(), help: "h".into(), ty: 'h', unit: 0, unit_name: Some("u".into()), recs: vec![PRec { suffix: Some("count".into()), value: "3".into(), labels: None }] },
        simple_call("v", vec![lv("router", "2")])], &mut rec);
    // (d) clean calls
    emit_p(&[simple_call("bmp-in", vec![lv("router", "2"), lv("msg_type", "Route Monitoring")]), PCall { name: "since_last_update".into(), help: "the number of seconds since the last update".into(), ty: 'g', unit: 0, unit_name: Some("bmp-in".into()), recs: vec![PRec { suffix: None, value: "-1".into(), labels: None }] },
        PCall { name: "last_update".into(), help: "the date and time of the last update".into(), ty: 't', unit: 6, unit_name: Some("bmp-in".into()), recs: vec![PRec { suffix: None, value: "N/A".into(), labels: None }] },
        PCall { name: "metric_assemble_duration".into(), help: "the time taken in milliseconds to assemble the last metric snapshot".into(), ty: 'g', unit: 1, unit_name: None, recs: vec![PRec { suffix: None, value: "3".into(), labels: None }] }], &mut rec);
    use Spec::*;
    let rm = |h: usize, k: &str| Rm(h, k.to_string());
    let m = |c: usize, spec: Spec| Ev::Msg { c, spec };
    // (e) two live connections from one address: the end of one deletes the other's counters
    emit_w(0, &[Ev::Accept { c: 0, ip: 0 }, Ev::Accept { c: 1, ip: 0 }, m(0, Init), m(1, Init), Ev::Fault { c: 0, kind: 'e' }, m(1, Stats(0))], &mut rec);
    // (e') the router id template of the configuration contains a quote: the real unit's exposition
    emit_w(3, &[Ev::Accept { c: 0, ip: 0 }, m(0, Init), m(0, Stats(0))], &mut rec);
    // (f) one router, all event kinds, a link that comes, is suspended, resumed, dies
    emit_w(0, &[Ev::Accept { c: 0, ip: 0 }, m(0, PeerUp(0, true)), m(0, Init), m(0, PeerUp(0, true)), m(0, rm(0, "a3")), Ev::Sub { slot: 0, direct: true, susp: false }, m(0, rm(0, "w2")),
        Ev::Suspend(0), m(0, rm(0, "a1")), Ev::Unsuspend(0), m(0, rm(1, "a1")), Ev::Unparsed { c: 0 }, Ev::Fault { c: 0, kind: 'n' }, Ev::Kill(0), m(0, PeerDown(0)), m(0, Term),
        Ev::Accept { c: 1, ip: 0 }, m(1, Init), m(1, Stats(0)), Ev::Fault { c: 1, kind: 'f' }], &mut rec);
    // (g) two routers, a queue link and a suspended direct link
    emit_w(1, &[Ev::Sub { slot: 0, direct: false, susp: false }, Ev::Sub { slot: 1, direct: true, susp: true }, Ev::Accept { c: 0, ip: 0 }, Ev::Accept { c: 1, ip: 1 }, m(0, Init), m(1, Init), m(1, PeerUp(1, false)),
        m(1, rm(1, "x2")), m(0, Mirror(0)), Ev::Unsub(0), m(1, rm(1, "A2")), Ev::Unsuspend(1), m(1, rm(1, "e4")), m(1, Term), Ev::Fault { c: 0, kind: 'p' }], &mut rec);

    // ---- random
    let mut rng = Rng::new(args.seed);
    let (n_w, n_long, n_p) = if args.thorough { (6000, 400, 60_000) } else { (500, 20, 6_000) };
    for i in 0..n_w + n_long { let (t, e) = gen_world(&mut rng, i >= n_w); emit_w(t, &e, &mut rec); }
    for _ in 0..n_p { let c = gen_prom(&mut rng); emit_p(&c, &mut rec); }
    rec.finish(&args, t0.elapsed().as_secs_f64());
}
