//! ConfigLoad engine (part 2 of area HttpServer, attached to C13): the loader's real entry — a configuration FILE
//! on disk through `ConfigFile::load` -> `Config::from_config_file` / `Config::from_arg_matches` (-> `Manager::load`
//! -> `finalise` -> `switch_logging` -> `Manager::prepare` incl. `compile_roto_script`) -> `spawn` (recording
//! closures, as C13) — vs the Lean model `Model/ConfigLoad.lean` (on top of C13's `Model/Mgr.lean`).
//!
//! One case = a sequence of (re)loads on one manager. Per load the accept/reject decision, the CLASS of the error
//! the operator is shown (log text) and its position mark are compared; `unit:queue-len` link options are counted
//! through the loader's warnings, and a few really spawned pipelines show what a gate does with the accepted value.
//!
//! Case line: step ('/' step)*, step := <C13 step> ';f:' E S V ';l:' lens ';q:' opts
//!   E := 'e' file exists | 'n' no such file;  S := '-' no roto_script key | 'm' script missing | 'b' does not compile
//!   | 'g' compiles | 'G' compiles, absolute path;  V := 'f' from_config_file | 'a' from_arg_matches (relative path)
//!   lens := lengths of the '\n'-separated pieces of the document the loader works on (observed, input of the marks)
//!   opts := the `:<text>` options on link names of the document, hex, '+'-separated
//! or 'Q|' opt-hex for a live queue-length case.
use std::collections::{BTreeMap, BTreeSet};
use std::panic::{catch_unwind, AssertUnwindSafe};
use std::sync::Mutex;
use std::time::{Duration, Instant};

use rotonda::verif::manager as vm;
use verif_harness::{join, parse_args, rng::Rng, Recorder};

// ------------------------------------------------------------------ what the operator is shown

static LOG: Mutex<Vec<String>> = Mutex::new(Vec::new());
static PANICS: Mutex<Vec<String>> = Mutex::new(Vec::new());
struct Cap;
impl log::Log for Cap {
    fn enabled(&self, m: &log::Metadata) -> bool { m.level() <= log::Level::Warn && m.target().starts_with("rotonda") }
    // the loader runs on the engine's own thread: what tasks of earlier (live) pipelines still log elsewhere is not its text
    fn log(&self, r: &log::Record) { if self.enabled(r.metadata()) && (std::thread::current().name() == Some("main") || r.args().to_string().contains("Invalid queue length")) { LOG.lock().unwrap().push(format!("{} {}", r.level(), r.args())); } }
    fn flush(&self) {}
}
static CAP: Cap = Cap;

fn hex(b: &[u8]) -> String { let mut s = String::from("x"); for x in b { s.push_str(&format!("{x:02x}")); } s }
fn unhex(s: &str) -> Option<Vec<u8>> { let s = s.strip_prefix('x')?; if s.len() % 2 != 0 { return None; } (0..s.len() / 2).map(|i| u8::from_str_radix(&s[2 * i..2 * i + 2], 16).ok()).collect() }

// ------------------------------------------------------------------ documents (C13's encoding, copied from c13.rs)

#[derive(Clone, Debug, PartialEq)]
enum V { S(u32), Bad }
#[derive(Clone, Debug, PartialEq)]
enum Srcs { Absent, One(V), Many(Vec<V>) }
#[derive(Clone, Debug, PartialEq)]
struct RawComp { name: u32, ty: Option<u32>, sources: Srcs, source: Option<V>, filters: u32 }
#[derive(Clone, Debug, PartialEq, Default)]
struct Doc { not_toml: bool, units: Vec<RawComp>, targets: Vec<RawComp> }

/// what is on disk around the document
#[derive(Clone, Debug, PartialEq)]
struct Step {
    doc: Doc,
    exists: bool,
    script: char,          // '-', 'm', 'b', 'g', 'G'
    via_args: bool,
    /// link options: (component index in units++targets, source index) -> text after ':'
    opts: Vec<Vec<u8>>,
    /// comment / blank lines put before the document and between its tables (moves every line)
    padding: u32,
    scalar_listen: bool,
}

const UNIT_TYPES: [&str; 5] = ["bmp-tcp-in", "bgp-tcp-in", "mrt-file-in", "filter", "rib"];
const TARGET_TYPES: [&str; 3] = ["null-out", "file-out", "mqtt-out"];

fn name_str(n: u32) -> String { if n >= 100 { format!("u{}-vRIB-{}", (n - 100) / 10, (n - 100) % 10) } else { format!("u{n}") } }
fn tname_str(n: u32) -> String { format!("t{n}") }
fn name_id(s: &str) -> u32 {
    if let Some((base, k)) = s.split_once("-vRIB-") { 100 + base[1..].parse::<u32>().unwrap_or(0) * 10 + k.parse::<u32>().unwrap_or(0) }
    else { s[1..].parse().unwrap_or(9999) }
}
fn show_v(v: &V) -> String { match v { V::S(n) => format!("s{n}"), V::Bad => "b".into() } }
fn show_srcs(s: &Srcs) -> String { match s { Srcs::Absent => "-".into(), Srcs::One(v) => format!("1{}", show_v(v)), Srcs::Many(vs) => format!("[{}]", join(vs.iter().map(show_v), "+")) } }
fn show_comp(c: &RawComp) -> String { format!("{}.{}.{}.{}.{}", c.name, c.ty.map(|t| t.to_string()).unwrap_or("?".into()), show_srcs(&c.sources), c.source.as_ref().map(show_v).unwrap_or("-".into()), c.filters) }
fn parse_v(s: &str) -> V { if s == "b" { V::Bad } else { V::S(s[1..].parse().unwrap_or(0)) } }
fn parse_srcs(s: &str) -> Srcs {
    if s == "-" { Srcs::Absent } else if let Some(r) = s.strip_prefix('1') { Srcs::One(parse_v(r)) }
    else { let inner = s.trim_start_matches('[').trim_end_matches(']'); if inner.is_empty() { Srcs::Many(vec![]) } else { Srcs::Many(inner.split('+').map(parse_v).collect()) } }
}
fn parse_comp(s: &str) -> Option<RawComp> {
    let f: Vec<&str> = s.split('.').collect();
    if f.len() != 5 { return None; }
    Some(RawComp { name: f[0].parse().ok()?, ty: if f[1] == "?" { None } else { Some(f[1].parse().ok()?) }, sources: parse_srcs(f[2]), source: if f[3] == "-" { None } else { Some(parse_v(f[3])) }, filters: f[4].parse().ok()? })
}

fn show_step(s: &Step, residue: &BTreeSet<u32>, moved: &BTreeSet<u32>, lens: &[usize]) -> String {
    let mut fl = String::new();
    if s.doc.not_toml { fl.push('x'); }
    if s.script == 'm' || s.script == 'b' { fl.push('o'); }
    if fl.is_empty() { fl.push('-'); }
    format!("{};U:{};T:{};r:{};m:{};f:{}{}{}{}{};l:{};q:{}", fl, join(s.doc.units.iter().map(show_comp), ","), join(s.doc.targets.iter().map(show_comp), ","), join(residue.iter(), "+"), join(moved.iter(), "+"),
        if s.exists { 'e' } else { 'n' }, s.script, if s.via_args { 'a' } else { 'f' }, s.padding, if s.scalar_listen { 's' } else { 'l' }, join(lens.iter(), "+"), join(s.opts.iter().map(|o| hex(o)), "+"))
}
fn parse_step(s: &str) -> Option<Step> {
    let f: Vec<&str> = s.split(';').collect();
    if f.len() != 8 { return None; }
    let comps = |x: &str| -> Option<Vec<RawComp>> { if x.is_empty() { Some(vec![]) } else { x.split(',').map(parse_comp).collect() } };
    let ff = f[5].strip_prefix("f:")?;
    let c: Vec<char> = ff.chars().collect();
    if c.len() < 5 { return None; }
    let opts = f[7].strip_prefix("q:")?;
    Some(Step { doc: Doc { not_toml: f[0].contains('x'), units: comps(&f[1][2..])?, targets: comps(&f[2][2..])? }, exists: c[0] == 'e', script: c[1], via_args: c[2] == 'a',
        padding: c[3].to_digit(10)?, scalar_listen: c[4] == 's', opts: if opts.is_empty() { vec![] } else { opts.split('+').map(unhex).collect::<Option<Vec<_>>>()? } })
}

fn toml_v(v: &V, salt: u32, opt: Option<&Vec<u8>>) -> String {
    match v {
        V::S(n) => match opt { Some(o) => format!("\"{}:{}\"", name_str(*n), String::from_utf8_lossy(o).replace('\\', "\\\\").replace('"', "\\\"")), None => format!("\"{}\"", name_str(*n)) },
        V::Bad => ["1", "true", "{ a = 1 }", "1.5"][(salt % 4) as usize].to_string(),
    }
}

/// The text of the file. Link options are handed out to the string-valued sources in document order.
fn render(st: &Step) -> String {
    let d = &st.doc;
    let mut opts = st.opts.iter();
    let mut s = String::new();
    let pad = |s: &mut String, k: u32| { for i in 0..k { s.push_str(if i % 2 == 0 { "# operator's note\n" } else { "\n" }); } };
    pad(&mut s, st.padding);
    s.push_str(if st.scalar_listen { "http_listen = \"127.0.0.1:0\"\n" } else { "http_listen = [\"127.0.0.1:0\", \"127.0.0.1:0\"]\n" });
    match st.script { 'm' => s.push_str("roto_script = \"does-not-exist.roto\"\n"), 'b' => s.push_str("roto_script = \"broken.roto\"\n"), 'g' => s.push_str("roto_script = \"filters/good.roto\"\n"), 'G' => s.push_str("roto_script = \"@ABS@/filters/good.roto\"\n"), _ => {} }
    let mut comp = |s: &mut String, c: &RawComp, is_unit: bool| {
        pad(s, st.padding / 2);
        s.push_str(&format!("\n[{}.{}]\n", if is_unit { "units" } else { "targets" }, if is_unit { name_str(c.name) } else { tname_str(c.name) }));
        match c.ty {
            Some(t) if is_unit => {
                s.push_str(&format!("type = \"{}\"\n", UNIT_TYPES[t as usize]));
                match t { 0 => s.push_str("listen = \"127.0.0.1:0\"\n"), 1 => s.push_str("listen = \"127.0.0.1:0\"\nmy_asn = 65000\nmy_bgp_id = [1, 2, 3, 4]\n"), 2 => s.push_str("filename = \"x.mrt\"\n"), 3 => s.push_str("filter_name = \"f\"\n"), _ => {} }
            }
            Some(t) => {
                s.push_str(&format!("type = \"{}\"\n", TARGET_TYPES[t as usize]));
                match t { 1 => s.push_str("format = \"csv\"\nfilename = \"out.csv\"\n"), 2 => s.push_str("destination = \"localhost\"\nclient_id = \"c\"\n"), _ => {} }
            }
            None => if c.name % 2 == 0 { s.push_str("type = \"no-such-type\"\n") },
        }
        match &c.sources {
            Srcs::Absent => {}
            Srcs::One(v) => { let o = if matches!(v, V::S(_)) { opts.next() } else { None }; s.push_str(&format!("sources = {}\n", toml_v(v, c.name, o))) }
            Srcs::Many(vs) => { let parts: Vec<String> = vs.iter().enumerate().map(|(i, v)| { let o = if matches!(v, V::S(_)) { opts.next() } else { None }; toml_v(v, c.name + i as u32, o) }).collect(); s.push_str(&format!("sources = [{}]\n", parts.join(", "))) }
        }
        if let Some(v) = &c.source { let o = if matches!(v, V::S(_)) { opts.next() } else { None }; s.push_str(&format!("source = {}\n", toml_v(v, c.name, o))); }
        if c.filters > 0 { s.push_str(&format!("filter_names = [{}]\n", join((0..c.filters).map(|i| format!("\"f{i}\"")), ", "))); }
    };
    if d.units.is_empty() { s.push_str("\n[units]\n"); }
    for c in &d.units { comp(&mut s, c, true); }
    if d.targets.is_empty() { s.push_str("\n[targets]\n"); }
    for c in &d.targets { comp(&mut s, c, false); }
    if d.not_toml { s.push_str("\n[[[ this is not TOML\n"); }
    s
}

// ------------------------------------------------------------------ the real loader

#[derive(Debug, PartialEq, Clone)]
enum Res { Ok(Vec<String>), Err, Panic }

fn show_action(a: &vm::Action) -> String {
    let ut = |t: &str| UNIT_TYPES.iter().position(|x| *x == t).unwrap_or(99);
    let tt = |t: &str| TARGET_TYPES.iter().position(|x| *x == t).unwrap_or(99);
    match a {
        vm::Action::SpawnUnit(n, t) => format!("su{}:{}", name_id(n), ut(t)),
        vm::Action::ReconfigureUnit(n, _) => format!("ru{}", name_id(n)),
        vm::Action::TerminateUnit(n) => format!("tu{}", name_id(n)),
        vm::Action::SpawnTarget(n, t) => format!("st{}:{}", name_id(n), tt(t)),
        vm::Action::ReconfigureTarget(n, _) => format!("rt{}", name_id(n)),
        vm::Action::TerminateTarget(n) => format!("tt{}", name_id(n)),
    }
}

struct Real { manager: vm::Manager, dir: std::path::PathBuf }

struct Loaded { res: Res, residue: BTreeSet<u32>, moved: BTreeSet<u32>, lens: Vec<usize>, log: Vec<String>, text: String, regenerated: Option<String> }

/// One (re)load the way `main.rs` does it: the file is read from disk, `Config::from_config_file` (SIGHUP path) or
/// `Config::from_arg_matches` (start-up path, relative to a current directory) loads and prepares it, `spawn` applies it.
fn real_step(r: &mut Real, st: &Step) -> Loaded {
    let text = render(st).replace("@ABS@", &r.dir.join("conf").to_string_lossy());
    let path = r.dir.join("conf").join("rotonda.conf");
    let _ = std::fs::create_dir_all(r.dir.join("conf").join("filters"));
    if st.exists { std::fs::write(&path, &text).unwrap(); } else { let _ = std::fs::remove_file(&path); }
    // a one-filter roto script that compiles, and one that uses an undeclared type
    const GOOD: &[u8] = b"filter bgp-in(bgp_msg: BgpMsg, prov: Provenance) {\n    accept\n}\n";
    std::fs::write(r.dir.join("conf/filters/good.roto"), GOOD).unwrap();
    std::fs::write(r.dir.join("conf/broken.roto"), b"filter bgp-in(bgp_msg: NoSuchType) {\n    zz\n}\n").unwrap();
    LOG.lock().unwrap().clear();
    let ids = |v: Vec<String>| -> BTreeSet<u32> { v.iter().map(|s| name_id(s)).collect() };
    let none = BTreeSet::new();
    // what the loader works on (for the marks): read through the same entry
    let (lens, regenerated) = match catch_unwind(AssertUnwindSafe(|| vm::ConfigFile::load(&path))) {
        Ok(Ok(f)) => { let t = f.to_string().into_owned(); (t.split('\n').map(|l| l.len()).collect(), Some(t)) }
        _ => (vec![], None),
    };
    let loaded: std::thread::Result<Result<(vm::Source, vm::Config), ()>> = catch_unwind(AssertUnwindSafe(|| {
        if st.via_args {
            rotonda::verif::configload::from_args(&["rotonda", "-c", "conf/rotonda.conf"], &r.dir, &mut r.manager).map_err(|_| ())
        } else {
            // main.rs, SIGHUP arm
            match vm::ConfigFile::load(&path) {
                Ok(file) => vm::Config::from_config_file(file, &mut r.manager).map_err(|_| ()),
                Err(err) => { log::error!(target: "rotonda", "Failed to re-read config file '{}': {}", path.display(), err); Err(()) }
            }
        }
    }));
    let log = LOG.lock().unwrap().clone();
    if std::env::var("CL_DEBUG").is_ok() { eprintln!("debug: log {:?}", log); }
    let (res, residue, moved) = match loaded {
        Err(_) => (Res::Panic, ids(vm::loader_gate_names()), none.clone()),
        Ok(Err(())) => (Res::Err, ids(vm::loader_gate_names()), ids(vm::pending_gate_names(&r.manager))),
        Ok(Ok((_source, mut config))) => match catch_unwind(AssertUnwindSafe(|| vm::spawn_recording(&mut r.manager, &mut config))) {
            Err(_) => (Res::Panic, none.clone(), none.clone()),
            Ok(acts) => { let mut a: Vec<String> = acts.iter().map(show_action).collect(); a.sort(); (Res::Ok(a), none.clone(), none.clone()) }
        },
    };
    Loaded { res, residue, moved, lens, log, text, regenerated }
}

/// the class of the error text and its position mark(s)
fn classify(log: &[String], path_txt: &str) -> (String, Vec<(usize, usize)>, Vec<String>) {
    let errs: Vec<&String> = log.iter().filter(|l| l.starts_with("ERROR ")).collect();
    let mut marks = vec![];
    let mut odd = vec![];
    let mut class = "none".to_string();
    for e in &errs {
        let t = &e[6..];
        if t.starts_with("Failed to read config file") || t.starts_with("Failed to re-read config file") {
            class = if t.contains("Cannot parse config file") { "parse".into() } else { "io".into() };
        } else if t.contains("TOML parse error at line ") {
            class = "serde".into();
            let rest = t.split("TOML parse error at line ").nth(1).unwrap_or("");
            let l: usize = rest.split(',').next().unwrap_or("").trim().parse().unwrap_or(0);
            let c: usize = rest.split("column ").nth(1).unwrap_or("").split(|ch: char| !ch.is_ascii_digit()).next().unwrap_or("").parse().unwrap_or(0);
            marks.push((l, c));
            if !t.starts_with(path_txt) { odd.push(format!("serde error text does not start with the file's path: {}", t.chars().take(80).collect::<String>())); }
        } else if t.starts_with("Unable to load main Roto script") { class = "roto".into(); }
        else if t.contains("unresolved link to unit") {
            class = "unresolved".into();
            // "<path>:<line>:<col>: unresolved link to unit '<name>'"
            match t.strip_prefix(path_txt).and_then(|r| r.strip_prefix(':')) {
                Some(r) if r.starts_with(" unresolved") => {}   // a mark without a position (repaired code)
                Some(r) => { let mut p = r.split(':'); let l = p.next().and_then(|x| x.parse().ok()); let c = p.next().and_then(|x| x.parse().ok()); match (l, c) { (Some(l), Some(c)) => marks.push((l, c)), _ => odd.push(format!("no line:col after the path: {}", t.chars().take(120).collect::<String>())) } }
                None => odd.push(format!("unresolved-link text without the path mark: {}", t.chars().take(120).collect::<String>())),
            }
        } else { odd.push(format!("unclassified error text: {}", t.chars().take(120).collect::<String>())); }
    }
    marks.sort();
    (class, marks, odd)
}

fn run_sequence(rec: &mut Recorder, rt: &tokio::runtime::Runtime, dir: &std::path::Path, steps: &[Step], kind: &str) {
    let _g = rt.enter();
    vm::reset_loader();
    let _ = std::fs::remove_dir_all(dir);
    std::fs::create_dir_all(dir).unwrap();
    let mut real = Real { manager: vm::Manager::new(), dir: dir.to_path_buf() };
    let mut step_txt = vec![];
    let mut obs = vec![];
    let mut fails: Vec<String> = vec![];
    let mut any_ok = false;
    for st in steps {
        let before = vm::running_names(&real.manager);
        let l = real_step(&mut real, st);
        let after = vm::running_names(&real.manager);
        step_txt.push(show_step(st, &l.residue, &l.moved, &l.lens));
        let path_txt = if st.via_args { dir.join("conf/rotonda.conf").display().to_string() } else { dir.join("conf").join("rotonda.conf").display().to_string() };
        let (class, marks, odd) = classify(&l.log, &path_txt);
        let warns = l.log.iter().filter(|x| x.starts_with("WARN ") && x.contains("Invalid queue length")).count();
        for o in odd { fails.push(format!("configload:text:{}", o.replace(' ', "_").chars().take(60).collect::<String>())); }
        let as_set = |v: &Vec<String>| -> BTreeSet<String> { v.iter().cloned().collect() };
        // ---- what the disk alone says (no model): the file and the script decide these whatever the document is
        let accepted = matches!(l.res, Res::Ok(_));
        if !st.exists && class != "io" { fails.push(format!("configload:io:missing-file-not-reported a file that does not exist gave `{class}`")); }
        if st.exists && class == "io" { fails.push("configload:io:existing-file-not-read".into()); }
        if (st.script == 'm' || st.script == 'b') && accepted { fails.push("configload:roto:uncompilable-script-accepted a configuration whose roto_script is missing or does not compile was loaded".into()); }
        if matches!(st.script, '-' | 'g' | 'G') && class == "roto" { fails.push(format!("configload:roto:good-script-rejected roto_script {} (relative to the configuration file's directory, or absolute) was refused", st.script)); }
        if accepted { let want = st.opts.iter().filter(|o| std::str::from_utf8(o).ok().and_then(|t| t.parse::<usize>().ok()).is_none()).count(); if want != warns { fails.push(format!("configload:queue-len:warnings {want} link options are no unsigned integers, {warns} warnings")); } }
        let tok = match &l.res {
            Res::Ok(a) => { any_ok = true; if class != "none" { fails.push(format!("configload:accepted-with-error-text a loaded configuration logged an error of class {class}")); } format!("ok:{} q{}", a.join(","), warns) }
            Res::Panic => { fails.push(format!("configload:panic loading a configuration file panicked: {}", PANICS.lock().unwrap().last().cloned().unwrap_or_default())); "panic".to_string() }
            Res::Err => {
                if class == "none" { fails.push("configload:rejected-without-text a configuration was rejected and the operator is told nothing".into()); }
                if as_set(&before.0) != as_set(&after.0) || as_set(&before.1) != as_set(&after.1) { fails.push("configload:rejected-load-changed-running-set".into()); }
                // ---- the mark must point into the document the operator has, at the offending item
                let disk_lines: Vec<&str> = l.text.split('\n').collect();
                let n_disk = if l.text.ends_with('\n') { disk_lines.len() - 1 } else { disk_lines.len() };
                for (ln, col) in &marks {
                    let inside = *ln >= 1 && *ln <= n_disk && *col <= disk_lines[*ln - 1].len() + 1;
                    if class == "unresolved" {
                        let at_item = inside && disk_lines[*ln - 1].contains("source");
                        if !inside { fails.push(format!("configload:mark:unresolved-link:outside-document mark {ln}:{col}, the file has {n_disk} lines")); }
                        else if !at_item { fails.push(format!("configload:mark:unresolved-link:not-at-link mark {ln}:{col} is at `{}`", disk_lines[*ln - 1])); }
                    } else if class == "serde" {
                        // the item toml complains about, found in the text toml was given (the regenerated document) and in the file
                        let regen = l.regenerated.clone().unwrap_or_default();
                        let rl: Vec<&str> = regen.split('\n').collect();
                        let culprit = rl.get(ln.wrapping_sub(1)).copied().unwrap_or("");
                        let same_place = inside && disk_lines[*ln - 1] == culprit;
                        if !inside { fails.push(format!("configload:mark:serde:{} mark {ln}:{col} (of the rewritten document), the file has {n_disk} lines", if st.doc.units.iter().any(|u| u.ty == Some(4) && u.filters >= 2) { "shorthand-rewritten" } else { "other-line-of-file" })); }
                        else if !same_place && st.doc.units.iter().any(|u| u.ty == Some(4) && u.filters >= 2) { fails.push(format!("configload:mark:serde:shorthand-rewritten mark {ln}:{col} names `{}` of the document after the vRIB shorthand expansion; line {ln} of the file is `{}`", culprit, disk_lines[*ln - 1])); }
                        else if !same_place { fails.push(format!("configload:mark:serde:other-line-of-file mark {ln}:{col} names `{}` of the rewritten document; line {ln} of the file is `{}`", culprit, disk_lines[*ln - 1])); }
                    }
                }
                format!("err:{}{}", class, if class == "unresolved" { format!(":{}", join(marks.iter().map(|(l, c)| format!("{l}.{c}")), ",")) } else { String::new() })
            }
        };
        rec.bump(&format!("step.{}", tok.split([':', ' ']).take(2).collect::<Vec<_>>().join(".").chars().take(24).collect::<String>()));
        rec.bump(&format!("entry.{}", if st.via_args { "from_arg_matches" } else { "from_config_file" }));
        rec.bump(&format!("script.{}", st.script));
        obs.push(tok);
    }
    let fin = vm::running_names(&real.manager);
    let ids = |v: &Vec<String>| -> String { let mut x: Vec<u32> = v.iter().map(|s| name_id(s)).collect(); x.sort(); join(x.iter(), ",") };
    let imp = format!("{} => U={} T={}", obs.join(" / "), ids(&fin.0), ids(&fin.1));
    let oracle = if fails.is_empty() { "ok".to_string() } else { format!("fail {}", fails[0]) };
    rec.bump(&format!("kind.{kind}"));
    rec.case(step_txt.join("/"), imp, oracle, steps.len() >= 2 && any_ok);
}

// ------------------------------------------------------------------ live: what a gate does with an accepted queue length

fn live_queue(rec: &mut Recorder, rt: &tokio::runtime::Runtime, opt: &[u8]) -> bool {
    let toml = format!("http_listen = [\"127.0.0.1:0\"]\n[units.bmp-in]\ntype = \"bmp-tcp-in\"\nlisten = \"127.0.0.1:0\"\n[units.rib]\ntype = \"rib\"\nsources = [\"bmp-in\"]\n[targets.out]\ntype = \"file-out\"\nformat = \"csv\"\nfilename = \"{}/live-out.csv\"\nsources = \"rib:{}\"\n", std::env::temp_dir().display(), String::from_utf8_lossy(opt));
    let _g = rt.enter();
    vm::reset_loader();
    PANICS.lock().unwrap().clear();
    LOG.lock().unwrap().clear();
    let mut manager = vm::Manager::new();
    let started = (|| {
        let file = vm::ConfigFile::new(toml.as_bytes().to_vec(), vm::Source::default()).ok()?;
        let mut config = manager.load(&file).ok()?;
        manager.prepare(&config, &file).ok()?;
        let before = manager.link_report_updated_at();
        manager.spawn(&mut config);
        Some(rt.block_on(async { for _ in 0..3000 { if manager.link_report_updated_at() != before || !PANICS.lock().unwrap().is_empty() { break; } tokio::time::sleep(Duration::from_millis(5)).await; } manager.link_report_updated_at() != before }))
    })();
    let panics = PANICS.lock().unwrap().clone();
    if std::env::var("CL_DEBUG").is_ok() { eprintln!("debug: live panics {:?} log {:?}", panics, LOG.lock().unwrap()); }
    let warned = LOG.lock().unwrap().iter().any(|l| l.contains("Invalid queue length"));
    let imp = match (started, panics.first()) {
        (None, _) => "rejected".to_string(),
        (_, Some(p)) => format!("panic ## {p}"),
        (Some(true), None) => format!("runs{}", if warned { " default" } else { "" }),
        (Some(false), None) => "stuck".to_string(),
    };
    let oracle = match (started, panics.first()) {
        (_, Some(p)) => format!("fail configload:queue-len:{} `sources = \"rib:{}\"` (file-out, the one queue-fed component) is accepted by the loader; the rib unit's gate panics when the link subscribes: {p}", if p.contains("requires_buffer") { "zero-accepted-gate-panics" } else { "huge-accepted-gate-panics" }, String::from_utf8_lossy(opt)),
        (Some(false), None) => "fail configload:queue-len:pipeline-stuck".into(),
        _ => "ok".into(),
    };
    rec.bump(&format!("live-queue.{}", imp.split(' ').next().unwrap_or("?")));
    manager.terminate();
    rt.block_on(tokio::time::sleep(Duration::from_millis(30)));
    let panicked = imp.starts_with("panic");
    rec.case(format!("Q|{}", hex(opt)), imp, oracle, true);
    panicked
}

// ------------------------------------------------------------------ generator (C13's, plus the disk)

struct Gen { rng: Rng }
impl Gen {
    fn valid_doc(&mut self) -> Doc {
        let nu = self.rng.range(1, 6) as u32;
        let mut units: Vec<RawComp> = vec![];
        for i in 0..nu {
            let ty = if i == 0 { self.rng.below(3) as u32 } else { self.rng.below(5) as u32 };
            let sources = if ty >= 3 { let k = self.rng.range(1, 2); Srcs::Many((0..k).map(|_| V::S(self.rng.below(i as u64) as u32)).collect()) } else { Srcs::Absent };
            let filters = if ty == 4 && self.rng.chance(35, 100) { self.rng.range(1, 4) as u32 } else { 0 };
            units.push(RawComp { name: i, ty: Some(ty), sources, source: None, filters });
        }
        let nt = self.rng.range(1, 3) as u32;
        let mut targets = vec![];
        for j in 0..nt {
            let ty = self.rng.below(3) as u32;
            let pick = |g: &mut Gen| V::S(g.rng.below(nu as u64) as u32);
            let (sources, source) = match ty {
                0 => match self.rng.below(3) { 0 => (Srcs::One(pick(self)), None), 1 => (Srcs::Absent, Some(pick(self))), _ => { let k = self.rng.range(1, 2); (Srcs::Many((0..k).map(|_| pick(self)).collect()), None) } },
                1 => (Srcs::One(pick(self)), None),
                _ => { let k = self.rng.range(1, 2); (Srcs::Many((0..k).map(|_| pick(self)).collect()), None) }
            };
            targets.push(RawComp { name: j, ty: Some(ty), sources, source, filters: 0 });
        }
        Doc { not_toml: false, units, targets }
    }
    fn edit(&mut self, d: &Doc) -> Doc {
        let mut d = d.clone();
        d.not_toml = false;
        match self.rng.below(8) {
            0 if !d.targets.is_empty() => { let i = self.rng.below(d.targets.len() as u64) as usize; d.targets.remove(i); }
            1 => { let n = d.targets.iter().map(|t| t.name).max().map(|m| m + 1).unwrap_or(0); let u = self.rng.pick(&d.units).name; d.targets.push(RawComp { name: n, ty: Some(0), sources: Srcs::One(V::S(u)), source: None, filters: 0 }); }
            2 => { let n = d.units.iter().map(|t| t.name).max().map(|m| m + 1).unwrap_or(0); if n < 10 { d.units.push(RawComp { name: n, ty: Some(self.rng.below(3) as u32), sources: Srcs::Absent, source: None, filters: 0 }); } }
            3 => { let i = self.rng.below(d.units.len() as u64) as usize; if d.units[i].ty.map(|t| t < 3).unwrap_or(false) { d.units[i].ty = Some(self.rng.below(3) as u32); } }
            5 => { for u in d.units.iter_mut() { if u.ty == Some(4) { u.filters = self.rng.below(4) as u32; } } }
            6 => { if d.units.len() > 1 { d.units.pop(); } }
            _ => {}
        }
        d
    }
    fn breakit(&mut self, d: &Doc) -> Doc {
        let mut d = d.clone();
        match self.rng.below(8) {
            0 => d.not_toml = true,
            1 | 2 => { let i = self.rng.below(d.units.len() as u64) as usize; d.units[i].ty = None; }
            3 => { if let Some(t) = d.targets.last_mut() { t.ty = None; } }
            4 => { if let Some(t) = d.targets.first_mut() { t.sources = Srcs::Many(vec![V::S(0), V::Bad]); t.source = None; } }
            5 | 6 => { if let Some(t) = d.targets.first_mut() { t.sources = Srcs::One(V::S(self.rng.range(20, 25) as u32)); t.source = None; } }
            _ => { let n = d.units.len() as u32; d.units.push(RawComp { name: n, ty: Some(3), sources: Srcs::Many(vec![V::S(self.rng.range(30, 33) as u32), V::S(0)]), source: None, filters: 0 }); }
        }
        d
    }
    fn n_links(d: &Doc) -> usize {
        let c = |c: &RawComp| (match &c.sources { Srcs::One(V::S(_)) => 1, Srcs::Many(vs) => vs.iter().filter(|v| matches!(v, V::S(_))).count(), _ => 0 }) + matches!(c.source, Some(V::S(_))) as usize;
        d.units.iter().map(c).sum::<usize>() + d.targets.iter().map(c).sum::<usize>()
    }
    fn option(&mut self) -> Vec<u8> {
        self.rng.pick(&[&b"16"[..], b"1", b"8", b"1024", b"+4", b"007", b"", b"abc", b"-1", b" 8", b"8 ", b"1.5", b"0x10", b"18446744073709551616", b"99999999999999999999999", b"8:9", "８".as_bytes(), b"1e3"]).to_vec()
    }
    fn dress(&mut self, doc: Doc) -> Step {
        let script = *self.rng.pick(&['-', '-', '-', '-', 'g', 'g', 'G', 'm', 'b']);
        let k = Self::n_links(&doc);
        // shorthand expansion copies the sources table into the generated units: keep options off those documents
        let shorthand = doc.units.iter().any(|u| u.ty == Some(4) && u.filters >= 2);
        let opts = if !shorthand && self.rng.chance(1, 3) { (0..k).map(|_| self.option()).collect() } else { vec![] };
        Step { doc, exists: !self.rng.chance(1, 25), script, via_args: self.rng.chance(1, 3), opts, padding: *self.rng.pick(&[0u32, 0, 0, 1, 2, 5]), scalar_listen: self.rng.chance(1, 4) }
    }
}

fn main() {
    let args = parse_args();
    let t0 = Instant::now();
    std::panic::set_hook(Box::new(|info| {
        let loc = info.location().map(|l| format!("{}:{}", l.file().rsplit('/').next().unwrap_or("?"), l.line())).unwrap_or("?".into());
        let msg = info.payload().downcast_ref::<String>().cloned().or_else(|| info.payload().downcast_ref::<&str>().map(|s| s.to_string())).unwrap_or_default();
        PANICS.lock().unwrap().push(format!("{loc} {}", msg.chars().map(|c| if c.is_ascii_graphic() { c } else { '_' }).take(100).collect::<String>()));
    }));
    let _ = log::set_logger(&CAP);
    log::set_max_level(log::LevelFilter::Warn);
    let mut rec = Recorder::new("sequences of 1-4 (re)loads of configuration FILES on disk (C13's document family: valid graphs over the five unit and three target types incl. vRIB shorthand, operator edits, malformed documents: not TOML, unknown/missing type, ill-typed sources, unresolved links; around them: file missing, roto_script absent / missing / not compiling / compiling with a relative or an absolute path, comment and blank lines, http_listen scalar or list, `unit:queue-len` options) through ConfigFile::load -> Config::from_config_file or Config::from_arg_matches (relative to a current directory) -> spawn with recording closures; plus really spawned pipelines with a queue-length option; non-trivial = a sequence of >= 2 loads with a successful one, or a live case; distinct = distinct case lines");
    let rt = tokio::runtime::Builder::new_multi_thread().worker_threads(2).enable_all().build().unwrap();
    let dir = std::env::temp_dir().join(format!("verif-configload-{:010}", std::process::id()));
    std::fs::create_dir_all(&dir).unwrap();

    if let Some(path) = &args.replay {
        for line in verif_harness::replay_cases(path) {
            if let Some(o) = line.strip_prefix("Q|") { if let Some(o) = unhex(o) { let _ = live_queue(&mut rec, &rt, &o); } continue; }
            let steps: Option<Vec<Step>> = line.split('/').map(parse_step).collect();
            match steps { Some(s) => run_sequence(&mut rec, &rt, &dir, &s, "replay"), None => rec.bump("replay.unparsable-line") }
        }
        rec.finish(&args, t0.elapsed().as_secs_f64());
        let _ = std::fs::remove_dir_all(&dir);
        return;
    }

    let base = |units: Vec<RawComp>, targets: Vec<RawComp>| Step { doc: Doc { not_toml: false, units, targets }, exists: true, script: '-', via_args: false, opts: vec![], padding: 0, scalar_listen: false };
    let bmp = |n: u32| RawComp { name: n, ty: Some(0), sources: Srcs::Absent, source: None, filters: 0 };
    let rib = |n: u32, s: u32, f: u32| RawComp { name: n, ty: Some(4), sources: Srcs::Many(vec![V::S(s)]), source: None, filters: f };
    let null = |n: u32, s: u32| RawComp { name: n, ty: Some(0), sources: Srcs::One(V::S(s)), source: None, filters: 0 };
    // 0. the witness of the mark counterexample decides the variant: one unresolved link in a four-line file
    let w = base(vec![bmp(0)], vec![null(0, 7)]);
    {
        let _g = rt.enter();
        vm::reset_loader();
        let _ = std::fs::remove_dir_all(&dir);
        std::fs::create_dir_all(&dir).unwrap();
        let mut real = Real { manager: vm::Manager::new(), dir: dir.clone() };
        let l = real_step(&mut real, &w);
        let (_, marks, _) = classify(&l.log, &dir.join("conf").join("rotonda.conf").display().to_string());
        let n_lines = l.text.split('\n').count();
        rec.variant("mark", if marks.iter().any(|(ln, _)| *ln >= n_lines) { "as-written" } else { "repaired" });
        let _ = n_lines;
    }
    run_sequence(&mut rec, &rt, &dir, &[w.clone()], "witness");
    // hand-made: every script state and entry on a valid file, then on files with each defect
    for via in [false, true] { for script in ['-', 'g', 'G', 'm', 'b'] { for pad in [0u32, 3] {
        let mut a = base(vec![bmp(0), rib(1, 0, 0)], vec![null(0, 1)]); a.script = script; a.via_args = via; a.padding = pad;
        let mut b = base(vec![bmp(0), rib(1, 0, 3)], vec![null(0, 1), null(1, 9)]); b.via_args = via; b.padding = pad;
        let mut c = base(vec![bmp(0), RawComp { name: 2, ty: None, sources: Srcs::Absent, source: None, filters: 0 }], vec![null(0, 0)]); c.via_args = via; c.padding = pad;
        let mut d = a.clone(); d.exists = false;
        let mut e = a.clone(); e.doc.not_toml = true;
        run_sequence(&mut rec, &rt, &dir, &[a.clone(), b, a.clone(), c, d, e, a], "corpus");
    } } }
    // the witness of the queue-length counterexample decides that variant
    let zero_panics = live_queue(&mut rec, &rt, b"0");
    rec.variant("queue", if zero_panics { "as-written" } else { "repaired" });
    for o in [&b"1"[..], b"8", b"abc", b"2305843009213693951", b"2305843009213693952", b"18446744073709551615"] { let _ = live_queue(&mut rec, &rt, o); }

    let mut g = Gen { rng: Rng::new(args.seed) };
    let n = if args.thorough { 4000 } else { 260 };
    let budget = if args.thorough { 400.0 } else { 40.0 };
    for i in 0..n {
        if t0.elapsed().as_secs_f64() > budget { rec.bump("gen.stopped-by-time-budget"); break; }
        let mut cur = g.valid_doc();
        let len = g.rng.range(1, 4);
        let mut steps = vec![];
        for _ in 0..len {
            let d = match g.rng.below(10) { 0..=4 => cur.clone(), 5..=6 => g.edit(&cur), _ => g.breakit(&cur) };
            if !d.not_toml && g.rng.chance(1, 2) { cur = d.clone(); cur.not_toml = false; }
            steps.push(g.dress(d));
        }
        run_sequence(&mut rec, &rt, &dir, &steps, "random");
        if i % 64 == 63 { let o = g.option(); let _ = live_queue(&mut rec, &rt, &o); }
    }
    rec.finish(&args, t0.elapsed().as_secs_f64());
    let _ = std::fs::remove_dir_all(&dir);
    let _: BTreeMap<u8, u8> = BTreeMap::new();
}
