//! BgpIn engine: the bgp-tcp-in unit on the real code, composed with the real RIB unit.
//!
//! One case = a configuration (`[peers]` table) and a history of BGP connections of several peers:
//!   the real `BgpTcpInRunner::run` (real `StandardTcpListenerFactory` on 127.0.0.1, real accept loop, real
//!   `PeerConfigs::get`, real `Register::register`, real `ConfigAcceptor` -> `handle_connection` -> routecore's
//!   real `Session` FSM -> real `Processor::process`) driven by BGP speakers of this harness that connect from
//!   127.x.y.z source addresses and speak real BGP bytes (OPEN / KEEPALIVE / UPDATE / NOTIFICATION / garbage,
//!   FIN, RST, silence until the hold timer expires); unit termination through the real `GateAgent`.
//!   Every `Update` leaving the unit's gate goes, in gate order, into the real `RibUnitRunner::process_update`;
//!   the real `Rib::match_prefix` answers for the 12 pool prefixes.
//! case   `B|<prefixes>|<config entries>|<ops>`; the Lean driver `rmodel-bgpin` runs `Model/BgpIn.lean` on it.
//! impl   `<one token per op> | live=<addr.asn,…> | next=<next ingress id> | <T/F per prefix>`
//! oracle Rust only, no Lean model: a tracker of which connection is an established session of which peer
//!        (by the RFC 4271 reading: configured address + allowed AS, one session per (address, AS), ended by
//!        close / reset / framing error / hold-timer expiry / unit shutdown) and which routes it has announced;
//!        judged: (C02) around every session end the ended session's routes are withdrawn and nothing else
//!        changes; (C03) the final RIB equals the replay of the tracker's history (`rib::spec_observe`, a
//!        returning peer's announcements active); (C07) an ended session is withdrawn exactly once, leaves
//!        `live_sessions`, and gets an end-of-stream; (C14) a returning peer keeps its ingress id;
//!        (C06) damaged input ends only that session, never panics, the others keep working; accept decisions
//!        equal the tracker's own longest-match reading of the config.
use std::collections::HashMap;
use std::net::{IpAddr, Ipv4Addr, SocketAddr};
use std::sync::{Arc, Mutex};
use std::time::{Duration, Instant};

use rotonda::payload::Update;
use rotonda::roto_runtime::types::RouteContext;
use rotonda::verif::bgp_in as hook;
use rotonda::verif::gate::FnTarget;
use rotonda::verif::ingress as ving;
use tokio::io::{AsyncReadExt, AsyncWriteExt};
use tokio::net::{TcpSocket, TcpStream};
use verif_harness::rib::*;
use verif_harness::{join, parse_args, replay_cases, rng::Rng, Recorder};

// ------------------------------------------------------------------ scenario

#[derive(Clone, Debug, PartialEq)]
enum Key { Exact(u32), Prefix(u8, u32) } // prefix: len, bits (top `len` bits)

#[derive(Clone, Debug, PartialEq)]
enum Asns { One(u32), Many(Vec<u32>) }

#[derive(Clone, Debug, PartialEq)]
struct Entry { key: Key, asns: Asns, hold: u16 }

#[derive(Clone, Debug, PartialEq)]
enum Op {
    /// a new TCP connection from `addr` whose OPEN says `asn`
    Conn(u32, u32),
    Upd(usize, Upd),
    Notif(usize),
    Fin(usize),
    Rst(usize),
    /// damaged framing: kind 0 = a header whose length field is 7 (< 19), kind 1 = a well-framed message of unknown type 9
    Garbage(usize, u8),
    /// the peer goes silent until the (3 s) hold timer of the session has expired
    Hold(usize),
    Terminate,
}

#[derive(Clone, Debug, PartialEq)]
struct Scn { cfg: Vec<Entry>, ops: Vec<Op> }

fn ip_of(a: u32) -> Ipv4Addr { Ipv4Addr::from(a.to_be_bytes()) }

fn show_entry(e: &Entry) -> String {
    let k = match &e.key { Key::Exact(a) => format!("e:{a}"), Key::Prefix(l, b) => format!("p:{l}:{b}") };
    let a = match &e.asns { Asns::One(n) => format!("o{n}"), Asns::Many(v) => if v.is_empty() { "a".into() } else { format!("m{}", join(v.iter(), "+")) } };
    format!("{k}~{a}~{}", e.hold)
}
fn parse_entry(s: &str) -> Option<Entry> {
    let f: Vec<&str> = s.split('~').collect();
    if f.len() != 3 { return None; }
    let k: Vec<&str> = f[0].split(':').collect();
    let key = match k[0] { "e" if k.len() == 2 => Key::Exact(k[1].parse().ok()?), "p" if k.len() == 3 => Key::Prefix(k[1].parse().ok()?, k[2].parse().ok()?), _ => return None };
    let asns = if f[1] == "a" { Asns::Many(vec![]) } else if let Some(r) = f[1].strip_prefix('o') { Asns::One(r.parse().ok()?) } else if let Some(r) = f[1].strip_prefix('m') { Asns::Many(r.split('+').map(|x| x.parse().ok()).collect::<Option<Vec<u32>>>()?) } else { return None };
    Some(Entry { key, asns, hold: f[2].parse().ok()? })
}
fn show_list(ns: &[Nlri]) -> String { if ns.is_empty() { "-".into() } else { join(ns.iter().map(|n| n.show()), ",") } }
fn parse_list(s: &str) -> Option<Vec<Nlri>> { if s == "-" { Some(vec![]) } else { s.split(',').map(Nlri::parse).collect() } }
fn show_op(o: &Op) -> String {
    match o {
        Op::Conn(a, n) => format!("c:{a}:{n}"),
        Op::Upd(k, u) => format!("u:{k}:{}:{}:{}", u.attr, show_list(&u.ann), show_list(&u.wd)),
        Op::Notif(k) => format!("n:{k}"), Op::Fin(k) => format!("x:{k}"), Op::Rst(k) => format!("r:{k}"),
        Op::Garbage(k, w) => format!("g:{k}:{w}"), Op::Hold(k) => format!("h:{k}"), Op::Terminate => "t".into(),
    }
}
fn parse_op(s: &str) -> Option<Op> {
    let p: Vec<&str> = s.split(':').collect();
    let k = || -> Option<usize> { p.get(1)?.parse().ok() };
    Some(match p[0] {
        "c" if p.len() == 3 => Op::Conn(p[1].parse().ok()?, p[2].parse().ok()?),
        "u" if p.len() == 5 => Op::Upd(k()?, Upd { attr: p[2].parse().ok()?, ann: parse_list(p[3])?, wd: parse_list(p[4])?, mp4: false, corrupt: 0 }),
        "n" => Op::Notif(k()?), "x" => Op::Fin(k()?), "r" => Op::Rst(k()?), "g" => Op::Garbage(k()?, p.get(2)?.parse().ok()?), "h" => Op::Hold(k()?),
        "t" => Op::Terminate,
        _ => return None,
    })
}
fn show_case(scn: &Scn, qs: &[Pfx]) -> String {
    format!("B|{}|{}|{}", join(qs.iter().map(|p| p.show()), " "), if scn.cfg.is_empty() { "-".into() } else { join(scn.cfg.iter().map(show_entry), " ") }, join(scn.ops.iter().map(show_op), " "))
}
fn parse_case(line: &str) -> Option<(Scn, Vec<Pfx>)> {
    let f: Vec<&str> = line.split('|').collect();
    if f.len() != 4 || f[0] != "B" { return None; }
    let qs = f[1].split_whitespace().map(Pfx::parse).collect::<Option<Vec<_>>>()?;
    let cfg = if f[2].trim() == "-" { vec![] } else { f[2].split_whitespace().map(parse_entry).collect::<Option<Vec<_>>>()? };
    let ops = f[3].split_whitespace().map(parse_op).collect::<Option<Vec<_>>>()?;
    Some((Scn { cfg, ops }, qs))
}

fn toml_of(cfg: &[Entry], port: u16) -> String {
    let mut s = format!("listen = \"127.0.0.1:{port}\"\nmy_asn = 64999\nmy_bgp_id = [9, 9, 9, 9]\n");
    for (i, e) in cfg.iter().enumerate() {
        let k = match &e.key { Key::Exact(a) => format!("{}", ip_of(*a)), Key::Prefix(l, b) => format!("{}/{}", ip_of(if *l == 0 { 0 } else { b << (32 - *l as u32) }), l) };
        s.push_str(&format!("\n[peers.\"{k}\"]\nname = \"n{i}\"\n"));
        match &e.asns { Asns::One(n) => s.push_str(&format!("remote_asn = {n}\n")), Asns::Many(v) => s.push_str(&format!("remote_asn = [{}]\n", join(v.iter(), ", "))) }
        if e.hold != 0 { s.push_str(&format!("hold_time = {}\n", e.hold)); }
        s.push_str("protocols = [\"Ipv4Unicast\", \"Ipv6Unicast\", \"Ipv4Multicast\", \"Ipv6Multicast\"]\n");
    }
    s
}

// ------------------------------------------------------------------ BGP bytes

fn hdr(ty: u8, body: &[u8]) -> Vec<u8> {
    let mut v = vec![0xFF; 16];
    v.extend_from_slice(&((19 + body.len()) as u16).to_be_bytes());
    v.push(ty);
    v.extend_from_slice(body);
    v
}
fn open_bytes(asn: u32, hold: u16, id: [u8; 4]) -> Vec<u8> {
    let mut caps = vec![];
    for (afi, safi) in [(1u16, 1u8), (2, 1), (1, 2), (2, 2)] { caps.extend_from_slice(&[1, 4]); caps.extend_from_slice(&afi.to_be_bytes()); caps.extend_from_slice(&[0, safi]); }
    caps.extend_from_slice(&[65, 4]);
    caps.extend_from_slice(&asn.to_be_bytes());
    let mut b = vec![4];
    b.extend_from_slice(&(if asn > 65535 { 23456u16 } else { asn as u16 }).to_be_bytes());
    b.extend_from_slice(&hold.to_be_bytes());
    b.extend_from_slice(&id);
    b.push((caps.len() + 2) as u8);
    b.push(2);
    b.push(caps.len() as u8);
    b.extend_from_slice(&caps);
    hdr(1, &b)
}
fn keepalive() -> Vec<u8> { hdr(4, &[]) }
fn notification() -> Vec<u8> { hdr(3, &[6, 2]) }

#[derive(Debug)]
enum Frame { Msg(u8, Vec<u8>), Eof, Timeout }

async fn read_frame(s: &mut TcpStream, wait: Duration) -> Frame {
    let mut h = [0u8; 19];
    match tokio::time::timeout(wait, s.read_exact(&mut h)).await {
        Err(_) => return Frame::Timeout,
        Ok(Err(_)) => return Frame::Eof,
        Ok(Ok(_)) => {}
    }
    let len = u16::from_be_bytes([h[16], h[17]]) as usize;
    let mut body = vec![0u8; len.saturating_sub(19)];
    match tokio::time::timeout(Duration::from_secs(2), s.read_exact(&mut body)).await {
        Ok(Ok(_)) => Frame::Msg(h[18], body),
        _ => Frame::Eof,
    }
}

// ------------------------------------------------------------------ one case on the real code

struct Conn { stream: Option<TcpStream>, addr: u32, asn: u32, established: bool }

/// What the async part of a case returns: one token per op, the updates in gate order with the index of
/// the op during which each arrived, the live keys and the next ingress id.
struct Raw { toks: Vec<String>, updates: Vec<(usize, Update)>, live: Vec<(IpAddr, u32)>, next: u32, panicked: bool, flood: usize, discard: bool }

fn info_count(reg: &ving::Register, upto: u32) -> usize { (1..=upto).filter(|i| reg.get(*i).is_some()).count() }

async fn wait_until(limit: Duration, mut f: impl FnMut() -> bool) -> bool {
    let t = Instant::now();
    loop {
        if f() { return true; }
        if t.elapsed() > limit { return false; }
        tokio::time::sleep(Duration::from_millis(1)).await;
    }
}

/// A port nobody in this process is using for another case (process-wide counter, so two cases never race
/// for one port) and that the OS lets us bind right now. Whether *our unit* got it is checked afterwards
/// through the unit's own `listener_bound_count` (another process may take it in between).
static NEXT_PORT: std::sync::atomic::AtomicUsize = std::sync::atomic::AtomicUsize::new(0);
fn free_port() -> u16 {
    loop {
        let n = NEXT_PORT.fetch_add(1, std::sync::atomic::Ordering::SeqCst);
        // one slot of 7500 ports per process (a thorough run uses < 7500 cases): no port is handed out twice
        // within a process, so a case never meets another case's unit on "its" port
        let base = verif_harness::port_slot(2000);
        let port = (base + n % 2000) as u16;
        if std::net::TcpListener::bind(("127.0.0.1", port)).is_ok() { return port; }
    }
}

fn update_id(u: &Update) -> Option<u32> {
    match u {
        Update::Bulk(ps) => ps.iter().find_map(|p| match &p.context { RouteContext::Fresh(f) => Some(f.provenance.ingress_id), RouteContext::Mrt(m) => Some(m.provenance.ingress_id), _ => None }),
        Update::Single(p) => match &p.context { RouteContext::Fresh(f) => Some(f.provenance.ingress_id), _ => None },
        Update::Withdraw(id, _) => Some(*id),
        _ => None,
    }
}

fn show_update(u: &Update) -> String {
    match u {
        Update::Bulk(ps) => format!("B{}.{}", update_id(u).map(|i| i.to_string()).unwrap_or("?".into()), ps.len()),
        Update::Single(_) => "S".into(),
        Update::Withdraw(id, None) => format!("W{id}"),
        Update::Withdraw(id, Some(_)) => format!("Waf{id}"),
        Update::WithdrawBulk(ids) => format!("WB{}", join(ids.iter(), ",")),
        Update::UpstreamStatusChange(_) => "EOS".into(),
        Update::OutputStream(_) => "OS".into(),
        _ => "other".into(),
    }
}

const SETTLE: Duration = Duration::from_millis(250);
/// upper bound when something is expected to arrive (the wait ends as soon as it does)
const ARRIVE: Duration = Duration::from_secs(4);

/// Which `Conn` ops the configuration and the history so far turn away as a second session of a live peer (a
/// function of the scenario alone): those peers do what real ones do and send their table right behind the
/// KEEPALIVE, without waiting for the verdict. A session that was never accepted has no routes: whatever the
/// unit makes of that UPDATE shows in the gate's output and in the RIB.
fn eager_conns(scn: &Scn) -> Vec<usize> {
    let mut live: Vec<(u32, u32, usize, bool)> = vec![]; // addr, asn, connection index, still up
    let mut out = vec![];
    let mut terminated = false;
    let mut ci = 0usize;
    for (opi, op) in scn.ops.iter().enumerate() {
        match op {
            Op::Conn(a, n) => {
                let ok = !terminated && spec_match(&scn.cfg, *a).map(|e| spec_allows(e, *n)).unwrap_or(false);
                if ok { if live.iter().any(|l| l.3 && l.0 == *a && l.1 == *n) { out.push(opi); } else { live.push((*a, *n, ci, true)); } }
                ci += 1;
            }
            Op::Fin(k) | Op::Rst(k) | Op::Garbage(k, _) | Op::Hold(k) => for l in live.iter_mut() { if l.2 == *k { l.3 = false; } },
            Op::Terminate => terminated = true,
            _ => {}
        }
    }
    out
}

async fn run_async(scn: &Scn, blobs: &mut HashMap<Vec<u8>, u32>, qs: &[Pfx]) -> Raw {
    let eager = eager_conns(scn);
    let reg = Arc::new(ving::new_register());
    let collected: Arc<Mutex<Vec<Update>>> = Arc::new(Mutex::new(vec![]));
    let mut unit = None;
    let mut port = 0;
    for _ in 0..20 {
        port = free_port();
        let cfg = match hook::parse_unit(&toml_of(&scn.cfg, port)) { Ok(c) => c, Err(e) => return Raw { toks: vec![format!("bad-config:{}", e.replace(|c: char| c.is_whitespace() || c == '|', "_"))], updates: vec![], live: vec![], next: 0, panicked: false, flood: 0, discard: true } };
        let (u, mut link) = hook::start(cfg, reg.clone());
        let c2 = collected.clone();
        let target = Arc::new(FnTarget(Arc::new(move |u: Update| { c2.lock().unwrap().push(u); })));
        link.set_direct_update_target(target.clone());
        let _ = link.connect(false).await;
        // our own unit says it is listening (not: "somebody accepts connections on that port")
        let ok = wait_until(Duration::from_millis(900), || u.listener_bound_count() >= 1).await;
        if ok { unit = Some((u, link, target)); break; }
        u.task.abort();
    }
    let Some((unit, _link, _target)) = unit else { return Raw { toks: vec!["no-listener".into()], updates: vec![], live: vec![], next: 0, panicked: false, flood: 0, discard: true } };
    let mut conns: Vec<Conn> = vec![];
    let mut toks: Vec<String> = vec![];
    let mut stamped: Vec<(usize, Update)> = vec![];
    let mut seen = 0usize;
    let mut terminated = false;
    let mut flood = 0usize;
    let mut guard: Option<TcpSocket> = None;
    let mut port_lost = false;
    let drain = |opi: usize, seen: &mut usize, stamped: &mut Vec<(usize, Update)>| -> Vec<String> {
        let g = collected.lock().unwrap();
        let mut out = vec![];
        while *seen < g.len() { out.push(show_update(&g[*seen])); stamped.push((opi, g[*seen].clone())); *seen += 1; }
        out
    };
    for (opi, op) in scn.ops.iter().enumerate() {
        let tok: String = match op {
            Op::Conn(addr, asn) if port_lost => { conns.push(Conn { stream: None, addr: *addr, asn: *asn, established: false }); "port-lost".into() }
            Op::Conn(addr, asn) => {
                let sock = TcpSocket::new_v4().unwrap();
                let _ = sock.set_reuseaddr(true);
                let bound = sock.bind(SocketAddr::from((ip_of(*addr), 0)));
                let before_infos = info_count(&reg, 200);
                let res = match bound { Err(_) => None, Ok(()) => tokio::time::timeout(Duration::from_secs(2), sock.connect(SocketAddr::from(([127, 0, 0, 1], port)))).await.ok().and_then(|r| r.ok()) };
                match res {
                    None => { conns.push(Conn { stream: None, addr: *addr, asn: *asn, established: false }); "refused".into() }
                    Some(mut s) => {
                        let _ = s.set_nodelay(true);
                        let mut hello = open_bytes(*asn, 90, [10, 0, (*addr >> 8) as u8, *addr as u8]);
                        let pipelined = eager.contains(&opi) && !qs.is_empty();
                        if pipelined {
                            // OPEN, KEEPALIVE and the table in one segment: to the receiver a peer that answers fast looks
                            // the same, and everything a session may read after the verdict is already there to be read
                            hello.extend_from_slice(&keepalive());
                            let u = Upd { attr: 900 + opi as u32, ann: vec![Nlri { pfx: qs[0], safi: Safi::U }], wd: vec![], mp4: false, corrupt: 0 };
                            if let Ok((pdu, pas)) = encode_update(&u) { blobs.insert(pas, u.attr); for _ in 0..6 { hello.extend_from_slice(&pdu); } }
                        }
                        let _ = s.write_all(&hello).await;
                        let mut got_open = false;
                        let mut got_ka = pipelined;
                        let mut verdict = String::new();
                        let t = Instant::now();
                        loop {
                            if t.elapsed() > Duration::from_secs(3) { verdict = "stuck".into(); break; }
                            match read_frame(&mut s, Duration::from_millis(5)).await {
                                Frame::Msg(1, _) => got_open = true,
                                Frame::Msg(4, _) => { if !got_ka { let _ = s.write_all(&keepalive()).await; } got_ka = true; }
                                Frame::Msg(3, b) => { verdict = format!("notif{}.{}", b.first().copied().unwrap_or(0), b.get(1).copied().unwrap_or(0)); }
                                Frame::Msg(_, _) => {}
                                Frame::Eof => { if verdict.is_empty() { verdict = if got_open { "rejected".into() } else { "nocfg".into() }; } break; }
                                Frame::Timeout => {
                                    if got_open && got_ka && verdict.is_empty() && info_count(&reg, 200) > before_infos { verdict = "neg".into(); break; }
                                }
                            }
                        }
                        let est = verdict == "neg";
                        let v = match verdict.as_str() { "notif2.2" => "badas".to_string(), "notif6.5" => "rejected".to_string(), x => x.to_string() };
                        conns.push(Conn { stream: if est { Some(s) } else { None }, addr: *addr, asn: *asn, established: est });
                        v
                    }
                }
            }
            Op::Upd(k, u) => {
                match conns.get_mut(*k).and_then(|c| c.stream.as_mut()) {
                    None => "nc".into(),
                    Some(s) => {
                        let (pdu, pas) = encode_update(u).unwrap();
                        if !u.ann.is_empty() { blobs.insert(pas, u.attr); }
                        let n0 = collected.lock().unwrap().len();
                        let sent = s.write_all(&pdu).await.is_ok();
                        let c3 = collected.clone();
                        let arrived = sent && wait_until(if terminated { SETTLE } else { ARRIVE }, || c3.lock().unwrap().len() > n0).await;
                        if arrived { "sent".into() } else { "lostupd".into() }
                    }
                }
            }
            Op::Notif(k) => match conns.get_mut(*k).and_then(|c| c.stream.as_mut()) {
                None => "nc".into(),
                Some(s) => { let _ = s.write_all(&notification()).await; tokio::time::sleep(Duration::from_millis(15)).await; "sent".into() }
            },
            Op::Fin(k) | Op::Rst(k) | Op::Garbage(k, _) => {
                match conns.get_mut(*k) {
                    Some(c) if c.stream.is_some() => {
                        let mut s = c.stream.take().unwrap();
                        let n0 = collected.lock().unwrap().len();
                        match op {
                            Op::Rst(_) => { let _ = s.set_linger(Some(Duration::from_secs(0))); drop(s); }
                            Op::Garbage(_, kind) => {
                                let mut b = vec![0xFF; 16];
                                if *kind == 0 { b.extend_from_slice(&[0, 7, 2]); } else { b.extend_from_slice(&[0, 19, 9]); }
                                let _ = s.write_all(&b).await;
                                // keep the socket open: only the bytes can end the session
                                let c3 = collected.clone();
                                wait_until(if *kind == 0 || terminated { SETTLE } else { ARRIVE }, || c3.lock().unwrap().len() > n0).await;
                                drop(s);
                            }
                            _ => { let _ = s.shutdown().await; drop(s); }
                        }
                        let c3 = collected.clone();
                        let ended = wait_until(if matches!(op, Op::Garbage(_, 0)) && !terminated { SETTLE } else { ARRIVE }, || c3.lock().unwrap().len() > n0).await;
                        if ended { "ended".into() } else { "noend".into() }
                    }
                    _ => "nc".into(),
                }
            }
            Op::Hold(k) => {
                match conns.get_mut(*k) {
                    Some(c) if c.stream.is_some() => {
                        let n0 = collected.lock().unwrap().len();
                        let mut s = c.stream.take().unwrap();
                        // silence; read what the unit sends until it says NOTIFICATION 4 (hold timer expired)
                        let t = Instant::now();
                        let mut expired = false;
                        while t.elapsed() < Duration::from_secs(8) {
                            match read_frame(&mut s, Duration::from_millis(100)).await {
                                Frame::Msg(3, b) if b.first() == Some(&4) => { expired = true; break; }
                                Frame::Eof => break,
                                _ => {}
                            }
                        }
                        let c3 = collected.clone();
                        let ended = wait_until(SETTLE, || c3.lock().unwrap().len() > n0).await;
                        drop(s); // the peer closes its side after the NOTIFICATION
                        let c3 = collected.clone();
                        let ended = ended || wait_until(SETTLE, || c3.lock().unwrap().len() > n0).await;
                        format!("{}{}", if expired { "expired" } else { "noexpiry" }, if ended { "-ended" } else { "-noend" })
                    }
                    _ => "nc".into(),
                }
            }
            Op::Terminate => {
                if terminated { "nc".into() } else {
                    terminated = true;
                    let n0 = collected.lock().unwrap().len();
                    unit.agent.terminate().await;
                    // the termination has settled once the unit's task has returned (its listener is dropped with
                    // it): a connection made before that is still accepted by the OS and then dropped, which
                    // reads as `nocfg` instead of `refused` (a load-dependent false alarm of an earlier version)
                    wait_until(ARRIVE, || unit.task.is_finished()).await;
                    // keep the port: a bound, non-listening socket refuses connections like a free port does and
                    // stops any other unit (another case, another process) from taking the port over while this
                    // case still connects to it; if somebody was faster the case is discarded. SO_REUSEADDR: the
                    // accepted connections of the ended unit (which inherited it from tokio's listener) still
                    // exist on this local port, and without it the bind fails with EADDRINUSE — every
                    // termination with a live session was then discarded as `environment` (found by builder bgpmetrics)
                    match TcpSocket::new_v4() { Ok(g) => match { let _ = g.set_reuseaddr(true); g.bind(SocketAddr::from(([127, 0, 0, 1], port))) } { Ok(()) => guard = Some(g), Err(_) => port_lost = true }, Err(_) => port_lost = true }
                    let c3 = collected.clone();
                    wait_until(SETTLE, || c3.lock().unwrap().len() > n0).await;
                    tokio::time::sleep(Duration::from_millis(30)).await;
                    // informational: what an established peer receives in the next 40 ms
                    if let Some(s) = conns.iter_mut().find_map(|c| c.stream.as_mut()) {
                        let t = Instant::now();
                        let mut n = 0usize;
                        while t.elapsed() < Duration::from_millis(40) { match read_frame(s, Duration::from_millis(5)).await { Frame::Msg(3, _) => n += 1, Frame::Eof => break, _ => {} } }
                        flood = flood.max(n);
                    }
                    format!("term-{}", if unit.task.is_finished() { "unit-ended" } else { "unit-running" })
                }
            }
        };
        tokio::time::sleep(Duration::from_millis(2)).await;
        let mut outs = drain(opi, &mut seen, &mut stamped);
        if matches!(op, Op::Terminate) { outs.sort_by_key(|t| t.trim_start_matches('W').parse::<u32>().unwrap_or(0)); }
        toks.push(if outs.is_empty() { tok } else { format!("{tok}>{}", outs.join(",")) });
    }
    // let stragglers arrive (nothing should)
    tokio::time::sleep(Duration::from_millis(20)).await;
    let outs = drain(scn.ops.len(), &mut seen, &mut stamped);
    if !outs.is_empty() { toks.push(format!("late>{}", outs.join(","))); }
    let live = unit.live_keys();
    let next = ving::register(&reg);
    let panicked = unit.task.is_finished() && !terminated;
    unit.task.abort();
    drop(conns);
    drop(guard);
    Raw { toks, updates: stamped, live, next, panicked, flood, discard: port_lost }
}

// ------------------------------------------------------------------ panics (per case, by runtime thread name)

static CASE_NO: std::sync::atomic::AtomicUsize = std::sync::atomic::AtomicUsize::new(0);
static PANICS: Mutex<Vec<(String, String)>> = Mutex::new(Vec::new());

fn install_panic_hook() {
    let loud = std::env::var("VERIF_PANICS").is_ok();
    let default = std::panic::take_hook();
    std::panic::set_hook(Box::new(move |info| {
        let t = std::thread::current().name().unwrap_or("").to_string();
        let loc = info.location().map(|l| { let f = l.file(); let f = f.rsplit("/src/").next().unwrap_or(f); format!("{}:{}", f, l.line()) }).unwrap_or_default();
        let msg = info.payload().downcast_ref::<String>().cloned().or_else(|| info.payload().downcast_ref::<&str>().map(|s| s.to_string())).unwrap_or_default();
        PANICS.lock().unwrap().push((t, format!("{} {}", loc, msg.split_whitespace().take(4).collect::<Vec<_>>().join("-"))));
        if loud { default(info); }
    }));
}

// ------------------------------------------------------------------ oracle

type Snap = Vec<Vec<(u32, char, String)>>;
fn snapshot(rib: &RealRib, qs: &[Pfx]) -> Snap { qs.iter().map(|p| rib.query(p, true)).collect() }

/// The tracker's own reading of the configuration: an exact entry for the address, else the longest
/// prefix entry containing it.
fn spec_match<'a>(cfg: &'a [Entry], addr: u32) -> Option<&'a Entry> {
    if let Some(e) = cfg.iter().find(|e| e.key == Key::Exact(addr)) { return Some(e); }
    cfg.iter().filter(|e| matches!(&e.key, Key::Prefix(l, b) if (*l == 0 || addr >> (32 - *l as u32) == *b))).max_by_key(|e| match &e.key { Key::Prefix(l, _) => *l, _ => 0 })
}
fn spec_allows(e: &Entry, asn: u32) -> bool { match &e.asns { Asns::One(n) => *n == asn, Asns::Many(v) => v.is_empty() || v.contains(&asn) } }

struct Outcome { case: String, imp: String, oracle: String, nontrivial: bool, notes: Vec<String>, discard: bool }

fn run_scn(scn: &Scn, qs: &[Pfx]) -> Outcome {
    let tname = format!("bgpin-case-{}", CASE_NO.fetch_add(1, std::sync::atomic::Ordering::SeqCst));
    let rt = tokio::runtime::Builder::new_multi_thread().worker_threads(2).thread_name(tname.clone()).enable_all().build().unwrap();
    let mut rib = RealRib::new();
    let mut blobs = HashMap::new();
    let raw = rt.block_on(run_async(scn, &mut blobs, qs));
    rt.shutdown_timeout(Duration::from_millis(200));
    let panics: Vec<String> = { let mut g = PANICS.lock().unwrap(); let (mine, rest): (Vec<_>, Vec<_>) = g.drain(..).partition(|(t, _)| *t == tname); *g = rest; mine.into_iter().map(|(_, m)| m).collect() };
    rib.blobs = blobs;
    let mut fails: Vec<String> = vec![];
    let mut notes: Vec<String> = vec![];
    if raw.panicked { fails.push("panic:unit-task-ended-without-termination".into()); }
    for p in &panics { notes.push(format!("panic-{}", p.split_whitespace().next().unwrap_or(""))); }
    let short_frames = scn.ops.iter().filter(|o| matches!(o, Op::Garbage(_, 0))).count();
    for p in &panics { if !(p.starts_with("bgp/fsm/session.rs") && p.contains("subtract") && short_frames > 0) { fails.push(format!("panic:{}", p.replace(' ', "_"))); } }

    // ---- the tracker: which connection is an established session, and when it ended
    #[derive(Clone)]
    struct T { addr: u32, asn: u32, est: bool, ended_at: Option<usize>, id: Option<u32> }
    let mut tr: Vec<T> = vec![];
    let mut terminated = false;
    let mut want_tok: Vec<Option<&'static str>> = vec![];
    for (opi, op) in scn.ops.iter().enumerate() {
        match op {
            Op::Conn(a, n) => {
                let verdict = if terminated { "refused" } else {
                    match spec_match(&scn.cfg, *a) {
                        None => "nocfg",
                        Some(e) if !spec_allows(e, *n) => "badas",
                        Some(_) => if tr.iter().any(|t| t.est && t.ended_at.is_none() && t.addr == *a && t.asn == *n) { "rejected" } else { "neg" },
                    }
                };
                tr.push(T { addr: *a, asn: *n, est: verdict == "neg", ended_at: None, id: None });
                want_tok.push(Some(verdict));
            }
            Op::Fin(k) | Op::Rst(k) | Op::Garbage(k, _) | Op::Hold(k) => {
                if let Some(t) = tr.get_mut(*k) { if t.est && t.ended_at.is_none() { t.ended_at = Some(opi); } }
                want_tok.push(None);
            }
            Op::Terminate => {
                if !terminated { for t in tr.iter_mut() { if t.est && t.ended_at.is_none() { t.ended_at = Some(opi); } } }
                terminated = true;
                want_tok.push(None);
            }
            _ => want_tok.push(None),
        }
    }
    // accept decisions (C06/C14 logic: which configured peer an address matches, AS check, one session per peer)
    let mut reconnect_blocked = false;
    for (opi, w) in want_tok.iter().enumerate() {
        let Some(w) = w else { continue };
        let got = raw.toks.get(opi).map(|t| t.split('>').next().unwrap_or("")).unwrap_or("");
        if got != *w {
            // a returning peer turned away because its ended session is still in live_sessions
            let Op::Conn(a, n) = &scn.ops[opi] else { continue };
            let stale = got == "rejected" && *w == "neg" && tr.iter().any(|t| t.addr == *a && t.asn == *n && t.ended_at.map(|e| e < opi).unwrap_or(false));
            if stale { reconnect_blocked = true; let ci = scn.ops[..opi].iter().filter(|o| matches!(o, Op::Conn(..))).count(); if let Some(t) = tr.get_mut(ci) { t.est = false; } } else { fails.push(format!("accept:decision-differs op {opi} {} expected {w} got {got}", show_op(&scn.ops[opi]))); }
        }
    }
    // ids: the id under which a connection's updates arrived
    for (opi, u) in &raw.updates {
        if let (Update::Bulk(_), Some(Op::Upd(k, _))) = (u, scn.ops.get(*opi)) { if let (Some(t), Some(id)) = (tr.get_mut(*k), update_id(u)) { if t.id.is_none() { t.id = Some(id); } } }
    }

    // ---- feed the real RIB in gate order; judge C02 around every session-level withdrawal
    let mut withdrawn_ids: Vec<u32> = vec![];
    let mut eos = 0usize;
    let mut per_op_snap: Vec<(usize, Snap)> = vec![];
    let mut ui = 0usize;
    for opi in 0..=scn.ops.len() {
        while ui < raw.updates.len() && raw.updates[ui].0 == opi {
            let u = raw.updates[ui].1.clone();
            ui += 1;
            match &u {
                Update::Withdraw(id, None) => {
                    let before = snapshot(&rib, qs);
                    if let Err(p) = rib.process(u.clone()) { fails.push(format!("panic:rib-unit {p}")); }
                    let after = snapshot(&rib, qs);
                    for (b, a) in before.iter().zip(after.iter()) {
                        let bo: Vec<_> = b.iter().filter(|r| r.0 != *id).collect();
                        let ao: Vec<_> = a.iter().filter(|r| r.0 != *id).collect();
                        if bo != ao { fails.push(format!("isolation:other-source-changed W{id} before {} after {}", show_recs(b), show_recs(a))); }
                        if a.iter().any(|r| r.0 == *id && r.1 != 'W') { fails.push(format!("completeness:route-of-ended-session-still-active W{id} {}", show_recs(a))); }
                    }
                    if withdrawn_ids.contains(id) { fails.push(format!("cleanup:withdrawn-twice id {id}")); }
                    withdrawn_ids.push(*id);
                }
                Update::UpstreamStatusChange(_) => { eos += 1; }
                _ => { if let Err(p) = rib.process(u.clone()) { fails.push(format!("panic:rib-unit {p}")); } }
            }
        }
        if opi < scn.ops.len() { per_op_snap.push((opi, snapshot(&rib, qs))); }
    }
    let fin = snapshot(&rib, qs);
    // a route only a turned-away connection has sent (attribute marker 900 + op index) is in the RIB: independent of
    // timing on a tree where a rejected session is not read any further, so never discarded as machine load
    let eager = eager_conns(scn);
    let ghost = |snap: &Snap| snap.iter().flatten().find(|r| r.2.parse::<u32>().map(|a| a >= 900 && eager.contains(&((a - 900) as usize))).unwrap_or(false)).cloned();
    if let Some(r) = per_op_snap.iter().find_map(|(_, s)| ghost(s)).or_else(|| ghost(&fin)) {
        let rejected_as_told = eager.iter().all(|opi| raw.toks.get(*opi).map(|t| t.starts_with("rejected")).unwrap_or(false));
        if rejected_as_told { fails.push(format!("lifecycle:rejected-session-routes-in-rib a connection that was turned away left {}.{}.{}", r.0, r.1, r.2)); }
    }

    // ---- C07 / C02: every ended session was cleaned up (withdrawn, gone from live_sessions)
    let mut uncleaned: Vec<(usize, &'static str)> = vec![];
    for (k, t) in tr.iter().enumerate() {
        let Some(e) = t.ended_at else { continue };
        let how = match &scn.ops[e] { Op::Fin(_) => "close", Op::Rst(_) => "reset", Op::Garbage(_, 0) => "frame-length-below-19", Op::Garbage(..) => "framing-error", Op::Hold(_) => "hold-timer-expiry", Op::Terminate => "unit-termination", _ => "?" };
        let withdrawn = match t.id { Some(id) => withdrawn_ids.contains(&id), None => raw.toks.get(e).map(|x| x.contains(">W")).unwrap_or(false) };
        let still_live = raw.live.iter().any(|(a, n)| *a == IpAddr::V4(ip_of(t.addr)) && *n == t.asn) && !tr.iter().enumerate().any(|(j, o)| j > k && o.est && o.addr == t.addr && o.asn == t.asn);
        if !withdrawn || still_live { uncleaned.push((k, how)); }
        notes.push(format!("end-{how}"));
    }
    for (k, how) in &uncleaned { fails.push(format!("bgp:session-end-without-cleanup:{how} connection {k}: no Withdraw for its ingress id and/or still in live_sessions")); }
    if reconnect_blocked { fails.push("bgp:session-end-without-cleanup:returning-peer-rejected a peer whose session ended is turned away as 'already got a session'".into()); }

    // ---- C03 / C01: the final RIB equals the replay of the tracker's history under the ids the real code gave
    let mut evs: Vec<Ev> = vec![];
    let mut unknown_id = false;
    for (opi, op) in scn.ops.iter().enumerate() {
        match op {
            Op::Upd(k, u) => if let Some(t) = tr.get(*k) { if t.est && t.ended_at.map(|e| e > opi).unwrap_or(true) { match t.id { Some(id) => evs.push(Ev::Upd(id, u.clone())), None => unknown_id = true } } },
            Op::Fin(_) | Op::Rst(_) | Op::Garbage(..) | Op::Hold(_) | Op::Terminate => for t in tr.iter() { if t.ended_at == Some(opi) { if let Some(id) = t.id { evs.push(Ev::Down(id)); } } },
            _ => {}
        }
    }
    if unknown_id { fails.push("lifecycle:update-of-established-session-not-delivered".into()); }
    let want = spec_observe(&evs, qs, SpecFlags::default());
    if want != fin && uncleaned.is_empty() {
        let first = qs.iter().zip(fin.iter().zip(want.iter())).find(|(_, (g, w))| g != w).map(|(p, (g, w))| format!("prefix {} got {} want {}", p.show(), show_recs(g), show_recs(w))).unwrap_or_default();
        if spec_observe(&evs, qs, SpecFlags { sticky_down: true, ..Default::default() }) == fin { fails.push(format!("flap:global-withdrawn-marker-never-cleared {first}")); } else { fails.push(format!("replay-mismatch {first}")); }
    }

    // ---- C14: a returning peer keeps its id
    let mut id_changed = None;
    for (k, t) in tr.iter().enumerate() {
        if let Some(id) = t.id { if let Some((j, o)) = tr.iter().enumerate().find(|(j, o)| *j < k && o.addr == t.addr && o.asn == t.asn && o.id.is_some() && o.id != Some(id)) { id_changed = Some((j, o.id.unwrap(), k, id)); } }
    }
    let ended_any = tr.iter().any(|t| t.ended_at.is_some());
    if let Some((j, a, k, b)) = id_changed { fails.push(format!("bgp:fresh-ingress-id-per-connection peer of connection {j} (id {a}) returns as connection {k} with id {b}")); }
    if ended_any && eos == 0 { fails.push("bgp:no-end-of-stream the BGP session ended without an end-of-stream notice".into()); }

    let case = show_case(scn, qs);
    let imp = format!("{} | live={} | next={} | {}", raw.toks.join(" "), if raw.live.is_empty() { "-".into() } else { join(raw.live.iter().map(|(a, n)| format!("{}.{}", match a { IpAddr::V4(v) => u32::from_be_bytes(v.octets()), _ => 0 }, n)), ",") }, raw.next, rib.observe(qs));
    let imp = if panics.is_empty() && raw.flood == 0 { imp } else { format!("{imp} ## panics: {} notifications-within-40ms-of-termination: {}", panics.join("; "), raw.flood) };
    if raw.flood > 3 { notes.push("termination-notification-flood".into()); }
    let rank = |f: &String| -> u8 { if f.starts_with("bgp:no-end-of-stream") { 3 } else if f.starts_with("bgp:fresh-ingress-id") { 2 } else if f.starts_with("bgp:session-end-without-cleanup") { 1 } else { 0 } };
    fails.sort_by_key(rank);
    for f in &fails { notes.push(format!("oracle-{}", f.split_whitespace().next().unwrap_or(""))); }
    let oracle = match fails.first() { None => "ok".to_string(), Some(f) => format!("fail {}{}", f, if fails.len() > 1 { format!(" (+{} more: {})", fails.len() - 1, join(fails[1..].iter().map(|x| x.split_whitespace().next().unwrap_or("").to_string()), ",")) } else { String::new() }) };
    let nontrivial = tr.iter().filter(|t| t.est).count() >= 1 && scn.ops.iter().any(|o| matches!(o, Op::Upd(..))) && ended_any;
    for t in &raw.toks { notes.push(format!("tok-{}", t.split('>').next().unwrap_or("").split('.').next().unwrap_or(""))); }
    Outcome { case, imp, oracle, nontrivial, notes, discard: raw.discard }
}

// ------------------------------------------------------------------ generators

fn a4(b: u8, c: u8, d: u8) -> u32 { u32::from_be_bytes([127, b, c, d]) }

fn gen_cfg(g: &mut Rng) -> Vec<Entry> {
    let mut v: Vec<Entry> = vec![];
    let asns = |g: &mut Rng| -> Asns { match g.below(4) { 0 => Asns::One(65001 + g.below(3) as u32), 1 => Asns::Many(vec![65001, 65002]), 2 => Asns::Many(vec![65000 + g.below(4) as u32, 70000]), _ => Asns::Many(vec![]) } };
    for _ in 0..g.range(1, 5) {
        let key = match g.below(6) {
            0 | 1 => Key::Exact(a4(1, g.below(2) as u8, 1 + g.below(4) as u8)),
            2 => Key::Prefix(24, a4(1, g.below(2) as u8, 0) >> 8),
            3 => Key::Prefix(16, a4(1, 0, 0) >> 16),
            4 => Key::Prefix(32, a4(1, 0, 1 + g.below(3) as u8)),
            _ => Key::Prefix(30, a4(1, 0, 0) >> 2),
        };
        if v.iter().any(|e| e.key == key) { continue; }
        let a = asns(g);
        v.push(Entry { key, asns: a, hold: 0 });
    }
    v
}

fn gen_upd(g: &mut Rng, pool: &[Pfx]) -> Upd {
    let safi = |_g: &mut Rng| Safi::U; // unicast only: the two-table query order is C01/C11's subject
    let fam6 = g.chance(1, 3);
    let cands: Vec<Pfx> = pool.iter().filter(|p| p.v6 == fam6).cloned().collect();
    let mut ann = vec![];
    let mut wd = vec![];
    let s = safi(g);
    for _ in 0..g.range(0, 3) { let p = cands[g.below(cands.len() as u64) as usize]; let n = Nlri { pfx: p, safi: if fam6 || s == Safi::M { s } else { Safi::U } }; if !ann.contains(&n) { ann.push(n); } }
    for _ in 0..g.range(0, 2) { let p = cands[g.below(cands.len() as u64) as usize]; let n = Nlri { pfx: p, safi: if fam6 || s == Safi::M { s } else { Safi::U } }; if !ann.contains(&n) && !wd.contains(&n) { wd.push(n); } }
    if ann.is_empty() && wd.is_empty() { ann.push(Nlri { pfx: cands[0], safi: Safi::U }); }
    // one MP attribute carries one AFI/SAFI: keep each half to one family/safi
    let fam_of = |n: &Nlri| (n.pfx.v6, n.safi);
    if let Some(f) = ann.first().map(fam_of) { ann.retain(|n| fam_of(n) == f); }
    if let Some(f) = wd.first().map(fam_of) { wd.retain(|n| fam_of(n) == f); }
    Upd { attr: 1 + g.below(40) as u32, ann, wd, mp4: false, corrupt: 0 }
}

fn gen_scn(g: &mut Rng, pool: &[Pfx]) -> Scn {
    let cfg = gen_cfg(g);
    let mut ops = vec![];
    let mut nconn = 0usize;
    let addrs = [a4(1, 0, 1), a4(1, 0, 2), a4(1, 0, 3), a4(1, 1, 1), a4(1, 1, 2), a4(2, 0, 1)];
    let n = g.range(6, 16);
    for _ in 0..n {
        let r = g.below(100);
        if nconn == 0 || r < 22 {
            // mostly an address / AS some entry admits
            let (a, asn) = if g.chance(3, 4) {
                let e = &cfg[g.below(cfg.len() as u64) as usize];
                let a = match &e.key { Key::Exact(a) => *a, Key::Prefix(l, b) => { let base = if *l == 0 { 0 } else { b << (32 - *l as u32) }; if *l >= 31 { base } else { base | (1 + g.below(3) as u32) } } };
                let asn = match &e.asns { Asns::One(n) => *n, Asns::Many(v) if !v.is_empty() => v[g.below(v.len() as u64) as usize], _ => 65001 + g.below(3) as u32 };
                (a, if g.chance(1, 8) { 65009 } else { asn })
            } else { (addrs[g.below(addrs.len() as u64) as usize], 65001 + g.below(3) as u32) };
            ops.push(Op::Conn(a, asn));
            nconn += 1;
        } else if r < 75 {
            // one UPDATE in six is the previous UPDATE of the scenario again, byte for byte on the same connection (a peer
            // may repeat itself: every UPDATE yields its route events, whatever came before)
            let prev = ops.iter().rev().find_map(|o| if let Op::Upd(k, u) = o { Some((*k, u.clone())) } else { None });
            match prev { Some((k, u)) if g.chance(1, 6) => ops.push(Op::Upd(k, u)), _ => ops.push(Op::Upd(g.below(nconn as u64) as usize, gen_upd(g, pool))) }
        }
        else if r < 80 { ops.push(Op::Notif(g.below(nconn as u64) as usize)); }
        else if r < 90 { ops.push(Op::Fin(g.below(nconn as u64) as usize)); }
        else if r < 95 { ops.push(Op::Rst(g.below(nconn as u64) as usize)); }
        else if r < 99 { ops.push(Op::Garbage(g.below(nconn as u64) as usize, g.below(2) as u8)); }
        else { ops.push(Op::Terminate); }
    }
    Scn { cfg, ops }
}

fn witnesses(pool: &[Pfx]) -> Vec<Scn> {
    let u = |attr: u32, ann: Vec<usize>, wd: Vec<usize>| Upd { attr, ann: ann.into_iter().map(|i| Nlri { pfx: pool[i], safi: Safi::U }).collect(), wd: wd.into_iter().map(|i| Nlri { pfx: pool[i], safi: Safi::U }).collect(), mp4: false, corrupt: 0 };
    let p1 = a4(1, 0, 1);
    let p2 = a4(1, 0, 2);
    let e = |key: Key, asns: Asns, hold: u16| Entry { key, asns, hold };
    vec![
        // two peers, one session ends: exactly its routes are withdrawn; the peer returns and announces again
        Scn { cfg: vec![e(Key::Exact(p1), Asns::One(65001), 0), e(Key::Prefix(24, p1 >> 8), Asns::Many(vec![]), 0)],
              ops: vec![Op::Conn(p1, 65001), Op::Conn(p2, 65002), Op::Upd(0, u(1, vec![0, 1], vec![])), Op::Upd(1, u(2, vec![0, 5], vec![])), Op::Fin(0), Op::Conn(p1, 65001), Op::Upd(2, u(3, vec![0], vec![])), Op::Rst(1)] },
        // a second connection of a live peer; a wrong AS; an unknown address
        Scn { cfg: vec![e(Key::Exact(p1), Asns::One(65001), 0)],
              ops: vec![Op::Conn(p1, 65001), Op::Upd(0, u(4, vec![2], vec![])), Op::Conn(p1, 65001), Op::Conn(p1, 65002), Op::Conn(p2, 65001), Op::Upd(0, u(5, vec![3], vec![2])), Op::Garbage(0, 1)] },
        // a live peer whose other end keeps trying: thirty further connections, each turned away, each sending its table
        // behind the KEEPALIVE without waiting for the verdict; then the live session ends
        Scn { cfg: vec![e(Key::Exact(p1), Asns::One(65001), 0)],
              ops: { let mut o = vec![Op::Conn(p1, 65001), Op::Upd(0, u(9, vec![1], vec![]))]; for _ in 0..30 { o.push(Op::Conn(p1, 65001)); } o.push(Op::Upd(0, u(10, vec![2], vec![]))); o.push(Op::Fin(0)); o } },
        Scn { cfg: vec![e(Key::Prefix(24, p1 >> 8), Asns::Many(vec![]), 0)],
              ops: { let mut o = vec![Op::Conn(p1, 65001), Op::Conn(p2, 65002), Op::Upd(1, u(11, vec![0], vec![]))]; for k in 0..30 { o.push(Op::Conn(if k % 2 == 0 { p2 } else { p1 }, if k % 2 == 0 { 65002 } else { 65001 })); } o.push(Op::Rst(1)); o.push(Op::Upd(0, u(12, vec![0], vec![]))); o } },
        // hold-timer expiry, then the peer returns
        Scn { cfg: vec![e(Key::Exact(p1), Asns::One(65001), 3)],
              ops: vec![Op::Conn(p1, 65001), Op::Upd(0, u(6, vec![0], vec![])), Op::Hold(0), Op::Conn(p1, 65001)] },
        // a header declaring length 7 on an established session, then the peer returns
        Scn { cfg: vec![e(Key::Exact(p1), Asns::One(65001), 0)],
              ops: vec![Op::Conn(p1, 65001), Op::Upd(0, u(8, vec![0], vec![])), Op::Garbage(0, 0), Op::Conn(p1, 65001)] },
        // unit termination with a session up
        Scn { cfg: vec![e(Key::Prefix(16, p1 >> 16), Asns::Many(vec![]), 0)],
              ops: vec![Op::Conn(p1, 65001), Op::Upd(0, u(7, vec![0], vec![])), Op::Terminate] },
    ]
}

fn main() {
    let args = parse_args();
    let t0 = Instant::now();
    install_panic_hook();
    let pool = pool();
    let mut rec = Recorder::new("at least one established session that announced something and at least one session end in the history");
    let mut record = |rec: &mut Recorder, o: Outcome| {
        // the environment took the case away (no listener could be started, or the port was taken over after
        // the unit's termination): not an observation of rotonda
        if o.discard { rec.bump("discarded.environment"); return; }
        for n in &o.notes { rec.bump(n); }
        rec.case(o.case, o.imp, o.oracle, o.nontrivial);
    };
    if let Some(path) = &args.replay {
        for line in replay_cases(path) {
            if let Some((scn, qs)) = parse_case(&line) { let o = run_scn(&scn, &qs); record(&mut rec, o); }
        }
        rec.finish(&args, t0.elapsed().as_secs_f64());
        return;
    }
    // witnesses first (the hold-timer one takes ~3.5 s; run them on their own threads while generating)
    let mut ws = witnesses(&pool);
    // more of the "other end keeps trying" scenario (what a turned-away connection sends reaches nobody): a window
    // a few scheduler decisions wide in the session task is only met if many connections try it
    for j in 0..(if args.thorough { 24u32 } else { 8 }) {
        let a = a4(1, 0, 1 + (j % 3) as u8);
        let nl = |i: usize| Nlri { pfx: pool[i % pool.len()], safi: Safi::U };
        let mut o = vec![Op::Conn(a, 65001), Op::Upd(0, Upd { attr: 20 + j, ann: vec![nl(j as usize)], wd: vec![], mp4: false, corrupt: 0 })];
        for _ in 0..(20 + j as usize) { o.push(Op::Conn(a, 65001)); }
        o.push(Op::Fin(0));
        ws.push(Scn { cfg: vec![Entry { key: Key::Prefix(24, a >> 8), asns: Asns::One(65001), hold: 0 }], ops: o });
    }
    let wh: Vec<_> = ws.into_iter().map(|s| { let p = pool.clone(); std::thread::spawn(move || run_scn(&s, &p)) }).collect();
    let budget = if args.thorough { Duration::from_secs(150) } else { Duration::from_secs(11) };
    let nthreads = 8usize;
    let seed = args.seed;
    let handles: Vec<_> = (0..nthreads).map(|ti| {
        let pool = pool.clone();
        std::thread::spawn(move || {
            let mut g = Rng::new(seed.wrapping_mul(1000).wrapping_add(ti as u64 + 1));
            let mut outs = vec![];
            while t0.elapsed() < budget {
                let scn = gen_scn(&mut g, &pool);
                outs.push(run_scn(&scn, &pool));
            }
            outs
        })
    }).collect();
    let mut fsmdrop = "as-written";
    let mut frame = "as-written";
    for h in wh { if let Ok(o) = h.join() {
        // defect-site variants, from the witnesses' own observations
        if o.case.contains(" h:0 ") && o.imp.contains("expired-ended") { fsmdrop = "repaired"; }
        if o.case.contains(" g:0:0 ") && o.imp.split_whitespace().nth(2).map(|t| t.starts_with("ended")).unwrap_or(false) { frame = "repaired"; }
        record(&mut rec, o);
    } }
    for h in handles { if let Ok(v) = h.join() { for o in v { record(&mut rec, o); } } }
    rec.variant("fsmdrop", fsmdrop);
    rec.variant("frame", frame);
    rec.finish(&args, t0.elapsed().as_secs_f64());
}
