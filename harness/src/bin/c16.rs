//! C16 engine: the real mrt-file-in `process_file` + queue consumer vs the Lean
//! model `Model/Mrt.lean`.
//!
//! A case is a queue of 1-3 MRT files written by this harness (TABLE_DUMP_V2
//! peer index + RIB records, BGP4MP(_AS4) messages and state changes,
//! unsupported subtypes/types, truncation; plain / gzip / bzip2 / missing /
//! undecodable). The real `MrtInRunner::run` (queue consumer task + result
//! loop) processes the queue behind a cfg-guarded hook; the observation is
//! the sequence of `Update`s that leave the unit's gate (collected through a
//! real `Link`), the enqueuer responses, and the next free ingress id.
//! Observation is at the Update level (no RIB unit downstream).
//! The oracle reads every UPDATE as RFC 4271 4.3 says: a prefix that one UPDATE both
//! withdraws and announces is expected as its announcement only (`explode_update`,
//! /repo commit 2186599; variant site `overlap`).
//! Variant site `dumpreg`: the peer index loop of `process_file` registers a fresh id per entry of every dump
//! (as written) / calls `find_or_register_peer` (repaired). The oracle judges "one peer, one id" on the real
//! register itself: an identity (this unit, address, ASN) that holds two ids is a failure, under the signature
//! `mrt-in:dump-registers-known-peer-again` when the later id was registered by a peer index loop (it carries a
//! file name), `mrt-in:attribution-unstable` when by a message; the expected number of ids of a fully importable
//! queue is the number of distinct peers it names.
use std::io::Write as _;
use std::net::IpAddr;
use std::path::{Path, PathBuf};
use std::str::FromStr;
use std::time::{Duration, Instant};

use rotonda::comms::Gate;
use rotonda::ingress::IngressInfo;
use rotonda::payload::{RotondaRoute, Update};
use rotonda::roto_runtime::types::RouteContext;
use rotonda_store::prelude::multi::RouteStatus;
use verif_harness::{join, parse_args, rng::Rng, Recorder};

const ADDRS: &[&str] = &["10.0.0.1", "10.0.0.2", "192.0.2.7", "2001:db8::1", "2001:db8::2", "fe80::7"];
const PFX4: &[&str] = &["10.0.0.0/8", "10.1.0.0/16", "192.0.2.0/24", "0.0.0.0/0", "203.0.113.7/32"];
const PFX6: &[&str] = &["2001:db8::/32", "2001:db8:1::/48", "::/0", "2001:db8::1/128"];

#[derive(Clone, Debug, PartialEq)]
struct Peer { addr: usize, asn: u32 }

#[derive(Clone, Debug, PartialEq)]
enum Bgp { Update { v6: bool, ann: Vec<usize>, wd: Vec<usize>, attrs: u8 }, Keepalive, Open, Garbage }

#[derive(Clone, Debug, PartialEq)]
enum Rec {
    PeerIndex(Vec<Peer>),
    Rib { v6: bool, pfx: usize, entries: Vec<(u16, u8)> },
    RibOther(u16),
    Msg { as4: bool, peer: Peer, bgp: Bgp },
    State { as4: bool, peer: Peer, old: u16, new: u16 },
    Local(u16),
    OtherType(u16),
    Truncated,
}

#[derive(Clone, Debug, PartialEq)]
struct FileSpec { comp: char, recs: Vec<Rec> }

// ------------------------------------------------------------- MRT writer

fn be16(v: &mut Vec<u8>, x: u16) { v.extend_from_slice(&x.to_be_bytes()); }
fn be32(v: &mut Vec<u8>, x: u32) { v.extend_from_slice(&x.to_be_bytes()); }
fn addr_bytes(i: usize) -> Vec<u8> { match IpAddr::from_str(ADDRS[i]).unwrap() { IpAddr::V4(a) => a.octets().to_vec(), IpAddr::V6(a) => a.octets().to_vec() } }
fn pfx_bytes(v6: bool, i: usize) -> Vec<u8> {
    let s = if v6 { PFX6[i] } else { PFX4[i] };
    let (a, l) = s.split_once('/').unwrap();
    let len: u8 = l.parse().unwrap();
    let bytes = match IpAddr::from_str(a).unwrap() { IpAddr::V4(a) => a.octets().to_vec(), IpAddr::V6(a) => a.octets().to_vec() };
    let mut v = vec![len];
    v.extend_from_slice(&bytes[..(len as usize + 7) / 8]);
    v
}
/// Path attributes for a RIB entry / conventional UPDATE; the MED carries the attribute-set id.
fn attrs(id: u8, as4: bool) -> Vec<u8> {
    let mut v = vec![0x40, 1, 1, 0];
    if as4 { v.extend_from_slice(&[0x40, 2, 6, 2, 1, 0, 0, 0xfd, 0xe8]); } else { v.extend_from_slice(&[0x40, 2, 4, 2, 1, 0xfd, 0xe8]); }
    v.extend_from_slice(&[0x40, 3, 4, 10, 0, 0, 9]);
    v.extend_from_slice(&[0x80, 4, 4, 0, 0, 0, id]);
    v
}
fn record(out: &mut Vec<u8>, typ: u16, sub: u16, body: &[u8]) { be32(out, 1_700_000_000); be16(out, typ); be16(out, sub); be32(out, body.len() as u32); out.extend_from_slice(body); }
fn bgp4mp_head(as4: bool, p: &Peer) -> Vec<u8> {
    let mut b = vec![];
    if as4 { be32(&mut b, p.asn); be32(&mut b, 64512); } else { be16(&mut b, p.asn as u16); be16(&mut b, 64512); }
    be16(&mut b, 0);
    let a = addr_bytes(p.addr);
    be16(&mut b, if a.len() == 4 { 1 } else { 2 });
    b.extend_from_slice(&a);
    b.extend_from_slice(&vec![0u8; a.len()]);
    b
}
fn bgp_msg(as4: bool, m: &Bgp) -> Vec<u8> {
    let (typ, body): (u8, Vec<u8>) = match m {
        Bgp::Keepalive => (4, vec![]),
        Bgp::Open => (1, vec![4, 0xfd, 0xe8, 0, 180, 10, 0, 0, 1, 0]),
        Bgp::Garbage => (2, vec![0xff, 0xff, 0xff]),
        Bgp::Update { v6, ann, wd, attrs: a } => {
            let mut b = vec![];
            if !*v6 {
                let w: Vec<u8> = wd.iter().flat_map(|i| pfx_bytes(false, *i)).collect();
                be16(&mut b, w.len() as u16); b.extend_from_slice(&w);
                let pa = if ann.is_empty() { vec![] } else { attrs(*a, as4) };
                be16(&mut b, pa.len() as u16); b.extend_from_slice(&pa);
                for i in ann { b.extend_from_slice(&pfx_bytes(false, *i)); }
            } else {
                be16(&mut b, 0);
                let mut pa = vec![];
                if !ann.is_empty() {
                    let n: Vec<u8> = ann.iter().flat_map(|i| pfx_bytes(true, *i)).collect();
                    let mut mp = vec![0, 2, 1, 16]; mp.extend_from_slice(&addr_bytes(3)); mp.push(0); mp.extend_from_slice(&n);
                    pa.extend_from_slice(&[0x90, 14]); be16(&mut pa, mp.len() as u16); pa.extend_from_slice(&mp);
                    pa.extend_from_slice(&[0x40, 1, 1, 0]);
                    if as4 { pa.extend_from_slice(&[0x40, 2, 6, 2, 1, 0, 0, 0xfd, 0xe8]); } else { pa.extend_from_slice(&[0x40, 2, 4, 2, 1, 0xfd, 0xe8]); }
                    pa.extend_from_slice(&[0x80, 4, 4, 0, 0, 0, *a]);
                }
                if !wd.is_empty() {
                    let n: Vec<u8> = wd.iter().flat_map(|i| pfx_bytes(true, *i)).collect();
                    let mut mp = vec![0, 2, 1]; mp.extend_from_slice(&n);
                    pa.extend_from_slice(&[0x90, 15]); be16(&mut pa, mp.len() as u16); pa.extend_from_slice(&mp);
                }
                be16(&mut b, pa.len() as u16); b.extend_from_slice(&pa);
            }
            (2, b)
        }
    };
    let mut v = vec![0xff; 16];
    be16(&mut v, 19 + body.len() as u16); v.push(typ); v.extend_from_slice(&body);
    v
}
fn file_bytes(recs: &[Rec]) -> Vec<u8> {
    let mut out = vec![];
    for (seq, r) in recs.iter().enumerate() {
        match r {
            Rec::PeerIndex(ps) => {
                let mut b = vec![10, 0, 0, 254, 0, 0];
                be16(&mut b, ps.len() as u16);
                for p in ps {
                    let a = addr_bytes(p.addr);
                    let as4 = p.asn > 65535 || p.asn % 2 == 0;
                    b.push((if a.len() == 16 { 1 } else { 0 }) | (if as4 { 2 } else { 0 }));
                    b.extend_from_slice(&[10, 0, 0, p.addr as u8]);
                    b.extend_from_slice(&a);
                    if as4 { be32(&mut b, p.asn) } else { be16(&mut b, p.asn as u16) }
                }
                record(&mut out, 13, 1, &b);
            }
            Rec::Rib { v6, pfx, entries } => {
                let mut b = vec![]; be32(&mut b, seq as u32); b.extend_from_slice(&pfx_bytes(*v6, *pfx)); be16(&mut b, entries.len() as u16);
                for (idx, a) in entries { be16(&mut b, *idx); be32(&mut b, 1_600_000_000); let pa = attrs(*a, true); be16(&mut b, pa.len() as u16); b.extend_from_slice(&pa); }
                record(&mut out, 13, if *v6 { 4 } else { 2 }, &b);
            }
            Rec::RibOther(sub) => { let mut b = vec![]; be32(&mut b, seq as u32); b.extend_from_slice(&pfx_bytes(false, 0)); be16(&mut b, 0); record(&mut out, 13, *sub, &b); }
            Rec::Msg { as4, peer, bgp } => { let mut b = bgp4mp_head(*as4, peer); b.extend_from_slice(&bgp_msg(*as4, bgp)); record(&mut out, 16, if *as4 { 4 } else { 1 }, &b); }
            Rec::State { as4, peer, old, new } => { let mut b = bgp4mp_head(*as4, peer); be16(&mut b, *old); be16(&mut b, *new); record(&mut out, 16, if *as4 { 5 } else { 0 }, &b); }
            Rec::Local(sub) => { let p = Peer { addr: 0, asn: 65000 }; let mut b = bgp4mp_head(true, &p); b.extend_from_slice(&bgp_msg(true, &Bgp::Keepalive)); record(&mut out, 16, *sub, &b); }
            Rec::OtherType(t) => record(&mut out, *t, 0, &[0, 0, 0, 0]),
            Rec::Truncated => { be32(&mut out, 1_700_000_000); be16(&mut out, 16); be16(&mut out, 4); be32(&mut out, 4000); out.extend_from_slice(&[1, 2, 3]); }
        }
    }
    out
}
fn write_file(dir: &Path, k: usize, f: &FileSpec) -> PathBuf {
    let raw = file_bytes(&f.recs);
    let (ext, bytes) = match f.comp {
        'g' => ("mrt.gz", { let mut e = flate2::write::GzEncoder::new(vec![], flate2::Compression::fast()); e.write_all(&raw).unwrap(); e.finish().unwrap() }),
        'b' => ("mrt.bz2", { let mut e = bzip2::write::BzEncoder::new(vec![], bzip2::Compression::fast()); e.write_all(&raw).unwrap(); e.finish().unwrap() }),
        'x' => ("mrt.gz", raw),       // not gzip at all: decoding fails
        _ => ("mrt", raw),
    };
    let path = dir.join(format!("f{k}.{ext}"));
    if f.comp != 'm' { std::fs::write(&path, bytes).unwrap(); } else { let _ = std::fs::remove_file(&path); }
    path
}

// ---------------------------------------------------------------- case text

fn show_peer(p: &Peer) -> String { format!("{}.{}", p.addr, p.asn) }
fn show_list(xs: &[usize]) -> String { if xs.is_empty() { "-".into() } else { join(xs.iter(), ",") } }
fn show_rec(r: &Rec) -> String {
    match r {
        Rec::PeerIndex(ps) => format!("PI {}", if ps.is_empty() { "-".into() } else { join(ps.iter().map(show_peer), ",") }),
        Rec::Rib { v6, pfx, entries } => format!("R{} {} {}", if *v6 { 6 } else { 4 }, pfx, if entries.is_empty() { "-".into() } else { join(entries.iter().map(|(i, a)| format!("{i}.{a}")), ",") }),
        Rec::RibOther(s) => format!("RO {s}"),
        Rec::Msg { as4, peer, bgp } => format!("M{} {} {}", *as4 as u8, show_peer(peer), match bgp {
            Bgp::Update { v6, ann, wd, attrs } => format!("U{} {} {} {}", if *v6 { 6 } else { 4 }, show_list(ann), show_list(wd), attrs),
            Bgp::Keepalive => "K".into(), Bgp::Open => "O".into(), Bgp::Garbage => "G".into() }),
        Rec::State { as4, peer, old, new } => format!("SC{} {} {} {}", *as4 as u8, show_peer(peer), old, new),
        Rec::Local(s) => format!("L {s}"),
        Rec::OtherType(t) => format!("OT {t}"),
        Rec::Truncated => "TR".into(),
    }
}
fn show_file(f: &FileSpec) -> String { format!("{}:{}", f.comp, if f.recs.is_empty() { "-".into() } else { join(f.recs.iter().map(show_rec), ";") }) }
fn parse_peer(s: &str) -> Peer { let (a, n) = s.split_once('.').unwrap(); Peer { addr: a.parse().unwrap(), asn: n.parse().unwrap() } }
fn parse_list(s: &str) -> Vec<usize> { if s == "-" { vec![] } else { s.split(',').map(|x| x.parse().unwrap()).collect() } }
fn parse_rec(s: &str) -> Rec {
    let f: Vec<&str> = s.split(' ').collect();
    match f[0] {
        "PI" => Rec::PeerIndex(if f[1] == "-" { vec![] } else { f[1].split(',').map(parse_peer).collect() }),
        "R4" | "R6" => Rec::Rib { v6: f[0] == "R6", pfx: f[1].parse().unwrap(), entries: if f[2] == "-" { vec![] } else { f[2].split(',').map(|e| { let (i, a) = e.split_once('.').unwrap(); (i.parse().unwrap(), a.parse().unwrap()) }).collect() } },
        "RO" => Rec::RibOther(f[1].parse().unwrap()),
        "M0" | "M1" => Rec::Msg { as4: f[0] == "M1", peer: parse_peer(f[1]), bgp: match f[2] { "K" => Bgp::Keepalive, "O" => Bgp::Open, "G" => Bgp::Garbage,
            u => Bgp::Update { v6: u == "U6", ann: parse_list(f[3]), wd: parse_list(f[4]), attrs: f[5].parse().unwrap() } } },
        "SC0" | "SC1" => Rec::State { as4: f[0] == "SC1", peer: parse_peer(f[1]), old: f[2].parse().unwrap(), new: f[3].parse().unwrap() },
        "L" => Rec::Local(f[1].parse().unwrap()),
        "OT" => Rec::OtherType(f[1].parse().unwrap()),
        _ => Rec::Truncated,
    }
}
fn parse_file(s: &str) -> FileSpec { let (c, r) = s.split_once(':').unwrap(); FileSpec { comp: c.chars().next().unwrap(), recs: if r == "-" { vec![] } else { r.split(';').map(parse_rec).collect() } } }

// -------------------------------------------------------------- real run

#[derive(Clone, Debug, PartialEq)]
enum Obs { Single { v6: bool, pfx: String, id: u32, attrs: Option<u8> }, Bulk { id: u32, items: Vec<(bool, String)> }, Withdraw(u32), Other(&'static str) }

fn med_of(raw: &[u8]) -> Option<u8> { raw.windows(7).find(|w| w[..6] == [0x80, 4, 4, 0, 0, 0]).map(|w| w[6]) }
fn route_pfx(r: &RotondaRoute) -> (bool, String) {
    match r { RotondaRoute::Ipv4Unicast(n, _) => (false, n.to_string()), RotondaRoute::Ipv6Unicast(n, _) => (true, n.to_string()),
        RotondaRoute::Ipv4Multicast(n, _) => (false, format!("mc:{n}")), RotondaRoute::Ipv6Multicast(n, _) => (true, format!("mc:{n}")) }
}
fn ctx_of(c: &RouteContext) -> (u32, bool) {
    match c { RouteContext::Mrt(m) => (m.provenance().ingress_id, m.status == RouteStatus::Active), RouteContext::Fresh(f) => (f.provenance().ingress_id, f.status() == RouteStatus::Active), RouteContext::Reprocess => (0, true) }
}
fn observe(u: Update) -> Obs {
    match u {
        Update::Single(p) => { let (v6, pfx) = route_pfx(&p.rx_value); let (id, _) = ctx_of(&p.context);
            Obs::Single { v6, pfx, id, attrs: med_of(&p.rx_value.rotonda_pamap().0.clone().into_vec()) } }
        Update::Bulk(ps) => { let id = ps.first().map(|p| ctx_of(&p.context).0).unwrap_or(0);
            Obs::Bulk { id, items: ps.iter().map(|p| (ctx_of(&p.context).1, route_pfx(&p.rx_value).1)).collect() } }
        Update::Withdraw(id, _) => Obs::Withdraw(id),
        Update::WithdrawBulk(_) => Obs::Other("withdraw-bulk"), Update::QueryResult(..) => Obs::Other("query"), Update::UpstreamStatusChange(_) => Obs::Other("status"), Update::OutputStream(_) => Obs::Other("output"),
    }
}

struct RunObs { updates: Vec<Obs>, responses: Vec<bool>, next_id: u32, infos: Vec<(u32, IngressInfo)> }

async fn run_queue(dir: &Path, files: &[FileSpec]) -> RunObs {
    let paths: Vec<PathBuf> = files.iter().enumerate().map(|(k, f)| write_file(dir, k, f)).collect();
    let (gate, mut agent) = Gate::new(100_000);
    let mut link = agent.create_link();
    let register = rotonda::verif::c17::new_register();
    let parent = rotonda::verif::c17::register(&register);
    rotonda::verif::c17::update_info(&register, parent, IngressInfo::new().with_unit_name("mrt-in").with_desc("mrt-file-in unit"));
    gate.process_until(link.connect(false)).await.unwrap().unwrap();
    let collector = tokio::spawn(async move { let mut v = vec![]; while let Ok(u) = link.query().await { v.push(observe(u)); } v });
    let (qtx, qrx) = rotonda::units::verif_mrt_file_in_c16::queue();
    let runner = tokio::spawn(rotonda::units::verif_mrt_file_in_c16::run(gate, register.clone(), parent, qtx.clone(), qrx));
    let mut rxs = vec![];
    for p in &paths { let (tx, rx) = tokio::sync::oneshot::channel(); let _ = qtx.send((p.clone(), Some(tx))).await; rxs.push(rx); }
    let mut responses = vec![];
    for rx in rxs { responses.push(matches!(tokio::time::timeout(Duration::from_secs(20), rx).await, Ok(Ok(_)))); }
    agent.terminate().await;
    let _ = tokio::time::timeout(Duration::from_secs(5), runner).await;
    drop(qtx); drop(agent);
    let updates = tokio::time::timeout(Duration::from_secs(5), collector).await.ok().and_then(|r| r.ok()).unwrap_or_default();
    let next_id = rotonda::verif::c17::register(&register);
    let infos = (1..next_id).filter_map(|i| register.get(i).map(|x| (i, x))).collect();
    RunObs { updates, responses, next_id, infos }
}

/// Ids with the same (parent, addr, asn) are interchangeable for `find_existing_peer` (hash-map order): print the smallest.
fn canon_id(infos: &[(u32, IngressInfo)], id: u32) -> u32 {
    let Some((_, me)) = infos.iter().find(|(i, _)| *i == id) else { return id };
    infos.iter().filter(|(_, x)| x.parent_ingress == me.parent_ingress && x.remote_addr == me.remote_addr && x.remote_asn == me.remote_asn).map(|(i, _)| *i).min().unwrap_or(id)
}
fn show_obs(o: &Obs, infos: &[(u32, IngressInfo)]) -> String {
    match o {
        Obs::Single { v6, pfx, id, attrs } => format!("S{} {} i{} a{}", if *v6 { 6 } else { 4 }, pfx, id, attrs.map(|a| a.to_string()).unwrap_or("?".into())),
        Obs::Bulk { id, items } => format!("B i{}{}", canon_id(infos, *id), items.iter().map(|(act, p)| format!(" {}{}", if *act { '+' } else { '-' }, p)).collect::<String>()),
        Obs::Withdraw(id) => format!("W i{}", canon_id(infos, *id)),
        Obs::Other(s) => format!("X {s}"),
    }
}

// ------------------------------------------------------------------ oracle

#[derive(Clone, Debug, PartialEq)]
enum Tok { S { v6: bool, pfx: String, peer: Peer, attrs: u8 }, B { peer: Peer, items: Vec<(bool, String)>, raw: Vec<(bool, String)> }, W { peer: Peer, mandatory: bool } }

/// How the observed updates are read: `raw_overlap` accepts a Bulk that still carries the withdrawal of a prefix the
/// same UPDATE announces (the overlap defect), `w_optional` accepts a missing mandatory Withdraw (the state-change defect).
#[derive(Clone, Copy)]
struct Lenient { w_optional: bool, raw_overlap: bool }

fn pfx_name(v6: bool, i: usize) -> String { (if v6 { PFX6[i] } else { PFX4[i] }).to_string() }

/// Is the file one the unit is expected to import completely?
fn file_is_good(f: &FileSpec) -> bool {
    if f.comp == 'm' || f.comp == 'x' { return false; }
    let dump = matches!(f.recs.first(), Some(Rec::PeerIndex(_)));
    let npeers = if let Some(Rec::PeerIndex(ps)) = f.recs.first() { ps.len() } else { 0 };
    f.recs.iter().enumerate().all(|(k, r)| match r {
        Rec::PeerIndex(_) => k == 0,
        Rec::Rib { entries, .. } => dump && !entries.is_empty() && entries.iter().all(|(i, _)| (*i as usize) < npeers),
        Rec::Msg { .. } | Rec::State { .. } => !dump,
        _ => false,
    })
}
/// What a tolerant importer emits for the file (unsupported records skipped); `known` = peers registered so far.
fn tolerant(f: &FileSpec, known: &mut Vec<Peer>, good: bool) -> Vec<Tok> {
    let mut t = vec![];
    if f.comp == 'm' || f.comp == 'x' { return t; }
    if let Some(Rec::PeerIndex(ps)) = f.recs.first() {
        for r in &f.recs[1..] { if let Rec::Rib { v6, pfx, entries } = r { for (i, a) in entries { if let Some(p) = ps.get(*i as usize) { t.push(Tok::S { v6: *v6, pfx: pfx_name(*v6, *pfx), peer: p.clone(), attrs: *a }); } } } }
        if good { for p in ps { if !known.contains(p) { known.push(p.clone()); } } }
    }
    for r in &f.recs {
        match r {
            Rec::Msg { peer, bgp: Bgp::Update { v6, ann, wd, .. }, .. } => {
                // RFC 4271 4.3: the UPDATE is read as though its withdrawn routes did not contain a prefix it also announces
                // (one family per generated UPDATE, distinct prefixes per index: same NLRI = same index)
                let raw: Vec<(bool, String)> = ann.iter().map(|i| (true, pfx_name(*v6, *i))).chain(wd.iter().map(|i| (false, pfx_name(*v6, *i)))).collect();
                let items = ann.iter().map(|i| (true, pfx_name(*v6, *i))).chain(wd.iter().filter(|i| !ann.contains(i)).map(|i| (false, pfx_name(*v6, *i)))).collect();
                t.push(Tok::B { peer: peer.clone(), items, raw });
                if good && !known.contains(peer) { known.push(peer.clone()); }
            }
            Rec::State { peer, old: 6, new: 1, .. } => t.push(Tok::W { peer: peer.clone(), mandatory: good && known.contains(peer) }),
            _ => {}
        }
    }
    t
}
fn peer_of(infos: &[(u32, IngressInfo)], id: u32) -> Option<(Option<u32>, Peer)> {
    let (_, i) = infos.iter().find(|(x, _)| *x == id)?;
    let addr = ADDRS.iter().position(|a| Some(IpAddr::from_str(a).unwrap()) == i.remote_addr)?;
    Some((i.parent_ingress, Peer { addr, asn: i.remote_asn?.into_u32() }))
}
fn tok_matches(t: &Tok, o: &Obs, infos: &[(u32, IngressInfo)], raw_overlap: bool) -> bool {
    match (t, o) {
        (Tok::S { v6, pfx, peer, attrs }, Obs::Single { v6: ov6, pfx: opfx, id, attrs: oa }) => v6 == ov6 && pfx == opfx && Some(*attrs) == *oa && peer_of(infos, *id) == Some((Some(1), peer.clone())),
        (Tok::B { peer, items, raw }, Obs::Bulk { id, items: oi }) => (items == oi || (raw_overlap && raw == oi)) && (oi.is_empty() || peer_of(infos, *id) == Some((Some(1), peer.clone()))),
        (Tok::W { peer, .. }, Obs::Withdraw(id)) => peer_of(infos, *id) == Some((Some(1), peer.clone())),
        _ => false,
    }
}
/// Can `obs[pos..]` be explained by files `k..`? Good files must appear completely, unreadable ones as any prefix.
fn explain(files: &[(bool, Vec<Tok>)], k: usize, obs: &[Obs], pos: usize, infos: &[(u32, IngressInfo)], l: Lenient) -> bool {
    if k == files.len() { return pos == obs.len(); }
    let (good, toks) = &files[k];
    // walk the tokens; optional W tokens may be skipped
    fn walk(toks: &[Tok], ti: usize, good: bool, files: &[(bool, Vec<Tok>)], k: usize, obs: &[Obs], pos: usize, infos: &[(u32, IngressInfo)], l: Lenient) -> bool {
        if (!good || ti == toks.len()) && explain(files, k + 1, obs, pos, infos, l) { return true; }
        if ti == toks.len() { return false; }
        if let Tok::W { mandatory, .. } = &toks[ti] { if (!*mandatory || l.w_optional) && walk(toks, ti + 1, good, files, k, obs, pos, infos, l) { return true; } }
        pos < obs.len() && tok_matches(&toks[ti], &obs[pos], infos, l.raw_overlap) && walk(toks, ti + 1, good, files, k, obs, pos + 1, infos, l)
    }
    walk(toks, 0, *good, files, k, obs, pos, infos, l)
}
fn oracle(files: &[FileSpec], o: &RunObs) -> String {
    if o.responses.iter().any(|r| !*r) {
        let k = o.responses.iter().position(|r| !*r).unwrap();
        return format!("fail mrt-in:panic-in-file-kills-queue-consumer file {k} of the queue panicked inside process_file: the only consumer task is gone, {} later file(s) never processed, every future enqueue unanswered", files.len() - k - 1);
    }
    let mut known = vec![];
    let toks: Vec<(bool, Vec<Tok>)> = files.iter().map(|f| { let g = file_is_good(f); (g, tolerant(f, &mut known, g)) }).collect();
    // attribution is stable, judged on the real register: one peer, one id. No identity (parent = this unit,
    // address, ASN) may hold two ingress ids, whatever became of the files: `find_existing_peer` answers one of
    // them (hash-map order), so an Established->Idle state change withdraws the routes of one id only and a
    // query lists the peer twice. Who registered the later id tells the mechanism: the peer index loop stores
    // the file name, `process_message` does not.
    for (k, (id, info)) in o.infos.iter().enumerate() {
        if info.parent_ingress != Some(1) || info.remote_addr.is_none() || info.remote_asn.is_none() { continue; }
        if let Some((first, _)) = o.infos[..k].iter().find(|(_, x)| x.parent_ingress == info.parent_ingress && x.remote_addr == info.remote_addr && x.remote_asn == info.remote_asn) {
            let who = peer_of(&o.infos, *id).map(|(_, p)| show_peer(&p)).unwrap_or("?".into());
            return if info.filename.is_some() {
                format!("fail mrt-in:dump-registers-known-peer-again peer {who} already held ingress id {first} and a peer index table registered it again as id {id} (no lookup in process_file's peer index loop): one peer, two ids")
            } else {
                format!("fail mrt-in:attribution-unstable peer {who} already held ingress id {first} and a message registered it again as id {id}: messages of a known peer did not reuse its id")
            };
        }
    }
    // ... and when every file is importable exactly one id exists per distinct peer named by a peer index entry
    // or an UPDATE (a known peer must reuse its id, or later withdrawals miss its routes)
    if files.iter().all(file_is_good) {
        let mut seen: Vec<Peer> = vec![];
        for f in files { for r in &f.recs { match r {
            Rec::PeerIndex(ps) => { for p in ps { if !seen.contains(p) { seen.push(p.clone()); } } }
            Rec::Msg { peer, bgp: Bgp::Update { .. }, .. } => { if !seen.contains(peer) { seen.push(peer.clone()); } }
            _ => {} } } }
        let n = 2 + seen.len() as u32;
        if o.next_id != n { return format!("fail mrt-in:attribution-unstable {} ingress ids registered, {} expected: one per distinct peer of the queue", o.next_id - 1, n - 1); }
    }
    if explain(&toks, 0, &o.updates, 0, &o.infos, Lenient { w_optional: false, raw_overlap: false }) { return "ok".into(); }
    if explain(&toks, 0, &o.updates, 0, &o.infos, Lenient { w_optional: true, raw_overlap: false }) { return "fail mrt-in:state-change-never-withdraws an Established->Idle state change of a peer with imported routes produced no Update::Withdraw".into(); }
    // everything else in place, but a Bulk still withdraws a prefix its own UPDATE announces (RFC 4271 4.3)
    if explain(&toks, 0, &o.updates, 0, &o.infos, Lenient { w_optional: false, raw_overlap: true }) || explain(&toks, 0, &o.updates, 0, &o.infos, Lenient { w_optional: true, raw_overlap: true }) {
        return "fail overlap:withdrawal-kept-after-announcement-of-same-update a prefix that one UPDATE of the file both withdraws and announces left the gate as an announcement followed by a withdrawal in one Bulk (RFC 4271 4.3: as though not withdrawn)".into();
    }
    "fail mrt-in:import-mismatch the updates leaving the gate are not the file's entries and updates, in order, attributed to the right peers".into()
}

// --------------------------------------------------------------- generator

struct Gen { rng: Rng }
impl Gen {
    fn peer(&mut self) -> Peer { let addr = self.rng.below(ADDRS.len() as u64) as usize; Peer { addr, asn: *self.rng.pick(&[65001u32, 65002, 64496, 4200000001]) } }
    fn peers(&mut self, n: u64) -> Vec<Peer> { let mut v: Vec<Peer> = vec![]; while (v.len() as u64) < n { let p = self.peer(); if !v.contains(&p) || self.rng.chance(1, 8) { v.push(p); } } v }
    fn dump(&mut self) -> Vec<Rec> {
        let np = self.rng.range(1, 4);
        let ps = self.peers(np);
        let mut recs = vec![Rec::PeerIndex(ps)];
        for _ in 0..self.rng.range(0, 5) {
            let v6 = self.rng.chance(1, 3);
            let pfx = self.rng.below(if v6 { PFX6.len() } else { PFX4.len() } as u64) as usize;
            let entries = (0..self.rng.range(1, 3)).map(|_| (self.rng.below(np) as u16, self.rng.below(4) as u8)).collect();
            recs.push(Rec::Rib { v6, pfx, entries });
        }
        recs
    }
    fn bgp_rec(&mut self, pool: &[Peer]) -> Rec {
        let peer = if !pool.is_empty() && self.rng.chance(3, 4) { self.rng.pick(pool).clone() } else { self.peer() };
        let as4 = peer.asn > 65535 || self.rng.chance(1, 2);
        match self.rng.below(10) {
            0 => Rec::Msg { as4, peer, bgp: self.rng.pick(&[Bgp::Keepalive, Bgp::Open, Bgp::Garbage]).clone() },
            1..=2 => { let (old, new) = *self.rng.pick(&[(6u16, 1u16), (6, 1), (1, 6), (6, 6), (5, 6), (3, 1)]); Rec::State { as4, peer, old, new } }
            _ => { let v6 = self.rng.chance(1, 3); let n = if v6 { PFX6.len() } else { PFX4.len() } as u64;
                let ann: Vec<usize> = (0..self.rng.below(3)).map(|_| self.rng.below(n) as usize).collect();
                let wd: Vec<usize> = (0..self.rng.below(3)).map(|_| self.rng.below(n) as usize).collect();
                Rec::Msg { as4, peer, bgp: Bgp::Update { v6, ann, wd, attrs: self.rng.below(4) as u8 } } }
        }
    }
    fn updates(&mut self, pool: &[Peer]) -> Vec<Rec> { (0..self.rng.range(1, 8)).map(|_| self.bgp_rec(pool)).collect() }
    fn spoil(&mut self, f: &mut FileSpec, pool: &[Peer]) {
        let k = self.rng.below(f.recs.len() as u64 + 1) as usize;
        match self.rng.below(10) {
            0 => f.comp = 'm', 1 => f.comp = 'x',
            2 => f.recs.insert(k, Rec::RibOther(*self.rng.pick(&[3u16, 5, 6]))),
            3 => f.recs.insert(k, Rec::Local(*self.rng.pick(&[6u16, 7, 9]))),
            4 => f.recs.insert(k, Rec::OtherType(*self.rng.pick(&[12u16, 11, 48]))),
            5 => f.recs.insert(k, Rec::Truncated),
            6 => f.recs.insert(k.max(1).min(f.recs.len()), Rec::Rib { v6: false, pfx: 0, entries: vec![] }),
            7 => f.recs.insert(k.max(1).min(f.recs.len()), Rec::Rib { v6: false, pfx: 1, entries: vec![(0, 1), (9, 2)] }),
            8 => { let r = self.bgp_rec(pool); f.recs.push(r); let r = self.bgp_rec(pool); f.recs.push(r); }   // dump followed by BGP4MP (or just more updates)
            _ => f.recs.insert(k, Rec::PeerIndex(self.peers(1))),
        }
    }
    fn queue(&mut self, dirty: bool) -> Vec<FileSpec> {
        let n = self.rng.range(1, 3);
        let mut pool: Vec<Peer> = vec![];
        let mut files: Vec<FileSpec> = (0..n).map(|k| {
            let comp = *self.rng.pick(&['p', 'p', 'g', 'b']);
            let recs = if (k == 0 && self.rng.chance(2, 3)) || self.rng.chance(1, 4) { let d = self.dump(); if let Rec::PeerIndex(ps) = &d[0] { pool.extend(ps.iter().cloned()); } d } else { self.updates(&pool) };
            FileSpec { comp, recs }
        }).collect();
        if dirty { let k = self.rng.below(n) as usize; let pool2 = pool.clone(); self.spoil(&mut files[k], &pool2); }
        // one queue in six ends with an earlier file of the queue again, byte for byte (the same dump or update file
        // queued twice, something else imported in between): it must be processed again, in its place
        if files.len() >= 2 && self.rng.chance(1, 6) { let k = self.rng.below(files.len() as u64 - 1) as usize; let again = files[k].clone(); files.push(again); }
        files
    }
}

// ------------------------------------------------------------------- cases

fn record_case(rec: &mut Recorder, files: &[FileSpec], o: &RunObs) {
    let line = format!("{}|r:{}|n={}", if o.updates.is_empty() { "-".into() } else { join(o.updates.iter().map(|u| show_obs(u, &o.infos)), ",") }, join(o.responses.iter().map(|r| if *r { "ok" } else { "dead" }), ","), o.next_id);
    let orc = oracle(files, o);
    for f in files { rec.bump(&format!("file.{}", f.comp)); rec.bump(if file_is_good(f) { "file.good" } else { "file.unreadable" });
        for r in &f.recs { rec.bump(match r { Rec::PeerIndex(_) => "rec.peer-index", Rec::Rib { .. } => "rec.rib", Rec::RibOther(_) => "rec.rib-other", Rec::Msg { bgp: Bgp::Update { .. }, .. } => "rec.update", Rec::Msg { .. } => "rec.bgp-other", Rec::State { .. } => "rec.state-change", Rec::Local(_) => "rec.local", Rec::OtherType(_) => "rec.other-type", Rec::Truncated => "rec.truncated" }); } }
    rec.bump_by("updates.observed", o.updates.len() as u64);
    if orc != "ok" { rec.bump(&format!("oracle.{}", orc.split(' ').nth(1).unwrap())); }
    let nontrivial = files.iter().filter(|f| file_is_good(f)).count() >= 1 && o.updates.len() >= 2;
    rec.case(format!("q|{}", join(files.iter().map(show_file), "#")), line, orc, nontrivial);
}
fn case(rt: &tokio::runtime::Runtime, dir: &Path, rec: &mut Recorder, files: &[FileSpec]) -> RunObs {
    let o = rt.block_on(run_queue(dir, files));
    record_case(rec, files, &o);
    o
}
/// Independent cases run concurrently (each in its own scratch sub-directory), recorded in generation order.
fn batch(rt: &tokio::runtime::Runtime, dir: &Path, rec: &mut Recorder, qs: &[Vec<FileSpec>]) {
    let obs: Vec<RunObs> = rt.block_on(futures::future::join_all(qs.iter().enumerate().map(|(k, q)| { let d = dir.join(format!("k{k}")); async move { std::fs::create_dir_all(&d).unwrap(); run_queue(&d, q).await } })));
    for (q, o) in qs.iter().zip(&obs) { record_case(rec, q, o); }
}

fn main() {
    let args = parse_args();
    let t0 = Instant::now();
    std::panic::set_hook(Box::new(|_| {}));
    let dir = std::env::temp_dir().join(format!("verif-{}-c16", std::process::id()));
    std::fs::create_dir_all(&dir).unwrap();
    let rt = tokio::runtime::Builder::new_multi_thread().worker_threads(6).enable_all().build().unwrap();
    let mut rec = Recorder::new("queues of 1-3 generated MRT files (TABLE_DUMP_V2 peer index of 1-4 v4/v6 AS2/AS4 peers + 0-5 RIB_IPV4/6_UNICAST records of 1-3 entries; BGP4MP(_AS4) UPDATEs (conventional v4 / MP v6 announce+withdraw), OPEN/KEEPALIVE/garbage, state changes; plain/gzip/bzip2); every other queue has one file spoiled (missing, undecodable gzip, multicast/generic RIB subtype, BGP4MP local subtype, unsupported MRT type, truncated record, empty RIB record, peer index out of range, BGP4MP after a dump, misplaced peer index) through the real MrtInRunner::run; observation = Updates leaving the gate + enqueuer responses + next ingress id; non-trivial = at least one fully importable file and >= 2 updates observed; distinct = distinct case lines");

    // 0. witnesses: decide the variants of this tree (recorded as cases, except in replay mode)
    let replay = args.replay.is_some();
    let mut scratch = Recorder::new("variant detection in replay mode (not recorded)");
    let p1 = Peer { addr: 0, asn: 65001 }; let p2 = Peer { addr: 3, asn: 4200000001 };
    let dump1 = FileSpec { comp: 'p', recs: vec![Rec::PeerIndex(vec![p1.clone()]), Rec::Rib { v6: false, pfx: 0, entries: vec![(0, 1)] }] };
    // two dumps naming the same peer (witness of C16_dumpreg_counterexample): as written ids 2 and 3, repaired id 2 twice.
    // First, because the model needs this site to follow the other witnesses.
    let o = rt.block_on(run_queue(&dir, &[dump1.clone(), dump1.clone()]));
    rec.variant("dumpreg", if o.next_id == 3 { "repaired" } else { "as-written" });
    { let r = if replay { &mut scratch } else { &mut rec };
    record_case(r, &[dump1.clone(), dump1.clone()], &o);
    let o = case(&rt, &dir, r, &[dump1.clone(), FileSpec { comp: 'p', recs: vec![Rec::State { as4: true, peer: p1.clone(), old: 6, new: 1 }] }]);
    let sc = if o.updates.iter().any(|u| matches!(u, Obs::Withdraw(_))) { "repaired" } else { "as-written" };
    let o = case(&rt, &dir, r, &[FileSpec { comp: 'p', recs: vec![Rec::PeerIndex(vec![p1.clone()]), Rec::RibOther(3)] }, FileSpec { comp: 'p', recs: vec![Rec::PeerIndex(vec![p2.clone()]), Rec::Rib { v6: true, pfx: 1, entries: vec![(0, 2)] }] }]);
    let iso = if o.responses == vec![true, true] && o.updates.len() == 1 { "repaired" } else { "as-written" };
    // one UPDATE that withdraws and announces 203.0.113.7/32 (witness of C16_updates_counterexample)
    let o = case(&rt, &dir, r, &[FileSpec { comp: 'p', recs: vec![Rec::Msg { as4: true, peer: p1.clone(), bgp: Bgp::Update { v6: false, ann: vec![4], wd: vec![4], attrs: 1 } }] }]);
    let ov = if o.updates.iter().any(|u| matches!(u, Obs::Bulk { items, .. } if items.iter().any(|(act, _)| !*act))) { "as-written" } else { "repaired" };
    rec.variant("sc", sc); rec.variant("iso", iso); rec.variant("overlap", ov); }
    drop(scratch);

    if let Some(path) = &args.replay {
        for line in verif_harness::replay_cases(path) { if let Some(q) = line.strip_prefix("q|") { let files: Vec<FileSpec> = q.split('#').map(parse_file).collect(); case(&rt, &dir, &mut rec, &files); } }
        rec.finish(&args, t0.elapsed().as_secs_f64());
        let _ = std::fs::remove_dir_all(&dir);
        return;
    }

    // corpus: the probes of the design (mixed file, out-of-range index, local subtype, fused iterator)
    for q in ["p:PI 0.65001;R4 0 0.1;M1 0.65001 K#p:PI 3.4200000001;R4 1 0.1", "p:PI 0.65001;R4 0 3.1#p:PI 3.4200000001;R4 1 0.1", "p:M1 0.65001 U4 1 - 2;TR#p:M1 0.65001 G;M1 0.65001 O;L 6#p:M1 0.65001 U4 2 - 2",
              "p:M1 0.65001 U4 1 - 2;OT 12;M1 0.65001 U4 2 - 2", "m:-#x:PI 0.65001#p:PI 3.4200000001;R4 1 0.1", "g:M1 0.65001 U4 0,1 2 1;M0 0.65001 U4 3 - 2;M1 3.4200000001 U6 0 1 3;SC1 0.65001 6 1;M0 0.65001 U4 - 0 0", "p:PI -#p:-",
              "p:M1 0.65001 U4 4,1 4,2 1;M1 3.4200000001 U6 0,1 1,3 2;M0 0.65001 U4 2,2 2,2,0 3;SC1 0.65001 6 1", "g:PI 0.65001;R4 4 0.1#b:M1 0.65001 U4 4 4 2;M1 0.65001 U4 - 4 0",
              // dumpreg: the next snapshot of the same collector then a state change; a dump after the peer's messages; one table
              // listing a peer twice; a known peer among new ones; a dump that names a known peer and then panics
              "p:PI 0.65001;R4 0 0.1#p:PI 0.65001;R4 0 0.1#p:SC1 0.65001 6 1", "p:M1 0.65001 U4 1 - 2#g:PI 3.4200000001,0.65001;R4 1 1.1,0.2#p:M1 0.65001 U4 2 - 3;SC1 0.65001 6 1",
              "p:PI 0.65001,0.65001,1.65001;R4 0 0.1,1.2,2.3#p:M1 1.65001 U4 1 - 2", "b:PI 0.65001,1.65002;R6 0 1.1#p:PI 2.64496,1.65002,0.65001;R4 2 0.1,1.2,2.3;R6 1 1.0", "p:PI 0.65001;R4 0 0.1#p:PI 1.65002,0.65001;RO 5#p:M1 0.65001 U4 1 - 2"] {
        let files: Vec<FileSpec> = q.split('#').map(parse_file).collect(); case(&rt, &dir, &mut rec, &files);
    }

    let mut g = Gen { rng: Rng::new(args.seed) };
    let n = if args.thorough { 60000 } else { 6000 };
    let qs: Vec<Vec<FileSpec>> = (0..n).map(|k| g.queue(k % 2 == 1)).collect();
    for chunk in qs.chunks(64) { batch(&rt, &dir, &mut rec, chunk); }
    rec.finish(&args, t0.elapsed().as_secs_f64());
    let _ = std::fs::remove_dir_all(&dir);
}
