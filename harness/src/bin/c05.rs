//! C05 engine: the real BMP state machine (`BmpState::process_msg`, driven
//! through `rotonda::verif::bmp_sm::BmpStepper` with real BMP bytes) vs the
//! Lean model `Model/Bmp.lean`.
//!
//! One case = one session history. Observation per step = `<phase>:<outcome>`
//! where outcome is `inv | oth | tr | b.<ingress>.<#ann>.<#wd> | w.<ingress> |
//! wb.<sorted ingress ids>`.
//!
//! Oracle (independent of the Lean model): a ten-line RFC 7854 lifecycle
//! tracker decides which messages are lifecycle violations; the real code must
//! reject exactly those as no-ops (state fingerprint unchanged, unprocessable
//! counter +1), move through the phases only along I→D→U→T / D→T, tag routes
//! only with the ingress id of an up peer, and what goes downstream must be a
//! function of (message, up set) — checked with a global table over all steps.
use std::collections::{BTreeMap, HashMap};
use std::time::Instant;

use rotonda::verif::bmp_sm::BmpStepper;
use verif_harness::bmp::{self, Built, Down, Spec, NHDR, RM_KINDS};
use verif_harness::{join, parse_args, replay_cases, rng::Rng, Recorder};

struct Oracle {
    /// (message token, up set) -> (downstream, case that established it)
    table: HashMap<(String, String), (Down, String)>,
}

fn hdr_index(p: &rotonda::verif::bmp_sm::PeerView) -> usize {
    (0..NHDR).find(|i| {
        let h = bmp::header(*i);
        h.peer_address == p.address && h.peer_as.into_u32() == p.asn && h.peer_bgp_id == p.bgp_id && h.peer_flags == p.flags
    }).unwrap_or(99)
}

/// Runs one history on the real code. Returns (case line, impl line, oracle line, nontrivial).
fn run_case(keys: &str, msgs: &[(Spec, Built)], orc: &mut Oracle, rec: &mut Recorder) -> (String, String, String, bool) {
    let case = format!("sm|{}|{}", keys, join(msgs.iter().map(|m| m.1.token.clone()), " "));
    let mut st = BmpStepper::new();
    let mut obs = vec![];
    let mut fail: Option<String> = None;
    // the spec-level tracker
    let (mut started, mut terminated) = (false, false);
    let mut up: BTreeMap<usize, ()> = BTreeMap::new();
    let (mut n_routes, mut n_rejected) = (0, 0);
    let mut prev_phase = st.phase();
    for (spec, built) in msgs {
        let peers_before = st.peers();
        let hf_before = st.metrics().map(|m| m.unprocessable_msgs).unwrap_or(0);
        let upset = join(peers_before.iter().map(|p| format!("{}:{}", hdr_index(p), p.ingress_id)), ",");
        let o = bmp::step(&mut st, built.bytes.clone());
        let hf_after = o.mx.as_ref().map(|m| m.unprocessable_msgs).unwrap_or(0);
        rec.bump(&format!("out.{}", o.out.split('.').next().unwrap()));
        // which messages violate the lifecycle, by the RFC (not by the implementation)
        let violation = if !started { *spec != Spec::Init } else if terminated { true } else {
            match spec {
                Spec::Rm(h, _) | Spec::PeerDown(h) => !up.contains_key(h),
                Spec::PeerUp(h, _) => up.contains_key(h),
                _ => false,
            }
        };
        let mut f = |sig: String| { if fail.is_none() { fail = Some(sig) } };
        // (1) phases only forward, along allowed edges
        let edge_ok = o.phase == prev_phase || matches!((prev_phase, o.phase), (0, 1) | (1, 2) | (1, 3) | (2, 3));
        if !edge_ok { f(format!("phase-edge {}->{} on {}", prev_phase, o.phase, built.token)); }
        // (2) a lifecycle violation is rejected, counted, and changes nothing
        if violation {
            n_rejected += 1;
            rec.bump("violation");
            if !o.invalid { f(format!("violation-accepted {} gave {}", built.token, o.out)); }
            else if o.fp_before != o.fp_after || o.phase != prev_phase { f(format!("reject-changed-state on {}", built.token)); }
            else if hf_after != hf_before + 1 { f(format!("reject-not-counted on {} ({}->{})", built.token, hf_before, hf_after)); }
        } else if o.invalid {
            rec.bump("invalid-for-parse-reasons");
        }
        // (3) routes only from up peers, tagged with that peer's ingress id
        if let Down::Routes(mui, _, _) = &o.down {
            n_routes += 1;
            match spec {
                Spec::Rm(h, _) if up.contains_key(h) => {
                    let want = peers_before.iter().find(|p| hdr_index(p) == *h).map(|p| p.ingress_id);
                    if want != Some(*mui) { f(format!("routes-wrong-ingress on {} got {} want {:?}", built.token, mui, want)); }
                }
                _ => f(format!("routes-from-peer-not-up on {}", built.token)),
            }
        }
        // a Peer Down withdraws exactly that peer's ingress id, a Termination all up peers' ids
        if !violation {
            match (spec, &o.down) {
                (Spec::PeerDown(h), d) => {
                    let want = peers_before.iter().find(|p| hdr_index(p) == *h).map(|p| p.ingress_id);
                    if Some(d.clone()) != want.map(Down::WithdrawPeer) { f(format!("peer-down-withdraws-wrong-id on {} got {:?} want {:?}", built.token, d, want)); }
                }
                (Spec::Term, d) => {
                    let mut ids: Vec<u32> = peers_before.iter().map(|p| p.ingress_id).collect();
                    ids.sort();
                    let want = if ids.is_empty() { Down::Nothing } else { Down::WithdrawAll(ids) };
                    if *d != want { f(format!("termination-withdraws-wrong-ids got {:?} want {:?}", d, want)); }
                }
                _ => {}
            }
        }
        if o.down == Down::Mixed || o.out == "panic" { f(format!("unexpected-output {} on {}", o.out, built.token)); }
        // (4) downstream is a function of (message, up set)
        let key = (built.token.clone(), upset.clone());
        match orc.table.get(&key) {
            None => { orc.table.insert(key, (o.down.clone(), case.clone())); }
            Some((d, other)) if *d != o.down => {
                let is_eor_with_routes = match spec { Spec::Rm(_, _) => {
                    let p: Vec<&str> = built.token.split('.').collect();
                    p[3] != "-" && (p[5] != "0" || p[6] != "0") } _ => false };
                let sig = if is_eor_with_routes { "downstream-depends-on-pending-eor:eor-marker-with-routes" } else { "downstream-not-function" };
                f(format!("{sig} msg={} up=[{}] gives {:?} here but {:?} in: {}", built.token, upset, o.down, d, other));
            }
            _ => {}
        }
        // advance the tracker
        if !violation {
            match spec {
                Spec::Init => started = true,
                Spec::Term => { terminated = true; up.clear(); }
                Spec::PeerUp(h, _) => { up.insert(*h, ()); }
                Spec::PeerDown(h) => { up.remove(h); }
                _ => {}
            }
        }
        // the tracker's up set must be the implementation's
        let impl_up: Vec<usize> = { let mut v: Vec<usize> = st.peers().iter().map(hdr_index).collect(); v.sort(); v };
        if impl_up != up.keys().copied().collect::<Vec<_>>() { f(format!("up-set-differs after {}: impl {:?} spec {:?}", built.token, impl_up, up.keys().collect::<Vec<_>>())); }
        prev_phase = o.phase;
        obs.push(format!("{}:{}", o.phase, o.out));
    }
    let oracle = match fail { None => "ok".to_string(), Some(s) => format!("fail {s}") };
    (case, join(obs, " "), oracle, n_routes > 0 && n_rejected > 0)
}

fn build_all(specs: &[Spec]) -> Option<Vec<(Spec, Built)>> {
    // every second case gets wire-level variation the tokens do not show (timestamps 0 / small / large per message,
    // every Peer Down reason code): the choice is a function of the case, so a replay builds the same bytes
    let salt = bmp::flavour_of(specs);
    bmp::set_flavour(if salt & 2 == 0 { salt } else { 0 });
    let r = specs.iter().map(|s| bmp::build(s).map(|b| (s.clone(), b))).collect();
    bmp::set_flavour(0);
    r
}

fn parse_line(line: &str) -> Option<Vec<Spec>> {
    let parts: Vec<&str> = line.split('|').collect();
    parts.get(2)?.split_whitespace().map(bmp::parse_token).collect()
}

fn main() {
    std::panic::set_hook(Box::new(|_| {}));
    let args = parse_args();
    let t0 = Instant::now();
    let mut rec = Recorder::new("a history is non-trivial if at least one Route Monitoring message delivered routes downstream and at least one lifecycle violation was rejected");
    let keys = join(bmp::key_classes(), ",");
    let mut orc = Oracle { table: HashMap::new() };
    let mut emit = |specs: &[Spec], rec: &mut Recorder, orc: &mut Oracle| {
        match build_all(specs) {
            Some(m) => { let (c, i, o, nt) = run_case(&keys, &m, orc, rec); rec.case(c, i, o, nt); }
            None => rec.bump("unbuildable-skipped"),
        }
    };
    use Spec::*;
    let rm = |h: usize, k: &str| Rm(h, k.to_string());

    if let Some(path) = &args.replay {
        for line in replay_cases(path) {
            match parse_line(&line) { Some(s) => emit(&s, &mut rec, &mut orc), None => rec.bump("unparsable-replay-line") }
        }
        rec.finish(&args, t0.elapsed().as_secs_f64());
        return;
    }

    // ---- witnesses first: an End-of-RIB marker that also carries routes (empty MP_UNREACH + NLRI)
    // delivered while an EoR is still pending elsewhere / swallowed when it ends the dump
    emit(&[Init, PeerUp(0, true), rm(0, "e4"), rm(0, "E2")], &mut rec, &mut orc);
    {
        let m = build_all(&[Init, PeerUp(0, true), rm(0, "E2")]).unwrap();
        let (c, i, o, nt) = run_case(&keys, &m, &mut orc, &mut rec);
        let swallowed = i.ends_with("2:tr");
        rec.variant("eorswallow", if swallowed { "as-written" } else { "repaired" });
        rec.case(c, i, o, nt);
    }
    emit(&[Init, PeerUp(0, true), rm(0, "e4"), rm(0, "F1")], &mut rec, &mut orc);
    emit(&[Init, PeerUp(0, true), rm(0, "F1")], &mut rec, &mut orc);
    // ---- corpus: the paths of rotonda's own tests and the four violations
    let corpus: Vec<Vec<Spec>> = vec![
        vec![Init, Term],
        vec![Init, PeerUp(0, false), Stats(0)],
        vec![Init, PeerUp(0, true)],
        vec![Init, PeerUp(0, true), PeerUp(0, true)],
        vec![Init, PeerUp(0, false), rm(0, "a1"), rm(0, "w1"), PeerDown(0)],
        vec![Init, PeerDown(0)],
        vec![Init, PeerUp(0, false), PeerDown(1)],
        vec![Init, PeerUp(0, true), rm(0, "a1"), rm(0, "e4"), rm(0, "a1")],
        vec![Init, rm(0, "a1")],
        vec![PeerUp(0, true), Init],
        vec![Init, PeerUp(0, true), PeerUp(1, true), rm(0, "a1"), rm(1, "A2"), rm(0, "e4"), rm(1, "e6"), rm(1, "a3"), Term, Init, rm(0, "a1")],
        vec![Init, PeerUp(0, true), PeerUp(2, true), rm(2, "a1"), PeerDown(0), rm(2, "a1"), PeerUp(3, false), Term],
        vec![Init, PeerUp(0, false), rm(0, "t2"), rm(0, "f2"), rm(0, "t2"), rm(0, "b0"), rm(0, "b1"), rm(0, "b2"), rm(0, "b3"), Mirror(0), Init],
        vec![Init, PeerUp(1, true), PeerUp(4, true), rm(4, "x2"), rm(1, "W1"), Term, Term],
    ];
    for c in &corpus { emit(c, &mut rec, &mut orc); }

    // ---- exhaustive: every sequence of length <= 2, and `i` followed by every sequence of length L
    let alphabet: Vec<Spec> = vec![Init, Term, PeerUp(0, true), PeerUp(0, false), PeerUp(1, true), PeerUp(2, true), PeerDown(0), PeerDown(1),
        rm(0, "a1"), rm(0, "e4"), rm(1, "a1"), rm(1, "e4"), rm(0, "w1"), Stats(0)];
    let built: Vec<(Spec, Built)> = build_all(&alphabet).expect("alphabet builds");
    let n = alphabet.len();
    let depth = if args.thorough { 5 } else { 4 };
    let mut exhaustive = 0u64;
    let mut run_idx = |idx: &[usize], prefix_init: bool, rec: &mut Recorder, orc: &mut Oracle| {
        let mut m: Vec<(Spec, Built)> = vec![];
        if prefix_init { m.push((built[0].0.clone(), Built { token: built[0].1.token.clone(), bytes: built[0].1.bytes.clone() })); }
        for i in idx { m.push((built[*i].0.clone(), Built { token: built[*i].1.token.clone(), bytes: built[*i].1.bytes.clone() })); }
        let (c, i, o, nt) = run_case(&keys, &m, orc, rec);
        rec.case(c, i, o, nt);
    };
    for a in 0..n { for b in 0..n { run_idx(&[a, b], false, &mut rec, &mut orc); exhaustive += 1; } }
    let mut idx = vec![0usize; depth];
    loop {
        run_idx(&idx, true, &mut rec, &mut orc);
        exhaustive += 1;
        let mut k = depth;
        loop {
            if k == 0 { break; }
            k -= 1;
            idx[k] += 1;
            if idx[k] < n { break; }
            idx[k] = 0;
            if k == 0 { k = usize::MAX; break; }
        }
        if k == usize::MAX { break; }
    }
    rec.bump_by("exhaustive-cases", exhaustive);
    rec.extra.insert("exhaustive".into(), serde_json::json!({"alphabet": built.iter().map(|b| b.1.token.clone()).collect::<Vec<_>>(), "all_sequences_of_length": 2, "init_then_all_sequences_of_length": depth}));

    // ---- random: long, mostly valid histories over all headers and all payload kinds
    let mut rng = Rng::new(args.seed);
    let n_random = if args.thorough { 60_000 } else { 3_000 };
    for _ in 0..n_random {
        let len = rng.range(3, 40) as usize;
        let mut specs = vec![];
        let mut guess_up: Vec<usize> = vec![]; // generator bias only
        if !rng.chance(1, 20) { specs.push(Init); }
        while specs.len() < len {
            let r = rng.below(100);
            let any_h = rng.below(NHDR as u64) as usize;
            let up_h = if guess_up.is_empty() { any_h } else { *rng.pick(&guess_up) };
            let s = if r < 18 { let h = any_h; if !guess_up.contains(&h) { guess_up.push(h); } PeerUp(h, rng.chance(2, 3)) }
                else if r < 28 { let h = if rng.chance(4, 5) { up_h } else { any_h }; guess_up.retain(|x| *x != h); PeerDown(h) }
                else if r < 80 { let h = if rng.chance(9, 10) { up_h } else { any_h }; rm(h, RM_KINDS[rng.below(RM_KINDS.len() as u64) as usize]) }
                else if r < 86 { Stats(any_h) }
                else if r < 89 { Mirror(any_h) }
                else if r < 93 { Init }
                else if r < 95 { guess_up.clear(); Term }
                else { rm(any_h, "e4") };
            specs.push(s);
        }
        if rng.chance(1, 3) { specs.push(Term); if rng.chance(1, 2) { specs.push(rm(0, "a1")); } }
        emit(&specs, &mut rec, &mut orc);
    }
    rec.extra.insert("downstream_table_entries".into(), serde_json::json!(orc.table.len()));
    rec.finish(&args, t0.elapsed().as_secs_f64());
}
