//! C08 engine: the real `Gate` / `Link` / `DirectLink` of `src/comms.rs` vs the Lean LTS
//! `Model/Gate.lean`.
//!
//! Every case is one *script* (a root gate processing commands, 1-4 publishers = the root
//! gate itself and clones of it, 1-4 queue / direct links issuing connect / suspend /
//! disconnect / close / cancel / terminate) executed on real OS threads, one per actor.
//! The cfg-guarded event taps in `comms.rs` (`verif::gate::ev`) are pause points: exactly
//! one actor runs at a time and a seeded scheduler decides who runs next, so each case is a
//! *deterministic, replayable interleaving of the real code* and the sequence of atomic
//! actions it performed (snapshot, delivery, map edit, command taken off a queue, ...) is
//! known exactly.  That sequence is the case line: the Lean driver replays it through the
//! LTS (every recorded action must be an enabled step) and must arrive at the same final
//! observation (per link and publisher the received sequence numbers, the two maps, who
//! observed termination).
//!
//! Oracle (independent of the Lean model): the property itself on the real observations --
//! per (subscription, publisher) the received sequence numbers are strictly increasing
//! (exactly once, publisher order); every update whose `update_data` call started after
//! `connect()` returned and returned before the link called suspend/disconnect/close was
//! received; after the root gate is dropped every clone's `process()` yields `Terminated`,
//! every queue link's `query()` yields `Gone` and every direct link's next command sets its
//! status to `Gone`.
use std::collections::{HashMap, HashSet, VecDeque};
use std::future::Future;
use std::pin::Pin;
use std::sync::atomic::{AtomicUsize, Ordering};
use std::sync::{Arc, Condvar, Mutex, OnceLock};
use std::task::{Context, Poll, Wake, Waker};
use std::time::{Duration, Instant};

use futures::future::{select, Either};
use futures::FutureExt;
use rotonda::comms::{AnyDirectUpdate, DirectLink, Gate, GateAgent, Link, Terminated, UnitStatus};
use rotonda::payload::Update;
use rotonda::verif::gate as vg;
use smallvec::smallvec;
use uuid::Uuid;
use verif_harness::{join, parse_args, rng::Rng, Recorder};

// ---------------------------------------------------------------- scripts

#[derive(Clone, Debug, PartialEq)]
enum POp { Clone, Update, Process, Drop, AwaitRootDrop }

#[derive(Clone, Debug, PartialEq)]
enum LOp { Connect { direct: bool, susp: bool }, Cancel { direct: bool }, Recv(u32), Suspend, Unsuspend, Disconnect, Close, Terminate, Wait }

#[derive(Clone, Debug, PartialEq)]
struct Script { cap: usize, root_drop: bool, pubs: Vec<Vec<POp>>, links: Vec<Vec<LOp>> }

impl Script {
    fn show(&self) -> String {
        let mut parts = vec![format!("R:{}", if self.root_drop { "d" } else { "-" })];
        for (i, p) in self.pubs.iter().enumerate() {
            let ops = join(p.iter().map(|o| match o { POp::Clone => "c", POp::Update => "u", POp::Process => "p", POp::Drop => "d", POp::AwaitRootDrop => "z" }), " ");
            parts.push(format!("{}:{}", if i == 0 { "P" } else { "C" }, ops));
        }
        for l in &self.links {
            let ops = join(l.iter().map(|o| match o {
                LOp::Connect { direct, susp } => format!("c{}{}", if *direct { "d" } else { "q" }, *susp as u8),
                LOp::Cancel { direct } => format!("a{}", if *direct { "d" } else { "q" }),
                LOp::Recv(n) => format!("r{n}"), LOp::Suspend => "s".into(), LOp::Unsuspend => "n".into(),
                LOp::Disconnect => "x".into(), LOp::Close => "k".into(), LOp::Terminate => "t".into(), LOp::Wait => "w".into(),
            }), " ");
            parts.push(format!("L:{ops}"));
        }
        parts.join("/")
    }
    fn parse(cap: usize, s: &str) -> Script {
        let mut sc = Script { cap, root_drop: false, pubs: vec![], links: vec![] };
        for part in s.split('/') {
            let (k, ops) = part.split_once(':').unwrap();
            let toks: Vec<&str> = ops.split_whitespace().collect();
            match k {
                "R" => sc.root_drop = ops.trim() == "d",
                "P" | "C" => sc.pubs.push(toks.iter().map(|t| match *t { "c" => POp::Clone, "u" => POp::Update, "p" => POp::Process, "z" => POp::AwaitRootDrop, _ => POp::Drop }).collect()),
                _ => sc.links.push(toks.iter().map(|t| {
                    let b = t.as_bytes();
                    match b[0] {
                        b'c' => LOp::Connect { direct: b[1] == b'd', susp: b[2] == b'1' },
                        b'a' => LOp::Cancel { direct: b[1] == b'd' },
                        b'r' => LOp::Recv(t[1..].parse().unwrap()),
                        b's' => LOp::Suspend, b'n' => LOp::Unsuspend, b'x' => LOp::Disconnect, b'k' => LOp::Close, b't' => LOp::Terminate, _ => LOp::Wait,
                    }
                }).collect()),
            }
        }
        sc
    }
}

// ---------------------------------------------------------------- translator: raw events -> model steps

#[derive(Clone, Debug, PartialEq)]
enum Cur { None, Cmd(&'static str), Responding(usize), Emitted }

#[derive(Default, Clone)]
struct SubRec { actor: usize, slot: usize, direct: bool, t_conn: Option<u64>, t_end: Option<u64>, received: Vec<(u32, u32)>, gone: bool, closed: bool }

#[derive(Clone)]
struct UpdRec { p: usize, seq: u32, t_begin: u64, t_end: Option<u64> }

struct Translator {
    trace: Vec<String>,
    slot_of: HashMap<Uuid, usize>,
    pending_subs: VecDeque<usize>,
    n_slots: usize,
    n_pubs: usize,
    rootq_len: i64,
    root_cur: Cur,
    root_terminated: bool,
    root_dropped: bool,
    acked: Vec<bool>,
    cancelled: Vec<bool>,
    slot_direct: Vec<bool>,
    clone_uuid: HashMap<Uuid, usize>,
    registered: HashSet<usize>,
    root_cmd_id: Option<Uuid>,
    // per actor
    pub_id: Vec<Option<usize>>,
    await_snap: Vec<bool>,
    pending_deliver: Vec<Option<Uuid>>,
    clone_cur: Vec<Option<&'static str>>,
    clone_closed: Vec<bool>,
    link_cur: Vec<(bool, bool)>,
    cur_slot: Vec<Option<usize>>,
    terminated_pubs: Vec<usize>,
    subs: Vec<SubRec>,
    upds: Vec<UpdRec>,
    tick: u64,
    bad: Vec<String>,
}

fn tag(cmd: &'static str) -> &'static str {
    match cmd {
        "cmd.subscribe" => "sub", "cmd.unsubscribe" => "unsub", "cmd.suspend" => "susp", "cmd.unsuspend" => "unsusp",
        "cmd.attach_clone" => "att", "cmd.detach_clone" => "det", "cmd.terminate" => "term",
        "cmd.follow_subscribe" => "fsub", "cmd.follow_unsubscribe" => "funsub", _ => "other",
    }
}

impl Translator {
    fn new(n_actors: usize) -> Self {
        Translator {
            trace: vec![], slot_of: HashMap::new(), pending_subs: VecDeque::new(), n_slots: 0, n_pubs: 1, rootq_len: 0,
            root_cur: Cur::None, root_terminated: false, root_dropped: false, acked: vec![], cancelled: vec![], slot_direct: vec![], clone_uuid: HashMap::new(), registered: HashSet::new(), root_cmd_id: None,
            pub_id: vec![None; n_actors], await_snap: vec![false; n_actors], pending_deliver: vec![None; n_actors],
            clone_cur: vec![None; n_actors], clone_closed: vec![false; n_actors], link_cur: vec![(false, false); n_actors],
            cur_slot: vec![None; n_actors], terminated_pubs: vec![], subs: vec![], upds: vec![], tick: 0, bad: vec![],
        }
    }
    fn emit(&mut self, s: String) { self.trace.push(s); }
    fn tick(&mut self) -> u64 { self.tick += 1; self.tick }
    fn root_complete(&mut self) {
        match std::mem::replace(&mut self.root_cur, Cur::None) {
            Cur::Responding(s) => { self.emit("rr".into()); if !self.cancelled[s] { self.acked[s] = true; } }
            Cur::Cmd(c) => {
                self.emit(format!("rp.{}", tag(c))); self.rootq_len -= 1;
                if c == "cmd.terminate" { self.root_terminated = true; }
                if let Some(p) = self.root_cmd_id.and_then(|u| self.clone_uuid.get(&u).copied()) {
                    if c == "cmd.attach_clone" { self.registered.insert(p); }
                    if c == "cmd.detach_clone" { self.registered.remove(&p); }
                }
            }
            _ => {}
        }
    }
    fn clone_complete(&mut self, a: usize) {
        if let Some(c) = self.clone_cur[a].take() {
            let p = self.pub_id[a].unwrap_or(99);
            self.emit(format!("cp.{p}.{}", tag(c)));
        }
    }
    fn slot(&mut self, u: Uuid) -> usize {
        match self.slot_of.get(&u) { Some(s) => *s, None => { self.bad.push(format!("unknown-slot-uuid")); 999 } }
    }
    /// An event tap inside comms.rs fired on actor `a` (actor 0 = root gate's process loop).
    fn on_hook(&mut self, a: usize, name: &'static str, id: Option<Uuid>) {
        if name.starts_with("cmd.") {
            if a == 0 { self.root_complete(); self.root_cur = Cur::Cmd(name); self.root_cmd_id = id; }
            else { self.clone_complete(a); self.clone_cur[a] = Some(name); }
            return;
        }
        match name {
            "subscribe.inserted" => {
                let s = self.pending_subs.pop_front().unwrap_or(998);
                if let Some(u) = id { self.slot_of.insert(u, s); }
                self.emit("rp.sub".into()); self.rootq_len -= 1;
                self.root_cur = Cur::Responding(s);
            }
            "suspension.mid" => {
                if self.root_cur == Cur::Cmd("cmd.suspend") { self.emit("rp.susp".into()); self.rootq_len -= 1; self.root_cur = Cur::Emitted; }
            }
            "unsubscribe.mid" => {}
            "subscribe.responded" => {
                if let Cur::Responding(sl) = self.root_cur.clone() { self.emit("rr".into()); self.acked[sl] = true; self.root_cur = Cur::Emitted; }
            }
            "unsubscribe.done" => { if self.root_cur == Cur::Cmd("cmd.unsubscribe") { self.root_complete(); self.root_cur = Cur::Emitted; } }
            "suspension.done" => { if self.root_cur == Cur::Cmd("cmd.unsuspend") { self.root_complete(); self.root_cur = Cur::Emitted; } }
            "notify.sent" => { if a == 0 { self.root_complete(); self.root_cur = Cur::Emitted; } }
            "process.closed" => { if a == 0 { self.root_complete(); } else { self.clone_complete(a); self.clone_closed[a] = true; } }
            "update.begin" => { self.await_snap[a] = true; }
            "update.deliver" => {
                let p = self.pub_id[a].unwrap_or(99);
                if std::mem::replace(&mut self.await_snap[a], false) { self.emit(format!("pb.{p}")); }
                if let Some(prev) = self.pending_deliver[a].take() { let s = self.slot(prev); self.emit(format!("pd.{p}.{s}")); }
                self.pending_deliver[a] = id;
            }
            "update.end" => {
                let p = self.pub_id[a].unwrap_or(99);
                if std::mem::replace(&mut self.await_snap[a], false) { self.emit(format!("pb.{p}")); }
                if let Some(prev) = self.pending_deliver[a].take() { let s = self.slot(prev); self.emit(format!("pd.{p}.{s}")); }
                self.emit(format!("pe.{p}"));
            }
            "link.connect.sent" => {
                let s = self.n_slots; self.n_slots += 1;
                self.acked.push(false); self.cancelled.push(false);
                self.pending_subs.push_back(s);
                let (direct, susp) = self.link_cur[a];
                self.slot_direct.push(direct);
                self.emit(format!("ls.{s}.{}.{}", if direct { "d" } else { "q" }, susp as u8));
                self.rootq_len += 1;
                self.cur_slot[a] = Some(s);
            }
            _ => {}
        }
    }
    fn actor_blocked(&mut self, a: usize) { if a == 0 { self.root_complete(); } }
}

// ---------------------------------------------------------------- scheduler (one actor runs at a time)

#[derive(Clone, Copy, PartialEq, Debug)]
enum AS { Ready, Running, Paused, Blocked, Woken, Done }

struct Inner { turn: Option<usize>, st: Vec<AS>, wake_pending: Vec<bool>, shutdown: bool, tr: Translator }
struct Sched { m: Mutex<Inner>, cv: Condvar }

struct ActorWaker { sched: Arc<Sched>, id: usize }
impl Wake for ActorWaker {
    fn wake(self: Arc<Self>) { self.wake_by_ref() }
    fn wake_by_ref(self: &Arc<Self>) {
        let mut g = self.sched.m.lock().unwrap();
        if g.st[self.id] == AS::Blocked { g.st[self.id] = AS::Woken; } else { g.wake_pending[self.id] = true; }
        self.sched.cv.notify_all();
    }
}

struct Stop;

impl Sched {
    /// Log (under the lock), give the turn back and wait to be scheduled again.
    fn pause(&self, id: usize, f: impl FnOnce(&mut Translator)) {
        let mut g = self.m.lock().unwrap();
        if g.shutdown { return; }
        f(&mut g.tr);
        g.st[id] = AS::Paused;
        g.turn = None;
        self.cv.notify_all();
        while g.turn != Some(id) && !g.shutdown { g = self.cv.wait(g).unwrap(); }
        g.st[id] = AS::Running;
    }
    fn with<R>(&self, f: impl FnOnce(&mut Translator) -> R) -> R { f(&mut self.m.lock().unwrap().tr) }
    fn first_turn(&self, id: usize) -> Result<(), Stop> {
        let mut g = self.m.lock().unwrap();
        while g.turn != Some(id) && !g.shutdown { g = self.cv.wait(g).unwrap(); }
        if g.turn != Some(id) { return Err(Stop); }
        g.st[id] = AS::Running;
        Ok(())
    }
    fn done(&self, id: usize) {
        let mut g = self.m.lock().unwrap();
        g.st[id] = AS::Done;
        if g.turn == Some(id) { g.turn = None; }
        self.cv.notify_all();
    }
    fn block_on<F: Future>(self: &Arc<Self>, id: usize, mut fut: Pin<&mut F>) -> Option<F::Output> {
        let waker = Waker::from(Arc::new(ActorWaker { sched: self.clone(), id }));
        let mut cx = Context::from_waker(&waker);
        loop {
            self.m.lock().unwrap().wake_pending[id] = false;
            if let Poll::Ready(v) = fut.as_mut().poll(&mut cx) { return Some(v); }
            let mut g = self.m.lock().unwrap();
            if g.shutdown { return None; }
            g.tr.actor_blocked(id);
            if g.wake_pending[id] { g.wake_pending[id] = false; g.st[id] = AS::Woken; } else { g.st[id] = AS::Blocked; }
            g.turn = None;
            self.cv.notify_all();
            while g.turn != Some(id) && !g.shutdown { g = self.cv.wait(g).unwrap(); }
            if g.turn != Some(id) { return None; }
            g.st[id] = AS::Running;
        }
    }
}

// ---------------------------------------------------------------- tokio runtime for the two `tokio::spawn`s in comms.rs

static ATTACHED: OnceLock<(Mutex<HashSet<Uuid>>, Condvar)> = OnceLock::new();
fn attached() -> &'static (Mutex<HashSet<Uuid>>, Condvar) { ATTACHED.get_or_init(|| (Mutex::new(HashSet::new()), Condvar::new())) }

fn runtime() -> &'static tokio::runtime::Runtime {
    static RT: OnceLock<tokio::runtime::Runtime> = OnceLock::new();
    RT.get_or_init(|| {
        tokio::runtime::Builder::new_multi_thread().worker_threads(4).enable_all()
            .on_thread_start(|| {
                vg::set_event_handler(Some(Arc::new(|name, id| {
                    if name == "clone.attach_sent" {
                        if let Some(u) = id { let (m, cv) = attached(); m.lock().unwrap().insert(u); cv.notify_all(); }
                    }
                })));
            })
            .build().unwrap()
    })
}

// ---------------------------------------------------------------- actors

type RootCell = Arc<Mutex<Option<Arc<Gate>>>>;

struct Shared {
    sched: Arc<Sched>,
    root: RootCell,
    agent: GateAgent,
    pubs_left: AtomicUsize,
    done_tx: tokio::sync::watch::Sender<bool>,
    done_rx: tokio::sync::watch::Receiver<bool>,
    dropped_tx: tokio::sync::watch::Sender<bool>,
    dropped_rx: tokio::sync::watch::Receiver<bool>,
}

fn mk_update(p: usize, seq: u32) -> Update { Update::WithdrawBulk(smallvec![p as u32, seq]) }
fn rd_update(u: &Update) -> (u32, u32) { match u { Update::WithdrawBulk(v) if v.len() == 2 => (v[0], v[1]), _ => (9999, 0) } }

struct LinkObj { q: Option<Link>, d: Option<DirectLink>, target: Option<Arc<dyn AnyDirectUpdate>>, sub: Option<usize>, suspended: bool, open: bool }

struct ActorOut { gate: Option<Gate>, links: Vec<LinkObj> }

async fn root_actor(sh: &Shared, root_drop: bool) {
    let gate = sh.root.lock().unwrap().clone();
    let Some(gate) = gate else { return };
    loop {
        match gate.process().await {
            Ok(_) => continue,
            Err(Terminated) => break,
        }
    }
    sh.sched.pause(0, |t| { t.root_complete(); t.root_terminated = true; });
    if root_drop {
        let mut rx = sh.done_rx.clone();
        let _ = rx.wait_for(|v| *v).await;
        let cell = sh.root.lock().unwrap().take();
        drop(cell);
        match Arc::try_unwrap(gate) {
            Ok(g) => { drop(g); let _ = sh.dropped_tx.send(true); sh.sched.pause(0, |t| { t.emit("rd".into()); t.root_dropped = true; }); }
            Err(_) => { sh.sched.with(|t| t.bad.push("root-arc-still-shared".into())); }
        }
    }
}

async fn pub_actor(sh: &Shared, a: usize, is_root: bool, ops: &[POp], gate_slot: &mut Option<Gate>) {
    let mut seq = 0u32;
    if is_root { sh.sched.with(|t| t.pub_id[a] = Some(0)); }
    // "publishers done" = this publisher has returned from its last update_data call
    let last_update = ops.iter().rposition(|o| *o == POp::Update);
    let signal_done = |sh: &Shared| { if sh.pubs_left.fetch_sub(1, Ordering::SeqCst) == 1 { let _ = sh.done_tx.send(true); } };
    if last_update.is_none() { signal_done(sh); }
    for (opi, op) in ops.iter().enumerate() {
        match op {
            POp::AwaitRootDrop => {
                let mut rx = sh.dropped_rx.clone();
                let _ = rx.wait_for(|v| *v).await;
            }
            POp::Clone => {
                if is_root || gate_slot.is_some() { continue; }
                let (skip, root) = { let r = sh.root.lock().unwrap().clone(); (sh.sched.with(|t| t.root_terminated || t.root_dropped || t.rootq_len >= 12), r) };
                let Some(root) = root else { continue };
                if skip { continue; }
                let g = (*root).clone();
                drop(root);
                let cid = vg::gate_clone_id(&g).unwrap();
                {
                    let (m, cv) = attached();
                    let mut set = m.lock().unwrap();
                    let t0 = Instant::now();
                    while !set.contains(&cid) && t0.elapsed() < Duration::from_secs(10) { set = cv.wait_timeout(set, Duration::from_millis(200)).unwrap().0; }
                    if !set.remove(&cid) { sh.sched.with(|t| t.bad.push("attach-not-sent".into())); }
                }
                *gate_slot = Some(g);
                sh.sched.pause(a, |t| { let c = t.n_pubs; t.n_pubs += 1; t.pub_id[a] = Some(c); t.clone_uuid.insert(cid, c); t.emit(format!("cn.{c}")); t.rootq_len += 1; });
            }
            POp::Update => {
                let p = match sh.sched.with(|t| t.pub_id[a]) { Some(p) => p, None => { if Some(opi) == last_update { signal_done(sh); } continue } };
                seq += 1;
                let t_begin = sh.sched.with(|t| { let tb = t.tick(); t.upds.push(UpdRec { p, seq, t_begin: tb, t_end: None }); tb });
                if is_root {
                    let root = sh.root.lock().unwrap().clone();
                    let Some(root) = root else { seq -= 1; sh.sched.with(|t| { t.upds.pop(); }); if Some(opi) == last_update { signal_done(sh); } continue };
                    root.update_data(mk_update(p, seq)).await;
                } else {
                    let Some(g) = gate_slot.as_ref() else { seq -= 1; sh.sched.with(|t| { t.upds.pop(); }); if Some(opi) == last_update { signal_done(sh); } continue };
                    g.update_data(mk_update(p, seq)).await;
                }
                sh.sched.with(|t| { let te = t.tick(); if let Some(u) = t.upds.iter_mut().find(|u| u.p == p && u.t_begin == t_begin) { u.t_end = Some(te); } });
                if Some(opi) == last_update { signal_done(sh); }
            }
            POp::Process => {
                if is_root { continue; }
                let Some(g) = gate_slot.as_ref() else { continue };
                if sh.sched.with(|t| t.pub_id[a].map(|p| t.terminated_pubs.contains(&p)).unwrap_or(true)) { continue; }
                let r = g.process().now_or_never();
                let term = matches!(r, Some(Err(Terminated)));
                sh.sched.pause(a, |t| {
                    t.clone_complete(a);
                    let p = t.pub_id[a].unwrap();
                    if term { if std::mem::replace(&mut t.clone_closed[a], false) { t.emit(format!("cc.{p}")); } t.terminated_pubs.push(p); }
                });
            }
            POp::Drop => {
                if is_root { continue; }
                if sh.sched.with(|t| !t.root_dropped && (t.root_terminated || t.rootq_len >= 12)) { continue; }
                if let Some(g) = gate_slot.take() {
                    drop(g);
                    sh.sched.pause(a, |t| { let p = t.pub_id[a].take().unwrap(); t.emit(format!("cd.{p}")); if !t.root_dropped { t.rootq_len += 1; } });
                }
            }
        }
    }
}

fn recv_one(sh: &Shared, a: usize, sub: usize, r: Result<Update, UnitStatus>, lo: &mut LinkObj) -> bool {
    match r {
        Ok(u) => { let m = rd_update(&u); sh.sched.pause(a, |t| { let s = t.subs[sub].slot; t.subs[sub].received.push(m); t.emit(format!("lr.{s}")); }); true }
        Err(UnitStatus::Gone) => { lo.open = false; sh.sched.pause(a, |t| { let s = t.subs[sub].slot; t.subs[sub].gone = true; t.emit(format!("lg.{s}")); }); false }
        Err(_) => false,
    }
}

/// Read, without giving the turn away, everything already queued for the link (a consumer that
/// leaves reads what it was sent first; otherwise "delivered but discarded by the link itself"
/// would be indistinguishable from "lost by the gate").
fn drain_now(sh: &Shared, sub: usize, lo: &mut LinkObj) {
    let Some(l) = lo.q.as_mut() else { return };
    if !lo.open { return; }
    while let Some(Ok(u)) = tokio::task::unconstrained(l.query()).now_or_never() {
        let m = rd_update(&u);
        sh.sched.with(|t| { let s = t.subs[sub].slot; t.subs[sub].received.push(m); t.emit(format!("lr.{s}")); });
    }
}

async fn link_actor(sh: &Shared, a: usize, ops: &[LOp], lo: &mut LinkObj) {
    for op in ops {
        match op {
            LOp::Connect { direct, susp } => {
                if lo.sub.is_some() { continue; }
                sh.sched.with(|t| t.link_cur[a] = (*direct, *susp));
                let subidx = sh.sched.with(|t| t.subs.len());
                let ok;
                if *direct {
                    let sched = sh.sched.clone();
                    let target: Arc<dyn AnyDirectUpdate> = Arc::new(vg::FnTarget(Arc::new(move |u| {
                        let m = rd_update(&u);
                        sched.with(|t| if let Some(s) = t.subs.get_mut(subidx) { s.received.push(m) });
                    })));
                    let mut agent = sh.agent.clone();
                    let mut dl = DirectLink::from(agent.create_link());
                    // the sub record must exist before the first direct delivery
                    sh.sched.with(|t| t.subs.push(SubRec { actor: a, slot: usize::MAX, direct: true, ..Default::default() }));
                    ok = dl.connect(target.clone(), *susp).await.is_ok();
                    lo.d = Some(dl); lo.target = Some(target); lo.q = None;
                } else {
                    let mut agent = sh.agent.clone();
                    let mut l = agent.create_link();
                    sh.sched.with(|t| t.subs.push(SubRec { actor: a, slot: usize::MAX, direct: false, ..Default::default() }));
                    ok = l.connect(*susp).await.is_ok();
                    lo.q = Some(l); lo.d = None; lo.target = None;
                }
                if ok {
                    lo.sub = Some(subidx); lo.suspended = *susp; lo.open = true;
                    sh.sched.pause(a, |t| { let s = t.cur_slot[a].unwrap(); let tc = t.tick(); let r = &mut t.subs[subidx]; r.slot = s; r.t_conn = Some(tc); if *susp { r.t_end = Some(tc); } });
                } else {
                    lo.q = None; lo.d = None; lo.target = None;
                    sh.sched.pause(a, |_| {});
                }
            }
            LOp::Cancel { direct } => {
                if lo.sub.is_some() { continue; }
                sh.sched.with(|t| { t.link_cur[a] = (*direct, false); t.cur_slot[a] = None; });
                let mut agent = sh.agent.clone();
                let got: Arc<Mutex<Vec<(u32, u32)>>> = Arc::new(Mutex::new(vec![]));
                let got2 = got.clone();
                let target: Arc<dyn AnyDirectUpdate> = Arc::new(vg::FnTarget(Arc::new(move |u| got2.lock().unwrap().push(rd_update(&u)))));
                type Out = (Option<Link>, Option<DirectLink>, bool);
                let mut fut: Pin<Box<dyn Future<Output = Out> + Send>> = if *direct {
                    let mut dl = DirectLink::from(agent.create_link());
                    let tg = target.clone();
                    Box::pin(async move { let ok = dl.connect(tg, false).await.is_ok(); (None, Some(dl), ok) })
                } else {
                    let mut l = agent.create_link();
                    Box::pin(async move { let ok = l.connect(false).await.is_ok(); (Some(l), None, ok) })
                };
                match fut.as_mut().now_or_never() {
                    None => {
                        sh.sched.pause(a, |_| {});   // window in which the gate may or may not answer
                        drop(fut);
                        drop(target);
                        sh.sched.pause(a, |t| if let Some(s) = t.cur_slot[a] { if t.acked[s] { t.emit(format!("lx.{s}")); } else { t.cancelled[s] = true; t.emit(format!("lc.{s}")); } });
                    }
                    Some((l, d, true)) => {
                        // the gate answered while this actor was paused inside connect(): leave properly
                        if let Some(mut l) = l { l.disconnect().await; }
                        if let Some(mut d) = d { d.disconnect().await; }
                        drop(target);
                        sh.sched.pause(a, |t| if let Some(s) = t.cur_slot[a] { t.emit(format!("ld.{s}")); if !t.root_dropped { t.rootq_len += 1; } });
                    }
                    Some(_) => {}
                }
                // deliveries made to the short-lived direct target (not judged by the oracle: never connected from the link's view)
                let got = got.lock().unwrap().clone();
                sh.sched.with(|t| if let Some(s) = t.cur_slot[a] { if t.acked[s] { t.subs.push(SubRec { actor: a, slot: s, direct: *direct, received: got, ..Default::default() }); } });
            }
            LOp::Recv(n) => {
                let (Some(sub), true) = (lo.sub, lo.open) else { continue };
                if lo.q.is_none() { continue; }
                for _ in 0..*n {
                    let r = tokio::task::unconstrained(lo.q.as_mut().unwrap().query()).now_or_never();
                    match r { Some(r) => { if !recv_one(sh, a, sub, r, lo) { break; } } None => break }
                }
            }
            LOp::Suspend | LOp::Unsuspend => {
                let Some(sub) = lo.sub else { continue };
                let want = *op == LOp::Suspend;
                if lo.suspended == want { continue; }
                let te = sh.sched.with(|t| t.tick());
                if want {
                    if let Some(l) = lo.q.as_mut() { l.suspend().await } else if let Some(d) = lo.d.as_mut() { d.suspend().await }
                } else if let Some(l) = lo.q.as_mut() { vg::link_unsuspend(l).await } else if let Some(d) = lo.d.as_mut() { vg::direct_link_unsuspend(d).await }
                lo.suspended = want;
                sh.sched.pause(a, |t| {
                    let s = t.subs[sub].slot;
                    if t.subs[sub].t_end.is_none() { t.subs[sub].t_end = Some(te); }
                    t.emit(format!("lu.{s}.{}", want as u8)); if !t.root_dropped { t.rootq_len += 1; }
                });
            }
            LOp::Disconnect => {
                let Some(sub) = lo.sub.take() else { continue };
                drain_now(sh, sub, lo);
                let te = sh.sched.with(|t| t.tick());
                if let Some(l) = lo.q.as_mut() { l.disconnect().await } else if let Some(d) = lo.d.as_mut() { d.disconnect().await }
                lo.open = false; lo.target = None;
                sh.sched.pause(a, |t| {
                    let s = t.subs[sub].slot;
                    if t.subs[sub].t_end.is_none() { t.subs[sub].t_end = Some(te); }
                    t.subs[sub].closed = true;
                    t.emit(format!("ld.{s}")); if !t.root_dropped { t.rootq_len += 1; }
                });
            }
            LOp::Close => {
                let (Some(sub), true) = (lo.sub, lo.open) else { continue };
                drain_now(sh, sub, lo);
                let te = sh.sched.with(|t| t.tick());
                if let Some(l) = lo.q.as_mut() { l.close(); } else { lo.target = None; }
                lo.open = false;
                sh.sched.pause(a, |t| { let s = t.subs[sub].slot; if t.subs[sub].t_end.is_none() { t.subs[sub].t_end = Some(te); } t.subs[sub].closed = true; t.emit(format!("lx.{s}")); });
            }
            LOp::Terminate => {
                if sh.sched.with(|t| t.root_dropped || t.rootq_len >= 14) { continue; }
                sh.agent.terminate().await;
                sh.sched.pause(a, |t| { t.emit("at".into()); t.rootq_len += 1; });
            }
            LOp::Wait => {
                let mut done = sh.done_rx.clone();
                loop {
                    let (Some(sub), true, true) = (lo.sub, lo.open, lo.q.is_some()) else { let _ = done.wait_for(|v| *v).await; break };
                    let res = {
                        let q = lo.q.as_mut().unwrap().query();
                        futures::pin_mut!(q);
                        let d = done.wait_for(|v| *v);
                        futures::pin_mut!(d);
                        match select(q, d).await { Either::Left((r, _)) => Some(r), Either::Right(_) => None }
                    };
                    match res {
                        Some(r) => { if !recv_one(sh, a, sub, r, lo) { break; } }
                        None => {
                            loop {
                                let r = tokio::task::unconstrained(lo.q.as_mut().unwrap().query()).now_or_never();
                                match r { Some(r) => { if !recv_one(sh, a, sub, r, lo) { break; } } None => break }
                            }
                            break;
                        }
                    }
                }
            }
        }
    }
}

// ---------------------------------------------------------------- one case

struct CaseResult { trace: Vec<String>, choices: Vec<(usize, usize, usize)>, imp: String, oracle: String, nontrivial: bool, stats: Vec<&'static str>, steps: usize }

fn show_nums(mut v: Vec<usize>) -> String { v.sort(); if v.is_empty() { "-".into() } else { join(v, ",") } }

/// How the scheduler makes its decisions.
enum Plan<'a> {
    /// replay: the actor to run at each decision (from a case line); afterwards the first allowed one
    Actors(&'a [usize]),
    /// search: index into the allowed actors at each decision, afterwards index 0; at most `bound`
    /// preemptions (switching away from an actor that could continue)
    Indices(&'a [usize], usize),
    /// seeded random choice among all runnable actors
    Random,
}

fn run_case(sc: &Script, plan: Plan, rng: &mut Rng) -> CaseResult {
    let np = sc.pubs.len();
    let nl = sc.links.len();
    let n_actors = 1 + np + nl;
    let _rt = runtime().enter();
    let (gate, agent) = Gate::new(sc.cap);
    let sched = Arc::new(Sched { m: Mutex::new(Inner { turn: None, st: vec![AS::Ready; n_actors], wake_pending: vec![false; n_actors], shutdown: false, tr: Translator::new(n_actors) }), cv: Condvar::new() });
    let (done_tx, done_rx) = tokio::sync::watch::channel(false);
    let (dropped_tx, dropped_rx) = tokio::sync::watch::channel(false);
    let sh = Arc::new(Shared { sched: sched.clone(), root: Arc::new(Mutex::new(Some(Arc::new(gate)))), agent, pubs_left: AtomicUsize::new(np), done_tx, done_rx, dropped_tx, dropped_rx });

    let mut handles = vec![];
    for a in 0..n_actors {
        let sh = sh.clone();
        let sc = sc.clone();
        handles.push(std::thread::Builder::new().stack_size(512 * 1024).spawn(move || -> ActorOut {
            let _rt = runtime().enter();
            let sched = sh.sched.clone();
            let s2 = sched.clone();
            vg::set_event_handler(Some(Arc::new(move |name, id| s2.pause(a, |t| t.on_hook(a, name, id)))));
            // also pause inside FrimMap's rcu closures (between the load and the CAS of every map edit)
            let s3 = sched.clone();
            rotonda::verif::set_point_handler(Some(Arc::new(move |_name| s3.pause(a, |_| {}))));
            let mut out = ActorOut { gate: None, links: vec![] };
            if sched.first_turn(a).is_ok() {
                if a == 0 {
                    let fut = root_actor(&sh, sc.root_drop);
                    futures::pin_mut!(fut);
                    sched.block_on(a, fut);
                } else if a <= np {
                    let mut slot = None;
                    {
                        let fut = pub_actor(&sh, a, a == 1, &sc.pubs[a - 1], &mut slot);
                        futures::pin_mut!(fut);
                        sched.block_on(a, fut);
                    }
                    out.gate = slot;
                } else {
                    let mut lo = LinkObj { q: None, d: None, target: None, sub: None, suspended: false, open: false };
                    {
                        let fut = link_actor(&sh, a, &sc.links[a - 1 - np], &mut lo);
                        futures::pin_mut!(fut);
                        sched.block_on(a, fut);
                    }
                    out.links.push(lo);
                }
            }
            vg::set_event_handler(None);
            rotonda::verif::set_point_handler(None);
            sched.done(a);
            out
        }).unwrap());
    }

    // the scheduler
    let mut choices: Vec<(usize, usize, usize)> = vec![];
    let mut last: Option<usize> = None;
    let mut preemptions = 0usize;
    let mut steps = 0usize;
    let mut stuck = false;
    {
        let mut g = sched.m.lock().unwrap();
        loop {
            let t0 = Instant::now();
            while g.turn.is_some() {
                let (g2, to) = sched.cv.wait_timeout(g, Duration::from_secs(2)).unwrap();
                g = g2;
                if to.timed_out() && t0.elapsed() > Duration::from_secs(20) { stuck = true; break; }
            }
            if stuck { break; }
            let runnable: Vec<usize> = (0..n_actors).filter(|&i| matches!(g.st[i], AS::Ready | AS::Paused | AS::Woken)).collect();
            if runnable.is_empty() || steps > 5000 { break; }
            let pick = if g.tr.rootq_len >= 10 && runnable.contains(&0) { 0 } else {
                // the actor that ran last goes first in the list of options
                let mut allowed = runnable.clone();
                if let Some(l) = last { if let Some(pos) = allowed.iter().position(|&x| x == l) { allowed.remove(pos); allowed.insert(0, l); } }
                let can_continue = last.map(|l| runnable.contains(&l)).unwrap_or(false);
                if let Plan::Indices(_, bound) = plan { if can_continue && preemptions >= bound { allowed.truncate(1); } }
                let k = choices.len();
                let idx = match plan {
                    Plan::Actors(f) => if k < f.len() { allowed.iter().position(|&x| x == f[k]).unwrap_or(0) } else { 0 },
                    Plan::Indices(f, _) => if k < f.len() { f[k].min(allowed.len() - 1) } else { 0 },
                    Plan::Random => rng.below(allowed.len() as u64) as usize,
                };
                if can_continue && idx != 0 { preemptions += 1; }
                choices.push((idx, allowed.len(), allowed[idx]));
                allowed[idx]
            };
            last = Some(pick);
            steps += 1;
            g.turn = Some(pick);
            sched.cv.notify_all();
        }
        g.shutdown = true;
        sched.cv.notify_all();
    }
    let mut outs: Vec<ActorOut> = vec![];
    if stuck {
        // an actor thread is blocked inside the real code while holding the turn: leak the threads
        return CaseResult { trace: vec![], choices, imp: "engine-stuck".into(), oracle: "fail engine-stuck an actor did not come back to a pause point within 20 s".into(), nontrivial: false, stats: vec![], steps };
    }
    for h in handles { outs.push(h.join().unwrap_or(ActorOut { gate: None, links: vec![] })); }

    // ---- final observation of the real objects
    let mut g = sched.m.lock().unwrap();
    let tr = &mut g.tr;
    let root_arc = sh.root.lock().unwrap().take();
    let maps = {
        let any_gate: Option<&Gate> = root_arc.as_deref().or_else(|| outs.iter().find_map(|o| o.gate.as_ref()));
        match any_gate {
            Some(gt) => {
                let (u, s) = vg::gate_slots(gt);
                let f = |v: Vec<Uuid>| show_nums(v.iter().map(|x| *tr.slot_of.get(x).unwrap_or(&997)).collect());
                format!("U={} S={}", f(u), f(s))
            }
            None => "U=x S=x".into(),
        }
    };
    let n_pubs = tr.n_pubs;
    // pending commands per existing gate object (root = 0, clones by model id)
    let mut pend: Vec<(usize, usize)> = vec![];
    if let Some(r) = root_arc.as_deref() { if let Some(n) = vg::gate_pending_commands(r) { pend.push((0, n)); } }
    for o in &outs { if let Some(gt) = o.gate.as_ref() {
        if let (Some(p), Some(n)) = (vg::gate_clone_id(gt).and_then(|u| tr.clone_uuid.get(&u).copied()), vg::gate_pending_commands(gt)) { pend.push((p, n)); }
    } }
    pend.sort();
    let pend_s = if pend.is_empty() { "-".to_string() } else { join(pend.iter().map(|(p, n)| format!("{p}:{n}")), ",") };
    let mut links_s = vec![];
    let mut by_slot: Vec<&SubRec> = tr.subs.iter().filter(|s| s.t_conn.is_some()).collect();
    by_slot.sort_by_key(|s| s.slot);
    for slot in 0..tr.n_slots {
        if !tr.acked[slot] { continue; }
        let rec = tr.subs.iter().find(|s| s.slot == slot);
        let per: Vec<String> = (0..n_pubs).filter_map(|p| {
            let q: Vec<u32> = rec.map(|s| s.received.iter().filter(|m| m.0 as usize == p).map(|m| m.1).collect()).unwrap_or_default();
            if q.is_empty() { None } else { Some(format!("{p}={}", join(q, ","))) }
        }).collect();
        links_s.push(format!("{}:{}:{}{}", slot, if tr.slot_direct[slot] { "d" } else { "q" }, if per.is_empty() { "-".into() } else { per.join("/") }, if rec.map(|s| s.gone).unwrap_or(false) { ":gone" } else { "" }));
    }
    let imp = format!("ok {maps} L={} T={} RT={} Q={pend_s}", if links_s.is_empty() { "-".into() } else { links_s.join(" ") }, show_nums(tr.terminated_pubs.clone()), tr.root_terminated);

    // ---- oracle: the property on the real observations
    let mut fails: Vec<String> = tr.bad.iter().map(|b| format!("engine-{b}")).collect();
    for s in &by_slot {
        for p in 0..n_pubs {
            let q: Vec<u32> = s.received.iter().filter(|m| m.0 as usize == p).map(|m| m.1).collect();
            if q.windows(2).any(|w| w[0] == w[1]) { fails.push(format!("delivery:duplicate slot={} pub={p} seqs={}", s.slot, join(&q, ","))); }
            else if q.windows(2).any(|w| w[0] > w[1]) { fails.push(format!("delivery:out-of-order slot={} pub={p} seqs={}", s.slot, join(&q, ","))); }
        }
        if s.received.iter().any(|m| m.0 == 9999) { fails.push(format!("delivery:foreign-update slot={}", s.slot)); }
        for u in &tr.upds {
            let Some(ue) = u.t_end else { continue };
            let in_window = s.t_conn.unwrap() < u.t_begin && s.t_end.map(|te| ue < te).unwrap_or(true);
            if in_window && !s.received.contains(&(u.p as u32, u.seq)) {
                fails.push(format!("delivery:lost slot={} pub={} seq={}", s.slot, u.p, u.seq));
            }
        }
    }
    let subs = tr.subs.clone();
    let root_terminated = tr.root_terminated;
    let clone_ids = tr.clone_uuid.clone();
    let registered = tr.registered.clone();
    let terminated_pubs = tr.terminated_pubs.clone();
    let trace = tr.trace.clone();
    let n_delivered: usize = subs.iter().map(|s| s.received.len()).sum();
    let mut stats = vec![];
    if trace.iter().any(|t| t.starts_with("cp.") && t.ends_with(".fsub")) { stats.push("clone-follow-subscribe"); }
    if trace.iter().any(|t| t == "rp.term") { stats.push("terminate-processed"); }
    if trace.iter().any(|t| t == "rd") { stats.push("root-dropped-in-trace"); }
    if trace.iter().any(|t| t.starts_with("lc.")) { stats.push("connect-cancelled"); }
    if trace.iter().any(|t| t.starts_with("lg.")) { stats.push("link-saw-gone-in-trace"); }
    if trace.iter().any(|t| t == "rp.susp") { stats.push("suspend-processed"); }
    if trace.iter().any(|t| t == "rp.unsusp") { stats.push("unsuspend-processed"); }
    // mid-update churn: a map edit or command between a pubBegin and its pubEnd
    let mut open_updates = 0; let mut mid_churn = false;
    for t in &trace {
        if t.starts_with("pb.") { open_updates += 1; } else if t.starts_with("pe.") { open_updates -= 1; }
        else if open_updates > 0 && (t.starts_with("rp") || t == "rr" || t.starts_with("cp.")) { mid_churn = true; }
    }
    if mid_churn { stats.push("map-edit-during-update"); }
    drop(g);

    // ---- teardown = the upstream goes away: everybody must observe it
    let mut clones: Vec<Gate> = vec![];
    let mut links: Vec<LinkObj> = vec![];
    for o in outs { if let Some(gt) = o.gate { clones.push(gt); } links.extend(o.links); }
    if root_terminated && root_arc.is_some() {
        // the root handled Terminate and still exists: every clone it had registered must be told
        for gt in &clones {
            let Some(p) = vg::gate_clone_id(gt).and_then(|u| clone_ids.get(&u).copied()) else { continue };
            if !registered.contains(&p) || terminated_pubs.contains(&p) { continue; }
            let mut ok = false;
            for _ in 0..64 { match gt.process().now_or_never() { Some(Err(Terminated)) => { ok = true; break; } Some(Ok(_)) => continue, None => break } }
            if !ok { fails.push(format!("termination:registered-clone-not-notified pub={p}")); }
        }
    }
    drop(root_arc);
    for gt in &clones {
        let mut ok = false;
        for _ in 0..64 { if let Some(Err(Terminated)) = gt.process().now_or_never() { ok = true; break; } }
        if !ok { fails.push("termination:clone-not-terminated".into()); }
    }
    drop(clones);
    for lo in links.iter_mut() {
        let Some(sub) = lo.sub else { continue };
        if let (Some(l), true) = (lo.q.as_mut(), lo.open) {
            let mut gone = false;
            for _ in 0..2000 {
                match tokio::task::unconstrained(l.query()).now_or_never() { Some(Err(UnitStatus::Gone)) => { gone = true; break; } Some(_) => continue, None => break }
            }
            if !gone { fails.push(format!("termination:queue-link-not-gone slot={}", subs[sub].slot)); }
        } else if let Some(d) = lo.d.as_mut() {
            if lo.suspended { let _ = vg::direct_link_unsuspend(d).now_or_never(); } else { let _ = d.suspend().now_or_never(); }
            if d.get_status() != UnitStatus::Gone { fails.push(format!("termination:direct-link-status-not-gone slot={}", subs[sub].slot)); }
        }
    }
    // connected links must be disconnected before they are dropped here: `Link::drop` spawns a task
    for lo in links.iter_mut() {
        if let Some(l) = lo.q.as_mut() { let _ = l.disconnect().now_or_never(); }
        if let Some(d) = lo.d.as_mut() { let _ = d.disconnect().now_or_never(); }
    }
    drop(links);

    fails.sort(); fails.dedup();
    let oracle = if fails.is_empty() { "ok".to_string() } else {
        let sig = fails[0].split_whitespace().next().unwrap().to_string();
        format!("fail {sig} {}", fails.join("; "))
    };
    let nontrivial = n_delivered >= 2 && mid_churn;
    CaseResult { trace, choices, imp, oracle, nontrivial, stats, steps }
}


// ---------------------------------------------------------------- free-running cases (real parallelism, oracle only)

/// The same property judged on a *free-running* execution: the real Gate on a multi-thread tokio
/// runtime, publishers (root gate + clones) and links as concurrently running tasks, no pause
/// handlers installed (the event taps are no-ops).  No trace exists for such a run, so the Lean
/// driver only sees an empty trace; the oracle is what judges it.  Ordering facts come from one
/// global SeqCst ticket counter: ticket(connect returned) < ticket(update_data about to be
/// called) proves the connection was established first, and likewise for the end of the window.
fn free_case(seed: u64, big: bool) -> (String, String, bool) {
    use std::sync::atomic::AtomicU64;
    let mut r = Rng::new(seed);
    let cap = r.range(1, 4) as usize;
    let n_clones = r.range(1, 3) as usize;
    let n_upd = r.range(5, if big { 200 } else { 40 }) as u32;
    let n_stable = r.range(1, 3) as usize;
    let n_churn = r.range(1, 3) as usize;
    let desc = format!("free clones={n_clones} updates={n_upd} stable={n_stable} churn={n_churn}");
    let ticket = Arc::new(AtomicU64::new(1));
    #[derive(Default)]
    struct Sub { direct: bool, t_conn: u64, t_end: Option<u64>, got: Vec<(u32, u32)> }
    let subs: Arc<Mutex<Vec<Sub>>> = Arc::new(Mutex::new(vec![]));
    let upds: Arc<Mutex<Vec<(u32, u32, u64, u64)>>> = Arc::new(Mutex::new(vec![]));
    let mut fails: Vec<String> = vec![];
    let rt = runtime();
    let res = rt.block_on(async {
        let (gate, agent) = Gate::new(cap);
        let gate = Arc::new(gate);
        // a unit's status reporter, its per-connection tasks and the manager's link report all hold the gate's metrics
        // handle and can outlive the gate: hold it across the termination, as they do
        let metrics_held = gate.metrics();
        let g2 = gate.clone();
        let root_task = tokio::spawn(async move { loop { if g2.process().await.is_err() { break; } } });
        let (done_tx, done_rx) = tokio::sync::watch::channel(false);
        let mut link_tasks = vec![];
        // links: stable ones connect once before the publishers start; churn links come and go
        let (ready_tx, mut ready_rx) = tokio::sync::mpsc::channel::<()>(16);
        for li in 0..(n_stable + n_churn) {
            let stable = li < n_stable;
            let direct = r.chance(1, 2);
            let mut lr = r.fork();
            let mut agent = agent.clone();
            let subs = subs.clone();
            let ticket = ticket.clone();
            let mut done = done_rx.clone();
            let ready_tx = ready_tx.clone();
            link_tasks.push(tokio::spawn(async move {
                let mut kept: Vec<(Option<Link>, Option<DirectLink>, Option<Arc<dyn AnyDirectUpdate>>, usize)> = vec![];
                let mut first = true;
                loop {
                    let idx = { let mut s = subs.lock().unwrap(); s.push(Sub { direct, ..Default::default() }); s.len() - 1 };
                    let mut q = None; let mut d = None; let mut target = None;
                    let ok = if direct {
                        let subs2 = subs.clone();
                        let t: Arc<dyn AnyDirectUpdate> = Arc::new(vg::FnTarget(Arc::new(move |u| subs2.lock().unwrap()[idx].got.push(rd_update(&u)))));
                        let mut dl = DirectLink::from(agent.create_link());
                        let ok = dl.connect(t.clone(), false).await.is_ok();
                        d = Some(dl); target = Some(t); ok
                    } else {
                        let mut l = agent.create_link();
                        let ok = l.connect(false).await.is_ok();
                        q = Some(l); ok
                    };
                    if !ok { break; }
                    subs.lock().unwrap()[idx].t_conn = ticket.fetch_add(1, Ordering::SeqCst);
                    if first { first = false; let _ = ready_tx.send(()).await; }
                    // consume for a while (stable: until the publishers are done)
                    let mut budget = if stable { u64::MAX } else { lr.range(1, 30) };
                    let mut finished = false;
                    while budget > 0 {
                        budget -= 1;
                        if let Some(l) = q.as_mut() {
                            tokio::select! {
                                x = l.query() => match x { Ok(u) => subs.lock().unwrap()[idx].got.push(rd_update(&u)), Err(_) => { finished = true; break; } },
                                _ = done.wait_for(|v| *v) => { finished = true; break; }
                            }
                        } else {
                            tokio::select! {
                                _ = tokio::time::sleep(Duration::from_micros(lr.range(10, 300))) => {},
                                _ = done.wait_for(|v| *v) => { finished = true; break; }
                            }
                        }
                    }
                    if stable || finished {
                        // publishers are done: everything pushed is in the queue already
                        if let Some(l) = q.as_mut() { while let Some(Ok(u)) = tokio::task::unconstrained(l.query()).now_or_never() { subs.lock().unwrap()[idx].got.push(rd_update(&u)); } }
                        kept.push((q, d, target, idx));
                        break;
                    }
                    // leave: window ends here; read what was queued before leaving, then disconnect
                    subs.lock().unwrap()[idx].t_end = Some(ticket.fetch_add(1, Ordering::SeqCst));
                    if let Some(l) = q.as_mut() {
                        // read what is queued *before* asking for suspension: `query()` on a suspended link first has to
                        // lift the suspension (a command round trip to the gate), so `now_or_never` on it gives up with
                        // the queue still full whenever that round trip is not instantaneous (a load-dependent
                        // `delivery:lost` false alarm of the thorough tier, session 6)
                        while let Some(Ok(u)) = tokio::task::unconstrained(l.query()).now_or_never() { subs.lock().unwrap()[idx].got.push(rd_update(&u)); }
                        if lr.chance(1, 3) { l.suspend().await; tokio::task::yield_now().await; }
                        // anything pushed between the drain above and the suspension taking effect: awaited reads
                        // (lifting the suspension again), until the queue stays empty for a moment
                        let mut n = 0;
                        while n < 100_000 { match tokio::time::timeout(Duration::from_millis(20), l.query()).await { Ok(Ok(u)) => { subs.lock().unwrap()[idx].got.push(rd_update(&u)); n += 1; } _ => break } }
                        l.disconnect().await;
                    }
                    if let Some(dl) = d.as_mut() { dl.disconnect().await; }
                    tokio::time::sleep(Duration::from_micros(lr.range(0, 200))).await;
                }
                kept
            }));
        }
        drop(ready_tx);
        for _ in 0..(n_stable + n_churn) { let _ = tokio::time::timeout(Duration::from_secs(5), ready_rx.recv()).await; }
        // publishers
        let mut pub_tasks = vec![];
        for p in 0..=n_clones {
            let g: Arc<Gate> = if p == 0 { gate.clone() } else { Arc::new((*gate).clone()) };
            let upds = upds.clone();
            let ticket = ticket.clone();
            let mut pr = r.fork();
            pub_tasks.push(tokio::spawn(async move {
                for seq in 1..=n_upd {
                    let tb = ticket.fetch_add(1, Ordering::SeqCst);
                    g.update_data(mk_update(p, seq)).await;
                    let te = ticket.fetch_add(1, Ordering::SeqCst);
                    upds.lock().unwrap().push((p as u32, seq, tb, te));
                    if p > 0 && pr.chance(1, 2) { let _ = g.process().now_or_never(); }
                    if pr.chance(1, 4) { tokio::task::yield_now().await; }
                }
                g
            }));
        }
        let mut pub_gates = vec![];
        for t in pub_tasks { match tokio::time::timeout(Duration::from_secs(30), t).await { Ok(Ok(g)) => pub_gates.push(g), _ => return Err("free:publisher-stalled".to_string()) } }
        let _ = done_tx.send(true);
        let mut kept_all = vec![];
        for t in link_tasks { match tokio::time::timeout(Duration::from_secs(30), t).await { Ok(Ok(k)) => kept_all.extend(k), _ => return Err("free:link-task-stalled".to_string()) } }
        // the upstream terminates and goes away.  `Gate::clone` registers the clone through a spawned
        // task; only clones whose AttachClone the root has handled before Terminate are promised a
        // Terminate command, so wait for the registrations first (observation 4 in notes/C08.md).
        let t_reg = Instant::now();
        while vg::gate_clone_count(&gate) < n_clones && t_reg.elapsed() < Duration::from_secs(10) { tokio::time::sleep(Duration::from_micros(200)).await; }
        if vg::gate_clone_count(&gate) < n_clones { return Err("free:clone-registration-stalled".to_string()); }
        agent.terminate().await;
        if tokio::time::timeout(Duration::from_secs(10), root_task).await.is_err() { return Err("termination:root-process-did-not-return".to_string()); }
        let mut term_fail = vec![];
        for g in pub_gates.iter().skip(1) {
            let mut ok = false;
            for _ in 0..200 { match g.process().now_or_never() { Some(Err(Terminated)) => { ok = true; break; } Some(Ok(_)) => continue, None => { tokio::task::yield_now().await; } } }
            if !ok { term_fail.push("termination:registered-clone-not-notified".to_string()); }
        }
        drop(pub_gates);
        drop(gate);
        for (q, d, _t, _idx) in kept_all.iter_mut() {
            if let Some(l) = q.as_mut() {
                let mut gone = false;
                for _ in 0..5000 { match tokio::time::timeout(Duration::from_secs(5), l.query()).await { Ok(Err(UnitStatus::Gone)) => { gone = true; break; } Ok(_) => continue, Err(_) => break } }
                if !gone { term_fail.push("termination:queue-link-not-gone".to_string()); }
                l.disconnect().await;
            }
            if let Some(dl) = d.as_mut() {
                dl.suspend().await;
                if dl.get_status() != UnitStatus::Gone { term_fail.push("termination:direct-link-status-not-gone".to_string()); }
                dl.disconnect().await;
            }
        }
        drop(metrics_held);
        Ok(term_fail)
    });
    match res { Ok(tf) => fails.extend(tf), Err(e) => fails.push(e) }
    let subs = subs.lock().unwrap();
    let upds = upds.lock().unwrap();
    let mut delivered = 0usize;
    for (si, s) in subs.iter().enumerate() {
        if s.t_conn == 0 { continue; }
        delivered += s.got.len();
        for p in 0..=n_clones as u32 {
            let q: Vec<u32> = s.got.iter().filter(|m| m.0 == p).map(|m| m.1).collect();
            if q.windows(2).any(|w| w[0] == w[1]) { fails.push(format!("delivery:duplicate sub={si} pub={p}")); }
            else if q.windows(2).any(|w| w[0] > w[1]) && !s.direct { fails.push(format!("delivery:out-of-order sub={si} pub={p}")); }
            else if s.direct { let mut qq = q.clone(); qq.sort(); qq.dedup(); if qq.len() != q.len() { fails.push(format!("delivery:duplicate sub={si} pub={p}")); } else if qq != q { fails.push(format!("delivery:out-of-order sub={si} pub={p}")); } }
        }
        for (p, seq, tb, te) in upds.iter() {
            if s.t_conn < *tb && s.t_end.map(|e| *te < e).unwrap_or(true) && !s.got.contains(&(*p, *seq)) {
                fails.push(format!("delivery:lost sub={si} pub={p} seq={seq}"));
            }
        }
    }
    fails.sort(); fails.dedup();
    let oracle = if fails.is_empty() { "ok".to_string() } else { format!("fail {} {}", fails[0].split_whitespace().next().unwrap(), fails.iter().take(6).cloned().collect::<Vec<_>>().join("; ")) };
    (format!("cap={cap}||{desc}|{seed}"), oracle, delivered >= 2 * n_upd as usize)
}

/// A link and its copy (`Link::clone`, as the file and null targets make them) both subscribed to one gate: two
/// subscribers. Each gets every update published while it is connected, in order; one of them leaving (dropped,
/// disconnected, or connecting again) takes nothing away from the other. Oracle only, like the free-running cases.
fn copy_case(seed: u64) -> (String, String, bool) {
    let mut r = Rng::new(seed);
    let cap = r.range(2, 6) as usize;
    let (n1, n2) = (r.range(1, 8) as u32, r.range(1, 8) as u32);
    let how = r.below(5); // what happens between the two rounds
    let first_copy = r.chance(1, 2);
    let desc = format!("free copy n1={n1} n2={n2} how={how} first={}", first_copy as u8);
    let rt = runtime();
    let res: Result<Vec<String>, String> = rt.block_on(async {
        let mut fails = vec![];
        let (gate, mut agent) = Gate::new(cap);
        let gate = Arc::new(gate);
        let g2 = gate.clone();
        let root_task = tokio::spawn(async move { loop { if g2.process().await.is_err() { break; } } });
        let mut link = agent.create_link();
        let mut copy = link.clone();
        let (a, b) = if first_copy { (&mut copy, &mut link) } else { (&mut link, &mut copy) };
        if a.connect(false).await.is_err() || b.connect(false).await.is_err() { return Err("copy:connect-failed".to_string()); }
        // read n updates from a link, each within a second
        async fn read(l: &mut Link, n: u32, who: &str, from: u32, fails: &mut Vec<String>) {
            for i in 0..n {
                match tokio::time::timeout(Duration::from_secs(2), l.query()).await {
                    Ok(Ok(u)) => { let (_, seq) = rd_update(&u); if seq != from + i { fails.push(format!("copy:out-of-order {who} got seq {seq} want {}", from + i)); } }
                    Ok(Err(e)) => { fails.push(format!("copy:upstream-reported-gone {who} at update {} ({e:?}) while the gate is alive", from + i)); return; }
                    Err(_) => { fails.push(format!("copy:update-not-delivered {who} update {} of a connected link", from + i)); return; }
                }
            }
        }
        for seq in 1..=n1 {
            if tokio::time::timeout(Duration::from_secs(5), gate.update_data(mk_update(0, seq))).await.is_err() { return Err("copy:publisher-stalled".to_string()); }
            read(&mut link, 1, "link", seq, &mut fails).await;
            read(&mut copy, 1, "copy", seq, &mut fails).await;
        }
        // between the rounds
        let mut copy = Some(copy);
        match how {
            0 => { drop(copy.take()); }
            1 => { if let Some(c) = copy.as_mut() { c.disconnect().await; } copy = None; }
            2 => { if let Some(c) = copy.as_mut() { c.disconnect().await; if c.connect(false).await.is_err() { fails.push("copy:reconnect-failed".into()); } } }
            3 => { if let Some(c) = copy.as_mut() { c.suspend().await; } copy = None; }
            _ => {}
        }
        // a dropped link unsubscribes through a spawned task: let it happen
        for _ in 0..20 { tokio::task::yield_now().await; }
        tokio::time::sleep(Duration::from_millis(3)).await;
        for seq in n1 + 1..=n1 + n2 {
            if tokio::time::timeout(Duration::from_secs(5), gate.update_data(mk_update(0, seq))).await.is_err() { return Err("copy:publisher-stalled".to_string()); }
            read(&mut link, 1, "link", seq, &mut fails).await;
            if let Some(c) = copy.as_mut() { read(c, 1, "copy", seq, &mut fails).await; }
        }
        agent.terminate().await;
        let _ = tokio::time::timeout(Duration::from_secs(5), root_task).await;
        Ok(fails)
    });
    let mut fails = match res { Ok(f) => f, Err(e) => vec![e] };
    fails.dedup();
    let oracle = if fails.is_empty() { "ok".to_string() } else { format!("fail {} {}", fails[0].split_whitespace().next().unwrap(), fails.iter().take(4).cloned().collect::<Vec<_>>().join("; ")) };
    (format!("cap={cap}||{desc}|{seed}"), oracle, true)
}

const FREE_IMPL: &str = "ok U=- S=- L=- T=- RT=false Q=0:0";

// ---------------------------------------------------------------- generator

fn gen_script(r: &mut Rng, big: bool) -> Script {
    let cap = r.range(1, 3) as usize;
    let np = r.range(1, if big { 4 } else { 3 }) as usize;
    let nl = r.range(1, if big { 4 } else { 3 }) as usize;
    let mut pubs = vec![];
    for i in 0..np {
        let mut ops = vec![];
        if i > 0 { ops.push(POp::Clone); }
        let n = r.range(1, 4);
        for _ in 0..n {
            if i > 0 && r.chance(1, 2) { ops.push(POp::Process); }
            ops.push(POp::Update);
        }
        if i > 0 { if r.chance(1, 2) { ops.push(POp::Process); } if r.chance(1, 3) { ops.push(POp::Drop); } else if r.chance(1, 2) { ops.push(POp::Process); } }
        pubs.push(ops);
    }
    let mut links = vec![];
    let mut subs_left = 7usize;
    let mut terminate_used = false;
    for _ in 0..nl {
        let direct = r.chance(1, 2);
        let mut ops = vec![];
        let rounds = r.range(1, 2);
        for _ in 0..rounds {
            if subs_left == 0 { break; }
            subs_left -= 1;
            if r.chance(1, 8) { ops.push(LOp::Cancel { direct }); continue; }
            ops.push(LOp::Connect { direct, susp: r.chance(1, 8) });
            let n = r.range(0, 4);
            for _ in 0..n {
                match r.below(10) {
                    0..=4 => ops.push(LOp::Recv(r.range(1, 3) as u32)),
                    5 => ops.push(LOp::Suspend),
                    6 => ops.push(LOp::Unsuspend),
                    7 => ops.push(LOp::Close),
                    8 if !terminate_used && r.chance(1, 2) => { terminate_used = true; ops.push(LOp::Terminate) }
                    _ => ops.push(LOp::Recv(1)),
                }
            }
            if r.chance(1, 2) { ops.push(LOp::Disconnect); }
        }
        ops.push(LOp::Wait);
        links.push(ops);
    }
    let root_drop = terminate_used && r.chance(2, 3);
    if root_drop {
        for ops in pubs.iter_mut().skip(1) {
            if ops.last() != Some(&POp::Drop) && r.chance(1, 2) { ops.push(POp::AwaitRootDrop); ops.push(POp::Process); ops.push(POp::Process); }
        }
    }
    Script { cap, root_drop, pubs, links }
}

fn case_line(sc: &Script, res: &CaseResult) -> String {
    format!("cap={}|{}|{}|{}", sc.cap, res.trace.join(" "), sc.show(), join(res.choices.iter().map(|c| c.2), " "))
}

fn record(rec: &mut Recorder, sc: &Script, res: CaseResult, kind: &str) {
    rec.bump(&format!("cases.{kind}"));
    rec.bump_by("model-steps", res.trace.len() as u64);
    rec.bump_by("scheduler-decisions", res.steps as u64);
    for s in &res.stats { rec.bump(&format!("hit.{s}")); }
    for t in &res.trace { let k = t.split('.').next().unwrap(); let k2 = if k == "rp" || k == "cp" { t.rsplit('.').next().unwrap() } else { "" }; rec.bump(&format!("step.{k}{}{k2}", if k2.is_empty() { "" } else { "." })); }
    if res.oracle != "ok" { rec.bump("oracle.fail"); }
    let line = case_line(sc, &res);
    rec.case(line, res.imp, res.oracle, res.nontrivial);
}

/// Hand-written scenarios that run first (past witnesses / interesting races).
fn corpus() -> Vec<(Script, Vec<usize>)> {
    let s = |cap, t: &str| Script::parse(cap, t);
    vec![
        // one publisher, one queue link, subscribe lands between snapshot and delivery
        (s(1, "R:-/P:u u u/L:cq0 r3 w"), vec![]),
        // clone publisher + stale FollowSubscribe after a suspension (slot re-enters `updates`)
        (s(2, "R:-/P:u u/C:c u p u p/L:cq0 s r2 w/L:cd0 w"), vec![]),
        // terminate with an attached clone and a queue + a direct link, root dropped in the trace
        (s(2, "R:d/P:u/C:c p u p p p/L:cq0 r1 t w/L:cd0 w"), vec![]),
        // clone not yet registered when Terminate is handled: it only learns from the closed channel after the root drop
        (s(2, "R:d/P:u/C:c u z p p/L:cq0 t w"), vec![]),
        // cancelled connects
        (s(1, "R:-/P:u u/L:aq cq0 r2 w/L:ad w"), vec![]),
        // unsuspend path (gate side exists, Link never sends it)
        (s(3, "R:-/P:u u u u/C:c u u d/L:cq0 s n r4 w/L:cd0 s n x w"), vec![]),
    ]
}

fn main() {
    std::panic::set_hook(Box::new(|_| {}));
    let args = parse_args();
    let t0 = Instant::now();
    let mut rec = Recorder::new("a case = one script (root gate, 1-4 publishers = root gate + clones with update/process/drop ops, 1-4 queue/direct links with connect/cancel/recv/suspend/unsuspend/close/disconnect/terminate ops, channel capacity 1-3) executed on the real Gate with one OS thread per actor under a seeded one-at-a-time scheduler driven through the comms.rs event taps; non-trivial = at least 2 updates were received by links AND a subscription-map edit or command was processed while some update_data call was between its snapshot and its end; distinct = distinct case lines (= distinct real interleavings)");

    if let Some(path) = &args.replay {
        for line in verif_harness::replay_cases(path) {
            let parts: Vec<&str> = line.split('|').collect();
            if parts.len() < 4 { continue; }
            if parts[2].starts_with("free copy") {
                let (line, oracle, nt) = copy_case(parts[3].trim().parse().unwrap_or(0));
                rec.bump("cases.copy-replay");
                rec.case(line, FREE_IMPL.into(), oracle, nt);
                continue;
            }
            if parts[2].starts_with("free") {
                let seed: u64 = parts[3].trim().parse().unwrap_or(0);
                let big = parts[2].split("updates=").nth(1).and_then(|x| x.split(' ').next()).and_then(|x| x.parse::<u32>().ok()).map(|n| n > 40).unwrap_or(false);
                let (line, oracle, nt) = free_case(seed, big);
                rec.bump("cases.free-replay");
                rec.case(line, FREE_IMPL.into(), oracle, nt);
                continue;
            }
            let cap: usize = parts[0].trim_start_matches("cap=").parse().unwrap();
            let sc = Script::parse(cap, parts[2]);
            let forced: Vec<usize> = parts[3].split_whitespace().map(|x| x.parse().unwrap()).collect();
            let mut r = Rng::new(0);
            let res = run_case(&sc, Plan::Actors(&forced), &mut r);
            record(&mut rec, &sc, res, "replay");
        }
        rec.finish(&args, t0.elapsed().as_secs_f64());
        return;
    }

    let mut rng = Rng::new(args.seed);
    for (sc, forced) in corpus() {
        for _ in 0..(if args.thorough { 200 } else { 40 }) {
            let mut r = rng.fork();
            let res = run_case(&sc, if forced.is_empty() { Plan::Random } else { Plan::Actors(&forced) }, &mut r);
            record(&mut rec, &sc, res, "corpus");
        }
    }

    // random scripts x random schedules, several workers in parallel (results kept in order)
    let budget = Duration::from_secs(if std::env::var("C08_EXHAUSTIVE").is_ok() { 0 } else if args.thorough { 240 } else { 28 });
    let workers = 6usize;
    let batch = 60usize;
    while t0.elapsed() < budget {
        let seeds: Vec<Rng> = (0..workers * batch).map(|_| rng.fork()).collect();
        let mut results: Vec<Vec<(Script, CaseResult)>> = vec![];
        std::thread::scope(|s| {
            let hs: Vec<_> = seeds.chunks(batch).map(|chunk| {
                let chunk = chunk.to_vec();
                s.spawn(move || chunk.into_iter().map(|mut r| { let big = r.chance(1, 3); let sc = gen_script(&mut r, big); let res = run_case(&sc, Plan::Random, &mut r); (sc, res) }).collect::<Vec<_>>())
            }).collect();
            for h in hs { results.push(h.join().unwrap()); }
        });
        for v in results { for (sc, res) in v { record(&mut rec, &sc, res, "random"); } }
    }

    // free-running cases on the multi-thread runtime (oracle only)
    {
        let tf = Instant::now();
        let fb = Duration::from_secs(if args.thorough { 45 } else { 6 });
        while tf.elapsed() < fb {
            let seed = rng.next() >> 16;
            let (line, oracle, nt) = free_case(seed, args.thorough);
            rec.bump("cases.free-running");
            if oracle != "ok" { rec.bump("oracle.fail"); }
            rec.case(line, FREE_IMPL.into(), oracle, nt);
        }
    }

    // a link and its copy on one gate (oracle only)
    for _ in 0..(if args.thorough { 2000 } else { 200 }) {
        let (line, oracle, nt) = copy_case(rng.next() >> 16);
        rec.bump("cases.link-copy");
        if oracle != "ok" { rec.bump("oracle.fail"); }
        rec.case(line, FREE_IMPL.into(), oracle, nt);
    }

    // bounded-exhaustive: EVERY schedule with at most `bound` preemptions (switching away from an actor
    // that could continue) of small scripts, enumerated depth-first through the pause points
    let small: Vec<(Script, usize)> = if let Ok(sc) = std::env::var("C08_EXHAUSTIVE") {
        vec![(Script::parse(1, &sc), std::env::var("C08_BOUND").ok().and_then(|b| b.parse().ok()).unwrap_or(2))]
    } else if args.thorough {
        vec![(Script::parse(1, "R:-/P:u/L:cq0 w"), 3), (Script::parse(1, "R:-/P:u u/L:cq0 x w"), 2), (Script::parse(1, "R:-/P:u/C:c u p/L:cq0 s w"), 2),
             (Script::parse(2, "R:-/P:u u/L:cd0 x w"), 2), (Script::parse(1, "R:d/P:u/C:c p u z p/L:cq0 t w"), 1)]
    } else {
        vec![(Script::parse(1, "R:-/P:u u/L:cq0 x w"), 2), (Script::parse(1, "R:-/P:u/C:c u p/L:cd0 w"), 1)]
    };
    let ex_budget = Duration::from_secs(if args.thorough { 200 } else { 28 });
    let t1 = Instant::now();
    let per = ex_budget / small.len() as u32;
    for (sc, bound) in &small {
        let t2 = Instant::now();
        let mut prefix: Vec<usize> = vec![];
        let mut complete = false;
        let mut n = 0u64;
        loop {
            let mut r = Rng::new(0);
            let res = run_case(sc, Plan::Indices(&prefix, *bound), &mut r);
            let ch = res.choices.clone();
            record(&mut rec, sc, res, "exhaustive");
            n += 1;
            // next schedule in depth-first order
            let mut k = ch.len();
            let mut next = None;
            while k > 0 { k -= 1; if ch[k].0 + 1 < ch[k].1 { let mut p: Vec<usize> = ch[..k].iter().map(|c| c.0).collect(); p.push(ch[k].0 + 1); next = Some(p); break; } }
            match next { Some(p) => prefix = p, None => { complete = true; break; } }
            if t2.elapsed() > per { break; }
        }
        rec.bump_by(&format!("exhaustive.{}.preemptions<={bound}.schedules", sc.show().replace(' ', "_")), n);
        rec.bump(&format!("exhaustive.{}", if complete { "complete" } else { "cut-by-budget" }));
    }
    let _ = t1;
    rec.finish(&args, t0.elapsed().as_secs_f64());
}
