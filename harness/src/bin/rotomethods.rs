//! RotoMethods engine: the roto-callable methods of `create_runtime` that C10's grammar never calls,
//! run through REAL roto scripts compiled by the real runtime on generated UPDATEs at the three
//! filter points, versus the Lean model `Model/RotoMethods.lean`.
//!
//! Case lines (the exact input of the Lean driver `rmodel-rotomethods`):
//!   T|registry                        the method table registered by `create_runtime`
//!   M|bgp|<upd> ql=.. qa=..           all value methods of `BgpMsg` on one UPDATE
//!   M|bmp|k=.. pa=.. bad=.. <upd> ..  all value methods of `BmpMsg` on one BMP message
//!   M|rib|i=.. <upd> ..               all value methods of `Route` on route i of the exploded UPDATE
//!   L|<unit>|<ops>|<input>            a generated sequence of Log / LogEntry calls (one filter call)
//!   H|bmp|<ops>|<input>               the same through the real bmp-in RouterHandler (record at the gate)
//!   H|rib|<ops;ops;..>|<upd>          one script per route through the real RIB unit (one stream per Bulk)
//!
//! Every no-argument method is called from a filter of the unit's real type (`bgp-in(BgpMsg,
//! Provenance)`, `bmp-in(BmpMsg, Provenance)`, `rib-in-pre(Route)`); its value is observed through
//! `output.log_custom(..)` (u32) and `output.entry().custom(..); output.write_entry()` (strings).
//! Methods with an argument that no filter can construct (`contains_large_community`: no
//! `LargeCommunity` constructor / literal / constant is registered) are called from a roto
//! `function` with a typed parameter, compiled by the same runtime.
//!
//! Oracle (no Lean, no routecore parse): each quantity recomputed from the generator's structured
//! UPDATE; `fmt_*` outputs are parsed back. Signatures `rotomethods:<method>:<mechanism>`.
use std::net::{IpAddr, Ipv4Addr, Ipv6Addr};
use std::sync::Arc;
use std::time::Instant;

use bytes::Bytes;
use inetnum::asn::Asn;
use rotonda::bgp::encode::{
    mk_initiation_msg, mk_peer_down_notification_msg, mk_peer_up_notification_msg,
    mk_raw_route_monitoring_msg, mk_statistics_report_msg, mk_termination_msg, PerPeerHeader,
};
use rotonda::payload::{Payload, RotondaRoute, Update};
use rotonda::roto_runtime::types::{
    FreshRouteContext, LogEntry, Output, OutputStreamMessageRecord, PeerRibType, Provenance, RotoOutputStream,
};
use rotonda::roto_runtime::{create_runtime, Ctx};
use rotonda::verif::roto as vr;
use rotonda_store::prelude::multi::RouteStatus;
use routecore::bgp::communities::LargeCommunity;
use routecore::bgp::message::update::FourOctetAsns;
use routecore::bgp::message::{SessionConfig, UpdateMessage};
use routecore::bmp::message::{Message as BmpMsg, PeerType};
use verif_harness::{join, parse_args, rng::Rng, Recorder};

// ===================================================================== structured UPDATE

#[derive(Clone, Debug, PartialEq)]
struct Seg { kind: u8, asns: Vec<u32> } // wire codes: 1 AS_SET, 2 AS_SEQUENCE, 3 AS_CONFED_SEQUENCE, 4 AS_CONFED_SET
#[derive(Clone, Debug, PartialEq)]
struct Mp { fam: u8, nlri: Vec<u32> } // 0 v4 unicast, 1 v4 multicast, 2 v6 unicast, 3 v6 multicast
type Large = (u32, u32, u32);
#[derive(Clone, Debug, PartialEq)]
struct Upd {
    four: bool,
    aspath: Option<Vec<Seg>>,
    comms: Option<Vec<u32>>,
    lcomms: Option<Vec<Large>>,
    ecomms: usize,
    reach: Vec<u32>,
    unreach: Vec<u32>,
    mp_reach: Option<Mp>,
    mp_unreach: Option<Mp>,
}
impl Default for Upd {
    fn default() -> Self { Upd { four: true, aspath: None, comms: None, lcomms: None, ecomms: 0, reach: vec![], unreach: vec![], mp_reach: None, mp_unreach: None } }
}

fn dots<T: std::fmt::Display>(xs: impl IntoIterator<Item = T>) -> String { join(xs, ".") }
fn undots(s: &str) -> Vec<u32> { if s.is_empty() || s == "-" { vec![] } else { s.split('.').map(|x| x.parse().unwrap()).collect() } }
fn kvs(s: &str) -> std::collections::HashMap<&str, &str> { s.split_whitespace().filter_map(|t| t.split_once('=')).collect() }

impl Upd {
    fn tok(&self) -> String {
        let p = match &self.aspath { None => "~".to_string(), Some(v) if v.is_empty() => "e".into(), Some(v) => join(v.iter().map(|s| format!("{}:{}", s.kind, dots(s.asns.iter()))), ",") };
        let sc = match &self.comms { None => "~".to_string(), Some(v) if v.is_empty() => "e".into(), Some(v) => dots(v.iter()) };
        let lc = match &self.lcomms { None => "~".to_string(), Some(v) if v.is_empty() => "e".into(), Some(v) => join(v.iter().map(|c| format!("{}:{}:{}", c.0, c.1, c.2)), ",") };
        let ids = |v: &Vec<u32>| if v.is_empty() { "-".to_string() } else { dots(v.iter()) };
        let mp = |m: &Option<Mp>| match m { None => "~".to_string(), Some(m) => format!("{}:{}", m.fam, dots(m.nlri.iter())) };
        format!("w={} p={} sc={} lc={} ec={} n={} u={} mr={} mu={}", if self.four { 4 } else { 2 }, p, sc, lc, self.ecomms, ids(&self.reach), ids(&self.unreach), mp(&self.mp_reach), mp(&self.mp_unreach))
    }
    fn parse(kv: &std::collections::HashMap<&str, &str>) -> Upd {
        let aspath = match kv["p"] { "~" => None, "e" => Some(vec![]), s => Some(s.split(',').map(|x| { let (k, a) = x.split_once(':').unwrap(); Seg { kind: k.parse().unwrap(), asns: undots(a) } }).collect()) };
        let comms = match kv["sc"] { "~" => None, "e" => Some(vec![]), s => Some(undots(s)) };
        let lcomms = match kv["lc"] { "~" => None, "e" => Some(vec![]), s => Some(s.split(',').map(parse_large).collect()) };
        let mp = |s: &str| match s { "~" => None, s => { let (f, n) = s.split_once(':').unwrap(); Some(Mp { fam: f.parse().unwrap(), nlri: undots(n) }) } };
        Upd { four: kv["w"] == "4", aspath, comms, lcomms, ecomms: kv["ec"].parse().unwrap(), reach: undots(kv["n"]), unreach: undots(kv["u"]), mp_reach: mp(kv["mr"]), mp_unreach: mp(kv["mu"]) }
    }
    fn has_attrs(&self) -> bool { self.aspath.is_some() || self.comms.is_some() || self.lcomms.is_some() || self.ecomms > 0 || !self.reach.is_empty() || self.mp_reach.is_some() }

    /// the BGP UPDATE PDU, written by hand (RFC 4271 / 4760 / 1997 / 4360 / 8092 / 5065)
    fn encode(&self) -> Bytes {
        fn pfx4(buf: &mut Vec<u8>, id: u32) { buf.push(24); buf.extend_from_slice(&[10, (id / 256) as u8, (id % 256) as u8]); }
        fn pfx6(buf: &mut Vec<u8>, id: u32) { buf.push(48); buf.extend_from_slice(&[0x20, 0x01, 0x0d, 0xb8, (id / 256) as u8, (id % 256) as u8]); }
        fn attr(buf: &mut Vec<u8>, flags: u8, code: u8, val: &[u8]) {
            if val.len() > 255 { buf.push(flags | 0x10); buf.push(code); buf.extend_from_slice(&(val.len() as u16).to_be_bytes()); } else { buf.push(flags); buf.push(code); buf.push(val.len() as u8); }
            buf.extend_from_slice(val);
        }
        let mut wd = vec![]; for p in &self.unreach { pfx4(&mut wd, *p); }
        let mut at = vec![];
        if self.has_attrs() { attr(&mut at, 0x40, 1, &[0]); }
        if let Some(segs) = &self.aspath {
            let mut v = vec![];
            for s in segs {
                v.push(s.kind); v.push(s.asns.len() as u8);
                for a in &s.asns { if self.four { v.extend_from_slice(&a.to_be_bytes()) } else { v.extend_from_slice(&(*a as u16).to_be_bytes()) } }
            }
            attr(&mut at, 0x40, 2, &v);
        }
        if !self.reach.is_empty() { attr(&mut at, 0x40, 3, &[10, 0, 0, 1]); }
        if let Some(c) = &self.comms { let mut v = vec![]; for c in c { v.extend_from_slice(&c.to_be_bytes()); } attr(&mut at, 0xC0, 8, &v); }
        if let Some(m) = &self.mp_reach {
            let mut v = vec![];
            let (afi, safi) = fam_codes(m.fam);
            v.extend_from_slice(&afi.to_be_bytes()); v.push(safi);
            if afi == 1 { v.push(4); v.extend_from_slice(&[10, 0, 0, 2]); } else { v.push(16); v.extend_from_slice(&Ipv6Addr::new(0x2001, 0xdb8, 0, 0, 0, 0, 0, 2).octets()); }
            v.push(0);
            for p in &m.nlri { if afi == 1 { pfx4(&mut v, *p) } else { pfx6(&mut v, *p) } }
            attr(&mut at, 0x80, 14, &v);
        }
        if let Some(m) = &self.mp_unreach {
            let mut v = vec![];
            let (afi, safi) = fam_codes(m.fam);
            v.extend_from_slice(&afi.to_be_bytes()); v.push(safi);
            for p in &m.nlri { if afi == 1 { pfx4(&mut v, *p) } else { pfx6(&mut v, *p) } }
            attr(&mut at, 0x80, 15, &v);
        }
        if self.ecomms > 0 { let mut v = vec![]; for i in 0..self.ecomms { v.extend_from_slice(&[0x00, 0x02, 0xfd, 0xe8, 0, 0, 0, i as u8]); } attr(&mut at, 0xC0, 16, &v); }
        if let Some(c) = &self.lcomms { let mut v = vec![]; for c in c { v.extend_from_slice(&c.0.to_be_bytes()); v.extend_from_slice(&c.1.to_be_bytes()); v.extend_from_slice(&c.2.to_be_bytes()); } attr(&mut at, 0xC0, 32, &v); }
        let mut nl = vec![]; for p in &self.reach { pfx4(&mut nl, *p); }
        let mut b = vec![0xFFu8; 16];
        let total = 19 + 2 + wd.len() + 2 + at.len() + nl.len();
        b.extend_from_slice(&(total as u16).to_be_bytes()); b.push(2);
        b.extend_from_slice(&(wd.len() as u16).to_be_bytes()); b.extend_from_slice(&wd);
        b.extend_from_slice(&(at.len() as u16).to_be_bytes()); b.extend_from_slice(&at);
        b.extend_from_slice(&nl);
        Bytes::from(b)
    }
    fn config(&self) -> SessionConfig { let mut c = SessionConfig::modern(); if !self.four { c.set_four_octet_asns(FourOctetAsns(false)); } c }
    fn msg(&self) -> Option<UpdateMessage<Bytes>> { UpdateMessage::from_octets(self.encode(), &self.config()).ok() }
}
fn fam_codes(f: u8) -> (u16, u8) { match f { 0 => (1, 1), 1 => (1, 2), 2 => (2, 1), _ => (2, 2) } }
fn parse_large(s: &str) -> Large { let v: Vec<u32> = s.split(':').map(|x| x.parse().unwrap()).collect(); (v[0], v[1], v[2]) }

#[derive(Clone, Copy, Debug, PartialEq, Eq)]
enum Kind { Init, PeerUp, PeerDown, RouteMon, Stats, Term }
impl Kind {
    fn name(self) -> &'static str { match self { Kind::Init => "init", Kind::PeerUp => "pu", Kind::PeerDown => "pd", Kind::RouteMon => "rm", Kind::Stats => "st", Kind::Term => "tm" } }
    fn parse(s: &str) -> Kind { match s { "init" => Kind::Init, "pu" => Kind::PeerUp, "pd" => Kind::PeerDown, "rm" => Kind::RouteMon, "st" => Kind::Stats, _ => Kind::Term } }
}
/// `bad`: the PDU inside the RouteMonitoring is cut short (attribute length overruns), so `bgp_update()` fails
#[derive(Clone, Debug, PartialEq)]
struct BmpIn { kind: Kind, pph_asn: u32, bad: bool, upd: Upd }
impl BmpIn {
    fn tok(&self) -> String { format!("k={} pa={} bad={} {}", self.kind.name(), self.pph_asn, self.bad as u8, self.upd.tok()) }
    fn parse(kv: &std::collections::HashMap<&str, &str>) -> BmpIn { BmpIn { kind: Kind::parse(kv["k"]), pph_asn: kv["pa"].parse().unwrap(), bad: kv["bad"] == "1", upd: Upd::parse(kv) } }
    fn pph(&self) -> PerPeerHeader {
        PerPeerHeader { peer_type: PeerType::GlobalInstance.into(), peer_flags: if !self.upd.four { 0x20 } else { 0 }, peer_distinguisher: [0; 8], peer_address: "10.0.0.9".parse().unwrap(), peer_as: Asn::from_u32(self.pph_asn), peer_bgp_id: [1, 2, 3, 4] }
    }
    fn pdu(&self) -> Bytes {
        let b = self.upd.encode();
        if !self.bad { return b; }
        // claim 200 more attribute bytes than there are: the attributes overrun the PDU
        let mut v = b.to_vec();
        let wl = u16::from_be_bytes([v[19], v[20]]) as usize;
        let al = u16::from_be_bytes([v[21 + wl], v[22 + wl]]) + 200;
        v[21 + wl..23 + wl].copy_from_slice(&al.to_be_bytes());
        Bytes::from(v)
    }
    fn bytes(&self) -> Bytes {
        let pph = self.pph();
        match self.kind {
            Kind::Init => mk_initiation_msg("sysname", "sysdescr"),
            Kind::PeerUp => mk_peer_up_notification_msg(&pph, "10.0.0.2".parse().unwrap(), 11019, 4567, 111, 222, 0, 0, vec![], false),
            Kind::PeerDown => mk_peer_down_notification_msg(&pph),
            Kind::RouteMon => mk_raw_route_monitoring_msg(&pph, self.pdu()),
            Kind::Stats => mk_statistics_report_msg(&pph),
            Kind::Term => mk_termination_msg(),
        }
    }
    fn msg(&self) -> Option<BmpMsg<Bytes>> { BmpMsg::from_octets(self.bytes()).ok() }
    /// the UPDATE the methods are documented to work on
    fn view(&self) -> Option<&Upd> { if self.kind == Kind::RouteMon && !self.bad { Some(&self.upd) } else { None } }
}
fn prov(asn: u32) -> Provenance { Provenance::for_bmp(7, "10.0.0.9".parse().unwrap(), Asn::from_u32(asn), "10.0.0.5".parse().unwrap(), [0; 9], PeerRibType::InPre) }

// ===================================================================== probes (real roto scripts)

fn compile(src: &str) -> Result<roto::Compiled, String> {
    let src2 = src.to_string();
    match std::panic::catch_unwind(move || roto::test_file("gen.roto", &src2, 0).compile(create_runtime().unwrap(), usize::BITS / 8).map_err(|e| e.to_string())) {
        Ok(r) => r,
        Err(_) => Err("compiler-panic".into()),
    }
}

type BgpFunc = vr::bgp::BgpInFunc;
type BmpFunc = vr::bmp::BmpInFunc;
type RibFunc = vr::rib::RibInPreFunc;
type V<T> = roto::Val<T>;

fn probe_src(recv: &str, ty: &str, unit: &str, counts: bool, prov: bool) -> String {
    let m = "m";
    let mut s = String::new();
    if prov { s.push_str(&format!("filter {unit}({m}: {ty}, prov: Provenance) {{\n")); } else { s.push_str(&format!("filter {unit}({m}: {ty}) {{\n")); }
    if counts { s.push_str(&format!("  output.log_custom({m}.announcements_count(), {m}.withdrawals_count());\n")); }
    for meth in ["fmt_aspath", "fmt_aspath_origin", "fmt_communities", "fmt_large_communities"] {
        s.push_str(&format!("  output.entry().custom({m}.{meth}()); output.write_entry();\n"));
    }
    if counts { s.push_str(&format!("  output.entry().custom({m}.fmt_pcap()); output.write_entry();\n")); }
    if prov { s.push_str("  output.entry().custom(prov.peer_asn().fmt()); output.write_entry();\n"); }
    s.push_str("  accept\n}\n");
    // roto 0.4.0 can only hand out compiled functions that return a Verdict (`return_type_by_ref` is
    // `todo!()` for anything else), so the argument-taking probes are filters too
    s.push_str(&format!("filter clc({m}: {ty}, c: LargeCommunity) {{ if {m}.contains_large_community(c) {{ accept }} else {{ reject }} }}\n"));
    s.push_str(&format!("filter ac({m}: {ty}, a: Asn) {{ if {m}.aspath_contains(a) {{ accept }} else {{ reject }} }}\n"));
    s.push_str(&format!("filter mo({m}: {ty}, a: Asn) {{ if {m}.match_aspath_origin(a) {{ accept }} else {{ reject }} }}\n"));
    let _ = recv;
    s
}

struct Probes {
    bgp: BgpFunc, bgp_clc: roto::TypedFunc<Ctx, (V<UpdateMessage<Bytes>>, V<LargeCommunity>), roto::Verdict<(), ()>>,
    bgp_ac: roto::TypedFunc<Ctx, (V<UpdateMessage<Bytes>>, Asn), roto::Verdict<(), ()>>, bgp_mo: roto::TypedFunc<Ctx, (V<UpdateMessage<Bytes>>, Asn), roto::Verdict<(), ()>>,
    bmp: BmpFunc, bmp_clc: roto::TypedFunc<Ctx, (V<BmpMsg<Bytes>>, V<LargeCommunity>), roto::Verdict<(), ()>>,
    bmp_ac: roto::TypedFunc<Ctx, (V<BmpMsg<Bytes>>, Asn), roto::Verdict<(), ()>>, bmp_mo: roto::TypedFunc<Ctx, (V<BmpMsg<Bytes>>, Asn), roto::Verdict<(), ()>>,
    rib: RibFunc, rib_clc: roto::TypedFunc<Ctx, (V<RotondaRoute>, V<LargeCommunity>), roto::Verdict<(), ()>>,
    rib_ac: roto::TypedFunc<Ctx, (V<RotondaRoute>, Asn), roto::Verdict<(), ()>>, rib_mo: roto::TypedFunc<Ctx, (V<RotondaRoute>, Asn), roto::Verdict<(), ()>>,
    _keep: Vec<roto::Compiled>,
}
impl Probes {
    fn new() -> Probes {
        let mut cb = compile(&probe_src("msg", "BgpMsg", "bgp-in", true, true)).expect("bgp probe compiles");
        let mut cm = compile(&probe_src("msg", "BmpMsg", "bmp-in", true, true)).expect("bmp probe compiles");
        let mut cr = compile(&probe_src("route", "Route", "rib-in-pre", false, false)).expect("rib probe compiles");
        Probes {
            bgp: cb.get_function("bgp-in").unwrap(), bgp_clc: cb.get_function("clc").unwrap(), bgp_ac: cb.get_function("ac").unwrap(), bgp_mo: cb.get_function("mo").unwrap(),
            bmp: cm.get_function("bmp-in").unwrap(), bmp_clc: cm.get_function("clc").unwrap(), bmp_ac: cm.get_function("ac").unwrap(), bmp_mo: cm.get_function("mo").unwrap(),
            rib: cr.get_function("rib-in-pre").unwrap(), rib_clc: cr.get_function("clc").unwrap(), rib_ac: cr.get_function("ac").unwrap(), rib_mo: cr.get_function("mo").unwrap(),
            _keep: vec![cb, cm, cr],
        }
    }
}

/// what one probe call observed
#[derive(Clone, Debug, Default, PartialEq)]
struct Obs { ac: u32, wc: u32, ap: String, ao: String, sc: String, lc: String, cl: bool, ca: bool, mo: bool, pcap: Option<String>, pasn: Option<String>, accept: bool, shape_ok: bool }

fn enc(s: &str) -> String { if s.is_empty() { "-".into() } else { s.replace(' ', "+") } }
impl Obs {
    fn show(&self) -> String {
        format!("ac={} wc={} ap={} ao={} sc={} lc={} cl={} ca={} mo={}", self.ac, self.wc, enc(&self.ap), enc(&self.ao), enc(&self.sc), enc(&self.lc), self.cl as u8, self.ca as u8, self.mo as u8)
    }
}

/// drain the probe's stream: [Custom(ac, wc)]? then one Entry{custom} per string method, in script order
fn read_stream(os: &mut RotoOutputStream, counts: bool, prov: bool, o: &mut Obs) {
    let outs: Vec<Output> = os.drain().collect();
    let mut it = outs.into_iter();
    o.shape_ok = true;
    if counts { match it.next() { Some(Output::Custom((a, w))) => { o.ac = a; o.wc = w; } _ => o.shape_ok = false } }
    let mut strs = vec![];
    for x in it { match x { Output::Entry(e) => strs.push(e.custom.clone().unwrap_or_else(|| "<unset>".into())), _ => o.shape_ok = false } }
    let want = 4 + counts as usize + prov as usize;
    if strs.len() != want { o.shape_ok = false; return; }
    o.ap = strs[0].clone(); o.ao = strs[1].clone(); o.sc = strs[2].clone(); o.lc = strs[3].clone();
    if counts { o.pcap = Some(strs[4].clone()); }
    if prov { o.pasn = Some(strs[want - 1].clone()); }
}
fn lc_of(q: Large) -> LargeCommunity { let mut b = [0u8; 12]; b[0..4].copy_from_slice(&q.0.to_be_bytes()); b[4..8].copy_from_slice(&q.1.to_be_bytes()); b[8..12].copy_from_slice(&q.2.to_be_bytes()); LargeCommunity::from_raw(b) }

fn obs_bgp(p: &Probes, m: &UpdateMessage<Bytes>, pasn: u32, ql: Large, qa: u32) -> Obs {
    let mut o = Obs::default();
    let mut os = RotoOutputStream::new();
    let mut ctx = Ctx::new(&mut os);
    o.accept = matches!(p.bgp.call(&mut ctx, roto::Val(m.clone()), roto::Val(prov(pasn))), roto::Verdict::Accept(_));
    o.cl = matches!(p.bgp_clc.call(&mut ctx, roto::Val(m.clone()), roto::Val(lc_of(ql))), roto::Verdict::Accept(_));
    o.ca = matches!(p.bgp_ac.call(&mut ctx, roto::Val(m.clone()), Asn::from_u32(qa)), roto::Verdict::Accept(_));
    o.mo = matches!(p.bgp_mo.call(&mut ctx, roto::Val(m.clone()), Asn::from_u32(qa)), roto::Verdict::Accept(_));
    read_stream(&mut os, true, true, &mut o);
    o
}
fn obs_bmp(p: &Probes, m: &BmpMsg<Bytes>, pasn: u32, ql: Large, qa: u32) -> Obs {
    let mut o = Obs::default();
    let mut os = RotoOutputStream::new();
    let mut ctx = Ctx::new(&mut os);
    o.accept = matches!(p.bmp.call(&mut ctx, roto::Val(m.clone()), roto::Val(prov(pasn))), roto::Verdict::Accept(_));
    o.cl = matches!(p.bmp_clc.call(&mut ctx, roto::Val(m.clone()), roto::Val(lc_of(ql))), roto::Verdict::Accept(_));
    o.ca = matches!(p.bmp_ac.call(&mut ctx, roto::Val(m.clone()), Asn::from_u32(qa)), roto::Verdict::Accept(_));
    o.mo = matches!(p.bmp_mo.call(&mut ctx, roto::Val(m.clone()), Asn::from_u32(qa)), roto::Verdict::Accept(_));
    read_stream(&mut os, true, true, &mut o);
    o
}
fn obs_rib(p: &Probes, r: &RotondaRoute, ql: Large, qa: u32) -> Obs {
    let mut o = Obs::default();
    let mut os = RotoOutputStream::new();
    let mut ctx = Ctx::new(&mut os);
    o.accept = matches!(p.rib.call(&mut ctx, roto::Val(r.clone())), roto::Verdict::Accept(_));
    o.cl = matches!(p.rib_clc.call(&mut ctx, roto::Val(r.clone()), roto::Val(lc_of(ql))), roto::Verdict::Accept(_));
    o.ca = matches!(p.rib_ac.call(&mut ctx, roto::Val(r.clone()), Asn::from_u32(qa)), roto::Verdict::Accept(_));
    o.mo = matches!(p.rib_mo.call(&mut ctx, roto::Val(r.clone()), Asn::from_u32(qa)), roto::Verdict::Accept(_));
    read_stream(&mut os, false, false, &mut o);
    o
}

// ===================================================================== oracle (documented meaning, from the structured UPDATE)

const WELLKNOWN: [(u32, &str); 15] = [
    (0xFFFF0000, "GRACEFUL_SHUTDOWN"), (0xFFFF0001, "ACCEPT_OWN"), (0xFFFF0002, "ROUTE_FILTER_TRANSLATED_v4"), (0xFFFF0003, "ROUTE_FILTER_v4"),
    (0xFFFF0004, "ROUTE_FILTER_TRANSLATED_v6"), (0xFFFF0005, "ROUTE_FILTER_v6"), (0xFFFF0006, "LLGR_STALE"), (0xFFFF0007, "NO_LLGR"),
    (0xFFFF0008, "accept-own-nexthop"), (0xFFFF0009, "Standby PE"), (0xFFFFFF01, "NO_EXPORT"), (0xFFFFFF02, "NO_ADVERTISE"),
    (0xFFFFFF03, "NO_EXPORT_SUBCONFED"), (0xFFFFFF04, "NOPEER"), (0xFFFF029A, "BLACKHOLE"),
];

/// one hop of the documented AS_PATH reading: an ASN of a sequence, or a whole other segment
#[derive(Clone, Debug, PartialEq)]
enum SHop { Asn(u32), Seg(u8, Vec<u32>) }
fn spec_hops(p: &[Seg]) -> Vec<SHop> {
    let mut v = vec![];
    for s in p { if s.kind == 2 && !s.asns.is_empty() { for a in &s.asns { v.push(SHop::Asn(*a)); } } else { v.push(SHop::Seg(s.kind, s.asns.clone())); } }
    v
}
/// parse `fmt_aspath` output back into segments: bare numbers = one AS_SEQUENCE; otherwise `KIND(ASa, ASb), KIND(..)`
fn parse_aspath(s: &str) -> Option<Vec<Seg>> {
    if s.is_empty() { return Some(vec![]); }
    if s.chars().next().unwrap().is_ascii_digit() {
        let asns: Option<Vec<u32>> = s.split(' ').map(|x| x.parse().ok()).collect();
        return Some(vec![Seg { kind: 2, asns: asns? }]);
    }
    let mut out = vec![];
    let mut rest = s;
    loop {
        let open = rest.find('(')?;
        let kind = match &rest[..open] { "AS_SET" => 1, "AS_SEQUENCE" => 2, "AS_CONFED_SEQUENCE" => 3, "AS_CONFED_SET" => 4, _ => return None };
        let close = rest.find(')')?;
        let inner = &rest[open + 1..close];
        let asns: Option<Vec<u32>> = if inner.is_empty() { Some(vec![]) } else { inner.split(", ").map(|x| x.strip_prefix("AS").and_then(|n| n.parse().ok())).collect() };
        out.push(Seg { kind, asns: asns? });
        rest = &rest[close + 1..];
        if rest.is_empty() { return Some(out); }
        rest = rest.strip_prefix(", ")?;
    }
}
fn parse_comm(s: &str) -> Option<u32> {
    if let Some(w) = WELLKNOWN.iter().find(|w| w.1 == s) { return Some(w.0); }
    if let Some(h) = s.strip_prefix("0xFFFF") { if h.len() == 4 && h.chars().all(|c| c.is_ascii_digit() || ('A'..='F').contains(&c)) { return u32::from_str_radix(h, 16).ok().map(|l| 0xFFFF0000 | l); } return None; }
    let (a, t) = s.strip_prefix("AS")?.split_once(':')?;
    let a: u32 = a.parse().ok()?; let t: u32 = t.parse().ok()?;
    if a >= 65535 || t > 65535 { return None; }
    Some(a << 16 | t)
}
fn parse_comms(s: &str) -> Option<Vec<u32>> { if s.is_empty() { Some(vec![]) } else { s.split(", ").map(parse_comm).collect() } }
fn parse_larges(s: &str) -> Option<Vec<Large>> {
    if s.is_empty() { return Some(vec![]); }
    s.split(", ").map(|x| { let v: Vec<&str> = x.split(':').collect(); if v.len() != 3 { return None; } Some((v[0].parse().ok()?, v[1].parse().ok()?, v[2].parse().ok()?)) }).collect()
}

/// `exact`: bgp / bmp see the wire segments; a route sees the hops (adjacent sequences may be merged / re-split)
fn judge(site: &str, view: Option<&Upd>, counts: bool, exact: bool, o: &Obs, ql: Large, qa: u32, non_rm: bool) -> String {
    let neutral = |what: &str| if non_rm { format!("fail rotomethods:{what}:non-route-monitoring-not-neutral {site}") } else { format!("fail rotomethods:{what}:no-attributes-not-neutral {site}") };
    if !o.shape_ok { return format!("fail rotomethods:probe:output-stream-shape {site}"); }
    if !o.accept { return format!("fail rotomethods:probe:verdict {site}"); }
    let Some(u) = view else {
        if o.ac != 0 { return neutral("announcements_count"); }
        if o.wc != 0 { return neutral("withdrawals_count"); }
        if !o.ap.is_empty() { return neutral("fmt_aspath"); }
        if !o.ao.is_empty() { return neutral("fmt_aspath_origin"); }
        if !o.sc.is_empty() { return neutral("fmt_communities"); }
        if !o.lc.is_empty() { return neutral("fmt_large_communities"); }
        if o.cl { return neutral("contains_large_community"); }
        if o.ca { return neutral("aspath_contains"); }
        if o.mo { return neutral("match_aspath_origin"); }
        return "ok".into();
    };
    if counts {
        let a = u.reach.len() + u.mp_reach.as_ref().map(|m| m.nlri.len()).unwrap_or(0);
        if o.ac as usize != a { return format!("fail rotomethods:announcements_count:nlri-total {site} announced {a} got {}", o.ac); }
        let w = u.unreach.len() + u.mp_unreach.as_ref().map(|m| m.nlri.len()).unwrap_or(0);
        if o.wc as usize != w { return format!("fail rotomethods:withdrawals_count:nlri-total {site} withdrawn {w} got {}", o.wc); }
    }
    let path: Vec<Seg> = u.aspath.clone().unwrap_or_default();
    match parse_aspath(&o.ap) {
        None => return format!("fail rotomethods:fmt_aspath:unparseable {site} {}", enc(&o.ap)),
        Some(back) => {
            // an AS_PATH made of one empty AS_SEQUENCE prints as "" (indistinguishable from no path)
            let norm = |p: &[Seg]| -> Vec<Seg> { if p.len() == 1 && p[0].kind == 2 && p[0].asns.is_empty() { vec![] } else { p.to_vec() } };
            let same = if exact { norm(&back) == norm(&path) } else { spec_hops(&norm(&back)) == spec_hops(&norm(&path)) };
            if !same { return format!("fail rotomethods:fmt_aspath:parse-back {site} path {:?} printed {}", path, enc(&o.ap)).replace(' ', "_").replacen("_", " ", 2); }
        }
    }
    let hops = spec_hops(&path);
    let want_origin = match hops.last() { Some(SHop::Asn(a)) => format!("AS{a}"), _ => String::new() };
    if o.ao != want_origin { return format!("fail rotomethods:fmt_aspath_origin:last-asn {site} want {} got {}", enc(&want_origin), enc(&o.ao)); }
    match parse_comms(&o.sc) { Some(back) if back == u.comms.clone().unwrap_or_default() => {} _ => return format!("fail rotomethods:fmt_communities:parse-back {site} {}", enc(&o.sc)) }
    match parse_larges(&o.lc) { Some(back) if back == u.lcomms.clone().unwrap_or_default() => {} _ => return format!("fail rotomethods:fmt_large_communities:parse-back {site} {}", enc(&o.lc)) }
    if o.cl != u.lcomms.as_ref().map(|l| l.contains(&ql)).unwrap_or(false) { return format!("fail rotomethods:contains_large_community:membership {site}"); }
    if o.ca != hops.contains(&SHop::Asn(qa)) { return format!("fail rotomethods:aspath_contains:sequence-member {site}"); }
    if o.mo != (hops.last() == Some(&SHop::Asn(qa))) { return format!("fail rotomethods:match_aspath_origin:last-asn {site}"); }
    "ok".into()
}
fn pcap_of(b: &[u8]) -> String { let mut s = String::from("000000 "); for x in b { s.push_str(&format!("{:02x} ", x)); } s }

// ===================================================================== generator

const ASNS: [u32; 9] = [1, 2, 200, 12345, 23456, 64512, 65000, 65535, 65536];
const COMMS: [u32; 14] = [0xFFFFFF01, 0xFFFFFF02, 0xFFFFFF03, 0xFFFFFF04, 0xFFFF029A, 0xFFFF0000, 0xFFFF0008, 0xFFFF0009, 0xFFFF1234, 0xFFFF00AB, 0x0000000A, 0xfde80001, 77, 0xFFFE0001];
const LARGES: [Large; 5] = [(65000, 1, 2), (4200000000, 0, 4294967295), (1, 1, 1), (65000, 1, 3), (0, 0, 0)];

struct Gen { rng: Rng }
impl Gen {
    fn asn(&mut self, four: bool) -> u32 { loop { let a = if self.rng.chance(1, 6) { self.rng.below(if four { 4294967296 } else { 65536 }) as u32 } else { *self.rng.pick(&ASNS) }; if four || a < 65536 { return a; } } }
    fn seg(&mut self, four: bool) -> Seg {
        let kind = *self.rng.pick(&[2u8, 2, 2, 2, 1, 1, 3, 4]);
        let n = if self.rng.chance(1, 14) { 0 } else { self.rng.range(1, 4) };
        Seg { kind, asns: (0..n).map(|_| self.asn(four)).collect() }
    }
    fn upd(&mut self) -> Upd {
        let four = !self.rng.chance(1, 4);
        let aspath = match self.rng.below(24) {
            0 | 1 => None,
            2 => Some(vec![]),
            3 => { // a long path: 255 + k ASNs in two AS_SEQUENCE segments (a route recomposes them as k + 255)
                let k = self.rng.range(1, 60) as usize;
                let a = self.asn(four);
                Some(vec![Seg { kind: 2, asns: (0..255).map(|i| if i == 0 { a } else { 64512 + (i as u32 % 7) }).collect() }, Seg { kind: 2, asns: (0..k).map(|i| 100 + i as u32).collect() }])
            }
            4..=11 => { let n = self.rng.range(1, 5); Some(vec![Seg { kind: 2, asns: (0..n).map(|_| self.asn(four)).collect() }]) }
            _ => { let n = self.rng.range(1, 4); Some((0..n).map(|_| self.seg(four)).collect()) }
        };
        let comms = match self.rng.below(8) { 0..=2 => None, 3 => Some(vec![]), _ => Some((0..self.rng.range(1, 4)).map(|_| if self.rng.chance(1, 5) { self.rng.below(4294967296) as u32 } else { *self.rng.pick(&COMMS) }).collect()) };
        let lcomms = match self.rng.below(8) { 0..=3 => None, 4 => Some(vec![]), _ => Some((0..self.rng.range(1, 3)).map(|_| *self.rng.pick(&LARGES)).collect()) };
        let ecomms = if self.rng.chance(1, 4) { self.rng.range(1, 2) as usize } else { 0 };
        let mut next = 0u32;
        let mut ids = |g: &mut Gen, n: u64| -> Vec<u32> { (0..n).map(|_| { next += 1 + g.rng.below(3) as u32; next }).collect() };
        let nr = self.rng.below(5); let reach = ids(self, nr);
        let nu = self.rng.below(4); let unreach = ids(self, nu);
        let mp_reach = if self.rng.chance(1, 2) { None } else { let n = self.rng.range(1, 3); Some(Mp { fam: self.rng.below(4) as u8, nlri: ids(self, n) }) };
        let mp_unreach = if self.rng.chance(2, 3) { None } else { let n = self.rng.below(4); Some(Mp { fam: self.rng.below(4) as u8, nlri: ids(self, n) }) };
        if self.rng.chance(1, 25) { return Upd { four, ..Upd::default() }; } // End-of-RIB
        Upd { four, aspath, comms, lcomms, ecomms, reach, unreach, mp_reach, mp_unreach }
    }
    fn ql(&mut self, u: &Upd) -> Large { match &u.lcomms { Some(l) if !l.is_empty() && self.rng.chance(1, 2) => *self.rng.pick(l), _ => *self.rng.pick(&LARGES) } }
    fn qa(&mut self, u: &Upd) -> u32 {
        let all: Vec<u32> = u.aspath.iter().flatten().flat_map(|s| s.asns.clone()).collect();
        if !all.is_empty() && self.rng.chance(2, 3) { if self.rng.chance(1, 2) { *all.last().unwrap() } else { *self.rng.pick(&all) } } else { *self.rng.pick(&ASNS) }
    }
    fn kind(&mut self) -> Kind { *self.rng.pick(&[Kind::Init, Kind::PeerUp, Kind::PeerDown, Kind::RouteMon, Kind::RouteMon, Kind::RouteMon, Kind::RouteMon, Kind::RouteMon, Kind::Stats, Kind::Term]) }
}

// ===================================================================== cases

struct Eng { rec: Recorder, p: Probes }

impl Eng {
    fn shape(u: &Upd) -> bool { u.aspath.as_ref().map(|p| p.len() > 1 || p.iter().any(|s| s.kind != 2)).unwrap_or(false) || u.mp_reach.is_some() || u.mp_unreach.is_some() || u.comms.is_some() || u.lcomms.is_some() }

    fn m_bgp(&mut self, u: &Upd, ql: Large, qa: u32) {
        let Some(m) = u.msg() else { self.rec.bump("M.bgp.unparseable"); return };
        let o = obs_bgp(&self.p, &m, qa, ql, qa);
        let mut oracle = judge("bgp-in", Some(u), true, true, &o, ql, qa, false);
        if oracle == "ok" && o.pcap.as_deref() != Some(&pcap_of(&u.encode())) { oracle = "fail rotomethods:fmt_pcap:hexdump bgp-in".into(); }
        if oracle == "ok" && o.pasn.as_deref() != Some(&format!("AS{qa}")) { oracle = "fail rotomethods:asn_fmt:as-prefix bgp-in".into(); }
        self.rec.bump("M.bgp"); if !u.four { self.rec.bump("M.bgp.2-octet"); }
        self.bump_shape(u);
        self.rec.case(format!("M|bgp|{} ql={}:{}:{} qa={}", u.tok(), ql.0, ql.1, ql.2, qa), o.show(), oracle, Self::shape(u));
    }
    fn m_bmp(&mut self, i: &BmpIn, ql: Large, qa: u32) {
        let raw = i.bytes(); // the encoders stamp the per-peer header with the current time: build once
        let Ok(m) = BmpMsg::from_octets(raw.clone()) else { self.rec.bump("M.bmp.unparseable"); return };
        if i.kind == Kind::RouteMon && !i.bad && i.upd.msg().is_none() { self.rec.bump("M.bmp.unparseable-pdu"); return; }
        let o = obs_bmp(&self.p, &m, qa, ql, qa);
        let mut oracle = judge("bmp-in", i.view(), true, true, &o, ql, qa, i.kind != Kind::RouteMon);
        if oracle == "ok" && o.pcap.as_deref() != Some(&pcap_of(&raw)) { oracle = "fail rotomethods:fmt_pcap:hexdump bmp-in".into(); }
        if oracle == "ok" && o.pasn.as_deref() != Some(&format!("AS{qa}")) { oracle = "fail rotomethods:asn_fmt:as-prefix bmp-in".into(); }
        self.rec.bump(&format!("M.bmp.{}{}", i.kind.name(), if i.bad { ".bad-pdu" } else { "" })); if !i.upd.four && i.kind == Kind::RouteMon { self.rec.bump("M.bmp.2-octet"); }
        if i.view().is_some() { self.bump_shape(&i.upd); }
        self.rec.case(format!("M|bmp|{} ql={}:{}:{} qa={}", i.tok(), ql.0, ql.1, ql.2, qa), o.show(), oracle, i.view().map(Self::shape).unwrap_or(false));
    }
    fn m_rib(&mut self, u: &Upd, idx: usize, ql: Large, qa: u32) {
        let Some(m) = u.msg() else { self.rec.bump("M.rib.unparseable"); return };
        let Ok((a, w)) = vr::explode(&m) else { self.rec.bump("M.rib.explode-error"); return };
        let na = a.len();
        let n_ann = u.reach.len() + u.mp_reach.as_ref().map(|m| m.nlri.len()).unwrap_or(0);
        let all: Vec<RotondaRoute> = a.into_iter().chain(w).collect();
        let Some(r) = all.get(idx) else { return };
        let o = obs_rib(&self.p, r, ql, qa);
        let view = if idx < na { Some(u) } else { None };
        let mut oracle = judge("rib-in-pre", view, false, false, &o, ql, qa, false);
        if oracle == "ok" && na != n_ann { oracle = format!("fail rotomethods:explode:announcement-count want {n_ann} got {na}"); }
        self.rec.bump(if idx < na { "M.rib.announcement" } else { "M.rib.withdrawal" }); if !u.four { self.rec.bump("M.rib.2-octet"); }
        if view.is_some() { self.bump_shape(u); }
        self.rec.case(format!("M|rib|i={} {} ql={}:{}:{} qa={}", idx, u.tok(), ql.0, ql.1, ql.2, qa), o.show(), oracle, view.map(Self::shape).unwrap_or(false));
    }
    fn bump_shape(&mut self, u: &Upd) {
        match &u.aspath {
            None => self.rec.bump("path.absent"),
            Some(p) if p.is_empty() => self.rec.bump("path.empty"),
            Some(p) => {
                if p.len() == 1 && p[0].kind == 2 { self.rec.bump("path.single-sequence"); } else { self.rec.bump("path.multi-segment"); }
                for s in p { self.rec.bump(&format!("seg.kind{}{}", s.kind, if s.asns.is_empty() { ".empty" } else { "" })); }
                if p.iter().map(|s| s.asns.len()).sum::<usize>() > 255 { self.rec.bump("path.over-255-asns"); }
            }
        }
        if u.mp_reach.is_some() { self.rec.bump("nlri.mp-reach"); }
        if u.mp_unreach.is_some() { self.rec.bump("nlri.mp-unreach"); }
        if !u.has_attrs() && u.reach.is_empty() && u.unreach.is_empty() && u.mp_unreach.is_none() { self.rec.bump("upd.end-of-rib"); }
    }

    /// the table `create_runtime` registers, as (receiver, method) pairs in registration order
    fn registry(&mut self) {
        use std::any::TypeId;
        let rt = create_runtime().unwrap();
        let names: Vec<(TypeId, &str)> = vec![
            (TypeId::of::<Provenance>(), "Provenance"), (TypeId::of::<Asn>(), "Asn"), (TypeId::of::<RotondaRoute>(), "Route"),
            (TypeId::of::<UpdateMessage<Bytes>>(), "BgpMsg"), (TypeId::of::<BmpMsg<Bytes>>(), "BmpMsg"),
            (TypeId::of::<*mut RotoOutputStream>(), "Log"), (TypeId::of::<*mut LogEntry>(), "LogEntryPtr"),
        ];
        let mut rows = vec![];
        let mut undocumented = vec![];
        for f in &rt.functions {
            // `FunctionKind` is not re-exported by roto: compare through its Debug form
            let kind = format!("{:?}", f.kind);
            let recv = if kind == "Free" { Some("-") } else { names.iter().find(|n| kind == format!("Method({:?})", n.0)).map(|n| n.1) };
            let Some(recv) = recv else { continue }; // roto's own basic methods (IpAddr, String, Prefix)
            rows.push(format!("{recv}.{}/{}", f.name, f.argument_names.len()));
            if f.docstring.trim().is_empty() && recv != "-" { undocumented.push(format!("{recv}.{}", f.name)); }
        }
        let oracle = if undocumented.is_empty() { "ok".to_string() } else { format!("fail rotomethods:registry:undocumented-method {}", undocumented.join(",")) };
        self.rec.case("T|registry".into(), rows.join(" "), oracle, true);
    }
}

fn run_line(e: &mut Eng, line: &str) {
    let parts: Vec<&str> = line.split('|').collect();
    match (parts[0], parts.get(1).copied().unwrap_or("")) {
        ("T", _) => e.registry(),
        ("M", unit) => {
            let kv = kvs(parts[2]);
            let ql = parse_large(kv["ql"]); let qa: u32 = kv["qa"].parse().unwrap();
            match unit {
                "bgp" => e.m_bgp(&Upd::parse(&kv), ql, qa),
                "bmp" => e.m_bmp(&BmpIn::parse(&kv), ql, qa),
                _ => e.m_rib(&Upd::parse(&kv), kv["i"].parse().unwrap(), ql, qa),
            }
        }
        _ => {}
    }
}

fn main() {
    let args = parse_args();
    if std::env::var("ROTOMETHODS_DEBUG").is_err() { std::panic::set_hook(Box::new(|_| {})); }
    let t0 = Instant::now();
    let rec = Recorder::new("T: the method table registered by create_runtime; M: every value method of BgpMsg / BmpMsg / Route called from a real compiled roto filter (or roto function for methods with a LargeCommunity / Asn argument) on one generated UPDATE (all AS_PATH segment kinds incl. empty and >255-ASN paths, 2- and 4-octet sessions, standard / large / extended communities, conventional + MP NLRI of 4 families, End-of-RIB), BMP message kinds incl. a RouteMonitoring whose PDU does not parse; non-trivial = the UPDATE in view has a multi-segment or non-sequence AS_PATH, MP NLRI or communities; distinct = distinct case lines");
    let mut e = Eng { rec, p: Probes::new() };

    if let Some(path) = &args.replay {
        for line in verif_harness::replay_cases(path) { run_line(&mut e, &line); }
        e.rec.finish(&args, t0.elapsed().as_secs_f64());
        return;
    }

    e.registry();

    // ---- hand-written witnesses (theorem examples) first
    let seq = |a: &[u32]| Seg { kind: 2, asns: a.to_vec() };
    let w1 = Upd { aspath: Some(vec![seq(&[65000, 200])]), comms: Some(vec![0xFFFFFF01, 0xfde80001]), lcomms: Some(vec![(65000, 1, 2)]), reach: vec![1, 2], unreach: vec![3], mp_reach: Some(Mp { fam: 2, nlri: vec![4, 5, 6] }), ..Upd::default() };
    let w2 = Upd { aspath: Some(vec![seq(&[65000, 200]), Seg { kind: 1, asns: vec![1, 2] }]), reach: vec![1], ..Upd::default() };
    let w3 = Upd { aspath: Some(vec![seq(&[65000]), seq(&[200])]), reach: vec![1], ..Upd::default() };
    let w4 = Upd { aspath: Some(vec![Seg { kind: 3, asns: vec![64512] }, seq(&[200])]), four: false, reach: vec![1], ..Upd::default() };
    for w in [&w1, &w2, &w3, &w4] {
        e.m_bgp(w, (65000, 1, 2), 200);
        e.m_bmp(&BmpIn { kind: Kind::RouteMon, pph_asn: 65000, bad: false, upd: (*w).clone() }, (65000, 1, 2), 200);
        e.m_bmp(&BmpIn { kind: Kind::PeerDown, pph_asn: 65000, bad: false, upd: (*w).clone() }, (65000, 1, 2), 200);
        e.m_rib(w, 0, (65000, 1, 2), 200);
    }

    let mut g = Gen { rng: Rng::new(args.seed) };
    let n = if args.thorough { 40000 } else { 4000 };
    for k in 0..n {
        let u = g.upd();
        let ql = g.ql(&u); let qa = g.qa(&u);
        match k % 3 {
            0 => e.m_bgp(&u, ql, qa),
            1 => { let kind = g.kind(); let bad = kind == Kind::RouteMon && g.rng.chance(1, 12); let pa = g.asn(true); e.m_bmp(&BmpIn { kind, pph_asn: pa, bad, upd: u }, ql, qa) }
            _ => { let nr = u.reach.len() + u.unreach.len() + u.mp_reach.as_ref().map(|m| m.nlri.len()).unwrap_or(0) + u.mp_unreach.as_ref().map(|m| m.nlri.len()).unwrap_or(0); if nr > 0 { let idx = g.rng.below(nr as u64) as usize; e.m_rib(&u, idx, ql, qa) } }
        }
    }
    let _ = (Arc::new(0), IpAddr::V4(Ipv4Addr::LOCALHOST), FreshRouteContext::new, RouteStatus::Active, Payload::with_received, Update::Bulk, OutputStreamMessageRecord::Custom);
    e.rec.finish(&args, t0.elapsed().as_secs_f64());
}
