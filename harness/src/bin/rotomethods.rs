//! RotoMethods engine: the roto-callable methods of `create_runtime` that C10's grammar never calls,
//! run through REAL roto scripts compiled by the real runtime on generated UPDATEs at the three
//! filter points, versus the Lean model `Model/RotoMethods.lean`.
//!
//! Case lines (the exact input of the Lean driver `rmodel-rotomethods`):
//!   T|registry                        the method table registered by `create_runtime`
//!   M|bgp|<upd> ql=.. qa=..           all value methods of `BgpMsg` on one UPDATE
//!   M|bmp|k=.. pa=.. bad=.. <upd> ..  all value methods of `BmpMsg` on one BMP message
//!   M|rib|i=.. <upd> ..               all value methods of `Route` on route i of the exploded UPDATE
//!   L|<unit>|<ops>|<input>            a generated sequence of Log / LogEntry calls (one filter call)
//!   H|bmp|<ops>|<input>               the same through the real bmp-in RouterHandler (record at the gate)
//!   H|rib|<ops;ops;..>|<upd>          one script per route through the real RIB unit (one stream per Bulk)
//!
//! Every no-argument method is called from a filter of the unit's real type (`bgp-in(BgpMsg,
//! Provenance)`, `bmp-in(BmpMsg, Provenance)`, `rib-in-pre(Route)`); its value is observed through
//! `output.log_custom(..)` (u32) and `output.entry().custom(..); output.write_entry()` (strings).
//! Methods with an argument that no filter can construct (`contains_large_community`: no
//! `LargeCommunity` constructor / literal / constant is registered) are called from a roto
//! `function` with a typed parameter, compiled by the same runtime.
//!
//! Oracle (no Lean, no routecore parse): each quantity recomputed from the generator's structured
//! UPDATE; `fmt_*` outputs are parsed back. Signatures `rotomethods:<method>:<mechanism>`.
use std::net::{IpAddr, Ipv4Addr, Ipv6Addr};
use std::sync::Arc;
use std::time::Instant;

use bytes::Bytes;
use inetnum::asn::Asn;
use rotonda::bgp::encode::{
    mk_initiation_msg, mk_peer_down_notification_msg, mk_peer_up_notification_msg,
    mk_raw_route_monitoring_msg, mk_statistics_report_msg, mk_termination_msg, PerPeerHeader,
};
use rotonda::payload::{Payload, RotondaRoute, Update};
use rotonda::roto_runtime::types::{
    FreshRouteContext, LogEntry, Output, OutputStreamMessageRecord, PeerRibType, Provenance, RotoOutputStream,
};
use rotonda::roto_runtime::{create_runtime, Ctx};
use rotonda::verif::roto as vr;
use rotonda_store::prelude::multi::RouteStatus;
use routecore::bgp::communities::LargeCommunity;
use routecore::bgp::message::update::FourOctetAsns;
use routecore::bgp::message::{SessionConfig, UpdateMessage};
use routecore::bmp::message::{Message as BmpMsg, PeerType};
use verif_harness::{join, parse_args, rng::Rng, Recorder};

// ===================================================================== structured UPDATE

#[derive(Clone, Debug, PartialEq)]
struct Seg { kind: u8, asns: Vec<u32> } // wire codes: 1 AS_SET, 2 AS_SEQUENCE, 3 AS_CONFED_SEQUENCE, 4 AS_CONFED_SET
#[derive(Clone, Debug, PartialEq)]
struct Mp { fam: u8, nlri: Vec<u32> } // 0 v4 unicast, 1 v4 multicast, 2 v6 unicast, 3 v6 multicast
type Large = (u32, u32, u32);
#[derive(Clone, Debug, PartialEq)]
struct Upd {
    four: bool,
    aspath: Option<Vec<Seg>>,
    comms: Option<Vec<u32>>,
    lcomms: Option<Vec<Large>>,
    ecomms: usize,
    reach: Vec<u32>,
    unreach: Vec<u32>,
    mp_reach: Option<Mp>,
    mp_unreach: Option<Mp>,
}
impl Default for Upd {
    fn default() -> Self { Upd { four: true, aspath: None, comms: None, lcomms: None, ecomms: 0, reach: vec![], unreach: vec![], mp_reach: None, mp_unreach: None } }
}

fn dots<T: std::fmt::Display>(xs: impl IntoIterator<Item = T>) -> String { join(xs, ".") }
fn undots(s: &str) -> Vec<u32> { if s.is_empty() || s == "-" { vec![] } else { s.split('.').map(|x| x.parse().unwrap()).collect() } }
fn kvs(s: &str) -> std::collections::HashMap<&str, &str> { s.split_whitespace().filter_map(|t| t.split_once('=')).collect() }

impl Upd {
    fn tok(&self) -> String {
        let p = match &self.aspath { None => "~".to_string(), Some(v) if v.is_empty() => "e".into(), Some(v) => join(v.iter().map(|s| format!("{}:{}", s.kind, dots(s.asns.iter()))), ",") };
        let sc = match &self.comms { None => "~".to_string(), Some(v) if v.is_empty() => "e".into(), Some(v) => dots(v.iter()) };
        let lc = match &self.lcomms { None => "~".to_string(), Some(v) if v.is_empty() => "e".into(), Some(v) => join(v.iter().map(|c| format!("{}:{}:{}", c.0, c.1, c.2)), ",") };
        let ids = |v: &Vec<u32>| if v.is_empty() { "-".to_string() } else { dots(v.iter()) };
        let mp = |m: &Option<Mp>| match m { None => "~".to_string(), Some(m) => format!("{}:{}", m.fam, dots(m.nlri.iter())) };
        format!("w={} p={} sc={} lc={} ec={} n={} u={} mr={} mu={}", if self.four { 4 } else { 2 }, p, sc, lc, self.ecomms, ids(&self.reach), ids(&self.unreach), mp(&self.mp_reach), mp(&self.mp_unreach))
    }
    fn parse(kv: &std::collections::HashMap<&str, &str>) -> Upd {
        let aspath = match kv["p"] { "~" => None, "e" => Some(vec![]), s => Some(s.split(',').map(|x| { let (k, a) = x.split_once(':').unwrap(); Seg { kind: k.parse().unwrap(), asns: undots(a) } }).collect()) };
        let comms = match kv["sc"] { "~" => None, "e" => Some(vec![]), s => Some(undots(s)) };
        let lcomms = match kv["lc"] { "~" => None, "e" => Some(vec![]), s => Some(s.split(',').map(parse_large).collect()) };
        let mp = |s: &str| match s { "~" => None, s => { let (f, n) = s.split_once(':').unwrap(); Some(Mp { fam: f.parse().unwrap(), nlri: undots(n) }) } };
        Upd { four: kv["w"] == "4", aspath, comms, lcomms, ecomms: kv["ec"].parse().unwrap(), reach: undots(kv["n"]), unreach: undots(kv["u"]), mp_reach: mp(kv["mr"]), mp_unreach: mp(kv["mu"]) }
    }
    fn has_attrs(&self) -> bool { self.aspath.is_some() || self.comms.is_some() || self.lcomms.is_some() || self.ecomms > 0 || !self.reach.is_empty() || self.mp_reach.is_some() }

    /// the BGP UPDATE PDU, written by hand (RFC 4271 / 4760 / 1997 / 4360 / 8092 / 5065)
    fn encode(&self) -> Bytes {
        fn pfx4(buf: &mut Vec<u8>, id: u32) { buf.push(24); buf.extend_from_slice(&[10, (id / 256) as u8, (id % 256) as u8]); }
        fn pfx6(buf: &mut Vec<u8>, id: u32) { buf.push(48); buf.extend_from_slice(&[0x20, 0x01, 0x0d, 0xb8, (id / 256) as u8, (id % 256) as u8]); }
        fn attr(buf: &mut Vec<u8>, flags: u8, code: u8, val: &[u8]) {
            if val.len() > 255 { buf.push(flags | 0x10); buf.push(code); buf.extend_from_slice(&(val.len() as u16).to_be_bytes()); } else { buf.push(flags); buf.push(code); buf.push(val.len() as u8); }
            buf.extend_from_slice(val);
        }
        let mut wd = vec![]; for p in &self.unreach { pfx4(&mut wd, *p); }
        let mut at = vec![];
        if self.has_attrs() { attr(&mut at, 0x40, 1, &[0]); }
        if let Some(segs) = &self.aspath {
            let mut v = vec![];
            for s in segs {
                v.push(s.kind); v.push(s.asns.len() as u8);
                for a in &s.asns { if self.four { v.extend_from_slice(&a.to_be_bytes()) } else { v.extend_from_slice(&(*a as u16).to_be_bytes()) } }
            }
            attr(&mut at, 0x40, 2, &v);
        }
        if !self.reach.is_empty() { attr(&mut at, 0x40, 3, &[10, 0, 0, 1]); }
        if let Some(c) = &self.comms { let mut v = vec![]; for c in c { v.extend_from_slice(&c.to_be_bytes()); } attr(&mut at, 0xC0, 8, &v); }
        if let Some(m) = &self.mp_reach {
            let mut v = vec![];
            let (afi, safi) = fam_codes(m.fam);
            v.extend_from_slice(&afi.to_be_bytes()); v.push(safi);
            if afi == 1 { v.push(4); v.extend_from_slice(&[10, 0, 0, 2]); } else { v.push(16); v.extend_from_slice(&Ipv6Addr::new(0x2001, 0xdb8, 0, 0, 0, 0, 0, 2).octets()); }
            v.push(0);
            for p in &m.nlri { if afi == 1 { pfx4(&mut v, *p) } else { pfx6(&mut v, *p) } }
            attr(&mut at, 0x80, 14, &v);
        }
        if let Some(m) = &self.mp_unreach {
            let mut v = vec![];
            let (afi, safi) = fam_codes(m.fam);
            v.extend_from_slice(&afi.to_be_bytes()); v.push(safi);
            for p in &m.nlri { if afi == 1 { pfx4(&mut v, *p) } else { pfx6(&mut v, *p) } }
            attr(&mut at, 0x80, 15, &v);
        }
        if self.ecomms > 0 { let mut v = vec![]; for i in 0..self.ecomms { v.extend_from_slice(&[0x00, 0x02, 0xfd, 0xe8, 0, 0, 0, i as u8]); } attr(&mut at, 0xC0, 16, &v); }
        if let Some(c) = &self.lcomms { let mut v = vec![]; for c in c { v.extend_from_slice(&c.0.to_be_bytes()); v.extend_from_slice(&c.1.to_be_bytes()); v.extend_from_slice(&c.2.to_be_bytes()); } attr(&mut at, 0xC0, 32, &v); }
        let mut nl = vec![]; for p in &self.reach { pfx4(&mut nl, *p); }
        let mut b = vec![0xFFu8; 16];
        let total = 19 + 2 + wd.len() + 2 + at.len() + nl.len();
        b.extend_from_slice(&(total as u16).to_be_bytes()); b.push(2);
        b.extend_from_slice(&(wd.len() as u16).to_be_bytes()); b.extend_from_slice(&wd);
        b.extend_from_slice(&(at.len() as u16).to_be_bytes()); b.extend_from_slice(&at);
        b.extend_from_slice(&nl);
        Bytes::from(b)
    }
    fn config(&self) -> SessionConfig { let mut c = SessionConfig::modern(); if !self.four { c.set_four_octet_asns(FourOctetAsns(false)); } c }
    fn msg(&self) -> Option<UpdateMessage<Bytes>> { UpdateMessage::from_octets(self.encode(), &self.config()).ok() }
}
fn fam_codes(f: u8) -> (u16, u8) { match f { 0 => (1, 1), 1 => (1, 2), 2 => (2, 1), _ => (2, 2) } }
fn parse_large(s: &str) -> Large { let v: Vec<u32> = s.split(':').map(|x| x.parse().unwrap()).collect(); (v[0], v[1], v[2]) }

#[derive(Clone, Copy, Debug, PartialEq, Eq)]
enum Kind { Init, PeerUp, PeerDown, RouteMon, Stats, Term }
impl Kind {
    fn name(self) -> &'static str { match self { Kind::Init => "init", Kind::PeerUp => "pu", Kind::PeerDown => "pd", Kind::RouteMon => "rm", Kind::Stats => "st", Kind::Term => "tm" } }
    fn parse(s: &str) -> Kind { match s { "init" => Kind::Init, "pu" => Kind::PeerUp, "pd" => Kind::PeerDown, "rm" => Kind::RouteMon, "st" => Kind::Stats, _ => Kind::Term } }
}
/// `bad`: the PDU inside the RouteMonitoring is cut short (attribute length overruns), so `bgp_update()` fails
#[derive(Clone, Debug, PartialEq)]
struct BmpIn { kind: Kind, pph_asn: u32, bad: bool, upd: Upd }
impl BmpIn {
    fn tok(&self) -> String { format!("k={} pa={} bad={} {}", self.kind.name(), self.pph_asn, self.bad as u8, self.upd.tok()) }
    fn parse(kv: &std::collections::HashMap<&str, &str>) -> BmpIn { BmpIn { kind: Kind::parse(kv["k"]), pph_asn: kv["pa"].parse().unwrap(), bad: kv["bad"] == "1", upd: Upd::parse(kv) } }
    fn pph(&self) -> PerPeerHeader {
        PerPeerHeader { peer_type: PeerType::GlobalInstance.into(), peer_flags: if !self.upd.four { 0x20 } else { 0 }, peer_distinguisher: [0; 8], peer_address: "10.0.0.9".parse().unwrap(), peer_as: Asn::from_u32(self.pph_asn), peer_bgp_id: [1, 2, 3, 4] }
    }
    fn pdu(&self) -> Bytes {
        let b = self.upd.encode();
        if !self.bad { return b; }
        // claim 200 more attribute bytes than there are: the attributes overrun the PDU
        let mut v = b.to_vec();
        let wl = u16::from_be_bytes([v[19], v[20]]) as usize;
        let al = u16::from_be_bytes([v[21 + wl], v[22 + wl]]) + 200;
        v[21 + wl..23 + wl].copy_from_slice(&al.to_be_bytes());
        Bytes::from(v)
    }
    fn bytes(&self) -> Bytes {
        let pph = self.pph();
        match self.kind {
            Kind::Init => mk_initiation_msg("sysname", "sysdescr"),
            Kind::PeerUp => mk_peer_up_notification_msg(&pph, "10.0.0.2".parse().unwrap(), 11019, 4567, 111, 222, 0, 0, vec![], false),
            Kind::PeerDown => mk_peer_down_notification_msg(&pph),
            Kind::RouteMon => mk_raw_route_monitoring_msg(&pph, self.pdu()),
            Kind::Stats => mk_statistics_report_msg(&pph),
            Kind::Term => mk_termination_msg(),
        }
    }
    fn msg(&self) -> Option<BmpMsg<Bytes>> { BmpMsg::from_octets(self.bytes()).ok() }
    /// the UPDATE the methods are documented to work on
    fn view(&self) -> Option<&Upd> { if self.kind == Kind::RouteMon && !self.bad { Some(&self.upd) } else { None } }
}
fn prov(asn: u32) -> Provenance { Provenance::for_bmp(7, "10.0.0.9".parse().unwrap(), Asn::from_u32(asn), "10.0.0.5".parse().unwrap(), [0; 9], PeerRibType::InPre) }

// ===================================================================== probes (real roto scripts)

fn compile(src: &str) -> Result<roto::Compiled, String> {
    let src2 = src.to_string();
    match std::panic::catch_unwind(move || roto::test_file("gen.roto", &src2, 0).compile(create_runtime().unwrap(), usize::BITS / 8).map_err(|e| e.to_string())) {
        Ok(r) => r,
        Err(_) => Err("compiler-panic".into()),
    }
}

type BgpFunc = vr::bgp::BgpInFunc;
type BmpFunc = vr::bmp::BmpInFunc;
type RibFunc = vr::rib::RibInPreFunc;
type V<T> = roto::Val<T>;

fn probe_src(recv: &str, ty: &str, unit: &str, counts: bool, prov: bool) -> String {
    let m = "m";
    let mut s = String::new();
    if prov { s.push_str(&format!("filter {unit}({m}: {ty}, prov: Provenance) {{\n")); } else { s.push_str(&format!("filter {unit}({m}: {ty}) {{\n")); }
    if counts { s.push_str(&format!("  output.log_custom({m}.announcements_count(), {m}.withdrawals_count());\n")); }
    for meth in ["fmt_aspath", "fmt_aspath_origin", "fmt_communities", "fmt_large_communities"] {
        s.push_str(&format!("  output.entry().custom({m}.{meth}()); output.write_entry();\n"));
    }
    if counts { s.push_str(&format!("  output.entry().custom({m}.fmt_pcap()); output.write_entry();\n")); }
    if prov { s.push_str("  output.entry().custom(prov.peer_asn().fmt()); output.write_entry();\n"); }
    s.push_str("  accept\n}\n");
    // roto 0.4.0 can only hand out compiled functions that return a Verdict (`return_type_by_ref` is
    // `todo!()` for anything else), so the argument-taking probes are filters too
    s.push_str(&format!("filter clc({m}: {ty}, c: LargeCommunity) {{ if {m}.contains_large_community(c) {{ accept }} else {{ reject }} }}\n"));
    s.push_str(&format!("filter ac({m}: {ty}, a: Asn) {{ if {m}.aspath_contains(a) {{ accept }} else {{ reject }} }}\n"));
    s.push_str(&format!("filter mo({m}: {ty}, a: Asn) {{ if {m}.match_aspath_origin(a) {{ accept }} else {{ reject }} }}\n"));
    let _ = recv;
    s
}

struct Probes {
    bgp: BgpFunc, bgp_clc: roto::TypedFunc<Ctx, (V<UpdateMessage<Bytes>>, V<LargeCommunity>), roto::Verdict<(), ()>>,
    bgp_ac: roto::TypedFunc<Ctx, (V<UpdateMessage<Bytes>>, Asn), roto::Verdict<(), ()>>, bgp_mo: roto::TypedFunc<Ctx, (V<UpdateMessage<Bytes>>, Asn), roto::Verdict<(), ()>>,
    bmp: BmpFunc, bmp_clc: roto::TypedFunc<Ctx, (V<BmpMsg<Bytes>>, V<LargeCommunity>), roto::Verdict<(), ()>>,
    bmp_ac: roto::TypedFunc<Ctx, (V<BmpMsg<Bytes>>, Asn), roto::Verdict<(), ()>>, bmp_mo: roto::TypedFunc<Ctx, (V<BmpMsg<Bytes>>, Asn), roto::Verdict<(), ()>>,
    rib: RibFunc, rib_clc: roto::TypedFunc<Ctx, (V<RotondaRoute>, V<LargeCommunity>), roto::Verdict<(), ()>>,
    rib_ac: roto::TypedFunc<Ctx, (V<RotondaRoute>, Asn), roto::Verdict<(), ()>>, rib_mo: roto::TypedFunc<Ctx, (V<RotondaRoute>, Asn), roto::Verdict<(), ()>>,
    _keep: Vec<roto::Compiled>,
}
impl Probes {
    fn new() -> Probes {
        let mut cb = compile(&probe_src("msg", "BgpMsg", "bgp-in", true, true)).expect("bgp probe compiles");
        let mut cm = compile(&probe_src("msg", "BmpMsg", "bmp-in", true, true)).expect("bmp probe compiles");
        let mut cr = compile(&probe_src("route", "Route", "rib-in-pre", false, false)).expect("rib probe compiles");
        Probes {
            bgp: cb.get_function("bgp-in").unwrap(), bgp_clc: cb.get_function("clc").unwrap(), bgp_ac: cb.get_function("ac").unwrap(), bgp_mo: cb.get_function("mo").unwrap(),
            bmp: cm.get_function("bmp-in").unwrap(), bmp_clc: cm.get_function("clc").unwrap(), bmp_ac: cm.get_function("ac").unwrap(), bmp_mo: cm.get_function("mo").unwrap(),
            rib: cr.get_function("rib-in-pre").unwrap(), rib_clc: cr.get_function("clc").unwrap(), rib_ac: cr.get_function("ac").unwrap(), rib_mo: cr.get_function("mo").unwrap(),
            _keep: vec![cb, cm, cr],
        }
    }
}

/// what one probe call observed
#[derive(Clone, Debug, Default, PartialEq)]
struct Obs { ac: u32, wc: u32, ap: String, ao: String, sc: String, lc: String, cl: bool, ca: bool, mo: bool, pcap: Option<String>, pasn: Option<String>, accept: bool, shape_ok: bool }

fn enc(s: &str) -> String { if s.is_empty() { "-".into() } else { s.replace(' ', "+") } }
impl Obs {
    fn show(&self) -> String {
        format!("ac={} wc={} ap={} ao={} sc={} lc={} cl={} ca={} mo={}", self.ac, self.wc, enc(&self.ap), enc(&self.ao), enc(&self.sc), enc(&self.lc), self.cl as u8, self.ca as u8, self.mo as u8)
    }
}

/// drain the probe's stream: [Custom(ac, wc)]? then one Entry{custom} per string method, in script order
fn read_stream(os: &mut RotoOutputStream, counts: bool, prov: bool, o: &mut Obs) {
    let outs: Vec<Output> = os.drain().collect();
    let mut it = outs.into_iter();
    o.shape_ok = true;
    if counts { match it.next() { Some(Output::Custom((a, w))) => { o.ac = a; o.wc = w; } _ => o.shape_ok = false } }
    let mut strs = vec![];
    for x in it { match x { Output::Entry(e) => strs.push(e.custom.clone().unwrap_or_else(|| "<unset>".into())), _ => o.shape_ok = false } }
    let want = 4 + counts as usize + prov as usize;
    if strs.len() != want { o.shape_ok = false; return; }
    o.ap = strs[0].clone(); o.ao = strs[1].clone(); o.sc = strs[2].clone(); o.lc = strs[3].clone();
    if counts { o.pcap = Some(strs[4].clone()); }
    if prov { o.pasn = Some(strs[want - 1].clone()); }
}
fn lc_of(q: Large) -> LargeCommunity { let mut b = [0u8; 12]; b[0..4].copy_from_slice(&q.0.to_be_bytes()); b[4..8].copy_from_slice(&q.1.to_be_bytes()); b[8..12].copy_from_slice(&q.2.to_be_bytes()); LargeCommunity::from_raw(b) }

fn obs_bgp(p: &Probes, m: &UpdateMessage<Bytes>, pasn: u32, ql: Large, qa: u32) -> Obs {
    let mut o = Obs::default();
    let mut os = RotoOutputStream::new();
    let mut ctx = Ctx::new(&mut os);
    o.accept = matches!(p.bgp.call(&mut ctx, roto::Val(m.clone()), roto::Val(prov(pasn))), roto::Verdict::Accept(_));
    o.cl = matches!(p.bgp_clc.call(&mut ctx, roto::Val(m.clone()), roto::Val(lc_of(ql))), roto::Verdict::Accept(_));
    o.ca = matches!(p.bgp_ac.call(&mut ctx, roto::Val(m.clone()), Asn::from_u32(qa)), roto::Verdict::Accept(_));
    o.mo = matches!(p.bgp_mo.call(&mut ctx, roto::Val(m.clone()), Asn::from_u32(qa)), roto::Verdict::Accept(_));
    read_stream(&mut os, true, true, &mut o);
    o
}
fn obs_bmp(p: &Probes, m: &BmpMsg<Bytes>, pasn: u32, ql: Large, qa: u32) -> Obs {
    let mut o = Obs::default();
    let mut os = RotoOutputStream::new();
    let mut ctx = Ctx::new(&mut os);
    o.accept = matches!(p.bmp.call(&mut ctx, roto::Val(m.clone()), roto::Val(prov(pasn))), roto::Verdict::Accept(_));
    o.cl = matches!(p.bmp_clc.call(&mut ctx, roto::Val(m.clone()), roto::Val(lc_of(ql))), roto::Verdict::Accept(_));
    o.ca = matches!(p.bmp_ac.call(&mut ctx, roto::Val(m.clone()), Asn::from_u32(qa)), roto::Verdict::Accept(_));
    o.mo = matches!(p.bmp_mo.call(&mut ctx, roto::Val(m.clone()), Asn::from_u32(qa)), roto::Verdict::Accept(_));
    read_stream(&mut os, true, true, &mut o);
    o
}
fn obs_rib(p: &Probes, r: &RotondaRoute, ql: Large, qa: u32) -> Obs {
    let mut o = Obs::default();
    let mut os = RotoOutputStream::new();
    let mut ctx = Ctx::new(&mut os);
    o.accept = matches!(p.rib.call(&mut ctx, roto::Val(r.clone())), roto::Verdict::Accept(_));
    o.cl = matches!(p.rib_clc.call(&mut ctx, roto::Val(r.clone()), roto::Val(lc_of(ql))), roto::Verdict::Accept(_));
    o.ca = matches!(p.rib_ac.call(&mut ctx, roto::Val(r.clone()), Asn::from_u32(qa)), roto::Verdict::Accept(_));
    o.mo = matches!(p.rib_mo.call(&mut ctx, roto::Val(r.clone()), Asn::from_u32(qa)), roto::Verdict::Accept(_));
    read_stream(&mut os, false, false, &mut o);
    o
}

// ===================================================================== oracle (documented meaning, from the structured UPDATE)

const WELLKNOWN: [(u32, &str); 15] = [
    (0xFFFF0000, "GRACEFUL_SHUTDOWN"), (0xFFFF0001, "ACCEPT_OWN"), (0xFFFF0002, "ROUTE_FILTER_TRANSLATED_v4"), (0xFFFF0003, "ROUTE_FILTER_v4"),
    (0xFFFF0004, "ROUTE_FILTER_TRANSLATED_v6"), (0xFFFF0005, "ROUTE_FILTER_v6"), (0xFFFF0006, "LLGR_STALE"), (0xFFFF0007, "NO_LLGR"),
    (0xFFFF0008, "accept-own-nexthop"), (0xFFFF0009, "Standby PE"), (0xFFFFFF01, "NO_EXPORT"), (0xFFFFFF02, "NO_ADVERTISE"),
    (0xFFFFFF03, "NO_EXPORT_SUBCONFED"), (0xFFFFFF04, "NOPEER"), (0xFFFF029A, "BLACKHOLE"),
];

/// one hop of the documented AS_PATH reading: an ASN of a sequence, or a whole other segment
#[derive(Clone, Debug, PartialEq)]
enum SHop { Asn(u32), Seg(u8, Vec<u32>) }
fn spec_hops(p: &[Seg]) -> Vec<SHop> {
    let mut v = vec![];
    for s in p { if s.kind == 2 && !s.asns.is_empty() { for a in &s.asns { v.push(SHop::Asn(*a)); } } else { v.push(SHop::Seg(s.kind, s.asns.clone())); } }
    v
}
/// parse `fmt_aspath` output back into segments: bare numbers = one AS_SEQUENCE; otherwise `KIND(ASa, ASb), KIND(..)`
fn parse_aspath(s: &str) -> Option<Vec<Seg>> {
    if s.is_empty() { return Some(vec![]); }
    if s.chars().next().unwrap().is_ascii_digit() {
        let asns: Option<Vec<u32>> = s.split(' ').map(|x| x.parse().ok()).collect();
        return Some(vec![Seg { kind: 2, asns: asns? }]);
    }
    let mut out = vec![];
    let mut rest = s;
    loop {
        let open = rest.find('(')?;
        let kind = match &rest[..open] { "AS_SET" => 1, "AS_SEQUENCE" => 2, "AS_CONFED_SEQUENCE" => 3, "AS_CONFED_SET" => 4, _ => return None };
        let close = rest.find(')')?;
        let inner = &rest[open + 1..close];
        let asns: Option<Vec<u32>> = if inner.is_empty() { Some(vec![]) } else { inner.split(", ").map(|x| x.strip_prefix("AS").and_then(|n| n.parse().ok())).collect() };
        out.push(Seg { kind, asns: asns? });
        rest = &rest[close + 1..];
        if rest.is_empty() { return Some(out); }
        rest = rest.strip_prefix(", ")?;
    }
}
fn parse_comm(s: &str) -> Option<u32> {
    if let Some(w) = WELLKNOWN.iter().find(|w| w.1 == s) { return Some(w.0); }
    if let Some(h) = s.strip_prefix("0xFFFF") { if h.len() == 4 && h.chars().all(|c| c.is_ascii_digit() || ('A'..='F').contains(&c)) { return u32::from_str_radix(h, 16).ok().map(|l| 0xFFFF0000 | l); } return None; }
    let (a, t) = s.strip_prefix("AS")?.split_once(':')?;
    let a: u32 = a.parse().ok()?; let t: u32 = t.parse().ok()?;
    if a >= 65535 || t > 65535 { return None; }
    Some(a << 16 | t)
}
fn parse_comms(s: &str) -> Option<Vec<u32>> { if s.is_empty() { Some(vec![]) } else { s.split(", ").map(parse_comm).collect() } }
fn parse_larges(s: &str) -> Option<Vec<Large>> {
    if s.is_empty() { return Some(vec![]); }
    s.split(", ").map(|x| { let v: Vec<&str> = x.split(':').collect(); if v.len() != 3 { return None; } Some((v[0].parse().ok()?, v[1].parse().ok()?, v[2].parse().ok()?)) }).collect()
}

/// `exact`: bgp / bmp see the wire segments; a route sees the hops (adjacent sequences may be merged / re-split)
fn judge(site: &str, view: Option<&Upd>, counts: bool, exact: bool, o: &Obs, ql: Large, qa: u32, non_rm: bool) -> String {
    let neutral = |what: &str| if non_rm { format!("fail rotomethods:{what}:non-route-monitoring-not-neutral {site}") } else { format!("fail rotomethods:{what}:no-attributes-not-neutral {site}") };
    if !o.shape_ok { return format!("fail rotomethods:probe:output-stream-shape {site}"); }
    if !o.accept { return format!("fail rotomethods:probe:verdict {site}"); }
    let Some(u) = view else {
        if o.ac != 0 { return neutral("announcements_count"); }
        if o.wc != 0 { return neutral("withdrawals_count"); }
        if !o.ap.is_empty() { return neutral("fmt_aspath"); }
        if !o.ao.is_empty() { return neutral("fmt_aspath_origin"); }
        if !o.sc.is_empty() { return neutral("fmt_communities"); }
        if !o.lc.is_empty() { return neutral("fmt_large_communities"); }
        if o.cl { return neutral("contains_large_community"); }
        if o.ca { return neutral("aspath_contains"); }
        if o.mo { return neutral("match_aspath_origin"); }
        return "ok".into();
    };
    if counts {
        let a = u.reach.len() + u.mp_reach.as_ref().map(|m| m.nlri.len()).unwrap_or(0);
        if o.ac as usize != a { return format!("fail rotomethods:announcements_count:nlri-total {site} announced {a} got {}", o.ac); }
        let w = u.unreach.len() + u.mp_unreach.as_ref().map(|m| m.nlri.len()).unwrap_or(0);
        if o.wc as usize != w { return format!("fail rotomethods:withdrawals_count:nlri-total {site} withdrawn {w} got {}", o.wc); }
    }
    let path: Vec<Seg> = u.aspath.clone().unwrap_or_default();
    match parse_aspath(&o.ap) {
        None => return format!("fail rotomethods:fmt_aspath:unparseable {site} {}", enc(&o.ap)),
        Some(back) => {
            // an AS_PATH made of one empty AS_SEQUENCE prints as "" (indistinguishable from no path)
            let norm = |p: &[Seg]| -> Vec<Seg> { if p.len() == 1 && p[0].kind == 2 && p[0].asns.is_empty() { vec![] } else { p.to_vec() } };
            let same = if exact { norm(&back) == norm(&path) } else { spec_hops(&norm(&back)) == spec_hops(&norm(&path)) };
            if !same { return format!("fail rotomethods:fmt_aspath:parse-back {site} path {} printed {}", join(path.iter().map(|s| format!("{}:{}", s.kind, dots(s.asns.iter()))), ","), enc(&o.ap)); }
        }
    }
    let hops = spec_hops(&path);
    let want_origin = match hops.last() { Some(SHop::Asn(a)) => format!("AS{a}"), _ => String::new() };
    if o.ao != want_origin { return format!("fail rotomethods:fmt_aspath_origin:last-asn {site} want {} got {}", enc(&want_origin), enc(&o.ao)); }
    match parse_comms(&o.sc) { Some(back) if back == u.comms.clone().unwrap_or_default() => {} _ => return format!("fail rotomethods:fmt_communities:parse-back {site} {}", enc(&o.sc)) }
    match parse_larges(&o.lc) { Some(back) if back == u.lcomms.clone().unwrap_or_default() => {} _ => return format!("fail rotomethods:fmt_large_communities:parse-back {site} {}", enc(&o.lc)) }
    if o.cl != u.lcomms.as_ref().map(|l| l.contains(&ql)).unwrap_or(false) { return format!("fail rotomethods:contains_large_community:membership {site}"); }
    if o.ca != hops.contains(&SHop::Asn(qa)) { return format!("fail rotomethods:aspath_contains:sequence-member {site}"); }
    if o.mo != (hops.last() == Some(&SHop::Asn(qa))) { return format!("fail rotomethods:match_aspath_origin:last-asn {site}"); }
    "ok".into()
}
fn pcap_of(b: &[u8]) -> String { let mut s = String::from("000000 "); for x in b { s.push_str(&format!("{:02x} ", x)); } s }


// ===================================================================== Log / LogEntry

#[derive(Clone, Debug, PartialEq)]
enum Op { Custom(String), OriginAs, PeerAs, Hops, CReach, CUnreach, MpReach, MpUnreach, LogAll, Write, LogCustom(u32, u32) }
impl Op {
    fn tok(&self) -> String {
        match self { Op::Custom(s) => format!("cu:{s}"), Op::OriginAs => "oa".into(), Op::PeerAs => "pa".into(), Op::Hops => "ah".into(), Op::CReach => "cr".into(), Op::CUnreach => "cw".into(),
            Op::MpReach => "mr".into(), Op::MpUnreach => "mu".into(), Op::LogAll => "la".into(), Op::Write => "we".into(), Op::LogCustom(a, b) => format!("lc:{a}:{b}") }
    }
    fn parse(s: &str) -> Op {
        match s { "oa" => Op::OriginAs, "pa" => Op::PeerAs, "ah" => Op::Hops, "cr" => Op::CReach, "cw" => Op::CUnreach, "mr" => Op::MpReach, "mu" => Op::MpUnreach, "la" => Op::LogAll, "we" => Op::Write,
            s if s.starts_with("cu:") => Op::Custom(s[3..].to_string()),
            s => { let v: Vec<&str> = s.split(':').collect(); Op::LogCustom(v[1].parse().unwrap(), v[2].parse().unwrap()) } }
    }
    fn setter(&self) -> Option<&'static str> {
        match self { Op::OriginAs => Some("origin_as"), Op::PeerAs => Some("peer_as"), Op::Hops => Some("as_path_hops"), Op::CReach => Some("conventional_reach"), Op::CUnreach => Some("conventional_unreach"),
            Op::MpReach => Some("mp_reach"), Op::MpUnreach => Some("mp_unreach"), Op::LogAll => Some("log_all"), _ => None }
    }
}
fn ops_tok(ops: &[Op]) -> String { if ops.is_empty() { "-".into() } else { join(ops.iter().map(|o| o.tok()), ",") } }
fn ops_parse(s: &str) -> Vec<Op> { if s == "-" { vec![] } else { s.split(',').map(Op::parse).collect() } }

/// roto statements for an op list; `chain[i]` = glue op i+1 onto the same `output.entry()` expression as op i
fn ops_roto(ops: &[Op], chain: &[bool], ind: &str) -> String {
    let mut s = String::new();
    let mut i = 0;
    while i < ops.len() {
        match &ops[i] {
            Op::Write => { s.push_str(&format!("{ind}output.write_entry();\n")); i += 1; }
            Op::LogCustom(a, b) => { s.push_str(&format!("{ind}output.log_custom({a}, {b});\n")); i += 1; }
            _ => {
                let mut e = String::from("output.entry()");
                loop {
                    match &ops[i] {
                        Op::Custom(t) => { e.push_str(&format!(".custom(\"{t}\")")); i += 1; break; } // returns Unit: ends the chain
                        o => { e.push_str(&format!(".{}(m)", o.setter().unwrap())); i += 1; }
                    }
                    if i >= ops.len() || !chain.get(i - 1).copied().unwrap_or(false) || matches!(ops[i], Op::Write | Op::LogCustom(..)) { break; }
                }
                s.push_str(&format!("{ind}{e};\n"));
            }
        }
    }
    s
}

/// a `LogEntry` as the property talks about it; `ts`: a real timestamp (not the Unix epoch)
#[derive(Clone, Debug, PartialEq, Default)]
struct Ent { ts: bool, oa: Option<u32>, pa: Option<u32>, ah: Option<usize>, cr: usize, cw: usize, mr: Option<usize>, mf: Option<u8>, mu: Option<usize>, uf: Option<u8>, cs: Option<String> }
fn fam_of(a: routecore::bgp::types::AfiSafiType) -> u8 {
    match format!("{a:?}").as_str() { "Ipv4Unicast" => 0, "Ipv4Multicast" => 1, "Ipv6Unicast" => 2, "Ipv6Multicast" => 3, _ => 99 }
}
impl Ent {
    fn of(e: &LogEntry) -> Ent {
        Ent { ts: e.timestamp.timestamp() != 0, oa: e.origin_as.map(|a| a.into_u32()), pa: e.peer_as.map(|a| a.into_u32()), ah: e.as_path_hops, cr: e.conventional_reach, cw: e.conventional_unreach,
            mr: e.mp_reach, mf: e.mp_reach_afisafi.map(fam_of), mu: e.mp_unreach, uf: e.mp_unreach_afisafi.map(fam_of), cs: e.custom.clone() }
    }
    fn show(&self) -> String {
        fn o<T: std::fmt::Display>(x: &Option<T>) -> String { x.as_ref().map(|v| v.to_string()).unwrap_or("-".into()) }
        format!("E({};{};{};{};{};{};{};{};{};{};{})", self.ts as u8, o(&self.oa), o(&self.pa), o(&self.ah), self.cr, self.cw, o(&self.mr), o(&self.mf), o(&self.mu), o(&self.uf), o(&self.cs))
    }
    /// first field that differs, by the name of the method that writes it
    fn diff(&self, want: &Ent) -> Option<&'static str> {
        if self.oa != want.oa { return Some("origin_as"); } if self.pa != want.pa { return Some("peer_as"); } if self.ah != want.ah { return Some("as_path_hops"); }
        if self.cr != want.cr { return Some("conventional_reach"); } if self.cw != want.cw { return Some("conventional_unreach"); }
        if self.mr != want.mr || self.mf != want.mf { return Some("mp_reach"); } if self.mu != want.mu || self.uf != want.uf { return Some("mp_unreach"); }
        if self.cs != want.cs { return Some("custom"); } if self.ts != want.ts { return Some("timestamp"); }
        None
    }
}
#[derive(Clone, Debug, PartialEq)]
enum Out { Custom(u32, u32), Entry(Ent), Other(String) }
impl Out {
    fn show(&self) -> String { match self { Out::Custom(a, b) => format!("C({a};{b})"), Out::Entry(e) => e.show(), Out::Other(s) => s.clone() } }
}
fn outs_show(v: &[Out]) -> String { if v.is_empty() { "-".into() } else { join(v.iter().map(|o| o.show()), " ") } }

/// the documented meaning of the Log / LogEntry calls on one message: every `write_entry` emits the
/// entry composed since the previous one (a new, empty, freshly timestamped entry follows), every
/// setter writes its own field(s) from the message and nothing else
fn spec_ops(m: Option<&BmpIn>, ops: &[Op], start: Ent) -> (Vec<Out>, Ent) {
    let fresh = Ent { ts: true, ..Ent::default() };
    let mut e = start; let mut outs = vec![];
    let view = m.and_then(|m| m.view());
    let is_rm = m.map(|m| m.kind == Kind::RouteMon).unwrap_or(false);
    let origin = |u: &Upd| -> Option<u32> { match spec_hops(u.aspath.as_deref().unwrap_or(&[])).last() { Some(SHop::Asn(a)) => Some(*a), _ => None } };
    for o in ops {
        match o {
            Op::Custom(s) => e.cs = Some(s.clone()),
            Op::OriginAs => if let Some(u) = view { if let Some(a) = origin(u) { e.oa = Some(a); } },
            Op::PeerAs => if is_rm { e.pa = Some(m.unwrap().pph_asn); },
            Op::Hops => if let Some(u) = view { e.ah = u.aspath.as_ref().map(|p| spec_hops(p).len()); },
            Op::CReach => if let Some(u) = view { e.cr = u.reach.len(); },
            Op::CUnreach => if let Some(u) = view { e.cw = u.unreach.len(); },
            Op::MpReach => if let Some(u) = view { if let Some(mp) = &u.mp_reach { e.mr = Some(mp.nlri.len()); e.mf = Some(mp.fam); } },
            Op::MpUnreach => if let Some(u) = view { if let Some(mp) = &u.mp_unreach { e.mu = Some(mp.nlri.len()); e.uf = Some(mp.fam); } },
            Op::LogAll => if is_rm {
                e.pa = Some(m.unwrap().pph_asn);
                if let Some(u) = view {
                    if let Some(p) = &u.aspath { e.ah = Some(spec_hops(p).len()); e.oa = origin(u); }
                    e.cr = u.reach.len(); e.cw = u.unreach.len();
                    if let Some(mp) = &u.mp_reach { e.mr = Some(mp.nlri.len()); e.mf = Some(mp.fam); }
                    if let Some(mp) = &u.mp_unreach { e.mu = Some(mp.nlri.len()); e.uf = Some(mp.fam); }
                }
            },
            Op::Write => { outs.push(Out::Entry(e)); e = fresh.clone(); }
            Op::LogCustom(a, b) => outs.push(Out::Custom(*a, *b)),
        }
    }
    (outs, e)
}
/// judge observed outputs (+ pending entry) against the documented meaning
fn judge_ops(site: &str, got: &[Out], pending: Option<&Ent>, want: &(Vec<Out>, Ent)) -> String {
    let shape = |v: &[Out]| -> String { v.iter().map(|o| match o { Out::Custom(..) => 'C', Out::Entry(_) => 'E', Out::Other(_) => '?' }).collect() };
    if shape(got) != shape(&want.0) { return format!("fail rotomethods:write_entry:exactly-once-in-order {site} want {} got {}", shape(&want.0), shape(got)); }
    let mut ts_only = None;
    for (k, (g, w)) in got.iter().zip(want.0.iter()).enumerate() {
        match (g, w) {
            (Out::Custom(a, b), Out::Custom(c, d)) => if (a, b) != (c, d) { return format!("fail rotomethods:log_custom:values {site}"); },
            (Out::Entry(g), Out::Entry(w)) => match g.diff(w) {
                None => {}
                Some("timestamp") => { if ts_only.is_none() { ts_only = Some(k); } }
                Some(f) => return format!("fail rotomethods:{f}:entry-field {site} output {k} want {} got {}", w.show(), g.show()),
            },
            _ => {}
        }
    }
    if let Some(p) = pending { if let Some(f) = p.diff(&want.1) { if f != "timestamp" { return format!("fail rotomethods:{f}:pending-entry-field {site} want {} got {}", want.1.show(), p.show()); } else if ts_only.is_none() { ts_only = Some(got.len()); } } }
    if let Some(k) = ts_only { return format!("fail rotomethods:write_entry:next-entry-epoch-timestamp {site} entry {k} carries 1970-01-01T00:00:00Z"); }
    "ok".into()
}

fn l_src(unit: &str, ops: &[Op], chain: &[bool]) -> String {
    let head = match unit { "bgp" => "filter bgp-in(m: BgpMsg, prov: Provenance) {\n", "bmp" => "filter bmp-in(m: BmpMsg, prov: Provenance) {\n", _ => "filter rib-in-pre(m: Route) {\n" };
    format!("{head}{}  accept\n}}\n", ops_roto(ops, chain, "  "))
}
fn drain_outs(os: &mut RotoOutputStream) -> Vec<Out> {
    os.drain().map(|o| match o { Output::Custom((a, b)) => Out::Custom(a, b), Output::Entry(e) => Out::Entry(Ent::of(&e)), o => Out::Other(format!("{o:?}").split('(').next().unwrap().to_string()) }).collect()
}

struct Rt(tokio::runtime::Runtime);
impl Rt { fn new() -> Rt { Rt(tokio::runtime::Builder::new_current_thread().enable_all().build().unwrap()) } }
fn take_os(c: &Arc<vr::Collector>) -> Vec<Vec<(String, Out)>> {
    c.0.lock().unwrap().drain(..).filter_map(|u| match u {
        Update::OutputStream(v) => Some(v.iter().map(|m| (m.get_topic().clone(), match m.get_record() {
            OutputStreamMessageRecord::Entry(e) => Out::Entry(Ent::of(e)),
            OutputStreamMessageRecord::Custom(_) => { let j = serde_json::to_value(m.get_record()).unwrap(); Out::Custom(j["id"].as_u64().unwrap_or(0) as u32, j["value"].as_u64().unwrap_or(0) as u32) }
            r => Out::Other(format!("{r:?}").split('(').next().unwrap().to_string()),
        })).collect()),
        _ => None,
    }).collect()
}
/// C17's record vocabulary: the JSON object of a `LogEntry` record must carry exactly the entry's fields
fn json_matches(rec: &OutputStreamMessageRecord, e: &Ent) -> bool {
    let Ok(j) = serde_json::to_value(rec) else { return false };
    let n = |k: &str| j.get(k).and_then(|v| v.as_u64());
    let keys: Vec<&str> = j.as_object().map(|o| o.keys().map(|k| k.as_str()).collect()).unwrap_or_default();
    keys == ["timestamp", "origin_as", "peer_as", "as_path_hops", "conventional_reach", "conventional_unreach", "mp_reach", "mp_reach_afisafi", "mp_unreach", "mp_unreach_afisafi", "custom"]
        && n("origin_as") == e.oa.map(|x| x as u64) && n("peer_as") == e.pa.map(|x| x as u64) && n("as_path_hops") == e.ah.map(|x| x as u64)
        && n("conventional_reach") == Some(e.cr as u64) && n("conventional_unreach") == Some(e.cw as u64) && n("mp_reach") == e.mr.map(|x| x as u64) && n("mp_unreach") == e.mu.map(|x| x as u64)
        && j["mp_reach_afisafi"].is_null() == e.mf.is_none() && j["mp_unreach_afisafi"].is_null() == e.uf.is_none()
        && j["custom"].as_str().map(|s| s.to_string()) == e.cs && (j["timestamp"].as_i64() != Some(0)) == e.ts
}

// ===================================================================== generator

const ASNS: [u32; 9] = [1, 2, 200, 12345, 23456, 64512, 65000, 65535, 65536];
const COMMS: [u32; 14] = [0xFFFFFF01, 0xFFFFFF02, 0xFFFFFF03, 0xFFFFFF04, 0xFFFF029A, 0xFFFF0000, 0xFFFF0008, 0xFFFF0009, 0xFFFF1234, 0xFFFF00AB, 0x0000000A, 0xfde80001, 77, 0xFFFE0001];
const LARGES: [Large; 5] = [(65000, 1, 2), (4200000000, 0, 4294967295), (1, 1, 1), (65000, 1, 3), (0, 0, 0)];

struct Gen { rng: Rng }
impl Gen {
    fn asn(&mut self, four: bool) -> u32 { loop { let a = if self.rng.chance(1, 6) { self.rng.below(if four { 4294967296 } else { 65536 }) as u32 } else { *self.rng.pick(&ASNS) }; if four || a < 65536 { return a; } } }
    fn seg(&mut self, four: bool) -> Seg {
        let kind = *self.rng.pick(&[2u8, 2, 2, 2, 1, 1, 3, 4]);
        let n = if self.rng.chance(1, 14) { 0 } else { self.rng.range(1, 4) };
        Seg { kind, asns: (0..n).map(|_| self.asn(four)).collect() }
    }
    fn upd(&mut self) -> Upd {
        let four = !self.rng.chance(1, 4);
        let aspath = match self.rng.below(24) {
            0 | 1 => None,
            2 => Some(vec![]),
            3 => { // a long path: 255 + k ASNs in two AS_SEQUENCE segments (a route recomposes them as k + 255)
                let k = self.rng.range(1, 60) as usize;
                let a = self.asn(four);
                Some(vec![Seg { kind: 2, asns: (0..255).map(|i| if i == 0 { a } else { 64512 + (i as u32 % 7) }).collect() }, Seg { kind: 2, asns: (0..k).map(|i| 100 + i as u32).collect() }])
            }
            4..=11 => { let n = self.rng.range(1, 5); Some(vec![Seg { kind: 2, asns: (0..n).map(|_| self.asn(four)).collect() }]) }
            _ => { let n = self.rng.range(1, 4); Some((0..n).map(|_| self.seg(four)).collect()) }
        };
        let comms = match self.rng.below(8) { 0..=2 => None, 3 => Some(vec![]), _ => Some((0..self.rng.range(1, 4)).map(|_| if self.rng.chance(1, 5) { self.rng.below(4294967296) as u32 } else { *self.rng.pick(&COMMS) }).collect()) };
        let lcomms = match self.rng.below(8) { 0..=3 => None, 4 => Some(vec![]), _ => Some((0..self.rng.range(1, 3)).map(|_| *self.rng.pick(&LARGES)).collect()) };
        let ecomms = if self.rng.chance(1, 4) { self.rng.range(1, 2) as usize } else { 0 };
        let mut next = 0u32;
        let mut ids = |g: &mut Gen, n: u64| -> Vec<u32> { (0..n).map(|_| { next += 1 + g.rng.below(3) as u32; next }).collect() };
        let nr = self.rng.below(5); let reach = ids(self, nr);
        let nu = self.rng.below(4); let unreach = ids(self, nu);
        let mp_reach = if self.rng.chance(1, 2) { None } else { let n = self.rng.range(1, 3); Some(Mp { fam: self.rng.below(4) as u8, nlri: ids(self, n) }) };
        let mp_unreach = if self.rng.chance(2, 3) { None } else { let n = self.rng.below(4); Some(Mp { fam: self.rng.below(4) as u8, nlri: ids(self, n) }) };
        if self.rng.chance(1, 25) { return Upd { four, ..Upd::default() }; } // End-of-RIB
        Upd { four, aspath, comms, lcomms, ecomms, reach, unreach, mp_reach, mp_unreach }
    }
    fn ql(&mut self, u: &Upd) -> Large { match &u.lcomms { Some(l) if !l.is_empty() && self.rng.chance(1, 2) => *self.rng.pick(l), _ => *self.rng.pick(&LARGES) } }
    fn qa(&mut self, u: &Upd) -> u32 {
        let all: Vec<u32> = u.aspath.iter().flatten().flat_map(|s| s.asns.clone()).collect();
        if !all.is_empty() && self.rng.chance(2, 3) { if self.rng.chance(1, 2) { *all.last().unwrap() } else { *self.rng.pick(&all) } } else { *self.rng.pick(&ASNS) }
    }
    fn ops(&mut self, bmp: bool) -> Vec<Op> {
        let n = self.rng.range(0, 9);
        (0..n).map(|_| {
            let k = if bmp { self.rng.below(14) } else { *self.rng.pick(&[0u64, 0, 9, 9, 10]) };
            match k {
                0 => Op::Custom(self.rng.pick(&["x", "hello", "a1", "Z"]).to_string()), 1 => Op::OriginAs, 2 => Op::PeerAs, 3 => Op::Hops, 4 => Op::CReach, 5 => Op::CUnreach, 6 => Op::MpReach, 7 => Op::MpUnreach, 8 => Op::LogAll,
                10 => Op::LogCustom(self.rng.below(5) as u32, self.rng.below(100) as u32), _ => Op::Write,
            }
        }).collect()
    }
    /// an UPDATE for a session: `tag` decides whether its AS_PATH contains AS64999 in a sequence
    fn upd_tagged(&mut self, four: bool, tag: bool) -> Upd {
        loop {
            let mut u = self.upd();
            u.four = four;
            if let Some(p) = &mut u.aspath { for s in p.iter_mut() { for a in s.asns.iter_mut() { if *a == TAG || (!four && *a > 65535) { *a = 65001; } } } if p.iter().map(|s| s.asns.len()).sum::<usize>() > 40 { continue; } }
            if tag {
                let p = u.aspath.get_or_insert_with(Vec::new);
                let at = self.rng.below(p.len() as u64 + 1) as usize;
                let mut asns = vec![TAG]; if self.rng.chance(1, 2) { asns.insert(0, 65002); } if self.rng.chance(1, 2) { asns.push(65003); }
                p.insert(at, Seg { kind: 2, asns });
            }
            return u;
        }
    }
    fn session_ops(&mut self, bmp: bool) -> (Vec<Op>, Vec<Op>) {
        // composing and writing are meant to happen for different messages: bias one branch towards
        // setters without write_entry and the other towards write_entry
        let mut a = self.ops(bmp); let mut b = self.ops(bmp);
        if self.rng.chance(1, 2) { a.retain(|o| *o != Op::Write); b.push(Op::Write); } else if self.rng.chance(1, 2) { b.retain(|o| *o != Op::Write); a.push(Op::Write); }
        a.insert(0, Op::LogCustom(7, 7)); b.insert(0, Op::LogCustom(7, 7)); // marker: every message yields one OutputStream update
        (a, b)
    }
    fn kind(&mut self) -> Kind { *self.rng.pick(&[Kind::Init, Kind::PeerUp, Kind::PeerDown, Kind::RouteMon, Kind::RouteMon, Kind::RouteMon, Kind::RouteMon, Kind::RouteMon, Kind::Stats, Kind::Term]) }
}

// ===================================================================== cases

/// the ASN the session scripts branch on (`m.aspath_contains(AS64999)`)
const TAG: u32 = 64999;

struct Eng { rec: Recorder, p: Probes, rt: Rt }

fn show_groups(g: &[Vec<(String, Out)>]) -> String { if g.is_empty() { "-".into() } else { join(g.iter().map(|v| format!("os[{}]", join(v.iter().map(|(t, o)| format!("{t}:{}", o.show())), " "))), " / ") } }

impl Eng {
    fn shape(u: &Upd) -> bool { u.aspath.as_ref().map(|p| p.len() > 1 || p.iter().any(|s| s.kind != 2)).unwrap_or(false) || u.mp_reach.is_some() || u.mp_unreach.is_some() || u.comms.is_some() || u.lcomms.is_some() }

    fn m_bgp(&mut self, u: &Upd, ql: Large, qa: u32) {
        let Some(m) = u.msg() else { self.rec.bump("M.bgp.unparseable"); return };
        let o = obs_bgp(&self.p, &m, qa, ql, qa);
        let mut oracle = judge("bgp-in", Some(u), true, true, &o, ql, qa, false);
        if oracle == "ok" && o.pcap.as_deref() != Some(&pcap_of(&u.encode())) { oracle = "fail rotomethods:fmt_pcap:hexdump bgp-in".into(); }
        if oracle == "ok" && o.pasn.as_deref() != Some(&format!("AS{qa}")) { oracle = "fail rotomethods:asn_fmt:as-prefix bgp-in".into(); }
        self.rec.bump("M.bgp"); if !u.four { self.rec.bump("M.bgp.2-octet"); }
        self.bump_shape(u);
        self.rec.case(format!("M|bgp|{} ql={}:{}:{} qa={}", u.tok(), ql.0, ql.1, ql.2, qa), o.show(), oracle, Self::shape(u));
    }
    fn m_bmp(&mut self, i: &BmpIn, ql: Large, qa: u32) {
        let raw = i.bytes(); // the encoders stamp the per-peer header with the current time: build once
        let Ok(m) = BmpMsg::from_octets(raw.clone()) else { self.rec.bump("M.bmp.unparseable"); return };
        if i.kind == Kind::RouteMon && !i.bad && i.upd.msg().is_none() { self.rec.bump("M.bmp.unparseable-pdu"); return; }
        let o = obs_bmp(&self.p, &m, qa, ql, qa);
        let mut oracle = judge("bmp-in", i.view(), true, true, &o, ql, qa, i.kind != Kind::RouteMon);
        if oracle == "ok" && o.pcap.as_deref() != Some(&pcap_of(&raw)) { oracle = "fail rotomethods:fmt_pcap:hexdump bmp-in".into(); }
        if oracle == "ok" && o.pasn.as_deref() != Some(&format!("AS{qa}")) { oracle = "fail rotomethods:asn_fmt:as-prefix bmp-in".into(); }
        self.rec.bump(&format!("M.bmp.{}{}", i.kind.name(), if i.bad { ".bad-pdu" } else { "" })); if !i.upd.four && i.kind == Kind::RouteMon { self.rec.bump("M.bmp.2-octet"); }
        if i.view().is_some() { self.bump_shape(&i.upd); }
        self.rec.case(format!("M|bmp|{} ql={}:{}:{} qa={}", i.tok(), ql.0, ql.1, ql.2, qa), o.show(), oracle, i.view().map(Self::shape).unwrap_or(false));
    }
    fn m_rib(&mut self, u: &Upd, idx: usize, ql: Large, qa: u32) {
        let Some(m) = u.msg() else { self.rec.bump("M.rib.unparseable"); return };
        let Ok((a, w)) = vr::explode(&m) else { self.rec.bump("M.rib.explode-error"); return };
        let na = a.len();
        let n_ann = u.reach.len() + u.mp_reach.as_ref().map(|m| m.nlri.len()).unwrap_or(0);
        let all: Vec<RotondaRoute> = a.into_iter().chain(w).collect();
        let Some(r) = all.get(idx) else { return };
        let o = obs_rib(&self.p, r, ql, qa);
        let view = if idx < na { Some(u) } else { None };
        let mut oracle = judge("rib-in-pre", view, false, false, &o, ql, qa, false);
        if oracle == "ok" && na != n_ann { oracle = format!("fail rotomethods:explode:announcement-count want {n_ann} got {na}"); }
        self.rec.bump(if idx < na { "M.rib.announcement" } else { "M.rib.withdrawal" }); if !u.four { self.rec.bump("M.rib.2-octet"); }
        if view.is_some() { self.bump_shape(u); }
        self.rec.case(format!("M|rib|i={} {} ql={}:{}:{} qa={}", idx, u.tok(), ql.0, ql.1, ql.2, qa), o.show(), oracle, view.map(Self::shape).unwrap_or(false));
    }

    // ---------------------------------------------------------------- Log / LogEntry cases

    fn chain_of(ops: &[Op]) -> Vec<bool> { (0..ops.len()).map(|i| (i * 7 + ops.len()) % 3 != 0).collect() }
    fn ops_nontrivial(ops: &[Op]) -> bool { ops.iter().filter(|o| **o == Op::Write).count() >= 1 && ops.iter().any(|o| !matches!(o, Op::Write | Op::LogCustom(..))) }

    /// one call of a generated Log/LogEntry script, compiled by the real runtime, on a fresh stream
    fn l_case(&mut self, unit: &str, ops: &[Op], input: &str) -> Option<Vec<Out>> {
        let kv = kvs(input);
        let src = l_src(unit, ops, &Self::chain_of(ops));
        let mut c = match compile(&src) { Ok(c) => c, Err(e) => { self.rec.bump("L.compile-error"); if std::env::var("ROTOMETHODS_DEBUG").is_ok() { eprintln!("{e}\n{src}"); } return None } };
        let mut os = RotoOutputStream::new();
        let mut ctx = Ctx::new(&mut os);
        let bmp_in;
        let view: Option<&BmpIn> = match unit {
            "bgp" => { let u = Upd::parse(&kv); let m = u.msg()?; let f: BgpFunc = c.get_function("bgp-in").ok()?; let _ = f.call(&mut ctx, roto::Val(m), roto::Val(prov(1))); None }
            "bmp" => { bmp_in = BmpIn::parse(&kv); let m = BmpMsg::from_octets(bmp_in.bytes()).ok()?; if bmp_in.kind == Kind::RouteMon && !bmp_in.bad && bmp_in.upd.msg().is_none() { return None; }
                let f: BmpFunc = c.get_function("bmp-in").ok()?; let _ = f.call(&mut ctx, roto::Val(m), roto::Val(prov(1))); Some(&bmp_in) }
            _ => { let u = Upd::parse(&kv); let m = u.msg()?; let (a, w) = vr::explode(&m).ok()?; let all: Vec<RotondaRoute> = a.into_iter().chain(w).collect(); let r = all.get(kv["i"].parse::<usize>().unwrap())?.clone();
                let f: RibFunc = c.get_function("rib-in-pre").ok()?; let _ = f.call(&mut ctx, roto::Val(r)); None }
        };
        let got = drain_outs(&mut os);
        let pending = Ent::of(os.entry());
        let want = spec_ops(view, ops, Ent { ts: true, ..Ent::default() });
        let oracle = judge_ops(match unit { "bgp" => "bgp-in", "bmp" => "bmp-in", _ => "rib-in-pre" }, &got, Some(&pending), &want);
        self.rec.bump(&format!("L.{unit}")); self.rec.bump_by("L.ops", ops.len() as u64); self.rec.bump_by("L.entries-written", got.iter().filter(|o| matches!(o, Out::Entry(_))).count() as u64);
        self.rec.case(format!("L|{unit}|{}|{}", ops_tok(ops), input), format!("{} | P={}", outs_show(&got), pending.show()), oracle, Self::ops_nontrivial(ops));
        Some(got)
    }

    /// the same script installed in the real bmp-in `RouterHandler`: what reaches the gate
    fn h_bmp(&mut self, ops: &[Op], i: &BmpIn) {
        let src = l_src("bmp", ops, &Self::chain_of(ops));
        let Ok(mut c) = compile(&src) else { self.rec.bump("H.compile-error"); return };
        let Ok(m) = BmpMsg::from_octets(i.bytes()) else { return };
        if i.kind == Kind::RouteMon && !i.bad && i.upd.msg().is_none() { return; }
        let f: BmpFunc = c.get_function("bmp-in").unwrap();
        let (h, mut agent) = vr::bmp::mk_handler(Some(f), 7);
        let col = Arc::new(vr::Collector::default());
        let mut link = agent.create_link();
        link.set_direct_update_target(col.clone());
        self.rt.0.block_on(async { tokio::select! { _ = link.connect(false) => {} _ = async { loop { vr::bmp::gate_process(&h).await; } } => {} } });
        let _ = self.rt.0.block_on(vr::bmp::process_msg(&h, "10.0.0.5:1790".parse().unwrap(), 7, m, prov(0)));
        let mut json_ok = true;
        for u in col.0.lock().unwrap().iter() { if let Update::OutputStream(v) = u { for m in v { if let OutputStreamMessageRecord::Entry(e) = m.get_record() { json_ok &= json_matches(m.get_record(), &Ent::of(e)); } } } }
        let groups = take_os(&col);
        let flat: Vec<Out> = groups.iter().flatten().map(|x| x.1.clone()).collect();
        let want = spec_ops(Some(i), ops, Ent { ts: true, ..Ent::default() });
        let mut oracle = judge_ops("bmp-in", &flat, None, &want);
        if oracle == "ok" && groups.len() > 1 { oracle = "fail rotomethods:output-stream:one-update-per-message bmp-in".into(); }
        if oracle == "ok" && groups.iter().flatten().any(|(t, o)| match o { Out::Entry(_) => t != "log_entry", Out::Custom(..) => t != "custom", _ => true }) { oracle = "fail rotomethods:output-stream:topic bmp-in".into(); }
        if oracle == "ok" && !json_ok { oracle = "fail rotomethods:logentry:json-record-fields bmp-in".into(); }
        self.rec.bump("H.bmp");
        self.rec.case(format!("H|bmp|{}|{}", ops_tok(ops), i.tok()), show_groups(&groups), oracle, Self::ops_nontrivial(ops));
        drop(link); drop(agent);
    }

    /// one script (`if route.has_attribute(1) { A } else { W }`: A runs on announced routes, W on withdrawn
    /// ones) installed in the real RIB unit; one Bulk of all routes of the UPDATE
    fn h_rib(&mut self, ops_a: &[Op], ops_w: &[Op], u: &Upd) -> Option<Vec<Vec<(String, Out)>>> {
        let src = format!("filter rib-in-pre(m: Route) {{\n  if m.has_attribute(1) {{\n{}  }} else {{\n{}  }}\n  accept\n}}\n", ops_roto(ops_a, &Self::chain_of(ops_a), "    "), ops_roto(ops_w, &Self::chain_of(ops_w), "    "));
        let mut c = match compile(&src) { Ok(c) => c, Err(e) => { self.rec.bump("H.compile-error"); if std::env::var("ROTOMETHODS_DEBUG").is_ok() { eprintln!("{e}\n{src}"); } return None } };
        let m = u.msg()?;
        let (a, w) = vr::explode(&m).ok()?;
        if a.len() + w.len() == 0 { return None; }
        let f: RibFunc = c.get_function("rib-in-pre").unwrap();
        let (runner, mut agent) = vr::rib::mk_runner(Some(f));
        let col = Arc::new(vr::Collector::default());
        let mut link = agent.create_link();
        link.set_direct_update_target(col.clone());
        self.rt.0.block_on(async { tokio::select! { _ = link.connect(false) => {} _ = async { loop { vr::rib::gate_process(&runner).await; } } => {} } });
        let pv = Provenance::for_bgp(7, "10.0.0.1".parse().unwrap(), Asn::from_u32(65000));
        let ctx = FreshRouteContext::new(m.clone(), RouteStatus::Active, pv);
        let wctx = FreshRouteContext { status: RouteStatus::Withdrawn, ..ctx.clone() };
        let mut ps: smallvec::SmallVec<[Payload; 8]> = smallvec::SmallVec::new();
        let now = Instant::now();
        let (na, nw) = (a.len(), w.len());
        for r in a { ps.push(Payload::with_received(r, ctx.clone().into(), None, now)); }
        for r in w { ps.push(Payload::with_received(r, wctx.clone().into(), None, now)); }
        let upd = if ps.len() == 1 { Update::Single(ps.into_iter().next().unwrap()) } else { Update::Bulk(ps) };
        let _ = self.rt.0.block_on(vr::rib::process_update(&runner, upd));
        let groups = take_os(&col);
        // documented meaning: every route is one filter call with its own (new, empty) entry
        let mut want_groups: Vec<Vec<Out>> = vec![];
        for k in 0..na + nw { let w = spec_ops(None, if k < na { ops_a } else { ops_w }, Ent { ts: true, ..Ent::default() }); if !w.0.is_empty() { want_groups.push(w.0); } }
        let got_groups: Vec<Vec<Out>> = groups.iter().map(|g| g.iter().map(|x| x.1.clone()).collect()).collect();
        let mut oracle = "ok".to_string();
        if got_groups.len() != want_groups.len() { oracle = format!("fail rotomethods:write_entry:exactly-once-in-order rib-in-pre want {} updates got {}", want_groups.len(), got_groups.len()); }
        else {
            let mut leak = false; let mut ts = false;
            for (g, w) in got_groups.iter().zip(want_groups.iter()) {
                let o = judge_ops("rib-in-pre", g, None, &(w.clone(), Ent::default()));
                if o.starts_with("fail rotomethods:custom:entry-field") { leak = true; } else if o.starts_with("fail rotomethods:write_entry:next-entry-epoch-timestamp") { ts = true; } else if o != "ok" && oracle == "ok" { oracle = o; }
            }
            if oracle == "ok" && leak { oracle = "fail rotomethods:entry:unwritten-entry-leaks-into-next-route rib-in-pre an entry composed for one route of a Bulk and not written is written for a later route".into(); }
            else if oracle == "ok" && ts { oracle = "fail rotomethods:write_entry:next-entry-epoch-timestamp rib-in-pre".into(); }
        }
        self.rec.bump("H.rib"); self.rec.bump_by("H.rib.routes", (na + nw) as u64);
        self.rec.case(format!("H|rib|{};{}|{}", ops_tok(ops_a), ops_tok(ops_w), u.tok()), show_groups(&groups), oracle, Self::ops_nontrivial(ops_a) || Self::ops_nontrivial(ops_w));
        drop(link); drop(agent);
        Some(groups)
    }


    // ---------------------------------------------------------------- sessions (state surviving from one message to the next)

    fn s_src(unit: &str, a: &[Op], b: &[Op]) -> String {
        let head = if unit == "bgp" { "filter bgp-in(m: BgpMsg, prov: Provenance) {\n" } else { "filter bmp-in(m: BmpMsg, prov: Provenance) {\n" };
        format!("{head}  if m.aspath_contains(AS{TAG}) {{\n{}  }} else {{\n{}  }}\n  accept\n}}\n", ops_roto(a, &Self::chain_of(a), "    "), ops_roto(b, &Self::chain_of(b), "    "))
    }
    fn tagged(u: Option<&Upd>) -> bool { u.map(|u| spec_hops(u.aspath.as_deref().unwrap_or(&[])).contains(&SHop::Asn(TAG))).unwrap_or(false) }

    /// judge a session: message k's outputs must be those of one call on message k with a new entry
    fn judge_session(site: &str, groups: &[Vec<(String, Out)>], views: &[Option<&BmpIn>], tags: &[bool], a: &[Op], b: &[Op]) -> String {
        if groups.len() != views.len() { return format!("fail rotomethods:output-stream:one-update-per-message {site} {} messages, {} OutputStream updates", views.len(), groups.len()); }
        let fresh = Ent { ts: true, ..Ent::default() };
        let mut threaded = fresh.clone(); // what a stream shared by the whole session would carry over
        let mut verdict = "ok".to_string();
        for (k, g) in groups.iter().enumerate() {
            let ops = if tags[k] { a } else { b };
            let got: Vec<Out> = g.iter().map(|x| x.1.clone()).collect();
            let want = spec_ops(views[k], ops, fresh.clone());
            let thr = spec_ops(views[k], ops, threaded.clone());
            let o = judge_ops(site, &got, None, &want);
            if o != "ok" && verdict == "ok" {
                let no_ts = |v: &[Out]| -> Vec<Out> { v.iter().map(|o| match o { Out::Entry(e) => Out::Entry(Ent { ts: false, ..e.clone() }), o => o.clone() }).collect() };
                verdict = if k > 0 && no_ts(&got) != no_ts(&want.0) && no_ts(&got) == no_ts(&thr.0) {
                    format!("fail rotomethods:entry:leaks-into-next-message {site} message {k} emitted {} where a call on this message alone emits {}", outs_show(&got).replace(' ', ","), outs_show(&want.0).replace(' ', ","))
                } else { o };
            }
            threaded = thr.1;
        }
        verdict
    }

    /// 2-6 UPDATEs through the REAL `Processor::process` loop over one in-memory BGP session
    fn s_bgp(&mut self, a: &[Op], b: &[Op], msgs: &[Upd]) -> Option<Vec<Vec<(String, Out)>>> {
        let src = Self::s_src("bgp", a, b);
        let mut c = match compile(&src) { Ok(c) => c, Err(e) => { self.rec.bump("S.compile-error"); if std::env::var("ROTOMETHODS_DEBUG").is_ok() { eprintln!("{e}\n{src}"); } return None } };
        let pdus: Option<Vec<UpdateMessage<Bytes>>> = msgs.iter().map(|u| u.msg()).collect();
        let pdus = pdus?;
        let f: BgpFunc = c.get_function("bgp-in").unwrap();
        let col = Arc::new(vr::Collector::default());
        self.rt.0.block_on(vr::bgp::run_session(Some(f), 7, pdus, col.clone()));
        let groups = take_os(&col);
        let tags: Vec<bool> = msgs.iter().map(|u| Self::tagged(Some(u))).collect();
        let views: Vec<Option<&BmpIn>> = msgs.iter().map(|_| None).collect();
        let oracle = Self::judge_session("bgp-in", &groups, &views, &tags, a, b);
        self.rec.bump("S.bgp"); self.rec.bump_by("S.bgp.msgs", msgs.len() as u64);
        self.rec.case(format!("S|bgp|{};{}|{}", ops_tok(a), ops_tok(b), join(msgs.iter().map(|u| u.tok()), ";")), show_groups(&groups), oracle, Self::ops_nontrivial(a) || Self::ops_nontrivial(b) || tags.iter().any(|t| *t) && tags.iter().any(|t| !*t));
        Some(groups)
    }

    /// Initiation, PeerUp, then RouteMonitoring messages as one byte stream through the REAL
    /// `RouterHandler::read_from_router` (which calls `process_msg` per message)
    fn s_bmp(&mut self, a: &[Op], b: &[Op], msgs: &[BmpIn]) -> Option<Vec<Vec<(String, Out)>>> {
        let src = Self::s_src("bmp", a, b);
        let mut c = match compile(&src) { Ok(c) => c, Err(e) => { self.rec.bump("S.compile-error"); if std::env::var("ROTOMETHODS_DEBUG").is_ok() { eprintln!("{e}\n{src}"); } return None } };
        if msgs.iter().any(|i| i.kind == Kind::RouteMon && !i.bad && i.upd.msg().is_none()) { return None; }
        let mut bytes: Vec<u8> = vec![];
        for i in msgs { bytes.extend_from_slice(&i.bytes()); }
        let f: BmpFunc = c.get_function("bmp-in").unwrap();
        let (h, mut agent) = vr::bmp::mk_handler(Some(f), 7);
        let col = Arc::new(vr::Collector::default());
        let mut link = agent.create_link();
        link.set_direct_update_target(col.clone());
        self.rt.0.block_on(async { tokio::select! { _ = link.connect(false) => {} _ = async { loop { vr::bmp::gate_process(&h).await; } } => {} } });
        let reg = Arc::new(rotonda::ingress::Register::default());
        let done = self.rt.0.block_on(async { tokio::time::timeout(std::time::Duration::from_secs(20), rotonda::verif::rotomethods::read_from_router(&h, std::io::Cursor::new(bytes), "10.0.0.5:1790".parse().unwrap(), 7, reg)).await.is_ok() });
        let groups = take_os(&col);
        let tags: Vec<bool> = msgs.iter().map(|i| Self::tagged(i.view())).collect();
        let views: Vec<Option<&BmpIn>> = msgs.iter().map(Some).collect();
        let mut oracle = Self::judge_session("bmp-in", &groups, &views, &tags, a, b);
        if !done && oracle == "ok" { oracle = "fail rotomethods:session:read-loop-did-not-end bmp-in".into(); }
        self.rec.bump("S.bmp"); self.rec.bump_by("S.bmp.msgs", msgs.len() as u64);
        self.rec.case(format!("S|bmp|{};{}|{}", ops_tok(a), ops_tok(b), join(msgs.iter().map(|i| i.tok()), ";")), show_groups(&groups), oracle, Self::ops_nontrivial(a) || Self::ops_nontrivial(b) || tags.iter().any(|t| *t) && tags.iter().any(|t| !*t));
        drop(link); drop(agent);
        Some(groups)
    }

    fn bump_shape(&mut self, u: &Upd) {
        match &u.aspath {
            None => self.rec.bump("path.absent"),
            Some(p) if p.is_empty() => self.rec.bump("path.empty"),
            Some(p) => {
                if p.len() == 1 && p[0].kind == 2 { self.rec.bump("path.single-sequence"); } else { self.rec.bump("path.multi-segment"); }
                for s in p { self.rec.bump(&format!("seg.kind{}{}", s.kind, if s.asns.is_empty() { ".empty" } else { "" })); }
                if p.iter().map(|s| s.asns.len()).sum::<usize>() > 255 { self.rec.bump("path.over-255-asns"); }
            }
        }
        if u.mp_reach.is_some() { self.rec.bump("nlri.mp-reach"); }
        if u.mp_unreach.is_some() { self.rec.bump("nlri.mp-unreach"); }
        if !u.has_attrs() && u.reach.is_empty() && u.unreach.is_empty() && u.mp_unreach.is_none() { self.rec.bump("upd.end-of-rib"); }
    }

    /// the table `create_runtime` registers, as (receiver, method) pairs in registration order
    fn registry(&mut self) {
        use std::any::TypeId;
        let rt = create_runtime().unwrap();
        let names: Vec<(TypeId, &str)> = vec![
            (TypeId::of::<Provenance>(), "Provenance"), (TypeId::of::<Asn>(), "Asn"), (TypeId::of::<RotondaRoute>(), "Route"),
            (TypeId::of::<UpdateMessage<Bytes>>(), "BgpMsg"), (TypeId::of::<BmpMsg<Bytes>>(), "BmpMsg"),
            (TypeId::of::<*mut RotoOutputStream>(), "Log"), (TypeId::of::<*mut LogEntry>(), "LogEntryPtr"),
        ];
        let mut rows = vec![];
        let mut undocumented = vec![];
        for f in &rt.functions {
            // `FunctionKind` is not re-exported by roto: compare through its Debug form
            let kind = format!("{:?}", f.kind);
            let recv = if kind == "Free" { Some("-") } else { names.iter().find(|n| kind == format!("Method({:?})", n.0)).map(|n| n.1) };
            let Some(recv) = recv else { continue }; // roto's own basic methods (IpAddr, String, Prefix)
            rows.push(format!("{recv}.{}/{}", f.name, f.argument_names.len()));
            if f.docstring.trim().is_empty() && recv != "-" { undocumented.push(format!("{recv}.{}", f.name)); }
        }
        let oracle = if undocumented.is_empty() { "ok".to_string() } else { format!("fail rotomethods:registry:undocumented-method {}", undocumented.join(",")) };
        self.rec.case("T|registry".into(), rows.join(" "), oracle, true);
    }
}

fn run_line(e: &mut Eng, line: &str) {
    let parts: Vec<&str> = line.split('|').collect();
    match (parts[0], parts.get(1).copied().unwrap_or("")) {
        ("T", _) => e.registry(),
        ("M", unit) => {
            let kv = kvs(parts[2]);
            let ql = parse_large(kv["ql"]); let qa: u32 = kv["qa"].parse().unwrap();
            match unit {
                "bgp" => e.m_bgp(&Upd::parse(&kv), ql, qa),
                "bmp" => e.m_bmp(&BmpIn::parse(&kv), ql, qa),
                _ => e.m_rib(&Upd::parse(&kv), kv["i"].parse().unwrap(), ql, qa),
            }
        }
        ("L", unit) => { e.l_case(unit, &ops_parse(parts[2]), parts[3]); }
        ("S", unit) => {
            let (a, b) = parts[2].split_once(';').unwrap();
            if unit == "bgp" { let msgs: Vec<Upd> = parts[3].split(';').map(|t| Upd::parse(&kvs(t))).collect(); e.s_bgp(&ops_parse(a), &ops_parse(b), &msgs); }
            else { let msgs: Vec<BmpIn> = parts[3].split(';').map(|t| BmpIn::parse(&kvs(t))).collect(); e.s_bmp(&ops_parse(a), &ops_parse(b), &msgs); }
        }
        ("H", "bmp") => e.h_bmp(&ops_parse(parts[2]), &BmpIn::parse(&kvs(parts[3]))),
        ("H", _) => { let (a, w) = parts[2].split_once(';').unwrap(); e.h_rib(&ops_parse(a), &ops_parse(w), &Upd::parse(&kvs(parts[3]))); }
        _ => {}
    }
}

fn main() {
    let args = parse_args();
    if std::env::var("ROTOMETHODS_DEBUG").is_err() { std::panic::set_hook(Box::new(|_| {})); }
    let t0 = Instant::now();
    let rec = Recorder::new("T: the method table registered by create_runtime; M: every value method of BgpMsg / BmpMsg / Route called from a real compiled roto filter (or roto function for methods with a LargeCommunity / Asn argument) on one generated UPDATE (all AS_PATH segment kinds incl. empty and >255-ASN paths, 2- and 4-octet sessions, standard / large / extended communities, conventional + MP NLRI of 4 families, End-of-RIB), BMP message kinds incl. a RouteMonitoring whose PDU does not parse; non-trivial = the UPDATE in view has a multi-segment or non-sequence AS_PATH, MP NLRI or communities; L: one call of a generated sequence of Log / LogEntry method calls (setters chained or not, custom text, write_entry, log_custom) compiled by the real runtime, on a fresh stream (drained outputs + the pending entry); S: a script `if m.aspath_contains(AS64999) { A } else { B }` over a session of 2-6 UPDATEs through the real bgp-in Processor::process loop / of Initiation, PeerUp and 2-6 RouteMonitoring messages through the real bmp-in RouterHandler::read_from_router (one byte stream), observation = the OutputStream update of every message; H: the same scripts installed in the real bmp-in RouterHandler / RIB unit (one Bulk of all routes of the UPDATE), observation = the records of every Update::OutputStream at the gate; non-trivial (L/H) = at least one write_entry and one setter; distinct = distinct case lines");
    let rt0 = Rt::new();
    let handle = rt0.0.handle().clone();
    let _guard = handle.enter(); // Gate's Drop spawns a task
    let mut e = Eng { rec, p: Probes::new(), rt: rt0 };

    if let Some(path) = &args.replay {
        for line in verif_harness::replay_cases(path) { run_line(&mut e, &line); }
        e.rec.finish(&args, t0.elapsed().as_secs_f64());
        return;
    }

    e.registry();

    // ---- hand-written witnesses (theorem examples) first
    let seq = |a: &[u32]| Seg { kind: 2, asns: a.to_vec() };
    let w1 = Upd { aspath: Some(vec![seq(&[65000, 200])]), comms: Some(vec![0xFFFFFF01, 0xfde80001]), lcomms: Some(vec![(65000, 1, 2)]), reach: vec![1, 2], unreach: vec![3], mp_reach: Some(Mp { fam: 2, nlri: vec![4, 5, 6] }), ..Upd::default() };
    let w2 = Upd { aspath: Some(vec![seq(&[65000, 200]), Seg { kind: 1, asns: vec![1, 2] }]), reach: vec![1], ..Upd::default() };
    let w3 = Upd { aspath: Some(vec![seq(&[65000]), seq(&[200])]), reach: vec![1], ..Upd::default() };
    let w4 = Upd { aspath: Some(vec![Seg { kind: 3, asns: vec![64512] }, seq(&[200])]), four: false, reach: vec![1], ..Upd::default() };
    for w in [&w1, &w2, &w3, &w4] {
        e.m_bgp(w, (65000, 1, 2), 200);
        e.m_bmp(&BmpIn { kind: Kind::RouteMon, pph_asn: 65000, bad: false, upd: (*w).clone() }, (65000, 1, 2), 200);
        e.m_bmp(&BmpIn { kind: Kind::PeerDown, pph_asn: 65000, bad: false, upd: (*w).clone() }, (65000, 1, 2), 200);
        e.m_rib(w, 0, (65000, 1, 2), 200);
    }

    // ---- witnesses of the two LogEntry counterexample theorems; they decide the variants
    let rm = BmpIn { kind: Kind::RouteMon, pph_asn: 65000, bad: false, upd: w1.clone() };
    let got = e.l_case("bmp", &[Op::LogAll, Op::Write, Op::PeerAs, Op::Write], &rm.tok());
    let second_ts = got.as_ref().and_then(|g| match g.get(1) { Some(Out::Entry(x)) => Some(x.ts), _ => None }).unwrap_or(false);
    e.rec.variant("take_entry", if second_ts { "repaired" } else { "as-written" });
    e.h_bmp(&[Op::LogAll, Op::Write, Op::PeerAs, Op::Write], &rm);
    // rib-in-pre: the announced route composes "x" and does not write; the withdrawn route writes
    let wr = Upd { aspath: Some(vec![seq(&[65000, 200])]), reach: vec![1], unreach: vec![2], ..Upd::default() };
    let got = e.h_rib(&[Op::Custom("x".into())], &[Op::Write], &wr);
    let leaked = got.as_ref().map(|g| g.iter().flatten().any(|(_, o)| matches!(o, Out::Entry(x) if x.cs.is_some()))).unwrap_or(false);
    e.rec.variant("rib_stream", if leaked { "per-update" } else { "per-route" });

    // sessions: message 1 (tagged) composes "x" without writing, message 2 (untagged) only writes
    let marker = Op::LogCustom(7, 7);
    let tagged = Upd { aspath: Some(vec![seq(&[65000, TAG])]), reach: vec![1], ..Upd::default() };
    let plain = Upd { aspath: Some(vec![seq(&[65000, 200])]), reach: vec![2], ..Upd::default() };
    let leak_in = |g: &Option<Vec<Vec<(String, Out)>>>| g.as_ref().map(|g| g.iter().skip(1).flatten().any(|(_, o)| matches!(o, Out::Entry(x) if x.cs.is_some()))).unwrap_or(false);
    let g1 = e.s_bgp(&[marker.clone(), Op::Custom("x".into())], &[marker.clone(), Op::Write], &[tagged.clone(), plain.clone()]);
    let bmp_sess = |us: &[&Upd]| -> Vec<BmpIn> { let mut v = vec![BmpIn { kind: Kind::Init, pph_asn: 0, bad: false, upd: Upd::default() }, BmpIn { kind: Kind::PeerUp, pph_asn: 65000, bad: false, upd: Upd::default() }]; for u in us { v.push(BmpIn { kind: Kind::RouteMon, pph_asn: 65000, bad: false, upd: (*u).clone() }); } v };
    let g2 = e.s_bmp(&[marker.clone(), Op::Custom("x".into())], &[marker.clone(), Op::Write], &bmp_sess(&[&tagged, &plain]));
    e.rec.variant("msg_stream_bgp", if leak_in(&g1) { "per-session" } else { "per-message" });
    e.rec.variant("msg_stream_bmp", if leak_in(&g2) { "per-session" } else { "per-message" });

    let mut g = Gen { rng: Rng::new(args.seed) };
    let ns = if args.thorough { 1500 } else { 240 };
    for k in 0..ns {
        let bmp = k % 2 == 1;
        let (a, b) = g.session_ops(bmp);
        let four = !g.rng.chance(1, 4);
        let n = g.rng.range(2, 6);
        let us: Vec<Upd> = (0..n).map(|_| { let t = g.rng.chance(1, 2); g.upd_tagged(four, t) }).collect();
        if bmp { let mut v = bmp_sess(&us.iter().collect::<Vec<_>>()); for i in v.iter_mut() { i.upd.four = four; } e.s_bmp(&a, &b, &v); } else { e.s_bgp(&a, &b, &us); }
    }
    let nl = if args.thorough { 6000 } else { 900 };
    for k in 0..nl {
        let u = g.upd();
        match k % 6 {
            0 => { let ops = g.ops(false); e.l_case("bgp", &ops, &u.tok()); }
            1 => { let ops = g.ops(false); let nr = u.reach.len() + u.unreach.len() + u.mp_reach.as_ref().map(|m| m.nlri.len()).unwrap_or(0) + u.mp_unreach.as_ref().map(|m| m.nlri.len()).unwrap_or(0); if nr > 0 { let idx = g.rng.below(nr as u64); e.l_case("rib", &ops, &format!("i={idx} {}", u.tok())); } }
            2 | 3 => { let ops = g.ops(true); let kind = g.kind(); let bad = kind == Kind::RouteMon && g.rng.chance(1, 12); let pa = g.asn(true); e.l_case("bmp", &ops, &BmpIn { kind, pph_asn: pa, bad, upd: u }.tok()); }
            4 => { let ops = g.ops(true); let kind = g.kind(); let pa = g.asn(true); e.h_bmp(&ops, &BmpIn { kind, pph_asn: pa, bad: false, upd: u }); }
            _ => { let a = g.ops(false); let w = g.ops(false); e.h_rib(&a, &w, &u); }
        }
    }
    let n = if args.thorough { 120000 } else { 12000 };
    for k in 0..n {
        let u = g.upd();
        let ql = g.ql(&u); let qa = g.qa(&u);
        match k % 3 {
            0 => e.m_bgp(&u, ql, qa),
            1 => { let kind = g.kind(); let bad = kind == Kind::RouteMon && g.rng.chance(1, 12); let pa = g.asn(true); e.m_bmp(&BmpIn { kind, pph_asn: pa, bad, upd: u }, ql, qa) }
            _ => { let nr = u.reach.len() + u.unreach.len() + u.mp_reach.as_ref().map(|m| m.nlri.len()).unwrap_or(0) + u.mp_unreach.as_ref().map(|m| m.nlri.len()).unwrap_or(0); if nr > 0 { let idx = g.rng.below(nr as u64) as usize; e.m_rib(&u, idx, ql, qa) } }
        }
    }
    let _ = IpAddr::V4(Ipv4Addr::LOCALHOST);
    e.rec.finish(&args, t0.elapsed().as_secs_f64());
}
