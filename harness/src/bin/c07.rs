//! C07 engine: every way a BMP session can end, on the real code.
//!
//! * `cut` cases: a generated valid multi-message BMP stream (Initiation, 2-4 Peer Ups, route
//!   traffic, optional Peer Down / Termination) is cut at EVERY byte offset — end of input, an
//!   `io::Error` of each kind (non-fatal kinds are followed by the rest of the stream), or gate
//!   termination — through a failing in-memory reader into the real
//!   `RouterHandler::read_from_router` (real gate, state machine, ingress register). Observation:
//!   the withdraw-ish `Update`s that left the gate, in order, and how the task ended.
//! * `tcp` cases: the real `BmpTcpInRunner::accept_config` (spawned task + removal from the router
//!   maps) on a loopback TCP connection: clean close, reset, close mid-message, malformed framing,
//!   Termination then close, Termination then silence, unit shutdown. Observation additionally:
//!   router-list membership.
//! Oracle (no Lean model involved): once the session has ended, the updates end with
//! `WithdrawBulk(ids) , EndOfStream(router)`, exactly one end-of-stream, `ids` = the register's
//! children of the router ⊇ every id withdrawn or brought up before, router gone from the maps;
//! a Termination message must end the session.
use std::io::ErrorKind;
use std::sync::atomic::Ordering::SeqCst;
use std::sync::Arc;
use std::time::{Duration, Instant};

use rotonda::payload::{Update, UpstreamStatus};
use rotonda::verif::bmp_io as hooks;
use verif_harness::bmpio::*;
use verif_harness::{join, parse_args, rng::Rng, Recorder};

const WATCHDOG: Duration = Duration::from_secs(10);
const IDLE_WAIT: Duration = Duration::from_millis(40);

fn show_updates(us: &[Update]) -> (String, Vec<String>) {
    let mut v = vec![];
    for u in us {
        match u {
            Update::Withdraw(id, _) => v.push(format!("W{}", id)),
            Update::WithdrawBulk(ids) => { let mut ids: Vec<u32> = ids.iter().copied().collect(); ids.sort(); v.push(format!("B[{}]", join(ids.iter(), ","))); }
            Update::UpstreamStatusChange(UpstreamStatus::EndOfStream { ingress_id }) => v.push(format!("E{}", ingress_id)),
            _ => {}
        }
    }
    (if v.is_empty() { "-".into() } else { v.join(" ") }, v)
}

struct Obs { outs: String, toks: Vec<String>, end: &'static str, site: String, in_list: Option<bool>, children: Vec<u32>, router: u32, msgs: u64 }

/// `read_from_router` on a scripted reader.
async fn run_cut(script: Script, chunk_seed: u64) -> Obs {
    let idle = script.iter().any(|i| matches!(i, Item::Idle));
    let (mut sess, gate) = hooks::Session::new("127.0.0.1:11019".parse().unwrap());
    let unit = tokio::spawn(async move { while gate.process().await.is_ok() {} drop(gate); });
    let _ = sess.link.connect(false).await;
    let sess = Arc::new(sess);
    let (reader, shared) = ScriptReader::new(&script, chunk_seed, None);
    let term = {
        let agent = sess.agent.clone();
        let sh = shared.clone();
        tokio::spawn(async move { sh.want_term.notified().await; tokio::time::sleep(Duration::from_millis(3)).await; agent.terminate().await; })
    };
    let s2 = sess.clone();
    let h = tokio::spawn(async move { s2.read_from_router(reader).await });
    let id = h.id();
    let ab = h.abort_handle();
    let _ = idle;
    let (end, site) = tokio::select! {
        r = tokio::time::timeout(WATCHDOG, h) => match r {
            Ok(Ok(())) => ("done", String::new()),
            Ok(Err(e)) if e.is_panic() => ("panic", take_panic(id)),
            Ok(Err(_)) => ("cancelled", String::new()),
            Err(_) => { ab.abort(); ("hang", String::new()) }
        },
        _ = shared.spinning.notified() => { ab.abort(); ("hang", "keeps reading after end of input".to_string()) }
        // the reader parked on a silent connection: everything before is processed; if the task is
        // still there a little later it is waiting for bytes
        _ = async { shared.idle_reached.notified().await; tokio::time::sleep(IDLE_WAIT).await; } => { ab.abort(); ("waiting", String::new()) }
    };
    term.abort();
    let msgs = metric_sum(&sess.metrics_text(), "num_bmp_messages_received");
    let (outs, toks) = show_updates(&sess.updates());
    let children = sess.children();
    let router = sess.router_ingress_id;
    sess.agent.terminate().await;
    let _ = tokio::time::timeout(Duration::from_secs(2), unit).await;
    Obs { outs, toks, end, site, in_list: None, children, router, msgs }
}

/// The real `accept_config` on a loopback TCP connection. The script may contain data, then one of:
/// nothing (clean close), `Fault(ConnectionReset)` (RST), `Term` (unit shutdown), `Idle` (stay open).
async fn run_tcp(script: Script) -> Obs {
    use tokio::io::AsyncWriteExt;
    let listener = tokio::net::TcpListener::bind("127.0.0.1:0").await.expect("loopback bind");
    let addr = listener.local_addr().unwrap();
    let client = tokio::spawn(async move { tokio::net::TcpStream::connect(addr).await.expect("loopback connect") });
    let (server, peer_addr) = listener.accept().await.expect("accept");
    let mut client = client.await.unwrap();
    let (mut sess, gate) = hooks::Session::new(peer_addr);
    let unit = tokio::spawn(async move { while gate.process().await.is_ok() {} drop(gate); });
    let _ = sess.link.connect(false).await;
    tokio::time::sleep(Duration::from_millis(3)).await; // let the gate clones attach (see c06.rs)
    sess.accept(server);
    let mut last = "close";
    for it in &script {
        match it {
            Item::Data(d) => { let _ = client.write_all(d).await; }
            Item::Zeros(n) => { let _ = client.write_all(&vec![0u8; *n]).await; }
            Item::Fault(_) => { last = "reset"; break; }
            Item::Term => { last = "term"; break; }
            Item::Idle => { last = "idle"; break; }
        }
    }
    let _ = client.flush().await;
    // let the receiver drain the socket before the connection-level event (a RST discards unread
    // data): wait until its message counter and the updates seen downstream stop changing
    {
        let mut last_seen = (u64::MAX, usize::MAX);
        let mut stable = 0;
        let t = Instant::now();
        while stable < 6 && t.elapsed() < Duration::from_secs(3) {
            tokio::time::sleep(Duration::from_millis(10)).await;
            let now = (metric_sum(&sess.metrics_text(), "num_bmp_messages_received") + metric_sum(&sess.metrics_text(), "num_receive_io_errors"), sess.updates().len());
            if now == last_seen { stable += 1; } else { stable = 0; last_seen = now; }
        }
    }
    let mut keep = None;
    match last {
        "close" => { let _ = client.shutdown().await; drop(client); }
        "reset" => { let _ = client.set_linger(Some(Duration::from_secs(0))); drop(client); }
        "term" => { sess.agent.terminate().await; keep = Some(client); }
        _ => { keep = Some(client); }
    }
    // the session is over when the router left the maps; a panicked task never removes it
    let t0 = Instant::now();
    let limit = if last == "idle" { Duration::from_millis(150) } else { Duration::from_secs(3) };
    let mut gone = false;
    let mut half_gone_since: Option<Instant> = None;
    while t0.elapsed() < limit {
        let (a, b) = sess.in_router_list();
        if !a && !b { gone = true; break; }
        // removed from one map only: the task is past `run`; give it a moment, then report that
        if a != b {
            let since = *half_gone_since.get_or_insert_with(Instant::now);
            if since.elapsed() > Duration::from_millis(100) { break; }
        }
        tokio::time::sleep(Duration::from_millis(5)).await;
    }
    let half_gone = half_gone_since.is_some() && !gone;
    tokio::time::sleep(Duration::from_millis(10)).await;
    let (outs, toks) = show_updates(&sess.updates());
    let panicked = last_thread_panic();
    let end = if gone || half_gone { "done" } else if !panicked.is_empty() { "panic" } else if last == "idle" { "waiting" } else { "hang" };
    let msgs = metric_sum(&sess.metrics_text(), "num_bmp_messages_received");
    let children = sess.children();
    let router = sess.router_ingress_id;
    drop(keep);
    sess.agent.terminate().await;
    let _ = tokio::time::timeout(Duration::from_secs(2), unit).await;
    Obs { outs, toks, end, site: panicked, in_list: Some(!gone), children, router, msgs }
}

/// tcp cases run one at a time: a panic recorded since the case started belongs to it.
fn last_thread_panic() -> String { verif_harness::bmpio::take_any_panic() }

// -------------------------------------------------------------------- bgp

/// The real `Processor::process` (bgp_tcp_in) with a scripted session: events `neg` (session
/// negotiated), `dup` (a second SessionNegotiated for the same peer), `upd`, `lost`, `closed`
/// (session channel closed), `term` (unit's gate terminated).
async fn run_bgp(evs: Vec<String>) -> (String, bool, bool, u32) {
    use rotonda::verif::bgp_io as bgp;
    use std::str::FromStr;
    let mut h = bgp::start();
    let collector = Arc::new(hooks::Collector::default());
    h.link.set_direct_update_target(collector.clone());
    let _ = h.link.connect(false).await;
    let addr: std::net::SocketAddr = "1.2.3.4:12345".parse().unwrap();
    for e in &evs {
        let tx = h.sess_tx.clone();
        match e.as_str() {
            "neg" | "dup" => {
                h.negotiated.store(true, SeqCst);
                if let Some(tx) = &tx { let _ = tx.send(bgp::SessionMessage::SessionNegotiated(bgp::Negotiated::dummy())).await; }
            }
            "upd" => {
                let ann = rotonda::bgp::encode::Announcements::from_str("e [65001,100] 10.0.0.1 BLACKHOLE,123:44 127.0.7.0/24").unwrap();
                let bytes = rotonda::bgp::encode::mk_bgp_update(&rotonda::bgp::encode::Prefixes::default(), &ann, &[]);
                let msg = routecore::bgp::message::UpdateMessage::from_octets(bytes, &routecore::bgp::message::SessionConfig::modern()).unwrap();
                if let Some(tx) = &tx { let _ = tx.send(bgp::SessionMessage::UpdateMessage(msg)).await; }
            }
            "lost" => { if let Some(tx) = &tx { let _ = tx.send(bgp::SessionMessage::ConnectionLost(Some(addr))).await; } }
            "closed" => { h.sess_tx = None; }
            "term" => { h.agent.terminate().await; }
            _ => {}
        }
        drop(tx);
        tokio::time::sleep(Duration::from_millis(8)).await; // the gate and the session channel are separate queues
    }
    let t = Instant::now();
    while !h.task.is_finished() && t.elapsed() < Duration::from_millis(200) { tokio::time::sleep(Duration::from_millis(5)).await; }
    let ended = h.task.is_finished();
    let key = (addr.ip(), inetnum::asn::Asn::from_u32(12345));
    let live = h.live_sessions.lock().unwrap().contains_key(&key);
    let (outs, _) = show_updates(&collector.updates.lock().unwrap());
    if !ended { h.task.abort(); }
    (outs, ended, live, h.ingress_id)
}

// ------------------------------------------------------------------ tokens

/// `k` applied to the per-peer header of a Peer Up / Peer Down frame.
fn with_pph<R>(f: &[u8], k: impl FnOnce(routecore::bmp::message::PerPeerHeader<&[u8]>) -> R) -> Option<R> {
    use routecore::bmp::message::Message as M;
    match M::from_octets(f).ok()? {
        M::PeerUpNotification(x) => Some(k(x.per_peer_header())),
        M::PeerDownNotification(x) => Some(k(x.per_peer_header())),
        _ => None,
    }
}

/// Do two Peer Up / Peer Down frames name the same peer for `PeerStates` (routecore's own `Eq`)?
fn same_peer(a: &[u8], b: &[u8]) -> bool {
    with_pph(a, |pa| with_pph(b, |pb| pa == pb).unwrap_or(false)).unwrap_or(false)
}

/// Classify every completely read frame with the real parser (what the model takes as input).
fn tokens(script: &Script, fatal: &dyn Fn(ErrorKind) -> bool) -> (String, String, bool, bool) {
    use routecore::bmp::message::Message as M;
    let w = walk(script, fatal);
    let mut pkeys: Vec<Vec<u8>> = vec![];
    let mut qkeys: Vec<String> = vec![];
    let mut toks = vec![];
    let mut valid = String::new();
    let mut saw_term = false;
    for f in &w.frames {
        let v = parser_verdict(f);
        valid.push(v);
        if v != '1' { toks.push("-".to_string()); continue; }
        let m = M::from_octets(&f[..]).unwrap();
        let mut pq = |pph: routecore::bmp::message::PerPeerHeader<&[u8]>| -> (usize, usize) {
            // `p` = the class of this header under the real `PerPeerHeader` `Eq` (the key of `PeerStates`'
            // HashMap), decided by the real `==` against one representative frame per class. NOT the raw
            // 34 header bytes: `address()` of an IPv4 header (V flag clear) reads only the last 4 of the
            // 16 address bytes, so headers that differ in the 12 unused bytes are the same peer.
            let p = match pkeys.iter().position(|k| same_peer(k, f)) { Some(i) => i, None => { pkeys.push(f.to_vec()); pkeys.len() - 1 } };
            let qk = format!("{}|{}|{:?}", pph.address(), pph.asn(), pph.rib_type());
            let q = match qkeys.iter().position(|k| *k == qk) { Some(i) => i, None => { qkeys.push(qk); qkeys.len() - 1 } };
            (p + 1, q + 1)
        };
        toks.push(match &m {
            M::InitiationMessage(_) => "I".to_string(),
            M::PeerUpNotification(x) => { let (p, q) = pq(x.per_peer_header()); format!("U.{}.{}", p, q) }
            M::PeerDownNotification(x) => { let (p, _) = pq(x.per_peer_header()); format!("D.{}", p) }
            M::TerminationMessage(_) => { saw_term = true; "T".to_string() }
            _ => "O".to_string(),
        });
    }
    (if valid.is_empty() { "-".into() } else { valid }, if toks.is_empty() { "-".into() } else { toks.join(" ") }, w.short_len, saw_term)
}

// ------------------------------------------------------------------ oracle

fn oracle(o: &Obs, short_len: bool, term_then_idle: bool) -> String {
    match o.end {
        "panic" => {
            let cls = if panic_file(&o.site) == "bmp_tcp_in/io.rs" && short_len { "bmp_read-declared-length-below-5".to_string() } else { sanitize(&panic_signature(&o.site).replace("panic:", "")) };
            return format!("fail no-cleanup:task-panicked:{} the session's task unwound: no session-wide withdrawal, no end-of-stream{} ({})", cls, if o.in_list == Some(true) { ", router still listed" } else { "" }, sanitize(&o.site));
        }
        "hang" => return format!("fail hang {}", if o.site.is_empty() { "the session did not end within the watchdog".to_string() } else { sanitize(&o.site) }),
        "cancelled" => return "fail cancelled".into(),
        "waiting" => {
            if term_then_idle {
                return "fail termination:session-stays-open after a Termination message the receiver keeps reading: no end-of-stream, router still listed".into();
            }
            return "ok".into();
        }
        _ => {}
    }
    let n = o.toks.len();
    let eos = o.toks.iter().filter(|t| t.starts_with('E')).count();
    let want_b = format!("B[{}]", join(o.children.iter(), ","));
    if n < 2 || o.toks[n - 1] != format!("E{}", o.router) || o.toks[n - 2] != want_b {
        return format!("fail cleanup-incomplete:wrong-tail expected `{} E{}` last, got `{}`", want_b, o.router, o.outs);
    }
    if eos != 1 { return format!("fail cleanup-incomplete:end-of-stream-count {} end-of-stream notices", eos); }
    // every id withdrawn earlier is covered by the final session-wide withdrawal
    for t in &o.toks[..n - 2] {
        let ids: Vec<u32> = t.trim_start_matches(|c| c == 'W' || c == 'B' || c == '[').trim_end_matches(']').split(',').filter_map(|x| x.parse().ok()).collect();
        if ids.iter().any(|i| !o.children.contains(i)) { return format!("fail cleanup-incomplete:peer-not-covered {} not within {}", t, want_b); }
    }
    if o.in_list == Some(true) { return "fail cleanup-incomplete:router-still-listed".into(); }
    "ok".into()
}

// -------------------------------------------------------------- generators

fn gen_stream(g: &mut Rng, with_term: bool) -> Vec<Vec<u8>> {
    let mut v = vec![initiation()];
    let np = g.range(2, 4) as usize;
    for i in 0..np { v.push(peer_up(i)); }
    for n in 0..g.range(2, 5) {
        let p = g.below(np as u64) as usize;
        match g.below(5) {
            0 => v.push(statistics(p)),
            _ => v.push(route_monitoring(p, n as usize)),
        }
    }
    if g.chance(1, 2) { v.push(peer_down(g.below(np as u64) as usize)); v.push(route_monitoring(0, 9)); }
    if with_term { v.push(if g.chance(1, 2) { termination() } else { termination_variant(g.below(N_TERMINATION_VARIANTS)) }); }
    if g.chance(1, 5) { v[0] = initiation_variant(g.below(N_INITIATION_VARIANTS)); }
    v
}

fn record_bgp(rec: &mut Recorder, evs: &[String], outs: String, ended: bool, live: bool, id: u32) {
    let line = format!("bgp|{}|{}", id, evs.join(" "));
    let imp = format!("{} ended={} live={}", outs, ended, live);
    let negotiated = evs.iter().any(|e| e == "neg");
    let orc = if ended && negotiated && !outs.split(' ').any(|t| t.starts_with('E')) {
        "fail bgp:no-end-of-stream the BGP session ended without an end-of-stream notice".to_string()
    } else { "ok".to_string() };
    rec.bump("bgp.cases");
    rec.case(line, imp, orc, negotiated);
}

fn main() {
    let args = parse_args();
    let t0 = Instant::now();
    install_panic_recorder();
    let rt = tokio::runtime::Builder::new_multi_thread().worker_threads(24).enable_all().build().unwrap();
    let mut rec = Recorder::new("cut: a generated valid BMP stream (Initiation, 2-4 Peer Ups, 2-5 route/statistics messages, optional Peer Down, optional Termination) cut at every byte offset with end-of-input, each io::ErrorKind of the tier's list (non-fatal kinds followed by the rest of the stream) and gate termination, through the real read_from_router; the same around a 4-66 KiB message (boundaries, every 4 KiB multiple, last bytes, random offsets) and at the end of long sessions of rejected messages; tcp: the real accept_config on a loopback connection (close, reset, close mid-message, malformed framing, Termination then close / silence, unit shutdown); non-trivial = at least one Peer Up was processed before the end (there is something to withdraw); distinct = distinct case lines");
    let fatal = |k: ErrorKind| hooks::is_fatal(k);

    let record = |rec: &mut Recorder, kind: &str, script: &Script, o: Obs| {
        let (valid, toks, short, saw_term) = tokens(script, &fatal);
        let term_then_idle = saw_term && script.iter().any(|i| matches!(i, Item::Idle));
        let mut line = format!("{}|{}|{}|{}|{}.{}", kind, show_script(script), valid, toks, o.router, o.router + 1);
        if o.end == "panic" && panic_file(&o.site) != "bmp_tcp_in/io.rs" && !valid.contains('p') && o.msgs > 0 { line.push_str(&format!("|crash={}", o.msgs - 1)); }
        let imp = match o.in_list { Some(l) => format!("{} end={} list={}", o.outs, o.end, if l { 1 } else { 0 }), None => format!("{} end={}", o.outs, o.end) };
        let orc = oracle(&o, short, term_then_idle);
        rec.bump(&format!("{}.end.{}", kind, o.end));
        let nontrivial = toks.contains("U.");
        rec.case(line, imp, orc, nontrivial);
    };

    if let Some(path) = &args.replay {
        for line in verif_harness::replay_cases(path) {
            let parts: Vec<&str> = line.split('|').collect();
            let script = parse_script(parts[1]);
            if parts[0] == "bgp" {
                let evs: Vec<String> = parts[2].split_whitespace().map(|x| x.to_string()).collect();
                let (outs, ended, live, id) = rt.block_on(run_bgp(evs.clone()));
                record_bgp(&mut rec, &evs, outs, ended, live, id);
            } else if parts[0] == "tcp" { let o = rt.block_on(run_tcp(script.clone())); record(&mut rec, "tcp", &script, o); }
            else if parts[0] == "cut" { let o = rt.block_on(run_cut(script.clone(), args.seed)); record(&mut rec, "cut", &script, o); }
        }
        rec.finish(&args, t0.elapsed().as_secs_f64());
        return;
    }

    let mut g = Rng::new(args.seed);

    // 0. witnesses first: the counterexample of `C07_bmp_counterexample` (decides the variant) and of
    //    `C07_termination_does_not_end_session`
    let w: Script = vec![Item::Data(initiation()), Item::Data(peer_up(0)), Item::Data(vec![3, 0, 0, 0, 0])];
    let o = rt.block_on(run_cut(w.clone(), 1));
    let witness_panics = o.end == "panic";
    record(&mut rec, "cut", &w, o);
    let mut minlen = 0usize;
    if !witness_panics {
        for l in 0u32..12 {
            let mut s = vec![Item::Data({ let mut v = vec![3u8]; v.extend(l.to_be_bytes()); v })];
            if l > 5 { s.push(Item::Zeros(l as usize - 5)); }
            let (reader, _) = ScriptReader::new(&s, 1, None);
            let r = rt.block_on(async { tokio::spawn(async move { match hooks::bmp_read_once(reader).await { Err((_, e)) => e.kind() == ErrorKind::InvalidData && e.get_ref().is_some(), _ => false } }).await.unwrap_or(false) });
            if r { minlen = l as usize + 1; } else { break; }
        }
    }
    rec.variant("minlen", &minlen.to_string());
    let o = rt.block_on(run_tcp(w.clone()));
    record(&mut rec, "tcp", &w, o);
    let tw: Script = vec![Item::Data(initiation()), Item::Data(peer_up(0)), Item::Data(termination()), Item::Idle];
    let o = rt.block_on(run_cut(tw.clone(), 1));
    rec.variant("term", if o.end == "done" { "repaired" } else { "as-written" });
    record(&mut rec, "cut", &tw, o);
    let o = rt.block_on(run_tcp(tw.clone()));
    record(&mut rec, "tcp", &tw, o);

    // 0b. corpus (false alarm of session 4, minimised from five thorough-tier long sessions): a Peer Up
    //     whose IPv4 per-peer header carries stray bytes in the 12 unused octets of the 16-octet address
    //     field is the SAME `PeerStates` key as the clean header (routecore's `Eq`/`Hash` go through
    //     `address()`), so a later clean Peer Down removes it (`W<id>`); with the V flag set the octets count.
    let dirty = |mut m: Vec<u8>, edits: &[(usize, u8)]| -> Vec<u8> { for (i, b) in edits { m[*i] = *b; } m };
    let corpus: Vec<Script> = vec![
        vec![Item::Data(initiation()), Item::Data(dirty(peer_up(1), &[(19, 0x4b), (22, 0x49), (45, 0xdb)])), Item::Data(peer_down(1))],
        vec![Item::Data(initiation()), Item::Data(dirty(peer_up(0), &[(17, 0x52)])), Item::Data(peer_down(0))],
        vec![Item::Data(initiation()), Item::Data(dirty(peer_up(1), &[(16, 0xe4)])), Item::Data(peer_down(1))],
        vec![Item::Data(initiation()), Item::Data(dirty(peer_up(2), &[(20, 0x47)])), Item::Data(peer_down(2))],
        vec![Item::Data(initiation()), Item::Data(dirty(peer_up(2), &[(17, 0xbd), (45, 0x27), (47, 0x62)])), Item::Data(peer_down(2))],
        // the other way round, a repeated Peer Up under the other spelling, a reset at the end
        vec![Item::Data(initiation()), Item::Data(peer_up(0)), Item::Data(dirty(peer_down(0), &[(18, 0x99)]))],
        vec![Item::Data(initiation()), Item::Data(peer_up(0)), Item::Data(dirty(peer_up(0), &[(27, 0x01)])), Item::Data(peer_down(0)), Item::Data(peer_down(0))],
        vec![Item::Data(initiation()), Item::Data(dirty(peer_up(1), &[(16, 0xe4)])), Item::Data(peer_up(0)), Item::Data(peer_down(1)), Item::Fault(ErrorKind::ConnectionReset)],
        // contrast: IPv6 header (V flag): the same octets are part of the address, two different peers
        vec![Item::Data(initiation()), Item::Data(dirty(peer_up(0), &[(7, 0x80), (17, 0x52)])), Item::Data(dirty(peer_down(0), &[(7, 0x80)]))],
        // contrast: a differing distinguisher octet is a different peer
        vec![Item::Data(initiation()), Item::Data(dirty(peer_up(0), &[(15, 0xc9)])), Item::Data(peer_down(0))],
    ];
    for (i, s) in corpus.iter().enumerate() {
        rec.bump("cut.corpus.header-spelling");
        let o = rt.block_on(run_cut(s.clone(), 1));
        record(&mut rec, "cut", s, o);
        if i == 0 || i == 7 { let o = rt.block_on(run_tcp(s.clone())); record(&mut rec, "tcp", s, o); }
    }

    // 1. tcp: the ways a real connection ends
    let base = gen_stream(&mut g, false);
    let all: Vec<u8> = base.concat();
    let mut tcp_cases: Vec<Script> = vec![];
    tcp_cases.push(vec![Item::Data(all.clone())]);                                           // clean close
    tcp_cases.push(vec![Item::Data(all.clone()), Item::Fault(ErrorKind::ConnectionReset)]);  // reset
    tcp_cases.push(vec![Item::Data(all.clone()), Item::Term]);                               // unit shutdown
    tcp_cases.push(vec![Item::Data(all.clone()), Item::Idle]);                               // still open
    tcp_cases.push(vec![Item::Data(all.clone()), Item::Data(termination())]);                // Termination, close
    tcp_cases.push(vec![]);                                                                  // connect, close
    let ncut = if args.thorough { 24 } else { 8 };
    for _ in 0..ncut { let c = g.range(1, all.len() as u64 - 1) as usize; tcp_cases.push(vec![Item::Data(all[..c].to_vec())]); }            // close mid-message
    for _ in 0..ncut / 2 { let c = g.range(1, all.len() as u64 - 1) as usize; tcp_cases.push(vec![Item::Data(all[..c].to_vec()), Item::Fault(ErrorKind::ConnectionReset)]); }
    tcp_cases.push(vec![Item::Data(all.clone()), Item::Data(vec![3, 0, 0, 0, 4])]);          // malformed framing
    tcp_cases.push(vec![Item::Data(all.clone()), Item::Data(vec![3, 0, 0, 0, 9, 9, 9, 9, 9])]); // unparsable message, close
    for s in tcp_cases { let o = rt.block_on(run_tcp(s.clone())); record(&mut rec, "tcp", &s, o); }

    // 1b. the BGP processor with a scripted session (the routecore FSM replaced by its messages)
    let mut bgp_cases: Vec<Vec<&str>> = vec![
        vec!["neg", "upd", "lost"], vec!["neg", "lost"], vec!["neg", "upd", "upd", "closed"], vec!["lost"], vec!["closed"],
        vec!["neg", "term"], vec!["neg", "upd", "term", "lost"], vec!["neg", "dup"], vec!["upd"], vec!["neg", "term", "upd", "closed"],
    ];
    for _ in 0..(if args.thorough { 60 } else { 10 }) {
        let mut v = vec![];
        if g.chance(4, 5) { v.push("neg"); }
        for _ in 0..g.below(4) { v.push(*g.pick(&["upd", "upd", "term"])); }
        v.push(*g.pick(&["lost", "closed", "lost", "dup"]));
        if v.contains(&"dup") && !v.contains(&"neg") { v.insert(0, "neg"); }
        bgp_cases.push(v);
    }
    for evs in bgp_cases {
        let evs: Vec<String> = evs.iter().map(|x| x.to_string()).collect();
        let (outs, ended, live, id) = rt.block_on(run_bgp(evs.clone()));
        record_bgp(&mut rec, &evs, outs, ended, live, id);
    }

    // 2. cut: every offset x every way
    let kinds: Vec<ErrorKind> = if args.thorough { NAMED_KINDS.iter().chain(UNLISTED_KINDS.iter()).map(|e| e.1).collect() }
        else { vec![ErrorKind::ConnectionReset, ErrorKind::Interrupted, ErrorKind::TimedOut, ErrorKind::BrokenPipe] };
    let nstreams = if args.thorough { 8 } else { 1 };
    let mut jobs: Vec<Script> = vec![];
    for si in 0..nstreams {
        let msgs = gen_stream(&mut g, si % 2 == 1);
        let all: Vec<u8> = msgs.concat();
        rec.bump_by("cut.stream-bytes", all.len() as u64);
        for c in 0..=all.len() {
            jobs.push(vec![Item::Data(all[..c].to_vec())]);                                   // end of input at c
            for k in &kinds { jobs.push(vec![Item::Data(all[..c].to_vec()), Item::Fault(*k), Item::Data(all[c..].to_vec())]); }
            jobs.push(vec![Item::Data(all[..c].to_vec()), Item::Term, Item::Data(all[c..].to_vec())]); // unit shutdown at c
            if c % 64 == 7 { jobs.push(vec![Item::Data(all[..c].to_vec()), Item::Idle]); }     // silence at c (sampled: each costs a wait)
        }
    }
    // 3. messages far larger than one read buffer, and long sessions of rejected messages: cut at the
    //    message boundaries, around every 4 KiB multiple, in the last bytes and at random offsets
    let nbig = if args.thorough { 6 } else { 2 };
    for bi in 0..nbig {
        let size = match bi { 0 => 4200, 1 => 9000, 2 => 66000, _ => g.range(4097, 70000) as usize };
        let mut msgs = vec![initiation(), peer_up(0), peer_up(1), route_monitoring(0, 1)];
        msgs.push(big_initiation(size));
        msgs.push(route_monitoring(1, 2));
        let all: Vec<u8> = msgs.concat();
        let start: usize = msgs[..4].iter().map(|m| m.len()).sum();
        let end = start + msgs[4].len();
        let mut offs: Vec<usize> = vec![start, start + 1, start + 5, start + 6, end - 1, end, end + 1, all.len()];
        let mut k = 4096; while start + k < end + 2 { for d in [-1i64, 0, 1] { offs.push((start as i64 + k as i64 + d) as usize); } k += 4096; }
        for d in 2..12 { offs.push(end - d); }
        for _ in 0..(if args.thorough { 60 } else { 16 }) { offs.push(g.range(start as u64, end as u64) as usize); }
        offs.sort(); offs.dedup();
        rec.bump_by("cut.big-message-offsets", offs.len() as u64);
        for c in offs { if c > all.len() { continue; }
            jobs.push(vec![Item::Data(all[..c].to_vec())]);
            jobs.push(vec![Item::Data(all[..c].to_vec()), Item::Fault(ErrorKind::ConnectionReset), Item::Data(all[c..].to_vec())]);
            jobs.push(vec![Item::Data(all[..c].to_vec()), Item::Term, Item::Data(all[c..].to_vec())]);
        }
    }
    for _ in 0..(if args.thorough { 400 } else { 60 }) {
        let mut msgs = vec![initiation(), peer_up(0), peer_up(1)];
        msgs.extend(long_stream(&mut g).into_iter().skip(1));
        let all: Vec<u8> = msgs.concat();
        rec.bump("cut.long-invalid-session");
        match g.below(3) {
            0 => jobs.push(vec![Item::Data(all)]),
            1 => jobs.push(vec![Item::Data(all), Item::Fault(ErrorKind::ConnectionReset)]),
            _ => { let c = g.range(all.len() as u64 / 2, all.len() as u64) as usize; jobs.push(vec![Item::Data(all[..c].to_vec())]); }
        }
    }
    // whole sessions built from every legal variant of every message kind (TLV shapes of Initiation / Termination /
    // Peer Up, every Peer Down reason, Statistics and Route Mirroring bodies), ended in each way: the base streams
    // above are few (each is cut at every byte), these are many and differ in what the messages look like
    for _ in 0..(if args.thorough { 2500 } else { 300 }) {
        let mut msgs = vec![match g.below(5) { 0 | 1 => initiation(), 2 | 3 => initiation_variant(g.below(N_INITIATION_VARIANTS)), _ => initiation_long(&mut g) }];
        let np = g.range(1, 3) as usize;
        for i in 0..np { msgs.push(if g.chance(2, 3) { peer_up(i) } else { peer_up_with_info(i, g.below(3)) }); }
        for n in 0..g.range(1, 5) {
            let p = g.below(np as u64) as usize;
            msgs.push(match g.below(7) {
                0 => statistics_variant(p, g.below(N_STATISTICS_VARIANTS)),
                1 => route_mirroring(p, g.below(3)),
                2 => peer_down_variant(p, g.below(N_PEER_DOWN_VARIANTS)),
                3 => peer_up_with_info(p, g.below(3)),
                _ => route_monitoring(p, n as usize),
            });
        }
        let with_term = g.chance(2, 3);
        if with_term { msgs.push(termination_variant(g.below(N_TERMINATION_VARIANTS))); }
        let all: Vec<u8> = msgs.concat();
        rec.bump(if with_term { "cut.variant-session-with-termination" } else { "cut.variant-session" });
        match g.below(4) {
            0 => jobs.push(vec![Item::Data(all)]),
            1 => jobs.push(vec![Item::Data(all), Item::Fault(ErrorKind::ConnectionReset)]),
            2 => jobs.push(vec![Item::Data(all), Item::Term]),
            _ => jobs.push(vec![Item::Data(all), Item::Data(route_monitoring(0, 77)), Item::Fault(ErrorKind::BrokenPipe)]),
        }
    }
    // runs of one rejected message kind at boundary lengths, with peers up and routes announced, then every kind of end
    for _ in 0..(if args.thorough { 600 } else { 90 }) {
        let all: Vec<u8> = run_stream(&mut g).concat();
        rec.bump("cut.rejected-run-session");
        match g.below(4) {
            0 => jobs.push(vec![Item::Data(all)]),
            1 => jobs.push(vec![Item::Data(all), Item::Fault(ErrorKind::ConnectionReset)]),
            2 => jobs.push(vec![Item::Data(all), Item::Term]),
            _ => { let c = g.range(all.len() as u64 * 3 / 4, all.len() as u64) as usize; jobs.push(vec![Item::Data(all[..c].to_vec())]); }
        }
    }
    // a non-fatal fault in the middle of a message desynchronises the framing; payload bytes are then
    // read as a length and the real code allocates and zeroes that much (up to 4 GiB) — not run
    let before = jobs.len();
    jobs.retain(|s| walk(s, &fatal).max_len <= 1 << 20);
    rec.bump_by("cut.skipped-huge-declared-length-after-desync", (before - jobs.len()) as u64);
    rec.bump_by("cut.jobs", jobs.len() as u64);
    let mut hangs = 0usize;
    for chunk in jobs.chunks(16) {
        if hangs >= 4 { rec.bump("stopped-early-after-4-hangs"); break; }
        verif_harness::journal(&chunk.iter().map(|s| format!("cut|{}", show_script(s))).collect::<Vec<_>>());
        let obs: Vec<Obs> = rt.block_on(async {
            let hs: Vec<_> = chunk.iter().enumerate().map(|(i, s)| { let s = s.clone(); tokio::spawn(async move { run_cut(s, i as u64 + 1).await }) }).collect();
            let mut out = vec![];
            for h in hs { out.push(h.await.expect("case task")); }
            out
        });
        for (s, o) in chunk.iter().zip(obs) {
            if o.end == "hang" { hangs += 1; }
            if let Some(Item::Fault(k)) = s.get(1) { rec.bump(&format!("cut.fault.{}", kind_name(*k))); }
            record(&mut rec, "cut", s, o);
        }
    }
    rec.finish(&args, t0.elapsed().as_secs_f64());
}
