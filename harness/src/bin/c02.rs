//! C02 engine: losing a session withdraws exactly that session's routes and nothing else.
//!
//! Two kinds of cases.
//! `h|<prefixes>|<events>|<scenario>`  a BMP unit with 1-3 routers x 1-3 peers on one real Register, route
//!     traffic interleaved with session ends of every kind (Peer Down, Termination, connection loss) and
//!     `Withdraw(id, Some(afi/safi))`; events = the real `Update`s that left the sources, abstracted with the
//!     ids the real code used. impl = final `T/F` per prefix as in c01 (compared with `Model/Rib.lean`).
//!     Oracle on the real code, around every session end: RIB snapshot before/after — entries of ids the
//!     event does not name are byte-identical, entries of named ids are withdrawn with unchanged attributes;
//!     the named ids contain every up peer of the ending session (completeness) and no id of a peer that is
//!     up on a *different* connection (exactness).
//! `s|<headers>|<ops>`  one router, a population of per-peer headers that differ pairwise in exactly one
//!     field, Peer Up / Peer Down ops. impl = `<k:id of every up peer> | <real ids_for_parent> | <id per Peer Down>`
//!     (compared with `Model/Session.lean`). Oracle: two up peers with different headers must have different ids.
use std::collections::{BTreeMap, HashMap};
use std::net::{IpAddr, Ipv4Addr};
use std::time::Instant;

use rotonda::payload::Update;
use verif_harness::rib::*;
use verif_harness::{join, parse_args, replay_cases, rng::Rng, Recorder};

type Snap = Vec<Vec<(u32, char, String)>>;

fn snapshot(rib: &RealRib, qs: &[Pfx]) -> Snap { qs.iter().map(|p| rib.query(p, true)).collect() }

/// Isolation judged on two snapshots of the real RIB around a session end that named `ids`.
fn isolation(before: &Snap, after: &Snap, ids: &[u32]) -> Option<String> {
    for (b, a) in before.iter().zip(after.iter()) {
        let bo: Vec<_> = b.iter().filter(|r| !ids.contains(&r.0)).collect();
        let ao: Vec<_> = a.iter().filter(|r| !ids.contains(&r.0)).collect();
        if bo != ao { return Some(format!("isolation:other-source-changed before {} after {}", show_recs(b), show_recs(a))); }
        let bn: Vec<(u32, String)> = b.iter().filter(|r| ids.contains(&r.0)).map(|r| (r.0, r.2.clone())).collect();
        let an: Vec<(u32, String)> = a.iter().filter(|r| ids.contains(&r.0)).map(|r| (r.0, r.2.clone())).collect();
        if bn != an { return Some(format!("isolation:withdrawn-source-lost-attributes before {} after {}", show_recs(b), show_recs(a))); }
        if a.iter().any(|r| ids.contains(&r.0) && r.1 != 'W') { return Some(format!("completeness:route-of-ended-session-still-active {}", show_recs(a))); }
    }
    None
}

struct Outcome { case: String, imp: String, oracle: String, nontrivial: bool, notes: Vec<String> }

/// rs: per router (address index, number of peers); two routers may share an address. An address
/// index >= 100 stands for address `index - 100` of a router whose peers all negotiate Graceful
/// Restart (so the state machine waits for their End-of-RIB markers while Dumping).
fn run_world(rs: &[(u8, usize)], ops: &[String], queries: &[Pfx]) -> Outcome {
    let mut rib = RealRib::new();
    let gr_of: Vec<bool> = rs.iter().map(|(a, _)| *a >= 100).collect();
    let rs: Vec<(u8, usize)> = rs.iter().map(|(a, n)| (*a % 100, *n)).collect();
    let rs_shown: Vec<(u8, usize)> = rs.iter().zip(&gr_of).map(|((a, n), g)| (if *g { *a + 100 } else { *a }, *n)).collect();
    let rs = &rs[..];
    let routers = rs.iter().map(|(a, n)| (IpAddr::V4(Ipv4Addr::new(203, 0, 113, *a)), (0..*n).map(|k| BmpPeer::plain(k as u32)).collect::<Vec<_>>())).collect::<Vec<_>>();
    // every router monitors the same neighbour as its peer 0 (same address and AS seen from different routers);
    // the other peers are different per router
    let routers = routers.into_iter().enumerate().map(|(r, (ip, ps))| (ip, ps.into_iter().enumerate().map(|(k, _)| BmpPeer { gr: gr_of[r], ..BmpPeer::plain(if k == 0 { 0 } else { (4 * r + k) as u32 }) }).collect())).collect();
    let mut w = BmpWorld::new(routers);
    let mut evs: Vec<Ev> = vec![];
    let mut notes: Vec<String> = vec![];
    let mut fails: Vec<String> = vec![];
    let mut session_ends = 0;
    let mut traffic_before_end = false;
    for o in ops {
        // `a<id>.<af>`: a direct `Update::Withdraw(id, Some(afi/safi))` (no ingress unit emits it today)
        if let Some(rest) = o.strip_prefix('a') {
            if let Some((id, af)) = rest.split_once('.') { if let Ok(id) = id.parse::<u32>() {
                let r = rib.process(Update::Withdraw(id, Some(afisafi(af))));
                evs.push(Ev::DownAf(id, af.to_string()));
                if r.is_err() { notes.push("panic-rib.rs:326".into()); break; }
                notes.push("withdraw-afisafi".into());
            } }
            continue;
        }
        let Some(op) = Op::parse(o) else { continue };
        let r = match &op { Op::Connect(r) | Op::Disconnect(r) | Op::Terminate(r) | Op::PeerUp(r, _) | Op::PeerDown(r, _) | Op::Rm(r, _, _) => *r };
        if r >= w.routers.len() { continue; }
        // who is up where, before the op
        let up_here: Vec<u32> = w.up_ids(r).into_iter().map(|x| x.1).collect();
        let mut up_elsewhere: Vec<u32> = vec![];          // ids of peers up on other connections
        let mut up_same_addr: Vec<u32> = vec![];          // ... of those, on a connection from the same address
        for r2 in 0..w.routers.len() { if r2 != r {
            let ids2: Vec<u32> = w.up_ids(r2).into_iter().map(|x| x.1).collect();
            if rs[r2].0 == rs[r].0 { up_same_addr.extend(ids2.iter()); }
            up_elsewhere.extend(ids2);
        } }
        let peer_id = if let Op::PeerDown(_, k) = &op { w.routers[r].conn.as_ref().and_then(|c| if *k < c.peers.len() && c.peers[*k].up { c.ingress_of(*k) } else { None }) } else { None };
        let (em, note) = w.apply(&op, &mut rib.blobs);
        notes.push(note.split(|c| c == ':' || c == '(').next().unwrap_or("").split("-as-").next().unwrap().to_string());
        let Some(em) = em else {
            // the session-level event the property promises must have left the state machine
            match &op {
                Op::PeerDown(..) if peer_id.is_some() => fails.push(format!("completeness:peer-down-of-up-peer-sent-no-withdrawal id {:?} ({})", peer_id.unwrap(), notes.last().unwrap())),
                Op::Terminate(..) if !up_here.is_empty() => fails.push(format!("completeness:termination-with-peers-up-sent-no-withdrawal ids {:?} ({})", up_here, notes.last().unwrap())),
                _ => {}
            }
            continue
        };
        let named: Option<Vec<u32>> = match &em.ev { Ev::Down(m) => Some(vec![*m]), Ev::DownBulk(ms) => Some(ms.clone()), _ => None };
        let before = if named.is_some() { Some(snapshot(&rib, queries)) } else { None };
        if let Err(p) = rib.process(em.update) { notes.push(format!("panic:{p}")); }
        if let (Some(ids), Some(before)) = (named, before) {
            session_ends += 1;
            if evs.iter().any(|e| matches!(e, Ev::Upd(..))) { traffic_before_end = true; }
            let after = snapshot(&rib, queries);
            if let Some(f) = isolation(&before, &after, &ids) { fails.push(f); }
            match &op {
                Op::PeerDown(..) => if Some(ids[0]) != peer_id { fails.push(format!("completeness:peer-down-withdrew-another-id {} instead of {:?}", ids[0], peer_id)); },
                _ => if let Some(m) = up_here.iter().find(|i| !ids.contains(i)) { fails.push(format!("completeness:up-peer-not-withdrawn-at-session-end id {m}")); },
            }
            if let Some(m) = ids.iter().find(|i| up_elsewhere.contains(i)) {
                if up_same_addr.contains(m) {
                    fails.push(format!("identity:routers-from-one-address-share-router-id session end of router {r} withdrew id {m} of a peer that is up on another connection from the same address"));
                } else {
                    fails.push(format!("isolation:session-end-withdrew-peer-of-another-router router {r} id {m}"));
                }
            }
        }
        evs.push(em.ev);
    }
    let case = format!("h|{}|{}|w {} {}", join(queries.iter().map(|p| p.show()), " "), join(evs.iter().map(|e| e.show()), " "), join(rs_shown.iter().map(|(a, n)| format!("{a}.{n}")), ","), ops.join(" "));
    let imp = if notes.iter().any(|n| n == "panic-rib.rs:326") { "panic rib.rs:326".to_string() } else { rib.observe(queries) };
    // report the most specific unknown failure first, a known one otherwise
    fails.sort_by_key(|f| f.starts_with("identity:"));
    let oracle = match fails.first() { None => "ok".to_string(), Some(f) => format!("fail {f}") };
    Outcome { case, imp, oracle, nontrivial: session_ends > 0 && traffic_before_end, notes }
}

/// The header population: index 0 is the base, every other differs from it in exactly one field.
fn headers() -> Vec<(&'static str, BmpPeer)> {
    let b = BmpPeer::plain(0);
    vec![
        ("base", b.clone()),
        ("bgp-id", BmpPeer { bgp_id: [9, 9, 9, 9], ..b.clone() }),
        ("l-flag", BmpPeer { flags: 0x40, ..b.clone() }),
        ("o-flag", BmpPeer { flags: 0x10, ..b.clone() }),
        ("distinguisher", BmpPeer { peer_type: 1, distinguisher: [0, 0, 0, 0, 0, 0, 0, 7], ..b.clone() }),
        ("peer-type-rd", BmpPeer { peer_type: 1, ..b.clone() }),
        ("peer-type-local", BmpPeer { peer_type: 2, ..b.clone() }),
        ("address", BmpPeer { addr: Ipv4Addr::new(198, 51, 100, 77), ..b.clone() }),
        ("asn", BmpPeer { asn: 64999, ..b.clone() }),
    ]
}

fn hdr_token(k: usize, p: &BmpPeer) -> String {
    format!("{k}={},{},{},{},{},{}", p.peer_type, p.flags, u64::from_be_bytes(p.distinguisher), u32::from(p.addr), p.asn, u32::from_be_bytes(p.bgp_id))
}

fn run_session(sel: &[usize], ops: &[String]) -> Outcome {
    let hs = headers();
    let mut router = BmpRouter::new(); // fresh register: BMP connection id... see below
    router.peers = sel.iter().map(|k| hs[*k].1.clone()).collect();
    let rid = router.stepper.bmp_ingress_id();
    let mut downs: Vec<String> = vec![];
    let mut notes = vec![];
    for o in ops {
        let Ok(i) = o[1..].parse::<usize>() else { continue };
        let Some(pos) = sel.iter().position(|k| *k == i) else { continue };
        if o.starts_with('U') { router.peer_up(pos); notes.push("s-peer-up".to_string()); }
        else { match router.peer_down(pos) { Ingested::Update(Update::Withdraw(id, None)) => downs.push(id.to_string()), _ => downs.push("-".into()) }; notes.push("s-peer-down".into()); }
    }
    let views = router.stepper.peers();
    let mut up: BTreeMap<usize, u32> = BTreeMap::new();
    for (pos, k) in sel.iter().enumerate() { if let Some(id) = router.ingress_of(pos) { up.insert(*k, id); } }
    let mut ids = router.stepper.register().ids_for_parent(rid);
    ids.sort();
    let case = format!("s|{}|{}", join(sel.iter().map(|k| hdr_token(*k, &hs[*k].1)), " "), ops.join(" "));
    let imp = format!("{} | {} | {}", join(sel.iter().filter_map(|k| up.get(k).map(|id| format!("{k}:{id}"))), " "), join(ids.iter(), " "), downs.join(" "));
    // oracle: distinct headers that are up at the same time must not share an id; every up peer's id is among ids_for_parent
    let mut fails = vec![];
    if views.len() != up.len() { fails.push(format!("session:peer-table-size-differs {} vs {}", views.len(), up.len())); }
    if let Some((k, id)) = up.iter().find(|(_, id)| !ids.contains(id)) { fails.push(format!("completeness:up-peer-id-not-in-ids-for-parent id {id} header {k}")); }
    let ks: Vec<(&usize, &u32)> = up.iter().collect();
    for a in 0..ks.len() { for b in a + 1..ks.len() { if ks[a].1 == ks[b].1 {
        let (fa, fb) = (hs[*ks[a].0].0, hs[*ks[b].0].0);
        let on_wire_only: &[&str] = &["base", "bgp-id", "l-flag", "distinguisher", "peer-type-rd", "peer-type-local"];
        if on_wire_only.contains(&fa) && on_wire_only.contains(&fb) {
            fails.push(format!("identity:peer-lookup-ignores-bgpid-distinguisher-policy-peertype up peers {fa} and {fb} share ingress id {}", ks[a].1));
        } else { fails.push(format!("identity-unexpected-sharing {fa} {fb} id {}", ks[a].1)); }
    } } }
    fails.sort_by_key(|f| f.starts_with("identity:"));
    let oracle = match fails.first() { None => "ok".to_string(), Some(f) => format!("fail {f}") };
    Outcome { case, imp, oracle, nontrivial: up.len() >= 2, notes }
}

fn gen_upd(rng: &mut Rng, pool: &[Pfx]) -> Upd {
    let v6 = rng.chance(1, 3);
    let mut cands: Vec<&Pfx> = pool.iter().filter(|p| p.v6 == v6).collect();
    if cands.is_empty() { cands = pool.iter().collect(); let f = cands[0].v6; cands.retain(|p| p.v6 == f); }
    let n = rng.range(1, 2) as usize;
    let safi = if rng.chance(1, 6) { Safi::M } else { Safi::U };
    let mut ns: Vec<Nlri> = (0..n).map(|_| Nlri { pfx: **rng.pick(&cands), safi }).collect();
    ns.dedup();
    let (ann, wd) = if rng.chance(4, 5) { (ns, vec![]) } else { (vec![], ns) };
    Upd { attr: rng.range(1, 9) as u32, ann, wd, mp4: rng.chance(1, 4), corrupt: 0 }
}

fn gen_world(rng: &mut Rng, pool: &[Pfx], rec: &mut Recorder) -> (Vec<(u8, usize)>, Vec<String>) {
    let nr = rng.range(1, 3) as usize;
    let same_ip = nr >= 2 && rng.chance(1, 6);
    let mut rs: Vec<(u8, usize)> = (0..nr).map(|r| (if same_ip && r == 1 { 1 } else { 1 + r as u8 }, rng.range(1, 3) as usize)).collect();
    if same_ip { rec.bump("world-two-routers-one-address"); }
    // one world in three has a router whose peers negotiate Graceful Restart: its session stays in the
    // Dumping phase until every peer that announced something has sent End-of-RIB or gone down
    let gr_world = rng.chance(1, 3);
    if gr_world { let r = rng.below(nr as u64) as usize; rs[r].0 += 100; rec.bump("world-graceful-restart-router"); }
    let focus: Vec<Pfx> = (0..rng.range(2, 4)).map(|_| *rng.pick(pool)).collect();
    let mut ops: Vec<Op> = vec![];
    for r in 0..nr { ops.push(Op::Connect(r)); for k in 0..rs[r].1 { ops.push(Op::PeerUp(r, k)); } }
    let mut out: Vec<String> = ops.iter().map(|o| o.show()).collect();
    for _ in 0..rng.range(8, 36) {
        let r = rng.below(nr as u64) as usize;
        let k = rng.below(rs[r].1 as u64) as usize;
        match rng.below(100) {
            0..=62 if gr_world && rng.chance(1, 8) => { out.push(Op::Rm(r, k, Upd { attr: 1, ann: vec![], wd: vec![], mp4: false, corrupt: 0 }).show()); rec.bump("op-end-of-rib"); }
            0..=62 => { out.push(Op::Rm(r, k, gen_upd(rng, &focus)).show()); rec.bump("op-route-monitoring"); }
            63..=74 => { out.push(Op::PeerDown(r, k).show()); if rng.chance(1, 2) { out.push(Op::PeerUp(r, k).show()); } rec.bump("op-peer-down"); }
            75..=81 => { out.push(Op::Terminate(r).show()); if rng.chance(2, 3) { out.push(Op::Connect(r).show()); for k in 0..rs[r].1 { out.push(Op::PeerUp(r, k).show()); } } rec.bump("op-terminate"); }
            82..=90 => { out.push(Op::Disconnect(r).show()); if rng.chance(2, 3) { out.push(Op::Connect(r).show()); for k in 0..rs[r].1 { out.push(Op::PeerUp(r, k).show()); } } rec.bump("op-disconnect"); }
            91..=95 => { out.push(Op::PeerUp(r, k).show()); rec.bump("op-peer-up"); }
            _ => { let af = *rng.pick(&["v4u", "v6u", "v4m", "v6m", "other"]); out.push(format!("a{}.{}", rng.range(2, 8), af)); rec.bump("op-withdraw-afisafi"); }
        }
    }
    (rs, out)
}

fn gen_session(rng: &mut Rng, rec: &mut Recorder) -> (Vec<usize>, Vec<String>) {
    let n = headers().len();
    let mut sel: Vec<usize> = vec![0];
    for _ in 0..rng.range(1, 3) { let k = rng.range(1, n as u64 - 1) as usize; if !sel.contains(&k) { sel.push(k); } }
    let mut ops = vec![];
    for _ in 0..rng.range(2, 9) { let k = *rng.pick(&sel); ops.push(format!("{}{}", if rng.chance(3, 4) { 'U' } else { 'D' }, k)); }
    for k in &sel { rec.bump(&format!("hdr-{}", headers()[*k].0)); }
    (sel, ops)
}

fn parse_world(s: &str) -> Option<(Vec<(u8, usize)>, Vec<String>)> {
    let mut it = s.split_whitespace();
    if it.next()? != "w" { return None; }
    let rs = it.next()?.split(',').map(|t| { let (a, n) = t.split_once('.')?; Some((a.parse().ok()?, n.parse().ok()?)) }).collect::<Option<Vec<(u8, usize)>>>()?;
    Some((rs, it.map(|x| x.to_string()).collect()))
}

fn main() {
    if std::env::var("VERIF_VERBOSE").is_err() { std::panic::set_hook(Box::new(|_| {})); }
    let args = parse_args();
    let t0 = Instant::now();
    let mut rec = Recorder::new("h-cases: at least one session end after route traffic; s-cases: at least two peers up at the end");
    let pool = pool();
    let mut emit = |rec: &mut Recorder, o: Outcome| {
        for n in &o.notes { if !n.is_empty() { rec.bump(&format!("note-{n}")); } }
        rec.bump(if o.oracle == "ok" { "oracle-ok" } else { "oracle-fail" });
        rec.case(o.case, o.imp, o.oracle, o.nontrivial);
    };
    let hdr_index = |tok: &str| -> Option<usize> { let k: usize = tok.split('=').next()?.parse().ok()?; Some(k) };

    if let Some(path) = &args.replay {
        for line in replay_cases(path) {
            let parts: Vec<&str> = line.split('|').collect();
            match parts[0] {
                "h" if parts.len() == 4 => { let qs: Vec<Pfx> = parts[1].split_whitespace().filter_map(Pfx::parse).collect(); if let Some((rs, ops)) = parse_world(parts[3]) { emit(&mut rec, run_world(&rs, &ops, &qs)); } }
                "s" if parts.len() == 3 => { let sel: Vec<usize> = parts[1].split_whitespace().filter_map(hdr_index).collect(); emit(&mut rec, run_session(&sel, &parts[2].split_whitespace().map(|x| x.to_string()).collect::<Vec<_>>())); }
                _ => {}
            }
        }
        rec.finish(&args, t0.elapsed().as_secs_f64());
        return;
    }

    // `--only s`: the header-population stream alone (the BMP peer call site of the ingress register; tie of C14)
    let only_s = args.rest.windows(2).any(|w| w[0] == "--only" && w[1] == "s");
    // ---- witnesses first
    let s = |x: &[&str]| -> Vec<String> { x.iter().map(|t| t.to_string()).collect() };
    for k in 1..headers().len() { emit(&mut rec, run_session(&[0, k], &s(&["U0", &format!("U{k}")]))); } // C02_identity_counterexample and its siblings
    emit(&mut rec, run_session(&[0, 1], &s(&["U0", "U1", "D1", "U1", "D0"])));
    let p = pool[2].show();
    let ann = |r: usize, k: usize, a: u32| format!("m{r}.{k}=u;0;{a};u{p};-;c");
    if !only_s {
    emit(&mut rec, run_world(&[(1, 2), (2, 1)], &s(&["c0", "u0.0", "u0.1", "c1", "u1.0", &ann(0, 0, 3), &ann(0, 1, 4), &ann(1, 0, 5), "d0.0", "t1", "x0"]), &[pool[2]]));
    emit(&mut rec, run_world(&[(1, 1), (1, 1)], &s(&["c0", "u0.0", "c1", "u1.0", &ann(0, 0, 3), &ann(1, 0, 5), "x0"]), &[pool[2]])); // two routers, one address
    emit(&mut rec, run_world(&[(1, 1)], &s(&["c0", "u0.0", &ann(0, 0, 3), "a3.v4u", "a3.other"]), &[pool[2]]));
    }

    // ---- generated
    let mut rng = Rng::new(args.seed);
    let budget = if only_s { if args.thorough { 60.0 } else { 10.0 } } else if args.thorough { 300.0 } else { 35.0 };
    let max_cases = if args.thorough { 30_000 } else { 3000 };
    let mut n = 0;
    while n < max_cases && t0.elapsed().as_secs_f64() < budget {
        if !only_s && rng.chance(3, 4) { let (rs, ops) = gen_world(&mut rng, &pool, &mut rec); emit(&mut rec, run_world(&rs, &ops, &pool)); }
        else { let (sel, ops) = gen_session(&mut rng, &mut rec); emit(&mut rec, run_session(&sel, &ops)); }
        n += 1;
    }
    rec.finish(&args, t0.elapsed().as_secs_f64());
}
