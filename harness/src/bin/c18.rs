//! C18 engine: the real `FrimMap` vs the Lean model `Model/Frim.lean`.
//!
//! * `seq`  cases: random sequential op sequences.
//! * `conc` cases: 2–3 OS threads on one real `FrimMap`, each shared-memory
//!   access scheduled deterministically through the `verif::point` pause
//!   points inside the `rcu` closures; the executed schedule is what is
//!   written to the case line, so the model runs exactly the same schedule.
//! Oracle (independent of the Lean model): brute-force linearizability of the
//! observed history against a plain association list + remove-once counting.
use std::sync::mpsc::{channel, Receiver, Sender};
use std::sync::Arc;
use std::time::Instant;

use rotonda::verif::frim::FrimMap;
use verif_harness::{join, parse_args, rng::Rng, Recorder};

type Map = Vec<(u64, u64)>;

#[derive(Clone, Debug, PartialEq)]
enum Pred { KeyNe(u64), KeyLt(u64), ValNe(u64), All, None }
impl Pred {
    fn eval(&self, k: u64, v: u64) -> bool {
        match self { Pred::KeyNe(x) => k != *x, Pred::KeyLt(x) => k < *x, Pred::ValNe(x) => v != *x, Pred::All => true, Pred::None => false }
    }
    fn show(&self) -> String {
        match self { Pred::KeyNe(x) => format!("kne.{x}"), Pred::KeyLt(x) => format!("klt.{x}"), Pred::ValNe(x) => format!("vne.{x}"), Pred::All => "all".into(), Pred::None => "none".into() }
    }
}

#[derive(Clone, Debug, PartialEq)]
enum Op { Ins(u64, u64), Rem(u64), Get(u64), Retain(Pred), Replace(Map), Len, Iter }

#[derive(Clone, Debug, PartialEq)]
enum Ret { Unit, Val(Option<u64>), Num(usize), Snap(Map) }

/// Canonical: sorted by key (the property is about a *map*; iteration order is unspecified).
fn show_map(m: &Map) -> String {
    let mut m = m.clone();
    m.sort();
    if m.is_empty() { "-".into() } else { join(m.iter().map(|(k, v)| format!("{k}:{v}")), ",") }
}
fn show_op(o: &Op) -> String {
    match o {
        Op::Ins(k, v) => format!("i.{k}.{v}"), Op::Rem(k) => format!("r.{k}"), Op::Get(k) => format!("g.{k}"),
        Op::Retain(p) => format!("t.{}", p.show()), Op::Replace(m) => format!("p.{}", show_map(m)),
        Op::Len => "l".into(), Op::Iter => "it".into(),
    }
}
fn show_ret(r: &Ret) -> String {
    match r {
        Ret::Unit => "u".into(), Ret::Val(None) => "N".into(), Ret::Val(Some(v)) => format!("S{v}"),
        Ret::Num(n) => format!("n{n}"), Ret::Snap(m) => format!("m{}", show_map(m)),
    }
}
fn parse_map(s: &str) -> Map {
    if s == "-" { return vec![]; }
    s.split(',').map(|kv| { let (k, v) = kv.split_once(':').unwrap(); (k.parse().unwrap(), v.parse().unwrap()) }).collect()
}
fn parse_op(s: &str) -> Op {
    let p: Vec<&str> = s.split('.').collect();
    match p[0] {
        "i" => Op::Ins(p[1].parse().unwrap(), p[2].parse().unwrap()),
        "r" => Op::Rem(p[1].parse().unwrap()),
        "g" => Op::Get(p[1].parse().unwrap()),
        "t" => Op::Retain(match p[1] { "kne" => Pred::KeyNe(p[2].parse().unwrap()), "klt" => Pred::KeyLt(p[2].parse().unwrap()), "vne" => Pred::ValNe(p[2].parse().unwrap()), "all" => Pred::All, _ => Pred::None }),
        "p" => Op::Replace(parse_map(p[1])),
        "l" => Op::Len,
        _ => Op::Iter,
    }
}

thread_local! { static MUTED: std::cell::Cell<bool> = const { std::cell::Cell::new(false) }; }

/// Build a private map (not shared yet): its inserts are not scheduling points.
fn build(m0: &Map) -> FrimMap<u64, u64> {
    let was = MUTED.with(|m| m.replace(true));
    let m = FrimMap::default();
    for (k, v) in m0 { m.insert(*k, *v); }
    MUTED.with(|m| m.set(was));
    m
}
fn content(m: &FrimMap<u64, u64>) -> Map { m.guard().iter().cloned().collect() }

/// The real operation.
fn apply(m: &FrimMap<u64, u64>, op: &Op) -> Ret {
    match op {
        Op::Ins(k, v) => { m.insert(*k, *v); Ret::Unit }
        Op::Rem(k) => Ret::Val(m.remove(k)),
        Op::Get(k) => Ret::Val(m.get(k)),
        Op::Retain(p) => { let p = p.clone(); m.retain(move |k, v| p.eval(*k, *v)); Ret::Unit }
        Op::Replace(n) => { m.replace(build(n)); Ret::Unit }
        Op::Len => Ret::Num(m.len()),
        Op::Iter => Ret::Snap(content(m)),
    }
}

/// Independent sequential reference (a plain Vec), used only by the oracle.
fn seq_apply(m: &mut Map, op: &Op) -> Ret {
    match op {
        Op::Ins(k, v) => { m.retain(|e| e.0 != *k); m.push((*k, *v)); Ret::Unit }
        Op::Rem(k) => match m.iter().position(|e| e.0 == *k) { Some(p) => Ret::Val(Some(m.remove(p).1)), None => Ret::Val(None) },
        Op::Get(k) => Ret::Val(m.iter().find(|e| e.0 == *k).map(|e| e.1)),
        Op::Retain(p) => { m.retain(|e| p.eval(e.0, e.1)); Ret::Unit }
        Op::Replace(n) => { *m = n.clone(); Ret::Unit }
        Op::Len => Ret::Num(m.len()),
        Op::Iter => Ret::Snap(m.clone()),
    }
}

// ---------------------------------------------------------------- scheduler

enum Status { Paused, OpDone(Ret, u32) }

struct Worker { go: Sender<()>, status: Receiver<Status>, remaining: usize, in_op: bool }

struct ConcResult {
    sched: Vec<usize>,
    rets: Vec<Vec<Ret>>,
    /// per op: (thread, index in program, call step, return step, number of closure re-runs)
    spans: Vec<(usize, usize, usize, usize, u32)>,
    fin: Map,
}

/// Run `progs` on one real FrimMap under `sched` (thread index per step), then
/// round-robin until every thread has finished. Returns the executed schedule.
fn run_conc(m0: &Map, progs: &[Vec<Op>], sched: &[usize]) -> ConcResult {
    let map = Arc::new(build(m0));
    let mut workers = vec![];
    let mut handles = vec![];
    for prog in progs.iter().cloned() {
        let (go_tx, go_rx) = channel::<()>();
        let (st_tx, st_rx) = channel::<Status>();
        let map = map.clone();
        let n = prog.len();
        handles.push(std::thread::spawn(move || {
            let go_rx = Arc::new(std::sync::Mutex::new(go_rx));
            let retries = Arc::new(std::sync::atomic::AtomicU32::new(0));
            {
                let st_tx = st_tx.clone();
                let go_rx = go_rx.clone();
                let retries = retries.clone();
                rotonda::verif::set_point_handler(Some(Arc::new(move |_name| {
                    if MUTED.with(|m| m.get()) { return; }
                    retries.fetch_add(1, std::sync::atomic::Ordering::SeqCst);
                    st_tx.send(Status::Paused).unwrap();
                    go_rx.lock().unwrap().recv().unwrap();
                })));
            }
            for op in prog {
                go_rx.lock().unwrap().recv().unwrap();
                retries.store(0, std::sync::atomic::Ordering::SeqCst);
                let r = apply(&map, &op);
                let runs = retries.load(std::sync::atomic::Ordering::SeqCst);
                st_tx.send(Status::OpDone(r, runs.saturating_sub(1))).unwrap();
            }
            rotonda::verif::set_point_handler(None);
        }));
        workers.push(Worker { go: go_tx, status: st_rx, remaining: n, in_op: false });
    }
    let nthreads = progs.len();
    let mut executed = vec![];
    let mut rets: Vec<Vec<Ret>> = vec![vec![]; nthreads];
    let mut spans = vec![];
    let mut call_step = vec![0usize; nthreads];
    let mut step_thread = |i: usize, executed: &mut Vec<usize>| {
        let w = &mut workers[i];
        if w.remaining == 0 { return; }
        let stepno = executed.len();
        executed.push(i);
        if !w.in_op { call_step[i] = stepno; w.in_op = true; }
        w.go.send(()).unwrap();
        match w.status.recv().unwrap() {
            Status::Paused => {}
            Status::OpDone(r, retries) => {
                spans.push((i, rets[i].len(), call_step[i], stepno, retries));
                rets[i].push(r);
                w.remaining -= 1;
                w.in_op = false;
            }
        }
    };
    for &i in sched { if i < nthreads { step_thread(i, &mut executed); } }
    loop {
        let mut any = false;
        for i in 0..nthreads {
            let before = executed.len();
            step_thread(i, &mut executed);
            any |= executed.len() != before;
        }
        if !any { break; }
    }
    drop(step_thread);
    for h in handles { h.join().unwrap(); }
    let fin = content(&map);
    ConcResult { sched: executed, rets, spans, fin }
}

// ------------------------------------------------------------------- oracle

/// Brute-force linearizability: is there a total order of the completed ops,
/// consistent with real-time order (A returned before B was called ⇒ A first),
/// that the sequential map accepts with exactly the observed return values and
/// final content?
fn sorted(m: &Map) -> Map { let mut m = m.clone(); m.sort(); m }
fn ret_eq(a: &Ret, b: &Ret) -> bool {
    match (a, b) { (Ret::Snap(x), Ret::Snap(y)) => sorted(x) == sorted(y), _ => a == b }
}

fn linearizable(m0: &Map, progs: &[Vec<Op>], res: &ConcResult) -> bool {
    let ops: Vec<(&Op, &Ret, usize, usize)> = res.spans.iter()
        .map(|&(t, j, c, r, _)| (&progs[t][j], &res.rets[t][j], c, r)).collect();
    fn dfs(ops: &[(&Op, &Ret, usize, usize)], done: &mut Vec<bool>, m: &Map, fin: &Map, left: usize) -> bool {
        if left == 0 { return sorted(m) == sorted(fin); }
        // candidates: not done, and no other not-done op returned before this one was called
        for i in 0..ops.len() {
            if done[i] { continue; }
            if (0..ops.len()).any(|j| !done[j] && j != i && ops[j].3 < ops[i].2) { continue; }
            let mut m2 = m.clone();
            if !ret_eq(&seq_apply(&mut m2, ops[i].0), ops[i].1) { continue; }
            done[i] = true;
            if dfs(ops, done, &m2, fin, left - 1) { done[i] = false; return true; }
            done[i] = false;
        }
        false
    }
    let mut done = vec![false; ops.len()];
    dfs(&ops, &mut done, m0, &res.fin, ops.len())
}

/// Remove-once: for every key, entries handed to removers ≤ entries ever put there.
/// Returns the offending key and whether the last offending remover had an rcu retry.
fn remove_once(m0: &Map, progs: &[Vec<Op>], res: &ConcResult) -> Option<(u64, bool)> {
    let mut keys: Vec<u64> = m0.iter().map(|e| e.0).collect();
    for p in progs { for o in p { match o { Op::Ins(k, _) | Op::Rem(k) => keys.push(*k), Op::Replace(m) => keys.extend(m.iter().map(|e| e.0)), _ => {} } } }
    keys.sort(); keys.dedup();
    for k in keys {
        let mut created = m0.iter().filter(|e| e.0 == k).count();
        let mut handed = 0; let mut retried = false;
        for &(t, j, _, _, retries) in &res.spans {
            match (&progs[t][j], &res.rets[t][j]) {
                (Op::Ins(k2, _), _) if *k2 == k => created += 1,
                (Op::Replace(m), _) if m.iter().any(|e| e.0 == k) => created += 1,
                (Op::Rem(k2), Ret::Val(Some(_))) if *k2 == k => { handed += 1; retried |= retries > 0; }
                _ => {}
            }
        }
        if handed > created { return Some((k, retried)); }
    }
    None
}

// ---------------------------------------------------------------- generator

struct Gen { rng: Rng, next_val: u64 }
impl Gen {
    fn key(&mut self) -> u64 { self.rng.range(1, 3) }
    fn val(&mut self) -> u64 { self.next_val += 1; self.next_val }
    fn map(&mut self) -> Map {
        let mut m: Map = vec![];
        for _ in 0..self.rng.below(3) { let k = self.key(); if !m.iter().any(|e| e.0 == k) { let v = self.val(); m.push((k, v)); } }
        m
    }
    fn op(&mut self, conc: bool) -> Op {
        // removal-heavy under concurrency: that is where rcu retries matter
        let w = if conc { [30, 35, 8, 10, 5, 4, 8] } else { [25, 20, 15, 12, 8, 10, 10] };
        let mut x = self.rng.below(w.iter().sum());
        let mut idx = 0;
        for (i, wi) in w.iter().enumerate() { if x < *wi { idx = i; break; } x -= wi; }
        match idx {
            0 => { let k = self.key(); let v = self.val(); Op::Ins(k, v) }
            1 => Op::Rem(self.key()),
            2 => Op::Get(self.key()),
            3 => Op::Retain(match self.rng.below(5) { 0 => Pred::KeyNe(self.key()), 1 => Pred::KeyLt(self.key()), 2 => { let lo = self.next_val.saturating_sub(4).max(101); Pred::ValNe(self.rng.range(lo.min(self.next_val.max(101)), self.next_val.max(101))) } 3 => Pred::All, _ => Pred::None }),
            4 => Op::Replace(self.map()),
            5 => Op::Len,
            _ => Op::Iter,
        }
    }
}

fn conc_case(rec: &mut Recorder, m0: &Map, progs: &[Vec<Op>], sched: &[usize]) -> ConcResult {
    // a writer that blocks while another thread is parked at a pause point (a lock taken around the closure) stops the
    // scheduler for good: the case is journaled first, so that `check` can name it when the engine has to be killed
    verif_harness::journal(&[format!("conc|{}|{}|{}", show_map(m0), join(progs.iter().map(|p| join(p.iter().map(show_op), " ")), "/"), join(sched.iter(), " "))]);
    let res = run_conc(m0, progs, sched);
    let case = format!("conc|{}|{}|{}", show_map(m0),
        join(progs.iter().map(|p| join(p.iter().map(show_op), " ")), "/"), join(res.sched.iter(), " "));
    let imp = format!("{} => {}", join(res.rets.iter().map(|r| join(r.iter().map(show_ret), " ")), "/"), show_map(&res.fin));
    let retries: u32 = res.spans.iter().map(|s| s.4).sum();
    let oracle = if let Some((k, retried)) = remove_once(m0, progs, &res) {
        format!("fail remove-once:{} key {} handed to more removers than entries existed", if retried { "stale-found-after-rcu-retry" } else { "no-retry" }, k)
    } else if !linearizable(m0, progs, &res) {
        "fail not-linearizable no sequential order explains the returned values".to_string()
    } else { "ok".into() };
    rec.bump_by("conc.cas_retries", retries as u64);
    if retries > 0 { rec.bump("conc.cases_with_retry"); }
    rec.bump("conc.cases");
    for p in progs { for o in p { rec.bump(&format!("op.{}", show_op(o).split('.').next().unwrap())); } }
    rec.case(case, imp, oracle, retries > 0);
    res
}

/// `free` cases: 2-6 OS threads hammer one real FrimMap with writers (insert / remove / retain / replace) without any
/// scheduling; when they are done the map is at rest, and every way of looking at it must show the same map: `len()`
/// = number of entries iterated, `is_empty()` accordingly, `get(k)` = the iterated value of k, no key twice. Whatever a
/// writer keeps besides the published snapshot (a cached length, an index) has to agree with it once nobody writes.
fn free_case(rec: &mut Recorder, seed: u64, nt: usize, nops: usize) -> bool {
    verif_harness::journal(&[format!("free|{seed}|{nt}|{nops}")]);
    // every value names its key (value / 1_000_000), and key 9 is there from before the first write to after the last
    // one (no writer removes it; a whole-map replace carries it): a lookup running next to the writers may see any
    // version of its key, never another key's value, and never misses key 9
    const M: u64 = 1_000_000;
    let map: Arc<FrimMap<u64, u64>> = Arc::new(build(&vec![(9, 9 * M)]));
    let barrier = Arc::new(std::sync::Barrier::new(nt + 2));
    let done = Arc::new(std::sync::atomic::AtomicBool::new(false));
    let readers: Vec<_> = (0..2u64).map(|t| {
        let (map, barrier, done) = (map.clone(), barrier.clone(), done.clone());
        std::thread::spawn(move || {
            let mut r = Rng::new(seed.wrapping_mul(77).wrapping_add(t));
            let (mut foreign, mut missed, mut n) = (0u64, 0u64, 0u64);
            barrier.wait();
            while !done.load(std::sync::atomic::Ordering::SeqCst) || n < 50 {
                let k = if r.chance(1, 3) { 9 } else { r.below(6) };
                match map.get(&k) {
                    Some(v) if v / M != k => foreign += 1,
                    None if k == 9 => missed += 1,
                    _ => {}
                }
                if k == 9 && !map.contains_key(&9) { missed += 1; }
                n += 1;
            }
            (foreign, missed, n)
        })
    }).collect();
    let hs: Vec<_> = (0..nt).map(|t| {
        let (map, barrier) = (map.clone(), barrier.clone());
        std::thread::spawn(move || {
            let mut r = Rng::new(seed.wrapping_mul(31).wrapping_add(t as u64));
            barrier.wait();
            for i in 0..nops {
                let k = r.below(6);
                match r.below(10) {
                    0..=5 => { map.insert(k, k * M + (t * 1000 + i) as u64); }
                    6 | 7 => { map.remove(&k); }
                    8 => { map.retain(move |kk, _| *kk != k); }
                    // key 9 at the front, in the middle or at the end of the new map
                    _ => { let k2 = (k + 1) % 6; let mut v = vec![(k, k * M + 7), (k2, k2 * M + 8)]; v.insert(r.below(3) as usize, (9, 9 * M + i as u64)); map.replace(build(&v)); }
                }
            }
        })
    }).collect();
    for h in hs { h.join().expect("free thread"); }
    done.store(true, std::sync::atomic::Ordering::SeqCst);
    let (mut foreign, mut missed, mut nreads) = (0u64, 0u64, 0u64);
    for h in readers { let (f, m, n) = h.join().expect("free reader"); foreign += f; missed += m; nreads += n; }
    rec.bump_by("free.reads", nreads);
    let snap = content(&map);
    let (n, e) = (map.len(), map.is_empty());
    let mut keys: Vec<u64> = snap.iter().map(|x| x.0).collect(); keys.sort(); let nk = keys.len(); keys.dedup();
    let gets_ok = (0..10).all(|k| map.get(&k) == snap.iter().find(|x| x.0 == k).map(|x| x.1));
    let imp = format!("rest len-agrees={} empty-agrees={} gets-agree={} keys-unique={} reads-own-key={} pinned-key-seen={}", n == snap.len(), e == snap.is_empty(), gets_ok, keys.len() == nk, foreign == 0, missed == 0);
    let rest_ok = n == snap.len() && e == snap.is_empty() && gets_ok && keys.len() == nk;
    let ok = rest_ok && foreign == 0 && missed == 0;
    let orc = if ok { "ok".to_string() }
        else if !rest_ok { format!("fail rest:views-disagree at rest after {nt} threads x {nops} writes: len()={n} is_empty()={e} iterated={} entries, gets agree={gets_ok}, keys unique={}", snap.len(), keys.len() == nk) }
        else { format!("fail free:lookup-not-atomic next to {nt} writers x {nops} writes: {foreign} get(k) returned another key's value, {missed} lookups missed a key that was present throughout ({nreads} lookups)") };
    rec.bump("free.cases");
    rec.case(format!("free|{seed}|{nt}|{nops}"), imp, orc, nt >= 2);
    ok
}

fn main() {
    let args = parse_args();
    let t0 = Instant::now();
    let mut rec = Recorder::new("seq: random op sequences (1-12 ops, keys 1-3) on the real FrimMap; conc: 2-3 OS threads x 1-3 ops, every shared-memory access scheduled through the rcu pause points (random schedules; thorough adds all schedules of small programs); non-trivial = a conc case in which at least one CAS failed and the closure re-ran, or a seq case with >= 2 distinct op kinds; distinct = distinct case lines");

    if let Some(path) = &args.replay {
        for line in verif_harness::replay_cases(path) {
            let parts: Vec<&str> = line.split('|').collect();
            if parts[0] == "free" {
                for r in 0..300 { if !free_case(&mut rec, parts[1].parse::<u64>().unwrap() + r, parts[2].parse().unwrap(), parts[3].parse().unwrap()) { break; } }
            }
            if parts[0] == "conc" {
                let m0 = parse_map(parts[1]);
                let progs: Vec<Vec<Op>> = parts[2].split('/').map(|p| p.split_whitespace().map(parse_op).collect()).collect();
                let sched: Vec<usize> = parts[3].split_whitespace().map(|x| x.parse().unwrap()).collect();
                conc_case(&mut rec, &m0, &progs, &sched);
            }
        }
        rec.finish(&args, t0.elapsed().as_secs_f64());
        return;
    }

    // 0. the witness of `C18_remove_once_counterexample`: decides which variant this tree is.
    let w = conc_case(&mut rec, &vec![(1, 77)], &[vec![Op::Rem(1)], vec![Op::Rem(1)]], &[0, 1, 1, 0, 0]);
    let both = w.rets[0][0] == Ret::Val(Some(77)) && w.rets[1][0] == Ret::Val(Some(77));
    rec.variant("found", if both { "as-written" } else { "repaired" });

    let mut g = Gen { rng: Rng::new(args.seed), next_val: 100 };

    // 0b. free-running writers, then the map at rest
    for i in 0..(if args.thorough { 4000 } else { 400 }) {
        let nt = g.rng.range(2, 6) as usize;
        let nops = g.rng.range(5, 200) as usize;
        free_case(&mut rec, args.seed * 100_000 + i, nt, nops);
    }

    // 1. sequential
    let nseq = if args.thorough { 20000 } else { 2000 };
    for _ in 0..nseq {
        let m0 = g.map();
        let n = g.rng.range(1, 12);
        let ops: Vec<Op> = (0..n).map(|_| g.op(false)).collect();
        let map = build(&m0);
        let rets: Vec<Ret> = ops.iter().map(|o| apply(&map, o)).collect();
        let fin = content(&map);
        // oracle: the independent Vec reference
        let mut m = m0.clone();
        let exp: Vec<Ret> = ops.iter().map(|o| seq_apply(&mut m, o)).collect();
        let oracle = if exp.len() == rets.len() && exp.iter().zip(&rets).all(|(a, b)| ret_eq(a, b)) && sorted(&m) == sorted(&fin) { "ok".to_string() } else { "fail sequential-map-mismatch the map disagrees with a plain association list".to_string() };
        let kinds: std::collections::HashSet<_> = ops.iter().map(std::mem::discriminant).collect();
        rec.bump("seq.cases");
        rec.case(format!("seq|{}|{}", show_map(&m0), join(ops.iter().map(show_op), " ")),
                 format!("{} => {}", join(rets.iter().map(show_ret), " "), show_map(&fin)), oracle, kinds.len() >= 2);
    }

    // 2. concurrent, random schedules
    let nconc = if args.thorough { 40000 } else { 3000 };
    for _ in 0..nconc {
        let m0 = g.map();
        let nt = g.rng.range(2, 3) as usize;
        let progs: Vec<Vec<Op>> = (0..nt).map(|_| { let n = g.rng.range(1, 3); (0..n).map(|_| g.op(true)).collect() }).collect();
        let len = g.rng.range(0, 10);
        let sched: Vec<usize> = (0..len).map(|_| g.rng.below(nt as u64) as usize).collect();
        conc_case(&mut rec, &m0, &progs, &sched);
    }

    // 3. thorough: every schedule of two threads x (rem k | ins k v) pairs over one key
    if args.thorough {
        let cand = [Op::Rem(1), Op::Ins(1, 9), Op::Retain(Pred::KeyNe(1)), Op::Get(1)];
        for a in &cand { for b in &cand { for c in &cand {
            let progs = vec![vec![a.clone()], vec![b.clone(), c.clone()]];
            // all schedules of length 6 over {0,1}
            for bits in 0..64u32 {
                let sched: Vec<usize> = (0..6).map(|i| ((bits >> i) & 1) as usize).collect();
                conc_case(&mut rec, &vec![(1, 77)], &progs, &sched);
                rec.bump("conc.exhaustive");
            }
        } } }
    }
    rec.finish(&args, t0.elapsed().as_secs_f64());
}
