//! MqttConn engine: the real mqtt-out run loop (`MqttRunner::do_run` /
//! `process_events` / `reconfigure` / `publish_msg`) and the real
//! `Connection::process` / `disconnect` / `mqtt_event_loop` on a *scripted
//! broker* (the `Client` / `EventLoop` / `ConnectionFactory` seam the
//! repository's own tests mock) vs the Lean model `Model/MqttConn.lean`.
//!
//! A case is a table of configurations plus a script. Script steps:
//!   `I<inputs>`  a burst of target inputs delivered back to back, then the
//!                target runs until nothing can move: `m<topic>` one
//!                `Update::OutputStream` message through the real `direct_update`
//!                (messages are numbered 0,1,2.. in script order), `r<k>`
//!                `TargetCommand::Reconfigure` to configuration k, `x` `Terminate`
//!   `Ea|Er|Ed|Eo` the broker accepts (ConnAck Success) / refuses (ConnAck with
//!                an error code) / drops the connection (`Err(ConnectionError)`)
//!                / sends some other packet: next result of `EventLoop::poll`
//!   `Pa|Pf|Ps<d>` from now on `Client::publish` accepts / returns a
//!                `ClientError` / returns Ok after d seconds
//!   `T`          one second of (paused, auto-advancing) tokio time passes
//! The first step is a burst delivered before the target task is first polled.
//! Runtime: current-thread, time paused; after every step the driver sleeps
//! 2 ms, which under auto-advance returns exactly when no task can move.
//!
//! Observation per step: what the run loop did at the seam (publish calls with
//! connection, topic, message, qos and outcome; completions / cancellations of
//! slow publishes; disconnects), what the event-loop task did (connections
//! opened with host, port, client id, capacity, credentials; polls entered;
//! events consumed) and the target's own counters.
//!
//! Oracle (no Lean): an independent ledger of handed-in vs published messages
//! per script, see `oracle`.
use std::collections::BTreeMap;
use std::net::IpAddr;
use std::str::FromStr;
use std::time::{Duration, Instant};

use inetnum::asn::Asn;
use rotonda::payload::Update;
use rotonda::roto_runtime::types::OutputStreamMessage;
use rotonda::targets::verif_hooks_mqttconn::{BrokerEvent, Counters, MqttConnProbe, ProbeConfig, PubMode, Seen};
use verif_harness::{join, parse_args, replay_cases, rng::Rng, Recorder};

// ------------------------------------------------------------------ cases

#[derive(Clone, Copy, Debug, PartialEq, Eq)]
struct Cfg { cid: u8, dest: u8, qs: u8, tmpl: u8, r: u64, p: u64, qos: u8, user: u8 }

#[derive(Clone, Copy, Debug, PartialEq, Eq)]
enum Inp { Msg(u8), Reconf(usize), Term }

#[derive(Clone, Debug, PartialEq, Eq)]
enum Step { In(Vec<Inp>), Ev(BrokerEvent), Mode(PubMode), Tick }

#[derive(Clone, Debug, PartialEq, Eq)]
struct Case { cfgs: Vec<Cfg>, steps: Vec<Step> }

const TEMPLATES: &[&str] = &["rotonda/{id}", "a/{id}/b", "fixed"];

fn probe_config(c: &Cfg) -> ProbeConfig {
    ProbeConfig {
        host: format!("h{}", c.dest), port: 1883 + c.dest as u16, client_id: format!("cid{}", c.cid),
        queue_size: 10 * (c.qs as u16 + 1), topic_template: TEMPLATES[c.tmpl as usize].to_string(),
        connect_retry_secs: c.r, publish_max_secs: c.p, qos: c.qos as i32,
        username: if c.user == 0 { None } else { Some(format!("u{}", c.user)) },
        password: if c.user == 0 { None } else { Some("pw".into()) },
    }
}

fn show_cfg(c: &Cfg) -> String { format!("{}.{}.{}.{}.{}.{}.{}.{}", c.cid, c.dest, c.qs, c.tmpl, c.r, c.p, c.qos, c.user) }
fn parse_cfg(s: &str) -> Cfg {
    let f: Vec<u64> = s.split('.').map(|x| x.parse().unwrap()).collect();
    Cfg { cid: f[0] as u8, dest: f[1] as u8, qs: f[2] as u8, tmpl: f[3] as u8, r: f[4], p: f[5], qos: f[6] as u8, user: f[7] as u8 }
}
fn show_step(s: &Step) -> String {
    match s {
        Step::In(v) => format!("I{}", join(v.iter().map(|i| match i { Inp::Msg(t) => format!("m{t}"), Inp::Reconf(k) => format!("r{k}"), Inp::Term => "x".into() }), ",")),
        Step::Ev(e) => format!("E{}", match e { BrokerEvent::Accept => 'a', BrokerEvent::Refuse => 'r', BrokerEvent::Drop => 'd', BrokerEvent::Other => 'o' }),
        Step::Mode(m) => match m { PubMode::Accept => "Pa".into(), PubMode::Fail => "Pf".into(), PubMode::Slow(d) => format!("Ps{d}") },
        Step::Tick => "T".into(),
    }
}
fn parse_step(s: &str) -> Step {
    match &s[0..1] {
        "I" => Step::In(if s.len() == 1 { vec![] } else { s[1..].split(',').map(|i| match &i[0..1] {
            "m" => Inp::Msg(i[1..].parse().unwrap()), "r" => Inp::Reconf(i[1..].parse().unwrap()), _ => Inp::Term }).collect() }),
        "E" => Step::Ev(match &s[1..2] { "a" => BrokerEvent::Accept, "r" => BrokerEvent::Refuse, "d" => BrokerEvent::Drop, _ => BrokerEvent::Other }),
        "P" => Step::Mode(match &s[1..2] { "a" => PubMode::Accept, "f" => PubMode::Fail, _ => PubMode::Slow(s[2..].parse().unwrap()) }),
        _ => Step::Tick,
    }
}
fn show_case(c: &Case) -> String { format!("{}|{}", join(c.cfgs.iter().map(show_cfg), ";"), join(c.steps.iter().map(show_step), ";")) }
fn parse_case(s: &str) -> Case {
    let p: Vec<&str> = s.split('|').collect();
    Case { cfgs: p[0].split(';').map(parse_cfg).collect(), steps: p[1].split(';').map(parse_step).collect() }
}

// ------------------------------------------------------------- real run

fn real_msg(topic: u8, id: u32) -> OutputStreamMessage {
    OutputStreamMessage::peer_down("mqtt".into(), format!("t{topic}"), IpAddr::from_str("192.0.2.1").unwrap(), Asn::from_u32(id), None)
}

/// The message number carried by a payload: `[null,["192.0.2.1",<asn>]]`.
fn msg_id(payload: &[u8]) -> Option<u32> {
    let v: serde_json::Value = serde_json::from_slice(payload).ok()?;
    v.get(1)?.get(1)?.as_u64().map(|n| n as u32)
}

#[derive(Clone, Debug, Default)]
struct StepObs { seen: Vec<Seen>, counters: Counters, ok_total: usize, finished: bool, created: usize,
    /// (message id, topic the held template gives it, configuration held) for every message handed in during this step
    handed: Vec<(u32, String, ProbeConfig)>,
    /// the configuration held when the step has settled
    held: Option<ProbeConfig>,
}

fn run_case(case: &Case) -> Result<Vec<StepObs>, String> {
    let rt = tokio::runtime::Builder::new_current_thread().enable_time().start_paused(true).build().unwrap();
    let case = case.clone();
    let res = std::panic::catch_unwind(std::panic::AssertUnwindSafe(|| rt.block_on(async move {
        let register = rotonda::verif::c17::new_register();
        let component = rotonda::manager::verif_hooks_c17::component("mqtt", "mqtt-out", register);
        let (probe, fut) = MqttConnProbe::new(component, &probe_config(&case.cfgs[0]));
        let jh = tokio::spawn(fut);
        let mut topics: Vec<String> = vec![];
        let mut next_id = 0u32;
        let mut out = vec![];
        for step in &case.steps {
            let mut obs = StepObs::default();
            match step {
                Step::In(inputs) => for i in inputs {
                    match i {
                        Inp::Msg(t) => {
                            let held = probe.held_config();
                            let topic = held.topic_template.replace("{id}", &format!("t{t}"));
                            if !topics.contains(&topic) { topics.push(topic.clone()); }
                            obs.handed.push((next_id, topic, held));
                            let upd = Update::OutputStream(vec![real_msg(*t, next_id)].into());
                            next_id += 1;
                            probe.direct_update(upd).await;
                        }
                        Inp::Reconf(k) => { probe.reconfigure(&probe_config(&case.cfgs[*k])); }
                        Inp::Term => { probe.terminate(); }
                    }
                },
                Step::Ev(e) => { probe.broker_event(*e); }
                Step::Mode(m) => probe.set_mode(*m),
                Step::Tick => tokio::time::sleep(Duration::from_secs(1)).await,
            }
            tokio::time::sleep(Duration::from_millis(2)).await;
            obs.seen = probe.take_seen();
            obs.counters = probe.counters();
            obs.ok_total = topics.iter().map(|t| probe.published_count(t)).sum();
            obs.finished = jh.is_finished();
            obs.created = probe.clients_created();
            obs.held = Some(probe.held_config());
            out.push(obs);
        }
        jh.abort();
        out
    })));
    res.map_err(|_| "panic".to_string())
}

fn show_seen(s: &Seen) -> String {
    match s {
        Seen::Open { conn, host, port, client_id, cap, credentials } => format!("o{conn}:{host}:{port}:{client_id}:{cap}:{}", credentials.as_ref().map(|(u, p)| format!("{u}+{p}")).unwrap_or("-".into())),
        Seen::PollEnter { conn } => format!("w{conn}"),
        Seen::Polled { conn, ev } => format!("{}{conn}", match ev { BrokerEvent::Accept => 'a', BrokerEvent::Refuse => 'r', BrokerEvent::Drop => 'e', BrokerEvent::Other => 'n' }),
        Seen::Publish { conn, topic, payload, qos, retain, outcome } => format!("p{conn}:{topic}:{}:{qos}{}{}", msg_id(payload).map(|n| n.to_string()).unwrap_or("?".into()), if *retain { "R" } else { "" }, ['+', '!', '~'][*outcome as usize]),
        Seen::PublishDone { payload, .. } => format!("d{}", msg_id(payload).map(|n| n.to_string()).unwrap_or("?".into())),
        Seen::PublishCancelled { payload, .. } => format!("c{}", msg_id(payload).map(|n| n.to_string()).unwrap_or("?".into())),
        Seen::Disconnect { conn } => format!("x{conn}"),
    }
}

fn show_obs(obs: &Result<Vec<StepObs>, String>) -> String {
    match obs {
        Err(e) => e.clone(),
        Ok(v) => join(v.iter().map(|o| {
            let t = join(o.seen.iter().filter(|s| !s.is_event_loop()).map(show_seen), " ");
            let e = join(o.seen.iter().filter(|s| s.is_event_loop()).map(show_seen), " ");
            format!("{} / {} / up={} ok={} pe={} ce={} cl={} fin={}", if t.is_empty() { "-".into() } else { t }, if e.is_empty() { "-".into() } else { e },
                o.counters.established as u8, o.ok_total, o.counters.publish_errors, o.counters.connection_errors, o.counters.connection_lost, o.finished as u8)
        }), " ; "),
    }
}

// ------------------------------------------------------------------ oracle

/// The property judged on what the scripted broker saw and on the target's own counters,
/// without the Lean model. Unlisted kinds of violation are looked for first, so that a listed
/// finding in the same case cannot hide them.
fn oracle(case: &Case, obs: &Result<Vec<StepObs>, String>) -> String {
    let Ok(obs) = obs else { return "fail mqtt-conn:panicked the run loop or the event-loop task panicked".into() };
    // handed-in ledger
    let mut handed: BTreeMap<u32, (String, bool)> = BTreeMap::new(); // id -> (topic, handed while the target was alive)
    let mut alive = true;
    for o in obs { for (id, topic, _) in &o.handed { handed.insert(*id, (topic.clone(), alive)); } alive = !o.finished; }
    // broker-side ledger
    let mut attempted: Vec<u32> = vec![];
    let mut accepted: Vec<u32> = vec![];
    let mut failed: Vec<u32> = vec![];
    let mut pending: Option<(u32, u64, u64, u64)> = None; // id, start second, d, publish_max
    let mut open: Option<(usize, String, u16, String, usize, Option<(String, String)>)> = None;
    let mut reconfs = 0usize; // Reconfigure commands sent so far
    let mut closed: Vec<usize> = vec![];
    let mut backoff: Option<(usize, u64, u64, bool)> = None; // conn, second of the error, expected delay, a Reconfigure has been sent (it may be handled while a publish blocks the run loop or while the next connection has no client yet, so no sharper attribution is attempted)
    let mut mode = PubMode::Accept;
    let mut now = 0u64;
    let mut opens = 0usize;
    let mut stale = None; let mut cred = None;
    for (k, (o, step)) in obs.iter().zip(&case.steps).enumerate() {
        if let Step::Mode(m) = step { mode = *m; }
        if let Step::Tick = step { now += 1; }
        if let Step::In(v) = step { reconfs += v.iter().filter(|i| matches!(i, Inp::Reconf(_))).count(); }
        let held = o.held.clone().unwrap();
        let cmd_in_step = k > 0 && obs[k - 1].held.as_ref() != Some(&held) || k == 0 && held != probe_config(&case.cfgs[0]);
        for s in &o.seen {
            match s {
                Seen::Open { conn, host, port, client_id, cap, credentials } => {
                    if *conn != opens { return format!("fail mqtt-conn:connection-numbering step {k}"); }
                    opens += 1;
                    open = Some((*conn, host.clone(), *port, client_id.clone(), *cap, credentials.clone()));
                    backoff = None;
                }
                Seen::PollEnter { conn } => {
                    if let Some((c, t, d, changed)) = backoff { if c == *conn {
                        if d != u64::MAX && now != t + d && !cmd_in_step {
                            if changed { stale.get_or_insert(format!("step {k}: connection {c} polled again {} s after the error, the configuration held says {d} s", now - t)); }
                            else { return format!("fail mqtt-conn:backoff step {k}: connection {c} polled again {} s after the error, connect_retry_secs is {d}", now - t); }
                        }
                        backoff = None;
                    } }
                }
                Seen::Polled { conn, ev } => {
                    if closed.contains(conn) { return format!("fail mqtt-conn:event-loop-after-disconnect step {k}: connection {conn} still polls"); }
                    if backoff.is_some() { return format!("fail mqtt-conn:backoff step {k}: connection {conn} polled during its back-off"); }
                    if matches!(ev, BrokerEvent::Refuse | BrokerEvent::Drop) {
                        // a Reconfigure handled within the same step may come before or after the error: no expectation then
                        backoff = Some((*conn, now, if cmd_in_step { u64::MAX } else { held.connect_retry_secs }, reconfs > 0));
                    }
                }
                Seen::Publish { conn, topic, payload, qos, retain, outcome } => {
                    let Some(id) = msg_id(payload) else { return format!("fail mqtt-conn:unknown-payload step {k}") };
                    let Some((want_topic, _)) = handed.get(&id) else { return format!("fail mqtt-conn:unknown-payload step {k}: message {id} was never handed in") };
                    if attempted.contains(&id) { return format!("fail mqtt-conn:duplicate-publish step {k}: message {id} handed to a client twice"); }
                    if attempted.last().is_some_and(|l| *l > id) { return format!("fail mqtt-conn:reordered step {k}: message {id} published after message {}", attempted.last().unwrap()); }
                    attempted.push(id);
                    if topic != want_topic { return format!("fail mqtt-conn:topic step {k}: message {id} on {topic}, the template held when it was handed in gives {want_topic}"); }
                    if *qos as i32 != held.qos || *retain { return format!("fail mqtt-conn:qos step {k}: message {id} with qos {qos}, the configuration held says {}", held.qos); }
                    if open.as_ref().map(|o| o.0) != Some(*conn) || closed.contains(conn) { return format!("fail mqtt-conn:publish-on-closed-connection step {k}: message {id} on connection {conn}"); }
                    if pending.is_some() { return format!("fail mqtt-conn:publish-overlap step {k}: message {id} while another publish is pending"); }
                    let want = match mode { PubMode::Accept => 0, PubMode::Fail => 1, PubMode::Slow(_) => 2 };
                    if *outcome != want { return format!("fail mqtt-conn:harness step {k}: scripted mode not applied"); }
                    match mode { PubMode::Accept => accepted.push(id), PubMode::Fail => failed.push(id), PubMode::Slow(d) => pending = Some((id, now, d, held.publish_max_secs)) }
                }
                Seen::PublishDone { payload, .. } | Seen::PublishCancelled { payload, .. } => {
                    let done = matches!(s, Seen::PublishDone { .. });
                    let id = msg_id(payload);
                    let Some((pid, t, d, p)) = pending.take() else { return format!("fail mqtt-conn:publish-timeout step {k}: completion without a pending publish") };
                    if id != Some(pid) { return format!("fail mqtt-conn:publish-timeout step {k}: completion of another message"); }
                    let (want_done, want_at) = if d <= p { (true, t + d) } else { (false, t + p) };
                    if done != want_done || now != want_at { return format!("fail mqtt-conn:publish-timeout step {k}: message {pid} (broker answers after {d} s, publish_max_secs {p}) {} after {} s", if done { "accepted" } else { "timed out" }, now - t); }
                    if done { accepted.push(pid) } else { failed.push(pid) }
                }
                Seen::Disconnect { conn } => {
                    if open.as_ref().map(|o| o.0) != Some(*conn) || closed.contains(conn) { return format!("fail mqtt-conn:publish-on-closed-connection step {k}: disconnect of connection {conn}"); }
                    closed.push(*conn);
                }
            }
        }
        // the target's own counters against the broker's ledger
        if o.counters.publish_errors != failed.len() { return format!("fail mqtt-conn:counter step {k}: {} publish errors counted, {} publishes failed", o.counters.publish_errors, failed.len()); }
        if o.ok_total < accepted.len() { return format!("fail mqtt-conn:counter step {k}: {} publishes counted, {} accepted", o.ok_total, accepted.len()); }
        // the connection in use is the one the held settings describe
        if let (Some((c, host, port, cid, cap, creds)), false) = (&open, o.finished) { if !closed.contains(c) {
            if (host, port, cid, *cap) != (&held.host, &held.port, &held.client_id, held.queue_size as usize) {
                return format!("fail mqtt-conn:connection-settings step {k}: connection {c} is to {host}:{port} as {cid} (capacity {cap}), the configuration held says {}:{} as {} (capacity {})", held.host, held.port, held.client_id, held.queue_size);
            }
            let want = match (&held.username, &held.password) { (Some(u), Some(p)) => Some((u.clone(), p.clone())), _ => None };
            if *creds != want { cred.get_or_insert(format!("step {k}: connection {c} uses credentials {creds:?}, the configuration held says {want:?}")); }
        } }
    }
    // every message handed to the live target: accepted once, refused by the broker, pending, or still queued behind a pending publish
    let last = obs.last().unwrap();
    let voided = last.ok_total - accepted.len();
    let not_attempted: Vec<u32> = handed.iter().filter(|(id, (_, alive))| *alive && !attempted.contains(id)).map(|(id, _)| *id).collect();
    if not_attempted.len() < voided { return format!("fail mqtt-conn:counter {} publishes counted, {} accepted, only {} messages never reached a client", last.ok_total, accepted.len(), not_attempted.len()); }
    let unexplained = not_attempted.len() - voided;
    if !last.finished && pending.is_none() && unexplained > 0 { return format!("fail mqtt-conn:message-stuck {unexplained} message(s) neither published nor counted: {not_attempted:?}"); }
    if voided > 0 { return format!("fail mqtt-out:lost-while-connecting {voided} message(s) counted as published were never handed to a client (taken from the queue while the new connection had no client yet); not published: {not_attempted:?}"); }
    if last.finished && unexplained > 0 { return format!("fail mqtt-out:terminate-drops-queued {unexplained} message(s) handed in before the target stopped were never published: {not_attempted:?}"); }
    if let Some(d) = stale { return format!("fail mqtt-out:reconfigure-retry-delay-stale {d}"); }
    if let Some(d) = cred { return format!("fail mqtt-out:reconfigure-credentials-ignored {d}"); }
    "ok".into()
}

fn nontrivial(obs: &Result<Vec<StepObs>, String>) -> bool {
    let Ok(obs) = obs else { return false };
    let all: Vec<&Seen> = obs.iter().flat_map(|o| o.seen.iter()).collect();
    let ok = all.iter().filter(|s| matches!(s, Seen::Publish { outcome: 0, .. } | Seen::PublishDone { .. })).count();
    let opens = all.iter().filter(|s| matches!(s, Seen::Open { .. })).count();
    let bad = all.iter().any(|s| matches!(s, Seen::Publish { outcome: 1, .. } | Seen::PublishCancelled { .. } | Seen::Polled { ev: BrokerEvent::Refuse | BrokerEvent::Drop, .. }));
    ok >= 2 && (opens >= 2 || bad)
}

// --------------------------------------------------------------- generator

fn gen_case(rng: &mut Rng, long: bool) -> Case {
    let base = Cfg { cid: 0, dest: 0, qs: 0, tmpl: rng.below(3) as u8, r: 1 + rng.below(3), p: 1 + rng.below(3), qos: rng.below(3) as u8, user: rng.below(3) as u8 };
    let mut cfgs = vec![base];
    for _ in 0..rng.below(4) {
        let mut c = *rng.pick(&cfgs);
        for _ in 0..1 + rng.below(2) {
            match rng.below(9) { 0 => c.cid = rng.below(2) as u8, 1 => c.dest = rng.below(2) as u8, 2 => c.qs = rng.below(2) as u8, 3 => c.tmpl = rng.below(3) as u8,
                4 | 5 => c.r = 1 + rng.below(3), 6 => c.p = 1 + rng.below(3), 7 => c.qos = rng.below(3) as u8, _ => c.user = rng.below(3) as u8 }
        }
        cfgs.push(c);
    }
    let burst = |rng: &mut Rng, n: u64, term_ok: bool, cfgs: &Vec<Cfg>| -> Step {
        Step::In((0..n).map(|_| match rng.below(20) { 0..=13 => Inp::Msg(rng.below(3) as u8), 14..=18 => Inp::Reconf(rng.below(cfgs.len() as u64) as usize), _ => if term_ok { Inp::Term } else { Inp::Msg(0) } }).collect())
    };
    let n = if long { 10 + rng.below(30) } else { 3 + rng.below(16) };
    let mut steps = vec![if rng.chance(3, 5) { Step::In(vec![]) } else { let k = 1 + rng.below(3); burst(rng, k, false, &cfgs) }];
    for i in 0..n {
        steps.push(match rng.below(20) {
            0..=7 => { let k = 1 + rng.below(4); burst(rng, k, i + 4 >= n, &cfgs) }
            8..=11 => Step::Ev(*rng.pick(&[BrokerEvent::Accept, BrokerEvent::Accept, BrokerEvent::Refuse, BrokerEvent::Drop, BrokerEvent::Drop, BrokerEvent::Other])),
            12..=13 => Step::Mode(match rng.below(6) { 0 | 1 => PubMode::Accept, 2 => PubMode::Fail, _ => PubMode::Slow(1 + rng.below(4)) }),
            _ => Step::Tick,
        });
    }
    Case { cfgs, steps }
}

// -------------------------------------------------------------------- main

/// Witnesses of the listed findings (also the Lean counterexamples), replayed first; the
/// signature each one produces on this tree selects the model variant.
const WITNESSES: &[(&str, &str, &str)] = &[
    ("void", "mqtt-out:lost-while-connecting", "0.0.0.0.1.1.1.0;1.0.0.0.1.1.1.0|I;Ea;Im0,r1,m1;Ea;Im2"),
    ("void", "mqtt-out:lost-while-connecting", "0.0.0.0.1.1.1.0|Im0,m1;Ea;Im2"),
    ("retry", "mqtt-out:reconfigure-retry-delay-stale", "0.0.0.0.1.1.1.0;0.0.0.0.3.1.1.0|I;Ea;Ir1;Ed;T;T;T;Ea"),
    ("cred", "mqtt-out:reconfigure-credentials-ignored", "0.0.0.0.1.1.1.0;0.0.0.0.1.1.1.2|I;Ea;Ir1;Im0"),
    ("term", "mqtt-out:terminate-drops-queued", "0.0.0.0.1.1.1.0|I;Ea;Im0,x"),
];

fn record(rec: &mut Recorder, case: &Case) -> String {
    let obs = run_case(case);
    let orc = oracle(case, &obs);
    if let Ok(o) = &obs {
        for s in o.iter().flat_map(|o| o.seen.iter()) {
            rec.bump(match s {
                Seen::Open { .. } => "seen.open", Seen::PollEnter { .. } => "seen.poll-enter",
                Seen::Polled { ev: BrokerEvent::Accept, .. } => "seen.connack-success", Seen::Polled { ev: BrokerEvent::Refuse, .. } => "seen.connack-refused",
                Seen::Polled { ev: BrokerEvent::Drop, .. } => "seen.connection-error", Seen::Polled { .. } => "seen.other-packet",
                Seen::Publish { outcome: 0, .. } => "seen.publish-accepted", Seen::Publish { outcome: 1, .. } => "seen.publish-client-error", Seen::Publish { .. } => "seen.publish-slow",
                Seen::PublishDone { .. } => "seen.slow-publish-accepted", Seen::PublishCancelled { .. } => "seen.slow-publish-timed-out", Seen::Disconnect { .. } => "seen.disconnect",
            });
        }
        if o.last().is_some_and(|l| l.finished) { rec.bump("case.terminated"); }
        let l = o.last().unwrap();
        let acc = o.iter().flat_map(|o| o.seen.iter()).filter(|s| matches!(s, Seen::Publish { outcome: 0, .. } | Seen::PublishDone { .. })).count();
        rec.bump_by("ledger.handed", o.iter().map(|o| o.handed.len() as u64).sum());
        rec.bump_by("ledger.accepted", acc as u64);
        rec.bump_by("ledger.counted-published-without-client", (l.ok_total.saturating_sub(acc)) as u64);
    }
    for s in &case.steps { rec.bump(match s { Step::In(v) if v.is_empty() => "step.empty-burst", Step::In(_) => "step.burst", Step::Ev(_) => "step.broker-event", Step::Mode(_) => "step.publish-mode", Step::Tick => "step.tick" });
        if let Step::In(v) = s { for i in v { rec.bump(match i { Inp::Msg(_) => "input.message", Inp::Reconf(_) => "input.reconfigure", Inp::Term => "input.terminate" }); } } }
    rec.bump(&format!("oracle.{}", orc.split(' ').take(2).collect::<Vec<_>>().join(" ")));
    let nt = nontrivial(&obs);
    rec.case(show_case(case), show_obs(&obs), orc.clone(), nt);
    orc
}

fn main() {
    let args = parse_args();
    std::panic::set_hook(Box::new(|_| {}));
    if args.rest.iter().any(|a| a == "--explore") {
        for c in args.rest.iter().filter(|a| a.contains('|')) {
            let case = parse_case(c);
            let obs = run_case(&case);
            println!("{}\n  => {}\n  oracle: {}", show_case(&case), show_obs(&obs).replace(" ; ", "\n     "), oracle(&case, &obs));
        }
        return;
    }
    let t0 = Instant::now();
    let mut rec = Recorder::new("a table of 1-5 configurations (client id, destination, queue size, topic template, connect_retry_secs 1-3, publish_max_secs 1-3, qos, credentials) and a script of 4-40 steps: bursts of 0-4 target inputs (messages on 3 topics through the real direct_update, Reconfigure, Terminate) delivered back to back, broker events (ConnAck success / refusal, connection error, other packet), publish behaviour (accept, client error, answer after 1-4 s), seconds passing; the first burst is delivered before the target task first runs. non-trivial = at least two messages accepted by a client and (a second connection opened, or a failed / timed-out publish, or a connection error with back-off); distinct = distinct case lines");
    if let Some(path) = &args.replay {
        for c in replay_cases(path) { record(&mut rec, &parse_case(&c)); }
        rec.finish(&args, t0.elapsed().as_secs_f64());
        return;
    }
    // witnesses first: they select the variants
    let mut variants: BTreeMap<&str, bool> = BTreeMap::new();
    for (site, sig, c) in WITNESSES {
        let orc = record(&mut rec, &parse_case(c));
        let hit = orc.starts_with(&format!("fail {sig}"));
        let e = variants.entry(site).or_insert(false);
        *e = *e || hit;
    }
    for (site, hit) in &variants { rec.variant(site, if *hit { "as-written" } else { "repaired" }); }
    // generated scripts, on a few threads (the scripted broker is per thread, the runtime per case)
    let threads = 4u64;
    let per = if args.thorough { 120000 } else { 6000 };
    let seed = args.seed;
    let handles: Vec<_> = (0..threads).map(|t| std::thread::spawn(move || {
        let mut rng = Rng::new(seed.wrapping_mul(1000003).wrapping_add(t));
        let mut r = Recorder::new("");
        for i in 0..per { let case = gen_case(&mut rng, i % 5 == 0); record(&mut r, &case); }
        r
    })).collect();
    for h in handles {
        let r = h.join().unwrap();
        for ((c, i), o) in r.cases.iter().zip(&r.impls).zip(&r.oracles) {
            let case = parse_case(c);
            let nt = nontrivial_from_line(i);
            let _ = &case;
            rec.case(c.clone(), i.clone(), o.clone(), nt);
        }
        for (k, v) in &r.dist { rec.bump_by(k, *v); }
    }
    rec.finish(&args, t0.elapsed().as_secs_f64());
}

/// The non-triviality rule evaluated on an observation line (used when merging thread results).
fn nontrivial_from_line(line: &str) -> bool {
    let toks: Vec<&str> = line.split(' ').collect();
    let ok = toks.iter().filter(|t| (t.starts_with('p') && t.ends_with('+')) || (t.starts_with('d') && t[1..].parse::<u32>().is_ok())).count();
    let opens = toks.iter().filter(|t| t.starts_with('o') && t.contains(':')).count();
    let bad = toks.iter().any(|t| (t.starts_with('p') && t.ends_with('!')) || (t.starts_with('c') && t[1..].parse::<u32>().is_ok()) || ((t.starts_with('r') || t.starts_with('e')) && t[1..].parse::<u32>().is_ok()));
    ok >= 2 && (opens >= 2 || bad)
}
