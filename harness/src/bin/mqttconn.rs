//! MqttConn engine: the real mqtt-out run loop (`MqttRunner::do_run` /
//! `process_events` / `reconfigure` / `publish_msg`) and the real
//! `Connection::process` / `disconnect` / `mqtt_event_loop` on a *scripted
//! broker* (the `Client` / `EventLoop` / `ConnectionFactory` seam the
//! repository's own tests mock) vs the Lean model `Model/MqttConn.lean`.
//!
//! A case is a table of configurations plus a script. Script steps:
//!   `I<inputs>`  a burst of target inputs delivered back to back, then the
//!                target runs until nothing can move: `m<topic>` one
//!                `Update::OutputStream` message through the real `direct_update`
//!                (messages are numbered 0,1,2.. in script order), `r<k>`
//!                `TargetCommand::Reconfigure` to configuration k, `x` `Terminate`
//!   `Ea|Er|Ed|Eo` the broker accepts (ConnAck Success) / refuses (ConnAck with
//!                an error code) / drops the connection (`Err(ConnectionError)`)
//!                / sends some other packet: next result of `EventLoop::poll`
//!   `Pa|Pf|Ps<d>` from now on `Client::publish` accepts / returns a
//!                `ClientError` / returns Ok after d seconds
//!   `T`          one second of (paused, auto-advancing) tokio time passes
//! The first step is a burst delivered before the target task is first polled.
//! Runtime: current-thread, time paused; after every step the driver sleeps
//! 2 ms, which under auto-advance returns exactly when no task can move.
//!
//! Observation per step: what the run loop did at the seam (publish calls with
//! connection, topic, message, qos and outcome; completions / cancellations of
//! slow publishes; disconnects), what the event-loop task did (connections
//! opened with host, port, client id, capacity, credentials; polls entered;
//! events consumed) and the target's own counters.
//!
//! Oracle (no Lean): an independent ledger of handed-in vs published messages
//! per script, see `oracle`.
use std::collections::BTreeMap;
use std::net::IpAddr;
use std::str::FromStr;
use std::time::{Duration, Instant};

use inetnum::asn::Asn;
use rotonda::payload::Update;
use rotonda::roto_runtime::types::OutputStreamMessage;
use rotonda::targets::verif_hooks_mqttconn::{BrokerEvent, Counters, MqttConnProbe, ProbeConfig, PubMode, Seen};
use verif_harness::{join, parse_args, replay_cases, rng::Rng, Recorder};

// ------------------------------------------------------------------ cases

#[derive(Clone, Copy, Debug, PartialEq, Eq)]
struct Cfg { cid: u8, dest: u8, qs: u8, tmpl: u8, r: u64, p: u64, qos: u8, user: u8 }

#[derive(Clone, Copy, Debug, PartialEq, Eq)]
enum Inp { Msg(u8), Reconf(usize), Term }

#[derive(Clone, Debug, PartialEq, Eq)]
enum Step { In(Vec<Inp>), Ev(BrokerEvent), Mode(PubMode), Tick }

#[derive(Clone, Debug, PartialEq, Eq)]
struct Case { cfgs: Vec<Cfg>, steps: Vec<Step> }

const TEMPLATES: &[&str] = &["rotonda/{id}", "a/{id}/b", "fixed"];

fn probe_config(c: &Cfg) -> ProbeConfig {
    ProbeConfig {
        host: format!("h{}", c.dest), port: 1883 + c.dest as u16, client_id: format!("cid{}", c.cid),
        queue_size: 10 * (c.qs as u16 + 1), topic_template: TEMPLATES[c.tmpl as usize].to_string(),
        connect_retry_secs: c.r, publish_max_secs: c.p, qos: c.qos as i32,
        username: if c.user == 0 { None } else { Some(format!("u{}", c.user)) },
        password: if c.user == 0 { None } else { Some("pw".into()) },
    }
}

fn show_cfg(c: &Cfg) -> String { format!("{}.{}.{}.{}.{}.{}.{}.{}", c.cid, c.dest, c.qs, c.tmpl, c.r, c.p, c.qos, c.user) }
fn parse_cfg(s: &str) -> Cfg {
    let f: Vec<u64> = s.split('.').map(|x| x.parse().unwrap()).collect();
    Cfg { cid: f[0] as u8, dest: f[1] as u8, qs: f[2] as u8, tmpl: f[3] as u8, r: f[4], p: f[5], qos: f[6] as u8, user: f[7] as u8 }
}
fn show_step(s: &Step) -> String {
    match s {
        Step::In(v) => format!("I{}", join(v.iter().map(|i| match i { Inp::Msg(t) => format!("m{t}"), Inp::Reconf(k) => format!("r{k}"), Inp::Term => "x".into() }), ",")),
        Step::Ev(e) => format!("E{}", match e { BrokerEvent::Accept => 'a', BrokerEvent::Refuse => 'r', BrokerEvent::Drop => 'd', BrokerEvent::Other => 'o' }),
        Step::Mode(m) => match m { PubMode::Accept => "Pa".into(), PubMode::Fail => "Pf".into(), PubMode::Slow(d) => format!("Ps{d}") },
        Step::Tick => "T".into(),
    }
}
fn parse_step(s: &str) -> Step {
    match &s[0..1] {
        "I" => Step::In(if s.len() == 1 { vec![] } else { s[1..].split(',').map(|i| match &i[0..1] {
            "m" => Inp::Msg(i[1..].parse().unwrap()), "r" => Inp::Reconf(i[1..].parse().unwrap()), _ => Inp::Term }).collect() }),
        "E" => Step::Ev(match &s[1..2] { "a" => BrokerEvent::Accept, "r" => BrokerEvent::Refuse, "d" => BrokerEvent::Drop, _ => BrokerEvent::Other }),
        "P" => Step::Mode(match &s[1..2] { "a" => PubMode::Accept, "f" => PubMode::Fail, _ => PubMode::Slow(s[2..].parse().unwrap()) }),
        _ => Step::Tick,
    }
}
fn show_case(c: &Case) -> String { format!("{}|{}", join(c.cfgs.iter().map(show_cfg), ";"), join(c.steps.iter().map(show_step), ";")) }
fn parse_case(s: &str) -> Case {
    let p: Vec<&str> = s.split('|').collect();
    Case { cfgs: p[0].split(';').map(parse_cfg).collect(), steps: p[1].split(';').map(parse_step).collect() }
}

// ------------------------------------------------------------- real run

fn real_msg(topic: u8, id: u32) -> OutputStreamMessage {
    OutputStreamMessage::peer_down("mqtt".into(), format!("t{topic}"), IpAddr::from_str("192.0.2.1").unwrap(), Asn::from_u32(id), None)
}

/// The message number carried by a payload: `[null,["192.0.2.1",<asn>]]`.
fn msg_id(payload: &[u8]) -> Option<u32> {
    let v: serde_json::Value = serde_json::from_slice(payload).ok()?;
    v.get(1)?.get(1)?.as_u64().map(|n| n as u32)
}

#[derive(Clone, Debug, Default)]
struct StepObs { seen: Vec<Seen>, counters: Counters, ok_total: usize, finished: bool, created: usize,
    /// (message id, topic the held template gives it, configuration held) for every message handed in during this step
    handed: Vec<(u32, String, ProbeConfig)>,
    /// the configuration held when the step has settled
    held: Option<ProbeConfig>,
}

fn run_case(case: &Case) -> Result<Vec<StepObs>, String> {
    let rt = tokio::runtime::Builder::new_current_thread().enable_time().start_paused(true).build().unwrap();
    let case = case.clone();
    let res = std::panic::catch_unwind(std::panic::AssertUnwindSafe(|| rt.block_on(async move {
        let register = rotonda::verif::c17::new_register();
        let component = rotonda::manager::verif_hooks_c17::component("mqtt", "mqtt-out", register);
        let (probe, fut) = MqttConnProbe::new(component, &probe_config(&case.cfgs[0]));
        let jh = tokio::spawn(fut);
        let mut topics: Vec<String> = vec![];
        let mut next_id = 0u32;
        let mut out = vec![];
        for step in &case.steps {
            let mut obs = StepObs::default();
            match step {
                Step::In(inputs) => for i in inputs {
                    match i {
                        Inp::Msg(t) => {
                            let held = probe.held_config();
                            let topic = held.topic_template.replace("{id}", &format!("t{t}"));
                            if !topics.contains(&topic) { topics.push(topic.clone()); }
                            obs.handed.push((next_id, topic, held));
                            let upd = Update::OutputStream(vec![real_msg(*t, next_id)].into());
                            next_id += 1;
                            probe.direct_update(upd).await;
                        }
                        Inp::Reconf(k) => { probe.reconfigure(&probe_config(&case.cfgs[*k])); }
                        Inp::Term => { probe.terminate(); }
                    }
                },
                Step::Ev(e) => { probe.broker_event(*e); }
                Step::Mode(m) => probe.set_mode(*m),
                Step::Tick => tokio::time::sleep(Duration::from_secs(1)).await,
            }
            tokio::time::sleep(Duration::from_millis(2)).await;
            obs.seen = probe.take_seen();
            obs.counters = probe.counters();
            obs.ok_total = topics.iter().map(|t| probe.published_count(t)).sum();
            obs.finished = jh.is_finished();
            obs.created = probe.clients_created();
            obs.held = Some(probe.held_config());
            out.push(obs);
        }
        jh.abort();
        out
    })));
    res.map_err(|_| "panic".to_string())
}

fn show_seen(s: &Seen) -> String {
    match s {
        Seen::Open { conn, host, port, client_id, cap, credentials } => format!("o{conn}:{host}:{port}:{client_id}:{cap}:{}", credentials.as_ref().map(|(u, p)| format!("{u}+{p}")).unwrap_or("-".into())),
        Seen::PollEnter { conn } => format!("w{conn}"),
        Seen::Polled { conn, ev } => format!("{}{conn}", match ev { BrokerEvent::Accept => 'a', BrokerEvent::Refuse => 'r', BrokerEvent::Drop => 'e', BrokerEvent::Other => 'n' }),
        Seen::Publish { conn, topic, payload, qos, retain, outcome } => format!("p{conn}:{topic}:{}:{qos}{}{}", msg_id(payload).map(|n| n.to_string()).unwrap_or("?".into()), if *retain { "R" } else { "" }, ['+', '!', '~'][*outcome as usize]),
        Seen::PublishDone { payload, .. } => format!("d{}", msg_id(payload).map(|n| n.to_string()).unwrap_or("?".into())),
        Seen::PublishCancelled { payload, .. } => format!("c{}", msg_id(payload).map(|n| n.to_string()).unwrap_or("?".into())),
        Seen::Disconnect { conn } => format!("x{conn}"),
    }
}

fn show_obs(obs: &Result<Vec<StepObs>, String>) -> String {
    match obs {
        Err(e) => e.clone(),
        Ok(v) => join(v.iter().map(|o| {
            let t = join(o.seen.iter().filter(|s| !s.is_event_loop()).map(show_seen), " ");
            let e = join(o.seen.iter().filter(|s| s.is_event_loop()).map(show_seen), " ");
            format!("{} / {} / up={} ok={} pe={} ce={} cl={} fin={}", if t.is_empty() { "-".into() } else { t }, if e.is_empty() { "-".into() } else { e },
                o.counters.established as u8, o.ok_total, o.counters.publish_errors, o.counters.connection_errors, o.counters.connection_lost, o.finished as u8)
        }), " ; "),
    }
}

fn main() {
    let args = parse_args();
    std::panic::set_hook(Box::new(|_| {}));
    if args.rest.iter().any(|a| a == "--explore") {
        for c in args.rest.iter().filter(|a| a.contains('|')) {
            let case = parse_case(c);
            println!("{}\n  => {}", show_case(&case), show_obs(&run_case(&case)).replace(" ; ", "\n     "));
        }
        return;
    }
    let _ = (Instant::now(), BTreeMap::<u8, u8>::new(), Rng::new(args.seed), replay_cases, Recorder::new(""));
}
