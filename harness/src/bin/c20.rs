//! C20 engine: the real MRT queue endpoint (`mrt_file_in::api::Processor::process_request`,
//! reached through `rotonda::verif::http::mk_mrt_processor`) over real scratch directory trees
//! vs the Lean model `Model/MrtApi.lean`.
//!
//! Every case builds (or reuses) a scratch tree under `temp_dir()/verif-<pid>/tNN` with nested
//! directories, files and symbolic links (inside → inside, inside → outside, absolute, dangling,
//! looping, the update directory itself a link), constructs the real `Processor` with a live
//! tokio mpsc queue whose consumer is played by the engine (replies ok / err / drops the oneshot /
//! stays silent past the 5 s timeout — tokio's clock is paused, so that is instant), sends one
//! `hyper::Request` through `process_request` and observes: handled?, status code, the path(s)
//! that arrived on the queue.
//!
//! All paths in case / impl lines are *virtual*: the scratch root is written `/@R@`, so lines do
//! not depend on the machine, the pid or the temp dir.
//!
//! The case line also carries what the real `std::fs::canonicalize` returned for the two paths
//! the endpoint asks about (the Lean decision function takes them as an oracle) and the full tree
//! (the Lean `canonFs` recomputes both results from it; they are compared too).
//!
//! Oracle (independent of the Lean model): whatever arrives on the queue must (1) exist,
//! (2) be link-free (no component is a symlink: it *is* the resolved location), (3) start, by
//! components, with the real `canonicalize(update_path)`, (4) be unique, (5) be answered 2xx when
//! the consumer does not report an error; nothing enqueued ⇒ the status is 400; no `update_path`
//! ⇒ 400 and nothing enqueued; never a panic.
use std::collections::BTreeMap;
use std::ffi::OsString;
use std::os::unix::ffi::{OsStrExt, OsStringExt};
use std::panic::{catch_unwind, AssertUnwindSafe};
use std::path::{Path, PathBuf};
use std::sync::{Arc, Mutex};
use std::time::Instant;

use hyper::{Body, Request};
use rotonda::http::{extract_params, get_param, MatchedParam};
use rotonda::verif::http::mk_mrt_processor;
use verif_harness::{parse_args, rng::Rng, Recorder};

const VROOT: &[u8] = b"/@R@";
const API: &str = "/mrt/u1/";

// ------------------------------------------------------------------ bytes

fn hex(b: &[u8]) -> String { b.iter().map(|x| format!("{:02x}", x)).collect() }
fn unhex(s: &str) -> Vec<u8> {
    (0..s.len() / 2).map(|i| u8::from_str_radix(&s[2 * i..2 * i + 2], 16).unwrap()).collect()
}
fn replace_all(s: &[u8], from: &[u8], to: &[u8]) -> Vec<u8> {
    let mut out = Vec::with_capacity(s.len());
    let mut i = 0;
    while i < s.len() {
        if s[i..].starts_with(from) { out.extend_from_slice(to); i += from.len(); } else { out.push(s[i]); i += 1; }
    }
    out
}

// ------------------------------------------------------------------ scratch trees

#[derive(Clone, Debug, PartialEq)]
enum Entry { Dir(Vec<u8>), File(Vec<u8>), Link(Vec<u8>, Vec<u8>) }

/// A tree spec: absolute virtual paths, creation order.
#[derive(Clone, Debug, PartialEq)]
struct Layout(Vec<Entry>);

impl Layout {
    fn spec(&self) -> String {
        self.0.iter().map(|e| match e {
            Entry::Dir(p) => format!("d{}", hex(p)),
            Entry::File(p) => format!("f{}", hex(p)),
            Entry::Link(p, t) => format!("l{}={}", hex(p), hex(t)),
        }).collect::<Vec<_>>().join(",")
    }
    fn parse(s: &str) -> Layout {
        Layout(s.split(',').filter(|x| !x.is_empty()).map(|e| {
            let (k, rest) = e.split_at(1);
            match k {
                "d" => Entry::Dir(unhex(rest)),
                "f" => Entry::File(unhex(rest)),
                _ => { let (p, t) = rest.split_once('=').unwrap(); Entry::Link(unhex(p), unhex(t)) }
            }
        }).collect())
    }
}

/// Owns `temp_dir()/verif-<pid>`; removed on drop (also when `main` unwinds).
struct Scratch { base: PathBuf, next: usize, built: Vec<(Layout, PathBuf)> }

impl Scratch {
    fn new() -> Scratch {
        let tmp = std::fs::canonicalize(std::env::temp_dir()).expect("temp dir");
        let base = tmp.join(format!("verif-{}", std::process::id()));
        let _ = std::fs::remove_dir_all(&base);
        std::fs::create_dir_all(&base).expect("scratch base");
        let ok = base.as_os_str().as_bytes().iter().all(|c| c.is_ascii_alphanumeric() || b"/_.-".contains(c));
        assert!(ok, "scratch root {:?} contains characters that percent-decoding would change", base);
        Scratch { base, next: 0, built: vec![] }
    }
    /// The real root of `layout` (built on first use).
    fn root(&mut self, layout: &Layout) -> PathBuf {
        if let Some((_, r)) = self.built.iter().find(|(l, _)| l == layout) { return r.clone(); }
        let root = self.base.join(format!("t{:04}", self.next));
        self.next += 1;
        std::fs::create_dir_all(&root).unwrap();
        let rb = root.as_os_str().as_bytes().to_vec();
        let real = |v: &[u8]| PathBuf::from(OsString::from_vec(replace_all(v, VROOT, &rb)));
        for e in &layout.0 {
            // creation errors (e.g. a spec from a replay file naming a path twice) are ignored:
            // the observation is made on whatever tree results, and `canonicalize` is re-asked.
            match e {
                Entry::Dir(p) => { let _ = std::fs::create_dir_all(real(p)); }
                Entry::File(p) => { let _ = std::fs::write(real(p), b"MRT?"); }
                Entry::Link(p, t) => { let _ = std::os::unix::fs::symlink(real(t), real(p)); }
            }
        }
        if self.built.len() > 64 {
            let (_, old) = self.built.remove(0);
            let _ = std::fs::remove_dir_all(old);
        }
        self.built.push((layout.clone(), root.clone()));
        root
    }
}
impl Scratch {
    /// A new empty root directory that is not tied to a layout yet.
    fn fresh_root(&mut self) -> PathBuf {
        let root = self.base.join(format!("t{:04}", self.next));
        self.next += 1;
        std::fs::create_dir_all(&root).unwrap();
        root
    }
    /// `layout` is what `root` looks like now (the history stream changes a tree in place).
    fn adopt(&mut self, layout: &Layout, root: &Path) {
        self.built.retain(|(_, r)| r != root);
        self.built.push((layout.clone(), root.to_path_buf()));
    }
}
impl Drop for Scratch { fn drop(&mut self) { let _ = std::fs::remove_dir_all(&self.base); } }

// ------------------------------------------------------------------ cases

#[derive(Clone, Copy, Debug, PartialEq)]
enum Reply { Ok, Err, Drop, Silent }
impl Reply {
    fn name(self) -> &'static str { match self { Reply::Ok => "ok", Reply::Err => "err", Reply::Drop => "drop", Reply::Silent => "silent" } }
    fn parse(s: &str) -> Reply { match s { "ok" => Reply::Ok, "err" => Reply::Err, "drop" => Reply::Drop, _ => Reply::Silent } }
}

#[derive(Clone, Debug)]
struct Case {
    method: String,
    api: String,
    /// raw request target, virtual: `<path>[?<query>]`
    target: Vec<u8>,
    /// configured `update_path`, virtual
    upd: Option<Vec<u8>>,
    rx_open: bool,
    reply: Reply,
}

struct Obs { panicked: Option<String>, status: Option<u16>, enq: Vec<PathBuf> }

fn run_real(req: Request<Body>, api: &str, upd: Option<PathBuf>, rx_open: bool, reply: Reply) -> Obs {
    let log: Arc<Mutex<Vec<PathBuf>>> = Arc::new(Mutex::new(vec![]));
    let log2 = log.clone();
    let api = api.to_string();
    let r = catch_unwind(AssertUnwindSafe(move || {
        let rt = tokio::runtime::Builder::new_current_thread().enable_all().start_paused(true).build().unwrap();
        rt.block_on(async move {
            let (proc_, mut rx) = mk_mrt_processor(&api, upd, 8);
            let consumer = if rx_open {
                Some(tokio::spawn(async move {
                    let mut held = vec![];
                    while let Some((p, tx)) = rx.recv().await {
                        log2.lock().unwrap().push(p);
                        if let Some(tx) = tx {
                            match reply {
                                Reply::Ok => { let _ = tx.send(Ok("OK!".to_string())); }
                                Reply::Err => { let _ = tx.send(Err("consumer failed".to_string())); }
                                Reply::Drop => drop(tx),
                                Reply::Silent => held.push(tx),
                            }
                        }
                    }
                }))
            } else { drop(rx); None };
            let resp = proc_.process_request(&req).await;
            if let Some(c) = consumer { c.abort(); let _ = c.await; }
            resp.map(|r| r.status().as_u16())
        })
    }));
    let enq = log.lock().unwrap().clone();
    match r {
        Ok(status) => Obs { panicked: None, status, enq },
        Err(e) => {
            let msg = e.downcast_ref::<String>().cloned().or_else(|| e.downcast_ref::<&str>().map(|s| s.to_string())).unwrap_or_default();
            Obs { panicked: Some(msg), status: None, enq }
        }
    }
}

/// One Processor that lives across several requests (the `history` stream): whatever the endpoint keeps from one
/// request to the next (a cache of resolved paths, a remembered update directory) is then in play, and the tree is
/// changed between the requests. The consumer answers `Ok` to everything.
struct Session { rt: tokio::runtime::Runtime, proc_: Arc<dyn rotonda::http::ProcessRequest>, log: Arc<Mutex<Vec<PathBuf>>> }

impl Session {
    fn new(api: &str, upd: Option<PathBuf>) -> Session {
        let rt = tokio::runtime::Builder::new_current_thread().enable_all().start_paused(true).build().unwrap();
        let log: Arc<Mutex<Vec<PathBuf>>> = Arc::new(Mutex::new(vec![]));
        let log2 = log.clone();
        let api = api.to_string();
        let proc_ = rt.block_on(async move {
            let (proc_, mut rx) = mk_mrt_processor(&api, upd, 8);
            tokio::spawn(async move {
                while let Some((p, tx)) = rx.recv().await {
                    log2.lock().unwrap().push(p);
                    if let Some(tx) = tx { let _ = tx.send(Ok("OK!".to_string())); }
                }
            });
            proc_
        });
        Session { rt, proc_, log }
    }
    fn request(&self, req: Request<Body>) -> Obs {
        self.log.lock().unwrap().clear();
        let r = catch_unwind(AssertUnwindSafe(|| {
            self.rt.block_on(async { self.proc_.process_request(&req).await.map(|r| r.status().as_u16()) })
        }));
        let enq = self.log.lock().unwrap().clone();
        match r {
            Ok(status) => Obs { panicked: None, status, enq },
            Err(e) => {
                let msg = e.downcast_ref::<String>().cloned().or_else(|| e.downcast_ref::<&str>().map(|s| s.to_string())).unwrap_or_default();
                Obs { panicked: Some(msg), status: None, enq }
            }
        }
    }
}

/// Is any component of `p` (below `/`) a symbolic link?
fn has_link_component(p: &Path) -> bool {
    let mut cur = PathBuf::new();
    for c in p.components() {
        cur.push(c);
        if std::fs::symlink_metadata(&cur).map(|m| m.file_type().is_symlink()).unwrap_or(false) { return true; }
    }
    false
}

fn run_case(rec: &mut Recorder, scratch: &mut Scratch, layout: &Layout, c: &Case) { run_case_in(rec, scratch, layout, c, None) }

fn run_case_in(rec: &mut Recorder, scratch: &mut Scratch, layout: &Layout, c: &Case, session: Option<&Session>) {
    let root = scratch.root(layout);
    let rb = root.as_os_str().as_bytes().to_vec();
    let realize = |v: &[u8]| replace_all(v, VROOT, &rb);
    let virt = |r: &[u8]| replace_all(r, &rb, VROOT);

    let target = realize(&c.target);
    let req = match std::str::from_utf8(&target).ok().and_then(|t| {
        Request::builder().method(c.method.as_str()).uri(t).body(Body::empty()).ok()
    }) {
        Some(r) => r,
        None => { rec.bump("skipped:uri-or-method-rejected-by-http-crate"); return; }
    };
    // what the code sees
    let upath = virt(req.uri().path().as_bytes());
    let uquery = req.uri().query().map(|q| virt(q.as_bytes()));
    let upd_real = c.upd.as_ref().map(|u| PathBuf::from(OsString::from_vec(realize(u))));

    // the canonicalize oracle table, from the real file system
    let mut table: Vec<(Vec<u8>, Option<Vec<u8>>)> = vec![];
    let canon = |p: &Path| std::fs::canonicalize(p).ok();
    let cd = upd_real.as_ref().and_then(|u| canon(u));
    let params = extract_params(&req);
    let file = match get_param(&params, "file") { Some(MatchedParam::Exact(f)) => Some(f.to_string()), _ => None };
    if let (Some(u), Some(ur)) = (&c.upd, &upd_real) {
        let _ = ur;
        table.push((u.clone(), cd.as_ref().map(|p| virt(p.as_os_str().as_bytes()))));
    }
    let mut cj = None;
    if let (Some(d), Some(f)) = (&cd, &file) {
        let joined = d.join(f);
        cj = canon(&joined);
        let key = virt(joined.as_os_str().as_bytes());
        if !table.iter().any(|(k, _)| *k == key) {
            table.push((key, cj.as_ref().map(|p| virt(p.as_os_str().as_bytes()))));
        }
    }
    let table_s = table.iter().map(|(k, v)| format!("{}={}", hex(k), v.as_ref().map(|v| hex(v)).unwrap_or("!".into()))).collect::<Vec<_>>().join(",");

    let case_line = format!("v1|{}|{}|{}|{}|{}|{}|{}|{}|{}",
        c.method, hex(c.api.as_bytes()), hex(&upath), uquery.as_ref().map(|q| hex(q)).unwrap_or("-".into()),
        c.upd.as_ref().map(|u| hex(u)).unwrap_or("-".into()), if c.rx_open { "o" } else { "c" }, c.reply.name(),
        table_s, layout.spec());

    let obs = match session { Some(se) => se.request(req), None => run_real(req, &c.api, upd_real.clone(), c.rx_open, c.reply) };

    // ---- implementation line
    let enq_s = if obs.enq.is_empty() { "-".to_string() } else {
        obs.enq.iter().map(|p| hex(&virt(p.as_os_str().as_bytes()))).collect::<Vec<_>>().join("+")
    };
    let impl_line = match (&obs.panicked, obs.status) {
        (Some(_), _) => "panic process_request".to_string(),
        (None, None) => if obs.enq.is_empty() { "none".to_string() } else { format!("none enq={}", enq_s) },
        (None, Some(st)) => format!("{} enq={}", st, enq_s),
    };

    // ---- oracle: the property on the real behaviour
    let mut oracle = "ok".to_string();
    let mut fail = |sig: &str, detail: String| { if oracle == "ok" { oracle = format!("fail {} {}", sig, detail); } };
    if let Some(m) = &obs.panicked { fail("panic:process_request", m.replace('\n', " ")); }
    if obs.enq.len() > 1 { fail("C20-multiple-enqueues", format!("{}", obs.enq.len())); }
    for p in &obs.enq {
        let vp = String::from_utf8_lossy(&virt(p.as_os_str().as_bytes())).to_string();
        match (&c.upd, &cd) {
            (None, _) => fail("C20-unconfigured-enqueue", vp.clone()),
            (Some(_), None) => fail("C20-enqueue-with-unresolvable-update-dir", vp.clone()),
            (Some(_), Some(d)) => {
                match canon(p) {
                    None => fail("C20-enqueued-nonexistent", vp.clone()),
                    Some(cp) => {
                        if !cp.starts_with(d) { fail("C20-enqueued-outside", format!("{} resolves to {}", vp, String::from_utf8_lossy(&virt(cp.as_os_str().as_bytes())))); }
                        else if has_link_component(p) || !p.starts_with(d) { fail("C20-enqueued-unresolved-path", vp.clone()); }
                    }
                }
            }
        }
        if matches!(c.reply, Reply::Ok | Reply::Silent) && !obs.status.map(|s| (200..300).contains(&s)).unwrap_or(false) && obs.panicked.is_none() {
            fail("C20-enqueue-not-answered-2xx", format!("{:?}", obs.status));
        }
    }
    if obs.enq.is_empty() && obs.panicked.is_none() {
        if let Some(st) = obs.status { if st != 400 { fail("C20-reject-status", format!("{} with nothing enqueued", st)); } }
    }

    // ---- classification (engine side, for the distribution and the non-triviality rule)
    let class = if obs.panicked.is_some() { "panic" }
        else if obs.status.is_none() { "not-handled" }
        else if !obs.enq.is_empty() { if obs.status == Some(200) { "enqueued-200" } else { "enqueued-400-consumer-error" } }
        else if c.upd.is_none() { "400-unconfigured" }
        else if cd.is_none() { "400-update-dir-unresolvable" }
        else if file.is_none() { "400-no-file-param" }
        else if Path::new(file.as_ref().unwrap()).is_absolute() { "400-absolute" }
        else if cj.is_none() { "400-unresolvable" }
        else if !cj.as_ref().unwrap().starts_with(cd.as_ref().unwrap()) { "400-outside" }
        else if !c.rx_open { "400-queue-closed" }
        else { "400-other" };
    rec.bump(&format!("outcome:{}", class));
    if let (Some(j), Some(d)) = (&cj, &cd) {
        if file.as_ref().map(|f| Path::new(f).is_relative()).unwrap_or(false) && obs.status.is_some() {
            let via_link = d.join(file.as_ref().unwrap()) != *j && has_link_component(&d.join(file.as_ref().unwrap()));
            if via_link { rec.bump(if j.starts_with(d) { "resolved-through-symlink:inside" } else { "resolved-through-symlink:outside" }); }
        }
    }
    let nontrivial = obs.status.is_some() && cd.is_some()
        && file.as_ref().map(|f| Path::new(f).is_relative()).unwrap_or(false);
    rec.case(case_line, impl_line, oracle, nontrivial);
}

// ------------------------------------------------------------------ generators

fn v(s: &str) -> Vec<u8> { let mut o = VROOT.to_vec(); o.extend_from_slice(s.as_bytes()); o }

/// The hand-made tree: every kind of link the property names.
fn layout0() -> Layout {
    use Entry::*;
    let d = |s: &str| Dir(v(s));
    let f = |s: &str| File(v(s));
    let l = |s: &str, t: &str| Link(v(s), t.as_bytes().to_vec());
    let mut e = vec![
        d("/upd"), d("/upd/sub"), d("/upd/sub/deep"), f("/upd/a.mrt"), f("/upd/sub/b.mrt"), f("/upd/sub/deep/c.mrt"),
        f("/upd/sp ace.mrt"), f("/upd/\u{fc}.mrt"), f("/upd/pct%41.mrt"), f("/upd/pctA.mrt"), f("/upd/plus+name"), f("/upd/plus name"),
        d("/out"), f("/out/secret"), d("/out/sub"), f("/out/sub/s2"),
        d("/upd2"), f("/upd2/x"),
        l("/upd/lin", "sub/b.mrt"), l("/upd/ldir", "sub"), l("/upd/lout", "../out/secret"), l("/upd/loutdir", "../out"),
        l("/upd/labs", "/@R@/out/secret"), l("/upd/labsin", "/@R@/upd/a.mrt"), l("/upd/dang", "nonexistent"),
        l("/upd/loop1", "loop2"), l("/upd/loop2", "loop1"), l("/upd/self", "self"),
        l("/upd/sub/up", ".."), l("/upd/sub/upup", "../.."), l("/upd/lroot", "/"), l("/upd/ldot", "."),
        l("/upd/chain1", "chain2"), l("/upd/chain2", "chain3"), l("/upd/chain3", "sub/deep/c.mrt"),
        l("/upd/chainout1", "chainout2"), l("/upd/chainout2", "lout"),
        l("/updlink", "upd"), l("/outlink", "out"), l("/out/back", "../upd"), l("/updabs", "/@R@/upd"),
        l("/dangdir", "nowhere"),
        // names that exist only with something appended (a compressed or rotated sibling): asking for the bare name
        // names nothing, inside or outside
        f("/out/secret2.gz"), f("/out/sec.bz2"), f("/upd/inside.gz"), f("/upd/sub/in2.mrt.bz2"), f("/upd/rot.1"), f("/out/rot2~"),
        l("/upd/latest.mrt.bz2", "../out/secret"), l("/upd/latest2.gz", "sub/b.mrt"),
    ];
    // a file whose name is not UTF-8: no query string can name it (lossy decoding)
    e.push(File([VROOT, b"/upd/\xff\xfe.mrt"].concat()));
    Layout(e)
}

/// ELOOP threshold: a chain `c00 -> c01 -> … -> c43 -> a.mrt` (glibc expands at most 40 links).
fn layout1() -> Layout {
    let mut e = vec![Entry::Dir(v("/upd")), Entry::File(v("/upd/a.mrt")), Entry::Dir(v("/upd/dd")), Entry::File(v("/upd/dd/z"))];
    for i in 0..44 {
        let t = if i == 43 { "a.mrt".to_string() } else { format!("c{:02}", i + 1) };
        e.push(Entry::Link(v(&format!("/upd/c{:02}", i)), t.into_bytes()));
    }
    // a link that grows: g -> g/x (never resolves), and one that expands to many components
    e.push(Entry::Link(v("/upd/g"), b"g/x".to_vec()));
    e.push(Entry::Link(v("/upd/dd/back"), b"../dd".to_vec()));
    Layout(e)
}

const FILES0: &[&str] = &[
    "a.mrt", "sub/b.mrt", "sub/deep/c.mrt", "./a.mrt", "sub/../a.mrt", "sub//b.mrt", "sub/./b.mrt", "sub/deep/../../a.mrt",
    "", ".", "..", "sub", "sub/", "sub/..", "sub/deep/../..", "sub/deep/../../..",
    "../out/secret", "../upd/a.mrt", "../upd2/x", "../upd2", "sub/../../out/secret", "../../../../../../../../../../etc/passwd",
    "/etc/passwd", "/", "//a.mrt", "/@R@/upd/a.mrt", "/@R@/out/secret",
    "lin", "ldir/b.mrt", "ldir", "ldir/deep/c.mrt", "lout", "loutdir/secret", "loutdir", "loutdir/sub/s2", "labs", "labsin",
    "dang", "dang/x", "loop1", "loop1/x", "self", "lroot", "lroot/etc/passwd", "ldot/a.mrt", "ldot/ldot/ldot/sub/b.mrt",
    "sub/up/a.mrt", "sub/up", "sub/upup", "sub/upup/out/secret", "sub/upup/upd/a.mrt", "sub/upup/upd2/x",
    "chain1", "chainout1", "../out/back/a.mrt", "../out/back", "../outlink/secret", "../updlink/a.mrt", "../updabs/sub/b.mrt",
    "a.mrt/", "a.mrt/.", "a.mrt/..", "a.mrt/../a.mrt", "a.mrt/x", "nonexistent", "nonexistent/../a.mrt", "nonexistent/..",
    "sp ace.mrt", "\u{fc}.mrt", "pct%41.mrt", "pctA.mrt", "plus+name", "plus name", "a.mrt\0", "\0", "sub\0/b.mrt", "a.mrt\0/../../out/secret",
    "../out/secret2", "../out/sec", "inside", "sub/in2.mrt", "latest.mrt", "latest2", "sub/../../out/secret2", "inside.gz", "latest.mrt.bz2", "rot", "../out/rot2", "%2e%2e/out/secret2",
    "~", "\\..\\out\\secret", "..\\out\\secret", "sub/deep/../../../out/../upd/a.mrt", "....//out/secret", ".../a.mrt", "a.mrt#x", "a.mrt?x", "a.mrt&x=1", "x=y",
];

const UPDS0: &[Option<&str>] = &[
    None, Some("/upd"), Some("/updlink"), Some("/updabs"), Some("/upd/"), Some("/upd/sub/.."), Some("/upd/."), Some("/missing"),
    Some("/upd/a.mrt"), Some("/out/back"), Some(""), Some("/upd/sub"), Some("/upd/ldir"), Some("/dangdir"), Some("/upd/loop1"), Some("/upd/sub/deep"),
];

fn is_unreserved(b: u8) -> bool { b.is_ascii_alphanumeric() || b"-._~/".contains(&b) }

/// Encode a parameter value for the query string in one of several styles.
fn encode(val: &[u8], style: u64) -> String {
    // the virtual root token must stay literal (it is replaced textually by the real root)
    let style = if val.windows(VROOT.len()).any(|w| w == VROOT) && ![0, 3, 5].contains(&style) { 0 } else { style };
    let pct = |b: u8, upper: bool| if upper { format!("%{:02X}", b) } else { format!("%{:02x}", b) };
    let mut s = String::new();
    match style {
        // 0: minimal, upper-case hex
        0 => for &b in val { if is_unreserved(b) || b == b'@' { s.push(b as char) } else { s += &pct(b, true) } },
        // 1: everything, lower-case hex
        1 => for &b in val { s += &pct(b, false) },
        // 2: separators and dots encoded
        2 => for &b in val { if b == b'/' || b == b'.' || !(is_unreserved(b) || b == b'@') { s += &pct(b, b == b'/') } else { s.push(b as char) } },
        // 3: space as '+'
        3 => for &b in val { if b == b' ' { s.push('+') } else if is_unreserved(b) || b == b'@' { s.push(b as char) } else { s += &pct(b, true) } },
        // 4: double encoding (decoded once by the server: the literal %XX text stays)
        4 => { let once = encode(val, 2); s = once.replace('%', "%25"); }
        // 5: '%' and '+' left alone (so `pct%41` decodes to `pctA`, '+' to a space)
        _ => for &b in val { if is_unreserved(b) || b == b'@' || b == b'%' || b == b'+' { s.push(b as char) } else { s += &pct(b, true) } },
    }
    s
}

/// Query-string shapes around an encoded value `v` (and a decoy `w`).
fn shape(v: &str, w: &str, k: u64) -> Option<String> {
    Some(match k {
        0 => format!("file={v}"),
        1 => format!("file={v}&file={w}"),
        2 => format!("other=1&file={v}"),
        3 => format!("file[x]={v}"),
        4 => format!("file[x]={w}&file={v}"),
        5 => format!("file%5Bx%5D={v}"),
        6 => format!("file]={v}"),
        7 => format!("fi%6Ce={v}"),
        8 => format!("File={v}"),
        9 => "file".to_string(),
        10 => "file=".to_string(),
        11 => return None,
        12 => String::new(),
        13 => format!("&&file={v}&"),
        14 => format!("file={v}={w}"),
        15 => format!("xfile={w}&file={v}"),
        16 => format!("file={v}#file={w}"),
        17 => format!("file+={v}"),
        18 => format!("={w}&file={v}"),
        19 => format!("file={v};file={w}"),
        20 => format!("fil%65={v}&file={w}"),
        _ => format!("file={v}"),
    })
}

const MALFORMED: &[&str] = &[
    "file=%", "file=%2", "file=%zz", "file=a.mrt%", "file=%ff%fe.mrt", "file=%FF%FE.mrt", "file=%c0%ae%c0%ae/out/secret",
    "file=%c0%af", "file=..%c0%afout/secret", "file=%e0%80%ae", "file=%2e%2e%2fout%2fsecret", "file=%2E%2E/out/secret",
    "file=..%2F..%2F..%2Fetc%2Fpasswd", "file=%252e%252e%252fout", "file=a.mrt%00", "file=%00", "file=sub%00/b.mrt",
    "file=a.mrt%00/../../out/secret", "file=%2fetc%2fpasswd", "file=%2Fetc/passwd", "file=.%2e/out/secret", "file=sub/%2e%2e/a.mrt",
    "file=%f0%9f%98%80", "file=%ed%a0%80", "file=%f4%90%80%80", "file=%e2%82", "file=a%e2%82b", "file=%80a.mrt", "file=+a.mrt", "file=a.mrt+",
    "file=a.mrt%20", "file=%20", "file=%09", "file=a.mrt%0a", "file=a.mrt%0d%0a", "fi%00le=a.mrt", "file%00=a.mrt", "file%5b%5d=a.mrt", "file[=a.mrt", "[file]=a.mrt",
    "file[]=a.mrt&file=sub/b.mrt", "%66%69%6c%65=a.mrt", "file=a.mrt&file=../out/secret", "file=../out/secret&file=a.mrt", "FILE=a.mrt", "file==a.mrt", "file=a.mrt&", "?file=a.mrt", "file=/@R@/upd/a.mrt", "file=/@R@/upd/../out/secret",
    "file=%e2%80%ae", "file=sub/deep/c.mrt/../../../../out/secret",
];

const PATHS: &[(&str, &str)] = &[
    ("GET", "/mrt/u1/queue"), ("GET", "/mrt/u1/queue/"), ("GET", "/mrt/u1/queuexyz"), ("GET", "/mrt/u1/queue/../../status"), ("GET", "/mrt/u1/que"),
    ("GET", "/mrt/u1/"), ("GET", "/mrt/u1"), ("GET", "/mrt/u2/queue"), ("GET", "/mrt/u1/%71ueue"), ("GET", "/mrt/u1/%71%75%65%75%65"), ("GET", "/mrt%2Fu1%2Fqueue"),
    ("GET", "/mrt/u1/Queue"), ("GET", "/mrt/u1/status"), ("GET", "/"), ("GET", "/mrt/u1//queue"), ("GET", "/mrt/u1/queue%00"), ("GET", "/mrt/u1/%ffqueue"),
    ("POST", "/mrt/u1/queue"), ("HEAD", "/mrt/u1/queue"), ("PUT", "/mrt/u1/queue"), ("DELETE", "/mrt/u1/queue"), ("OPTIONS", "/mrt/u1/queue"), ("get", "/mrt/u1/queue"),
];

fn mk_case(method: &str, path: &str, query: Option<&str>, upd: Option<Vec<u8>>, rx_open: bool, reply: Reply) -> Case {
    let mut target = path.as_bytes().to_vec();
    if let Some(q) = query { target.push(b'?'); target.extend_from_slice(q.as_bytes()); }
    Case { method: method.into(), api: API.into(), target, upd, rx_open, reply }
}

fn upd0(u: Option<&str>) -> Option<Vec<u8>> { u.map(|s| if s.is_empty() { vec![] } else { v(s) }) }

/// A random tree below `/@R@` and things to ask about it.
struct RandTree { layout: Layout, dirs: Vec<Vec<u8>>, names: Vec<String>, all: Vec<String> }

const SUFFIXES: &[&str] = &[".gz", ".bz2", ".1", "~"];

fn rand_tree(rng: &mut Rng) -> RandTree {
    const NAMES: &[&str] = &["a", "b", "c", "d.mrt", "e", "up", "x y"];
    let mut dirs: Vec<String> = vec!["".into()];
    let mut entries = vec![];
    let mut taken: Vec<String> = vec![];
    let mut links: Vec<String> = vec![];
    let mut files: Vec<String> = vec![];
    let fresh = |rng: &mut Rng, dirs: &Vec<String>, taken: &Vec<String>| -> Option<String> {
        for _ in 0..8 {
            let d = rng.pick(dirs).clone();
            let p = format!("{}/{}", d, rng.pick(NAMES));
            if !taken.contains(&p) { return Some(p); }
        }
        None
    };
    for _ in 0..rng.range(3, 7) {
        if let Some(p) = fresh(rng, &dirs, &taken) {
            if p.matches('/').count() <= 3 { entries.push(Entry::Dir(v(&p))); taken.push(p.clone()); dirs.push(p); }
        }
    }
    for _ in 0..rng.range(3, 8) {
        // one file in three exists only as a compressed / rotated sibling of the name the generator picks from
        if let Some(p) = fresh(rng, &dirs, &taken) { let p = if rng.chance(1, 3) { format!("{p}{}", rng.pick(SUFFIXES)) } else { p }; if taken.contains(&p) { continue; } entries.push(Entry::File(v(&p))); taken.push(p.clone()); files.push(p); }
    }
    for _ in 0..rng.range(3, 10) {
        if let Some(p) = fresh(rng, &dirs, &taken) {
            let target: Vec<u8> = match rng.below(6) {
                0 => { let t = if rng.chance(1, 2) && !files.is_empty() { rng.pick(&files).clone() } else { rng.pick(&dirs).clone() }; v(&t) }       // absolute, existing
                1 => if links.is_empty() { b"..".to_vec() } else { let t: String = rng.pick(&links[..]).clone(); v(&t) },                                                          // absolute, a link
                2 => b"nonexistent/x".to_vec(),
                _ => {                                                                                                                           // relative walk
                    let n = rng.range(1, 4);
                    (0..n).map(|_| if rng.chance(2, 5) { "..".to_string() } else { rng.pick(NAMES).to_string() }).collect::<Vec<_>>().join("/").into_bytes()
                }
            };
            entries.push(Entry::Link(v(&p), target));
            taken.push(p.clone());
            links.push(p);
        }
    }
    // candidates for update_path: directories (three times each) and links (whatever they point to)
    let mut cand_dirs: Vec<Vec<u8>> = vec![];
    for _ in 0..3 { cand_dirs.extend(dirs.iter().filter(|d| !d.is_empty()).map(|d| v(d))); }
    cand_dirs.extend(links.iter().map(|l| v(l)));
    if cand_dirs.is_empty() { cand_dirs.push(v("")); }
    RandTree { layout: Layout(entries), dirs: cand_dirs, names: NAMES.iter().map(|s| s.to_string()).collect(), all: taken }
}

fn rand_file(rng: &mut Rng, t: &RandTree) -> Vec<u8> {
    let n = rng.range(1, 6);
    let mut parts: Vec<String> = vec![];
    for _ in 0..n {
        parts.push(match rng.below(10) { 0 | 1 | 2 => "..".into(), 3 => ".".into(), 4 => "".into(), _ => rng.pick(&t.names).clone() });
    }
    let mut s = parts.join("/").into_bytes();
    if rng.chance(1, 25) { s.insert(0, b'/'); }
    if rng.chance(1, 40) { s.push(0); }
    s
}

/// A `file` value aimed at an existing entry: the textual relative path from `upd` to it,
/// decorated with redundant `.`, `x/..` and separators.
fn guided_file(rng: &mut Rng, t: &RandTree, upd: &[u8]) -> Vec<u8> {
    let target = rng.pick(&t.all[..]).clone();
    let from: Vec<&[u8]> = upd[VROOT.len().min(upd.len())..].split(|b| *b == b'/').filter(|c| !c.is_empty() && *c != b".").collect();
    let to: Vec<&[u8]> = target.as_bytes().split(|b| *b == b'/').filter(|c| !c.is_empty()).collect();
    let common = from.iter().zip(to.iter()).take_while(|(a, b)| a == b).count();
    let mut parts: Vec<Vec<u8>> = vec![];
    for _ in common..from.len() { parts.push(b"..".to_vec()); }
    for c in &to[common..] { parts.push(c.to_vec()); }
    let mut out: Vec<Vec<u8>> = vec![];
    for p in parts {
        match rng.below(12) { 0 => out.push(b".".to_vec()), 1 => out.push(vec![]), 2 => { out.push(rng.pick(&t.names[..]).clone().into_bytes()); out.push(b"..".to_vec()); } _ => {} }
        out.push(p);
    }
    let mut s = out.join(&b"/"[..]);
    // the bare name of an entry that exists only with a suffix
    if let Some(suf) = SUFFIXES.iter().find(|x| s.ends_with(x.as_bytes())) { if rng.chance(1, 2) { s.truncate(s.len() - suf.len()); } }
    match rng.below(12) { 0 => s.extend_from_slice(b"/"), 1 => s.extend_from_slice(b"/."), 2 => s.extend_from_slice(b"/.."), _ => {} }
    s
}

/// One Processor, several requests, the tree changed in between: the update directory (or an ancestor of it) is a
/// symbolic link that is re-pointed from one dated directory to another, files appear and disappear. Every request is
/// an ordinary `v1` case line carrying the tree *as it is at that moment*, so the (stateless) model judges each request
/// against the current tree; an endpoint that remembers something from an earlier request disagrees with it.
fn history(rec: &mut Recorder, scratch: &mut Scratch, rng: &mut Rng) {
    let root = scratch.fresh_root();
    let rb = root.as_os_str().as_bytes().to_vec();
    let real = |vp: &str| PathBuf::from(OsString::from_vec(replace_all(&v(vp), VROOT, &rb)));
    for d in ["/day1", "/day2", "/day1/sub"] { std::fs::create_dir_all(real(d)).unwrap(); }
    let mut files: Vec<String> = vec!["/day1/a.mrt".into(), "/day2/b.mrt".into(), "/day1/c.mrt".into(), "/day2/c.mrt".into(), "/day1/sub/d.mrt".into()];
    for f in &files { std::fs::write(real(f), b"MRT?").unwrap(); }
    let via_ancestor = rng.chance(1, 3);
    // cur -> dayN ; with `via_ancestor` the update path goes through a second link: up -> . , update_path = /up/cur
    let mut target = 1;
    std::os::unix::fs::symlink(real("/day1"), real("/cur")).unwrap();
    if via_ancestor { std::os::unix::fs::symlink(&root, real("/up")).unwrap(); }
    let upd = if via_ancestor { v("/up/cur") } else { v("/cur") };
    let se = Session::new(API, Some(PathBuf::from(OsString::from_vec(replace_all(&upd, VROOT, &rb)))));
    let layout_now = |target: usize, files: &Vec<String>| {
        let mut e = vec![Entry::Dir(v("/day1")), Entry::Dir(v("/day2")), Entry::Dir(v("/day1/sub"))];
        for f in files { e.push(Entry::File(v(f))); }
        e.push(Entry::Link(v("/cur"), v(&format!("/day{target}"))));
        if via_ancestor { e.push(Entry::Link(v("/up"), VROOT.to_vec())); }
        Layout(e)
    };
    for _ in 0..rng.range(3, 9) {
        match rng.below(5) {
            0 | 1 => { target = 3 - target; let _ = std::fs::remove_file(real("/cur")); std::os::unix::fs::symlink(real(&format!("/day{target}")), real("/cur")).unwrap(); rec.bump("history.link-repointed"); }
            2 => { let f = format!("/day{}/n{}.mrt", 1 + rng.below(2), rng.below(3)); if !files.contains(&f) { std::fs::write(real(&f), b"MRT?").unwrap(); files.push(f); rec.bump("history.file-added"); } }
            3 => { if files.len() > 3 { let i = rng.below(files.len() as u64) as usize; let f = files.remove(i); let _ = std::fs::remove_file(real(&f)); rec.bump("history.file-removed"); } }
            _ => {}
        }
        let layout = layout_now(target, &files);
        scratch.adopt(&layout, &root);
        let name = match rng.below(8) {
            0 => "a.mrt".to_string(), 1 => "b.mrt".into(), 2 => "c.mrt".into(), 3 => "sub/d.mrt".into(),
            4 => "../day1/a.mrt".into(), 5 => "../day2/b.mrt".into(),
            _ => rng.pick(&files[..]).rsplit('/').next().unwrap().to_string(),
        };
        let q = format!("file={}", encode(name.as_bytes(), 0));
        rec.bump("history.requests");
        run_case_in(rec, scratch, &layout, &mk_case("GET", "/mrt/u1/queue", Some(&q), Some(upd.clone()), true, Reply::Ok), Some(&se));
    }
    // the tree goes away with the scratch base; forget the mapping so that no later case reuses this root
    scratch.built.retain(|(_, r)| r != &root);
    let _ = std::fs::remove_dir_all(&root);
}

fn main() {
    let args = parse_args();
    std::panic::set_hook(Box::new(|_| {}));
    let t0 = Instant::now();
    let mut rec = Recorder::new("one GET/POST/... request through the real Processor::process_request over a real scratch tree (nested dirs, files, symlinks inside/outside/absolute/dangling/looping, update_path itself a link/missing/a file/unset), file parameter from a curated list + random component walks, six percent-encoding styles, 21 query shapes, a malformed stream (bad escapes, non-UTF-8, overlong, NUL), queue consumer replying ok/err/dropping/silent or gone; non-trivial = the request is handled, update_path resolves and a relative `file` parameter is present (the decision reaches canonicalize of the joined path); distinct = distinct case lines");
    let mut scratch = Scratch::new();

    if let Some(path) = &args.replay {
        for line in verif_harness::replay_cases(path) {
            let p: Vec<&str> = line.split('|').collect();
            if p.len() != 10 || p[0] != "v1" { continue; }
            let opt = |s: &str| if s == "-" { None } else { Some(unhex(s)) };
            let mut target = unhex(p[3]);
            if let Some(q) = opt(p[4]) { target.push(b'?'); target.extend_from_slice(&q); }
            let c = Case { method: p[1].into(), api: String::from_utf8_lossy(&unhex(p[2])).to_string(), target, upd: opt(p[5]), rx_open: p[6] == "o", reply: Reply::parse(p[7]) };
            run_case(&mut rec, &mut scratch, &Layout::parse(p[9]), &c);
        }
        rec.finish(&args, t0.elapsed().as_secs_f64());
        return;
    }

    let mut rng = Rng::new(args.seed);
    let l0 = layout0();

    // 1. the curated tree: every update_path x every file, plain encoding, consumer ok
    for u in UPDS0 {
        for f in FILES0 {
            let q = format!("file={}", encode(f.as_bytes(), 0));
            run_case(&mut rec, &mut scratch, &l0, &mk_case("GET", "/mrt/u1/queue", Some(&q), upd0(*u), true, Reply::Ok));
        }
    }
    // 1b. histories on one Processor with the tree changing between requests
    for _ in 0..(if args.thorough { 4000 } else { 300 }) { history(&mut rec, &mut scratch, &mut rng); }

    // 1c. long names made of multi-byte characters (existing files and missing ones): the path the endpoint resolves,
    //     compares and echoes is then longer than 255 / 256 bytes, and with 0-3 leading ASCII bytes every byte offset
    //     near such a length falls inside a character for some name
    {
        let mut e = vec![Entry::Dir(v("/upd")), Entry::Dir(v("/out")), Entry::File(v("/out/secret"))];
        let mut names: Vec<String> = vec![];
        for lead in 0..4 {
            for (unit, count) in [("\u{e9}", 120usize), ("\u{20ac}", 80), ("\u{1f600}", 60), ("\u{e9}", 60)] {
                let n = format!("{}{}.m", "a".repeat(lead), unit.repeat(count));
                if n.len() <= 255 { names.push(n); }
            }
        }
        for n in &names { e.push(Entry::File(v(&format!("/upd/{n}")))); }
        let ll = Layout(e);
        for n in &names {
            for style in [0u64, 1] {
                let q = format!("file={}", encode(n.as_bytes(), style));
                run_case(&mut rec, &mut scratch, &ll, &mk_case("GET", "/mrt/u1/queue", Some(&q), upd0(Some("/upd")), true, Reply::Ok));
                // the same name with its last character changed: a long name that does not exist
                let mut missing = n.clone(); missing.truncate(n.len() - 2); missing.push_str("x.m");
                let q = format!("file={}", encode(missing.as_bytes(), style));
                run_case(&mut rec, &mut scratch, &ll, &mk_case("GET", "/mrt/u1/queue", Some(&q), upd0(Some("/upd")), true, Reply::Ok));
                // and reaching outside through a long name
                let q = format!("file=../out/{}", encode(n.as_bytes(), style));
                run_case(&mut rec, &mut scratch, &ll, &mk_case("GET", "/mrt/u1/queue", Some(&q), upd0(Some("/upd")), true, Reply::Ok));
            }
            rec.bump("long-multibyte-names");
        }
    }

    // 2. encodings x shapes
    for f in FILES0 {
        for style in 0..6 {
            let k = rng.below(22);
            let w = encode(rng.pick(FILES0).as_bytes(), rng.below(6));
            let q = shape(&encode(f.as_bytes(), style), &w, k);
            let u = if rng.chance(4, 5) { Some("/upd") } else { *rng.pick(UPDS0) };
            run_case(&mut rec, &mut scratch, &l0, &mk_case("GET", "/mrt/u1/queue", q.as_deref(), upd0(u), true, Reply::Ok));
        }
    }
    for k in 0..22 {
        for f in ["a.mrt", "../out/secret", "lout", "sub/b.mrt"] {
            let q = shape(&encode(f.as_bytes(), 0), "sub/deep/c.mrt", k);
            run_case(&mut rec, &mut scratch, &l0, &mk_case("GET", "/mrt/u1/queue", q.as_deref(), upd0(Some("/upd")), true, Reply::Ok));
            let q = shape(&encode(f.as_bytes(), 0), "../out/secret", k);
            run_case(&mut rec, &mut scratch, &l0, &mk_case("GET", "/mrt/u1/queue", q.as_deref(), upd0(Some("/upd")), true, Reply::Ok));
        }
    }
    // 2b. symlink-count limit
    let l1 = layout1();
    for f in ["c00", "c02", "c03", "c04", "c05", "c10", "c43", "c04/", "c04/.", "c04/x", "g", "g/y",
              "dd/back/back/back/back/back/back/back/back/back/back/back/back/back/back/back/back/back/back/back/back/z",
              "dd/back/back/back/back/back/back/back/back/back/back/back/back/back/back/back/back/back/back/back/back/back/back/back/back/back/back/back/back/back/back/back/back/back/back/back/back/back/back/back/back/z",
              "dd/back/back/back/back/back/back/back/back/back/back/back/back/back/back/back/back/back/back/back/back/back/back/back/back/back/back/back/back/back/back/back/back/back/back/back/back/back/back/back/back/back/z"] {
        let q = format!("file={}", f);
        run_case(&mut rec, &mut scratch, &l1, &mk_case("GET", "/mrt/u1/queue", Some(&q), upd0(Some("/upd")), true, Reply::Ok));
    }
    // 3. malformed stream
    for q in MALFORMED {
        for u in [Some("/upd"), Some("/updlink"), None, Some("/upd/sub")] {
            run_case(&mut rec, &mut scratch, &l0, &mk_case("GET", "/mrt/u1/queue", Some(q), upd0(u), true, Reply::Ok));
        }
    }
    // 4. request line: methods and paths
    for (m, p) in PATHS {
        for f in ["a.mrt", "../out/secret"] {
            for u in [Some("/upd"), None] {
                let q = format!("file={}", f);
                run_case(&mut rec, &mut scratch, &l0, &mk_case(m, p, Some(&q), upd0(u), true, Reply::Ok));
            }
        }
    }
    // 5. queue consumer behaviours
    for reply in [Reply::Ok, Reply::Err, Reply::Drop, Reply::Silent] {
        for rx_open in [true, false] {
            for f in ["a.mrt", "sub/b.mrt", "lin", "../out/secret", "lout", "", "nonexistent"] {
                for u in [Some("/upd"), Some("/updlink"), None] {
                    let q = format!("file={}", f);
                    run_case(&mut rec, &mut scratch, &l0, &mk_case("GET", "/mrt/u1/queue", Some(&q), upd0(u), rx_open, reply));
                }
            }
        }
    }
    // 6. random trees, random walks
    let (ntrees, nper) = if args.thorough { (1000, 120) } else { (120, 80) };
    for _ in 0..ntrees {
        let t = rand_tree(&mut rng);
        for _ in 0..nper {
            let upd = if rng.chance(1, 20) { None } else {
                let mut d = rng.pick(&t.dirs).clone();
                match rng.below(8) { 0 => d.extend_from_slice(b"/"), 1 => d.extend_from_slice(b"/.."), 2 => d.extend_from_slice(b"/."), _ => {} }
                Some(d)
            };
            let f = match &upd { Some(u) if rng.chance(3, 5) => guided_file(&mut rng, &t, u), _ => rand_file(&mut rng, &t) };
            let style = rng.below(6);
            let k = if rng.chance(3, 4) { 0 } else { rng.below(22) };
            let w = encode(&rand_file(&mut rng, &t), rng.below(6));
            let q = shape(&encode(&f, style), &w, k);
            let reply = *rng.pick(&[Reply::Ok, Reply::Ok, Reply::Ok, Reply::Err, Reply::Drop, Reply::Silent]);
            let (m, p) = if rng.chance(1, 15) { *rng.pick(PATHS) } else { ("GET", "/mrt/u1/queue") };
            run_case(&mut rec, &mut scratch, &t.layout, &mk_case(m, p, q.as_deref(), upd, !rng.chance(1, 15), reply));
        }
    }

    let mut extra = BTreeMap::new();
    extra.insert("scratch_trees_built".to_string(), serde_json::json!(scratch.next));
    rec.extra.extend(extra);
    drop(scratch);
    rec.finish(&args, t0.elapsed().as_secs_f64());
}
