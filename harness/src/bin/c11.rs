//! C11 engine: the real RIB HTTP query API (`PrefixesApi::process_request` on a real `Rib`
//! fed through `Rib::insert` / `Rib::withdraw_for_ingress`) vs the Lean model
//! `Model/RibQuery.lean`.
//!
//! One case = one population + one GET. Case line (fields separated by `|`):
//!   `L<v4>,<v6>|I<id>:<asn|->,…|R<rec>;…|W<mui>,…|P<path text>|X<fam>/<len>/<bits> or bad|S<pfx>,…~<pfx>,…|Q<query string>`
//!   S = what the unicast ~ multicast store (the rotonda-store dependency) itself reported as the
//!   more-specific prefixes of X (an input of the model only under the variant `more=as-observed`)
//!   W may carry `;<u|m><fam>/<len>/<bits>,…` = record-less prefix slots of the unicast / multicast store
//!   (made by a per-prefix withdrawal of a prefix the store never held)
//!   rec = `<u|m>,<fam>/<len>/<bits>,<mui>,<A|W>,<aid>,<path>,<communities>`
//!   path = `-` (no AS_PATH) | `e` (empty) | hops joined by `.`: `n<asn>` | `s` (an AS_SET hop)
//!   communities = `-` | items joined by `.`: `c<asn>:<tag>` | `l<g>:<l1>:<l2>`
//! Observation: `<status> D[…] L[…]|- M[…]|-` with entries `<fam>/<len>/<bits>@<mui>:<A|W>:<aid>` sorted,
//! `200 dump`, `400`, `none` (processor declined). Text after ` ## ` is informational.
//!
//! Oracle (independent of the Lean model): the property's own reading of the documented
//! parameters evaluated on the population: the three sections as sets, the limit, soundness of
//! every returned entry; known store/filter deviations are classified into narrow signatures.
use std::collections::BTreeSet;
use std::time::Instant;

use rotonda::payload::Update;
use rotonda::verif::ribq::RibQueryFixture;
use verif_harness::rib as hr;
use verif_harness::{join, parse_args, rng::Rng, Recorder};

const API: &str = "/prefixes/";

// ------------------------------------------------------------------ data

#[derive(Clone, Copy, Debug, PartialEq, Eq, PartialOrd, Ord)]
struct Pfx { fam: u8, len: u8, bits: u128 }
impl Pfx {
    fn width(&self) -> u8 { if self.fam == 4 { 32 } else { 128 } }
    fn show(&self) -> String { format!("{}/{}/{}", self.fam, self.len, self.bits) }
    fn addr(&self) -> u128 { if self.len == 0 { 0 } else { self.bits << (self.width() - self.len) } }
    fn text(&self) -> String {
        if self.fam == 4 { format!("{}/{}", std::net::Ipv4Addr::from(self.addr() as u32), self.len) }
        else { format!("{}/{}", std::net::Ipv6Addr::from(self.addr()), self.len) }
    }
    /// p covers q: same family, p not longer, and q's top p.len bits are p's bits.
    fn covers(&self, q: &Pfx) -> bool {
        self.fam == q.fam && self.len <= q.len && (if self.len == 0 { self.bits == 0 } else { (q.bits >> (q.len - self.len)) == self.bits })
    }
    fn parse_show(s: &str) -> Option<Pfx> {
        let p: Vec<&str> = s.split('/').collect();
        if p.len() != 3 { return None; }
        Some(Pfx { fam: p[0].parse().ok()?, len: p[1].parse().ok()?, bits: p[2].parse().ok()? })
    }
    /// The harness's own reading of a path text (std parsers; host bits must be zero).
    fn parse_text(s: &str) -> Option<Pfx> {
        let (a, l) = s.split_once('/')?;
        if l.is_empty() || !l.bytes().all(|b| b.is_ascii_digit()) { return None; }
        let len: u8 = l.parse().ok()?;
        if let Ok(v4) = a.parse::<std::net::Ipv4Addr>() {
            if len > 32 { return None; }
            let addr = u32::from(v4) as u128;
            let bits = if len == 0 { 0 } else { addr >> (32 - len) };
            let p = Pfx { fam: 4, len, bits };
            if p.addr() != addr { return None; }
            Some(p)
        } else if let Ok(v6) = a.parse::<std::net::Ipv6Addr>() {
            if len > 128 { return None; }
            let addr = u128::from(v6);
            let bits = if len == 0 { 0 } else { addr >> (128 - len) };
            let p = Pfx { fam: 6, len, bits };
            if p.addr() != addr { return None; }
            Some(p)
        } else { None }
    }
    fn to_inetnum(&self) -> inetnum::addr::Prefix {
        let ip: std::net::IpAddr = if self.fam == 4 { std::net::Ipv4Addr::from(self.addr() as u32).into() } else { std::net::Ipv6Addr::from(self.addr()).into() };
        inetnum::addr::Prefix::new(ip, self.len).unwrap()
    }
}

#[derive(Clone, Debug, PartialEq)]
enum Hop { Asn(u32), Set }
#[derive(Clone, Debug, PartialEq)]
enum Comm { Std(u16, u16), Large(u32, u32, u32) }

#[derive(Clone, Debug)]
struct Rec { mc: bool, pfx: Pfx, mui: u32, active: bool, aid: u32, path: Option<Vec<Hop>>, comms: Vec<Comm> }

#[derive(Clone, Debug)]
struct Pop { limits: (u8, u8), ingress: Vec<(u32, Option<u32>)>, recs: Vec<Rec>, wd: Vec<u32>, empties: Vec<(bool, Pfx)> }

impl Rec {
    fn show(&self) -> String {
        let path = show_path(&self.path);
        let comms = show_comms(&self.comms);
        format!("{},{},{},{},{},{},{}", if self.mc { "m" } else { "u" }, self.pfx.show(), self.mui, if self.active { "A" } else { "W" }, self.aid, path, comms)
    }
    fn parse(s: &str) -> Option<Rec> {
        let f: Vec<&str> = s.split(',').collect();
        if f.len() != 7 { return None; }
        let path = parse_path(f[5])?;
        let comms = parse_comms(f[6])?;
        Some(Rec { mc: f[0] == "m", pfx: Pfx::parse_show(f[1])?, mui: f[2].parse().ok()?, active: f[3] == "A", aid: f[4].parse().ok()?, path, comms })
    }
    /// Raw BGP path attributes (4-octet AS): ORIGIN, AS_PATH, NEXT_HOP, MED (= aid), COMMUNITIES, LARGE_COMMUNITIES.
    fn raw_attrs(&self) -> Vec<u8> {
        let mut v = vec![0x40, 1, 1, 0];
        if let Some(hops) = &self.path {
            let segs = as_path_segments(hops);
            v.extend([0x40, 2, segs.len() as u8]);
            v.extend(segs);
        }
        v.extend([0x40, 3, 4, 192, 0, 2, 1]);
        v.extend([0x80, 4, 4]);
        v.extend(self.aid.to_be_bytes());
        v.extend(community_attrs(&self.comms));
        v
    }
}

/// The value of an AS_PATH attribute (4-octet ASNs): runs of plain hops as AS_SEQUENCE segments, an
/// AS_SET hop as a two-member AS_SET segment.
fn as_path_segments(hops: &[Hop]) -> Vec<u8> {
    let mut segs: Vec<u8> = vec![];
    let mut i = 0;
    while i < hops.len() {
        match &hops[i] {
            Hop::Set => { segs.extend([1u8, 2]); segs.extend(64999u32.to_be_bytes()); segs.extend(64998u32.to_be_bytes()); i += 1; }
            Hop::Asn(_) => {
                let mut run = vec![];
                while i < hops.len() { if let Hop::Asn(a) = hops[i] { run.push(a); i += 1; } else { break; } }
                segs.extend([2u8, run.len() as u8]);
                for a in run { segs.extend(a.to_be_bytes()); }
            }
        }
    }
    segs
}

/// Encoded COMMUNITIES and LARGE_COMMUNITIES attributes (absent when there is none of the kind).
fn community_attrs(comms: &[Comm]) -> Vec<u8> {
    let mut v = vec![];
    let std: Vec<&Comm> = comms.iter().filter(|c| matches!(c, Comm::Std(..))).collect();
    if !std.is_empty() {
        v.extend([0xC0, 8, (4 * std.len()) as u8]);
        for c in std { if let Comm::Std(a, b) = c { v.extend(a.to_be_bytes()); v.extend(b.to_be_bytes()); } }
    }
    let large: Vec<&Comm> = comms.iter().filter(|c| matches!(c, Comm::Large(..))).collect();
    if !large.is_empty() {
        v.extend([0xC0, 32, (12 * large.len()) as u8]);
        for c in large { if let Comm::Large(a, b, d) = c { v.extend(a.to_be_bytes()); v.extend(b.to_be_bytes()); v.extend(d.to_be_bytes()); } }
    }
    v
}

fn show_path(p: &Option<Vec<Hop>>) -> String {
    match p {
        None => "-".to_string(),
        Some(h) if h.is_empty() => "e".to_string(),
        Some(h) => join(h.iter().map(|h| match h { Hop::Asn(a) => format!("n{a}"), Hop::Set => "s".into() }), "."),
    }
}
fn show_comms(c: &[Comm]) -> String {
    if c.is_empty() { "-".to_string() } else { join(c.iter().map(|c| match c { Comm::Std(a, b) => format!("c{a}:{b}"), Comm::Large(a, b, c) => format!("l{a}:{b}:{c}") }), ".") }
}
fn parse_path(t: &str) -> Option<Option<Vec<Hop>>> {
    Some(match t {
        "-" => None,
        "e" => Some(vec![]),
        t => Some(t.split('.').map(|h| if h == "s" { Some(Hop::Set) } else { h.strip_prefix('n')?.parse().ok().map(Hop::Asn) }).collect::<Option<Vec<_>>>()?),
    })
}
fn parse_comms(t: &str) -> Option<Vec<Comm>> {
    if t == "-" { return Some(vec![]); }
    t.split('.').map(|c| {
        let n: Vec<&str> = c.get(1..)?.split(':').collect();
        match (c.get(..1)?, n.len()) {
            ("c", 2) => Some(Comm::Std(n[0].parse().ok()?, n[1].parse().ok()?)),
            ("l", 3) => Some(Comm::Large(n[0].parse().ok()?, n[1].parse().ok()?, n[2].parse().ok()?)),
            _ => None,
        }
    }).collect::<Option<Vec<_>>>()
}

impl Pop {
    fn show(&self) -> String {
        format!("L{},{}|I{}|R{}|W{}{}", self.limits.0, self.limits.1,
            join(self.ingress.iter().map(|(i, a)| format!("{}:{}", i, a.map_or("-".to_string(), |a| a.to_string()))), ","),
            join(self.recs.iter().map(|r| r.show()), ";"), join(self.wd.iter(), ","),
            if self.empties.is_empty() { String::new() } else { format!(";{}", join(self.empties.iter().map(|(mc, p)| format!("{}{}", if *mc { 'm' } else { 'u' }, p.show())), ",")) })
    }
    fn parse(l: &str, i: &str, r: &str, w: &str) -> Option<Pop> {
        let (a, b) = l.strip_prefix('L')?.split_once(',')?;
        let i = i.strip_prefix('I')?; let r = r.strip_prefix('R')?; let w = w.strip_prefix('W')?;
        let (w, slots) = w.split_once(';').unwrap_or((w, ""));
        Some(Pop {
            empties: if slots.is_empty() { vec![] } else { slots.split(',').map(|t| Some((t.starts_with('m'), Pfx::parse_show(t.get(1..)?)?))).collect::<Option<Vec<_>>>()? },
            limits: (a.parse().ok()?, b.parse().ok()?),
            ingress: if i.is_empty() { vec![] } else { i.split(',').map(|e| { let (id, a) = e.split_once(':')?; Some((id.parse().ok()?, if a == "-" { None } else { Some(a.parse().ok()?) })) }).collect::<Option<Vec<_>>>()? },
            recs: if r.is_empty() { vec![] } else { r.split(';').map(Rec::parse).collect::<Option<Vec<_>>>()? },
            wd: if w.is_empty() { vec![] } else { w.split(',').map(|m| m.parse().ok()).collect::<Option<Vec<_>>>()? },
        })
    }
    fn status(&self, r: &Rec) -> bool { r.active && !self.wd.contains(&r.mui) }
    /// Build the real RIB.
    fn build(&self) -> Result<RibQueryFixture, String> {
        let f = RibQueryFixture::new(API, self.limits.0, self.limits.1);
        for (id, asn) in &self.ingress { f.set_ingress(*id, *asn); }
        for (t, r) in self.recs.iter().enumerate() {
            let ok = std::panic::catch_unwind(std::panic::AssertUnwindSafe(|| f.insert(r.pfx.to_inetnum(), r.mc, r.mui, true, r.raw_attrs(), t as u64)));
            match ok { Ok(r) => r?, Err(_) => return Err(format!("panic-on-insert {} after [{}]", r.pfx.show(), join(self.recs[..t].iter().map(|r| r.pfx.show()), " "))) }
        }
        for (t, r) in self.recs.iter().enumerate() {
            if !r.active { f.insert(r.pfx.to_inetnum(), r.mc, r.mui, false, vec![], (self.recs.len() + t) as u64)?; }
        }
        // a per-prefix withdrawal of a prefix the store does not hold: the store answers PrefixNotFound and keeps an empty slot
        for (t, (mc, p)) in self.empties.iter().enumerate() { let _ = f.insert(p.to_inetnum(), *mc, 1, false, vec![], (2 * self.recs.len() + t) as u64); }
        for m in &self.wd { f.withdraw_ingress(*m); }
        Ok(f)
    }
}

type Entry = (Pfx, u32, bool, u32); // prefix, mui, active, aid
fn show_entries(s: &BTreeSet<Entry>) -> String {
    format!("[{}]", join(s.iter().map(|(p, m, a, id)| format!("{}@{}:{}:{}", p.show(), m, if *a { "A" } else { "W" }, id)), " "))
}

#[derive(Debug, PartialEq)]
enum Obs {
    None,
    Status(u16, String),
    Dump,
    Json { data: BTreeSet<Entry>, less: Option<BTreeSet<Entry>>, more: Option<BTreeSet<Entry>>, dups: bool },
    Odd(String),
}
impl Obs {
    fn show(&self) -> String {
        match self {
            Obs::None => "none".into(),
            Obs::Status(s, kind) => format!("{s} ## {kind}"),
            Obs::Dump => "200 dump".into(),
            Obs::Json { data, less, more, dups } => format!("200 D{} L{} M{}{}", show_entries(data),
                less.as_ref().map_or("-".to_string(), show_entries), more.as_ref().map_or("-".to_string(), show_entries), if *dups { " dup" } else { "" }),
            Obs::Odd(s) => format!("odd {s}"),
        }
    }
}

fn error_kind(body: &str) -> &'static str {
    let b = body.trim();
    if b.starts_with("Query prefix") { "limit" }
    else if b.contains("is not a valid value for query parameter 'include'") { "bad-include" }
    else if b.contains("is not a valid value for query parameter 'details'") { "bad-details" }
    else if b.starts_with("Unrecognized query parameters") { "unknown-params" }
    else if b.starts_with("Unrecognized filter family") { "bad-filter-family" }
    else if b.starts_with("Invalid ASN value") || b.starts_with("Invalid value") { "bad-filter-value" }
    else if b.starts_with("Unknown filter_op") { "bad-filter-op" }
    else if b.starts_with("Unsupported value") { "bad-format" }
    else { "bad-prefix" }
}

fn parse_json_entries(v: &serde_json::Value, dups: &mut bool) -> Option<BTreeSet<Entry>> {
    let mut out = BTreeSet::new();
    for e in v.as_array()? {
        let p = Pfx::parse_text(e.get("prefix")?.as_str()?)?;
        let mui = e.get("ingress_id")?.as_u64()? as u32;
        let active = match e.get("status")?.as_str()? { "active" => true, "withdrawn" => false, _ => return None };
        let mut aid = 0u32;
        for a in e.get("attributes")?.as_array()? { if let Some(m) = a.get("multiExitDisc") { aid = m.as_u64()? as u32; } }
        if !out.insert((p, mui, active, aid)) { *dups = true; }
    }
    Some(out)
}

fn observe(rt: &tokio::runtime::Runtime, f: &RibQueryFixture, path: &str, query: &str) -> Obs {
    let uri = if query.is_empty() { format!("http://localhost{API}{path}") } else { format!("http://localhost{API}{path}?{query}") };
    let r = std::panic::catch_unwind(std::panic::AssertUnwindSafe(|| rt.block_on(f.get(&uri))));
    match r {
        Err(_) => Obs::Odd("panic".into()),
        Ok(Err(e)) => Obs::Odd(e.split_whitespace().next().unwrap_or("err").to_string()),
        Ok(Ok(None)) => Obs::None,
        Ok(Ok(Some((200, body)))) => {
            if body.starts_with("QueryResult") { return Obs::Dump; }
            let Ok(v) = serde_json::from_str::<serde_json::Value>(&body) else { return Obs::Odd("unparsable-200-body".into()) };
            let mut dups = false;
            let data = v.get("data").and_then(|d| parse_json_entries(d, &mut dups));
            let inc = v.get("included");
            let (Some(data), Some(inc)) = (data, inc) else { return Obs::Odd("unexpected-json-shape".into()) };
            let less = match inc.get("lessSpecifics") { None => None, Some(x) => match parse_json_entries(x, &mut dups) { Some(s) => Some(s), None => return Obs::Odd("unexpected-json-shape".into()) } };
            let more = match inc.get("moreSpecifics") { None => None, Some(x) => match parse_json_entries(x, &mut dups) { Some(s) => Some(s), None => return Obs::Odd("unexpected-json-shape".into()) } };
            Obs::Json { data, less, more, dups }
        }
        Ok(Ok(Some((s, body)))) => Obs::Status(s, error_kind(&body).to_string()),
    }
}

// ---------------------------------------------------------------- oracle

#[derive(Clone, Debug, PartialEq)]
enum Kind { AsPath(Vec<u32>), Community(Comm), PeerAs(u32) }
#[derive(Debug, Default)]
struct Doc { less: bool, more: bool, selects: Vec<Kind>, discards: Vec<Kind>, all: bool, format: bool }

fn doc_asn(s: &str) -> Option<u32> {
    let t = if s.len() > 2 && (s.starts_with("AS") || s.starts_with("as")) { &s[2..] } else { s };
    if t.is_empty() || !t.bytes().all(|b| b.is_ascii_digit()) { return None; }
    t.parse().ok()
}
fn doc_num<T: std::str::FromStr>(s: &str) -> Option<T> { if s.is_empty() || !s.bytes().all(|b| b.is_ascii_digit()) { None } else { s.parse().ok() } }
fn doc_comm(s: &str) -> Option<Comm> {
    let p: Vec<&str> = s.split(':').collect();
    match p.len() {
        2 => Some(Comm::Std(doc_num(p[0])?, doc_num(p[1])?)),
        3 => Some(Comm::Large(doc_num(p[0])?, doc_num(p[1])?, doc_num(p[2])?)),
        _ => None,
    }
}
/// The documented query grammar, read independently of rotonda's parser. `None` = not a
/// documented query (junk, duplicates of single-valued parameters, …): only soundness is judged.
fn doc_parse(query: &str) -> Option<Doc> {
    let mut d = Doc::default();
    let mut seen: Vec<&str> = vec![];
    if query.is_empty() { return Some(d); }
    for kv in query.split('&') {
        let (k, v) = kv.split_once('=')?;
        let single = |seen: &mut Vec<&str>, k: &'static str| -> Option<()> { if seen.contains(&k) { None } else { seen.push(k); Some(()) } };
        match k {
            "include" => { single(&mut seen, "include")?; for i in v.split(',') { match i { "lessSpecifics" => d.less = true, "moreSpecifics" => d.more = true, _ => return None } } }
            "details" => { single(&mut seen, "details")?; for i in v.split(',') { if i != "communities" { return None; } } }
            "filter_op" => { single(&mut seen, "filter_op")?; match v { "any" => d.all = false, "all" => d.all = true, _ => return None } }
            "sort" => { single(&mut seen, "sort")?; }
            "format" => { single(&mut seen, "format")?; d.format = true; }
            _ => {
                let (mode, fam) = if let Some(f) = k.strip_prefix("select[") { (true, f.strip_suffix(']')?) } else if let Some(f) = k.strip_prefix("discard[") { (false, f.strip_suffix(']')?) } else { return None };
                let kind = match fam {
                    "as_path" => Kind::AsPath(v.split(',').map(doc_asn).collect::<Option<Vec<_>>>()?),
                    "peer_as" => Kind::PeerAs(doc_asn(v)?),
                    "community" => Kind::Community(doc_comm(v)?),
                    _ => return None,
                };
                if mode { d.selects.push(kind) } else { d.discards.push(kind) }
            }
        }
    }
    Some(d)
}

#[derive(Clone, Copy, Default, Debug)]
struct Quirks { community_dead: bool, less_skips_zero: bool, mcast_fallback: bool, more_observed: bool, less_stops: bool }
/// The raw more-specifics answers of the unicast and the multicast store.
type StoreMore = (Vec<Pfx>, Vec<Pfx>);
/// Bit set of the deviations (community, lesszero, mcast, lessstop) confirmed on this tree by witness replay.
static ADMISSIBLE: std::sync::atomic::AtomicU8 = std::sync::atomic::AtomicU8::new(15);

fn kind_matches(pop: &Pop, r: &Rec, k: &Kind, q: Quirks) -> bool {
    match k {
        Kind::AsPath(want) => match &r.path { None => false, Some(h) => h.len() == want.len() && h.iter().zip(want).all(|(h, w)| *h == Hop::Asn(*w)) },
        Kind::Community(c) => !q.community_dead && r.comms.contains(c),
        Kind::PeerAs(a) => pop.ingress.iter().rev().find(|(i, _)| *i == r.mui).is_some_and(|(_, asn)| *asn == Some(*a)),
    }
}
fn passes(pop: &Pop, r: &Rec, d: &Doc, q: Quirks) -> bool {
    let m = |k: &Kind| kind_matches(pop, r, k, q);
    if d.all {
        (d.selects.is_empty() || d.selects.iter().all(m)) && (d.discards.is_empty() || !d.discards.iter().all(m))
    } else {
        (d.selects.is_empty() || d.selects.iter().any(m)) && (d.discards.is_empty() || !d.discards.iter().any(m))
    }
}

/// What the property says the answer is (quirks all false), or what it is under a set of
/// known deviations.
fn expected(pop: &Pop, qp: &Pfx, d: &Doc, q: Quirks, sm: &StoreMore) -> (BTreeSet<Entry>, Option<BTreeSet<Entry>>, Option<BTreeSet<Entry>>) {
    let visible: Vec<&Rec> = if q.mcast_fallback {
        // Rib::match_prefix: the unicast answer is used unless it is completely empty
        // (no exact records and no includes requested), then the multicast one if non-empty.
        let uni_empty = !pop.recs.iter().any(|r| !r.mc && r.pfx == *qp) && !d.less && !d.more;
        let mc_nonempty = pop.recs.iter().any(|r| r.mc && r.pfx == *qp);
        let use_mc = uni_empty && mc_nonempty;
        pop.recs.iter().filter(|r| r.mc == use_mc).collect()
    } else { pop.recs.iter().collect() };
    let ent = |r: &&Rec| (r.pfx, r.mui, pop.status(r), r.aid);
    let data = visible.iter().filter(|r| r.pfx == *qp && passes(pop, r, d, q)).map(ent).collect();
    // the store's walk from the queried prefix towards shorter ones ends at a record-less slot
    let cut_short = |r: &Rec| pop.empties.iter().any(|(mc, e)| *mc == r.mc && *e != *qp && e.covers(qp) && r.pfx.len < e.len);
    let less = d.less.then(|| visible.iter().filter(|r| r.pfx != *qp && r.pfx.covers(qp) && !(q.less_skips_zero && r.pfx.len == 0) && !(q.less_stops && cut_short(r)) && passes(pop, r, d, q)).map(ent).collect());
    let more = d.more.then(|| visible.iter().filter(|r| (if q.more_observed { (if r.mc { &sm.1 } else { &sm.0 }).contains(&r.pfx) } else { r.pfx != *qp && qp.covers(&r.pfx) }) && passes(pop, r, d, q)).map(ent).collect());
    (data, less, more)
}

fn judge(pop: &Pop, path: &str, query: &str, obs: &Obs, sm: &StoreMore) -> String {
    let qp = Pfx::parse_text(path);
    let doc = doc_parse(query);
    // limit clause
    if let (Some(qp), Some(d)) = (&qp, &doc) {
        let lim = if qp.fam == 4 { pop.limits.0 } else { pop.limits.1 };
        if d.more && qp.len < lim && !matches!(obs, Obs::Status(400, _)) {
            return format!("fail limit-not-enforced more-specifics of {} (limit {}) were not refused", qp.show(), lim);
        }
    }
    match obs {
        Obs::Odd(s) => format!("fail unexpected-response {s}"),
        Obs::Json { data, less, more, dups } => {
            let Some(qp) = qp else { return "fail answered-unparsable-prefix a 200 JSON answer for a path that is not a prefix".into() };
            if *dups { return "fail duplicate-entry the same entry appears twice in a section".into(); }
            let one = |e: &Entry| show_entries(&BTreeSet::from([*e]));
            // no invented entries, whatever the query text was
            let stored: BTreeSet<Entry> = pop.recs.iter().map(|r| (r.pfx, r.mui, pop.status(r), r.aid)).collect();
            for (name, sec) in [("data", Some(data)), ("lessSpecifics", less.as_ref()), ("moreSpecifics", more.as_ref())] {
                if let Some(sec) = sec { for e in sec {
                    if !stored.contains(e) { return format!("fail unstored-entry {name} contains {} which is not stored (with that status/attributes)", one(e)); }
                } }
            }
            let store_extra = sm.0.iter().chain(sm.1.iter()).any(|p| !(*p != qp && qp.covers(p)));
            let more_name = if store_extra { "more-specifics:store-returns-uncovered-prefix" } else { "more-specifics:store-omits-covered-prefix" };
            // completeness + exactness for documented queries
            if let Some(d) = doc.as_ref().filter(|d| !d.format) {
                let got = (data.clone(), less.clone(), more.clone());
                let (e0, e1, e2) = expected(pop, &qp, d, Quirks::default(), sm);
                if got == (e0.clone(), e1.clone(), e2.clone()) { return "ok".into(); }
                // classify: the smallest set of known deviations that explains the answer exactly.
                // Only deviations whose witness reproduced on this tree are admissible, and the
                // more-specifics deviation is not guessed but observed (the store's raw answer).
                let adm = ADMISSIBLE.load(std::sync::atomic::Ordering::Relaxed);
                let contract: BTreeSet<(bool, Pfx)> = pop.recs.iter().filter(|r| r.pfx != qp && qp.covers(&r.pfx)).map(|r| (r.mc, r.pfx)).collect();
                let observed: BTreeSet<(bool, Pfx)> = sm.0.iter().map(|p| (false, *p)).chain(sm.1.iter().map(|p| (true, *p))).collect();
                let more_active = d.more && contract != observed;
                let names = ["community-filter:never-matches", "less-specifics:default-route-omitted", "multicast:hidden-unless-unicast-answer-empty", "less-specifics:stops-at-empty-prefix-slot", more_name];
                let mut best: Option<Vec<usize>> = None;
                for mask in 0u8..16 {
                    if mask & !adm != 0 { continue; }
                    if mask == 0 && !more_active { continue; }
                    let q = Quirks { community_dead: mask & 1 != 0, less_skips_zero: mask & 2 != 0, mcast_fallback: mask & 4 != 0, less_stops: mask & 8 != 0, more_observed: more_active };
                    if got == expected(pop, &qp, d, q, sm) {
                        let mut set: Vec<usize> = (0..4).filter(|i| mask & (1 << i) != 0).collect();
                        if more_active { set.push(4); }
                        if best.as_ref().is_none_or(|b| set.len() < b.len()) { best = Some(set); }
                    }
                }
                let want = format!("expected D{} L{} M{}", show_entries(&e0), e1.as_ref().map_or("-".into(), show_entries), e2.as_ref().map_or("-".into(), show_entries));
                if let Some(set) = best { return format!("fail {} {} ({})", names[set[0]], want, join(set.iter().map(|i| names[*i]), "+")); }
                let sec = if *data != e0 { "data" } else if *less != e1 { "less-specifics" } else { "more-specifics" };
                return format!("fail answer-mismatch:{sec} {want}");
            }
            // undocumented query text: only soundness (every entry sits in the right section)
            for (name, sec, rel) in [("data", Some(data), 0), ("lessSpecifics", less.as_ref(), 1), ("moreSpecifics", more.as_ref(), 2)] {
                if let Some(sec) = sec { for e in sec {
                    let right = match rel { 0 => e.0 == qp, 1 => e.0 != qp && e.0.covers(&qp), _ => e.0 != qp && qp.covers(&e.0) };
                    if !right {
                        if rel == 2 && (sm.0.contains(&e.0) || sm.1.contains(&e.0)) { return format!("fail more-specifics:store-returns-uncovered-prefix moreSpecifics contains {} which {} does not cover", one(e), qp.show()); }
                        return format!("fail wrong-section {name} contains {} which does not belong there for {}", one(e), qp.show());
                    }
                } }
            }
            "ok".into()
        }
        Obs::Dump | Obs::None => "ok".into(),
        Obs::Status(400, _) => {
            // a documented, valid query must not be refused
            match (qp, doc) {
                (Some(qp), Some(d)) => {
                    let lim = if qp.fam == 4 { pop.limits.0 } else { pop.limits.1 };
                    if d.more && qp.len < lim { "ok".into() } else if d.format { "ok".into() } else { "fail valid-query-refused a documented query was answered 400".into() }
                }
                _ => "ok".into(),
            }
        }
        Obs::Status(s, _) => format!("fail unexpected-status {s}"),
    }
}

// ------------------------------------------------------------- generator

/// `narrow`: the store crate was compiled with overflow checks and panics on inserting IPv6 or
/// IPv4 /1../4 prefixes (a dev-profile artefact of rotonda-store 0.4.1); then only IPv4 /0 and /5../32 are generated.
struct Gen { rng: Rng, narrow: bool }
impl Gen {
    fn pfx_near(&mut self, fam: u8, base: u128) -> Pfx {
        let width: u32 = if fam == 4 { 32 } else { 128 };
        let len = match self.rng.below(10) {
            0 => 0,
            1 => self.rng.range(1, 8) as u32,
            2..=6 => if fam == 4 { self.rng.range(8, 28) as u32 } else { self.rng.range(16, 64) as u32 },
            7 => width,
            _ => self.rng.range(0, width as u64) as u32,
        };
        // flip a few bits of the base so that siblings and cousins appear
        let mut addr = base;
        for _ in 0..self.rng.below(3) { addr ^= 1u128 << self.rng.below(width as u64); }
        let (fam, width, len, addr) = if self.narrow { (4u8, 32u32, if fam == 6 { len % 33 } else { len }, addr & 0xFFFF_FFFF) } else { (fam, width, len, addr) };
        let len = if self.narrow && (1..=4).contains(&len) { len + 4 } else { len };
        let bits = if len == 0 { 0 } else { (addr >> (width - len)) & (if len == 128 { u128::MAX } else { (1u128 << len) - 1 }) };
        Pfx { fam, len: len as u8, bits }
    }
    fn asn(&mut self) -> u32 { *self.rng.pick(&[1, 2, 3, 65001, 65002, 4200000001]) }
    fn comm(&mut self) -> Comm { if self.rng.chance(3, 4) { Comm::Std(*self.rng.pick(&[1, 2, 65001]), *self.rng.pick(&[1, 2, 666])) } else { Comm::Large(*self.rng.pick(&[1, 65001]), *self.rng.pick(&[1, 2]), *self.rng.pick(&[1, 3])) } }
    fn path(&mut self) -> Option<Vec<Hop>> {
        match self.rng.below(10) {
            0 => None,
            1 => Some(vec![]),
            2 => { let mut p = self.aspath(); let at = self.rng.below(p.len() as u64 + 1) as usize; p.insert(at, Hop::Set); Some(p) }
            _ => Some(self.aspath()),
        }
    }
    fn aspath(&mut self) -> Vec<Hop> { let n = self.rng.range(1, 3); (0..n).map(|_| Hop::Asn(self.asn())).collect() }
    fn pop(&mut self) -> (Pop, [u128; 2]) {
        let bases = [self.rng.next() as u128 & 0xFFFF_FFFF, ((self.rng.next() as u128) << 64) | self.rng.next() as u128];
        let limits = match self.rng.below(4) { 0 => (self.rng.range(0, 32) as u8, self.rng.range(0, 128) as u8), _ => (8, 19) };
        let muis: Vec<u32> = (1..=self.rng.range(1, 4) as u32).collect();
        let mut ingress = vec![];
        for m in &muis { if self.rng.chance(4, 5) { let a = if self.rng.chance(4, 5) { Some(*self.rng.pick(&[65001u32, 65002, 3])) } else { None }; ingress.push((*m, a)); } }
        let n = self.rng.range(0, 14);
        let v6 = self.rng.chance(1, 3);
        let mcast_share = *self.rng.pick(&[0u64, 0, 1, 3]);
        let mut recs: Vec<Rec> = vec![];
        for _ in 0..n {
            let fam = if self.rng.chance(1, 6) != v6 { 6 } else { 4 };
            let pfx = if !recs.is_empty() && self.rng.chance(1, 3) { self.rng.pick(&recs).pfx } else { self.pfx_near(fam, bases[(fam == 6) as usize]) };
            let mc = self.rng.below(10) < mcast_share;
            let mui = *self.rng.pick(&muis);
            if recs.iter().any(|r| r.mc == mc && r.pfx == pfx && r.mui == mui) { continue; }
            let comms = (0..self.rng.below(3)).map(|_| self.comm()).collect();
            let rec = Rec { mc, pfx, mui, active: self.rng.chance(3, 4), aid: recs.len() as u32 + 1, path: self.path(), comms };
            recs.push(rec);
        }
        let mut wd = vec![];
        for m in &muis { if self.rng.chance(1, 8) { wd.push(*m); } }
        // record-less slots: a covering prefix of something stored (or a fresh one) that is only ever withdrawn
        let mut empties: Vec<(bool, Pfx)> = vec![];
        if self.rng.chance(1, 4) {
            for _ in 0..self.rng.range(1, 2) {
                let (mc, p) = if !recs.is_empty() && self.rng.chance(3, 4) {
                    let r = self.rng.pick(&recs).clone();
                    if r.pfx.len < 2 { continue; }
                    let k = self.rng.range(1, (r.pfx.len - 1).min(9) as u64) as u8;
                    (r.mc, Pfx { fam: r.pfx.fam, len: r.pfx.len - k, bits: r.pfx.bits >> k })
                } else { let fam = if v6 { 6 } else { 4 }; (self.rng.below(10) < mcast_share, self.pfx_near(fam, bases[(fam == 6) as usize])) };
                if self.narrow && (p.fam == 6 || (1..=4).contains(&p.len)) { continue; }
                if recs.iter().any(|r| r.mc == mc && r.pfx == p) || empties.contains(&(mc, p)) { continue; }
                empties.push((mc, p));
            }
        }
        (Pop { limits, ingress, recs, wd, empties }, bases)
    }
    fn filter_param(&mut self, pop: &Pop) -> String {
        let mode = if self.rng.chance(1, 2) { "select" } else { "discard" };
        let r = if pop.recs.is_empty() { None } else { Some(self.rng.pick(&pop.recs).clone()) };
        match self.rng.below(3) {
            0 => {
                let want: Vec<u32> = match r.as_ref().and_then(|r| r.path.clone()) {
                    Some(h) if self.rng.chance(3, 4) && !h.is_empty() => h.iter().map(|h| match h { Hop::Asn(a) => *a, Hop::Set => 64999 }).collect(),
                    _ => self.aspath().iter().map(|h| if let Hop::Asn(a) = h { *a } else { 0 }).collect(),
                };
                let pre = if self.rng.chance(1, 5) { "AS" } else { "" };
                format!("{mode}[as_path]={}", join(want.iter().map(|a| format!("{pre}{a}")), ","))
            }
            1 => {
                let c = match r { Some(r) if !r.comms.is_empty() && self.rng.chance(3, 4) => self.rng.pick(&r.comms).clone(), _ => self.comm() };
                format!("{mode}[community]={}", match c { Comm::Std(a, b) => format!("{a}:{b}"), Comm::Large(a, b, c) => format!("{a}:{b}:{c}") })
            }
            _ => format!("{mode}[peer_as]={}", self.rng.pick(&[65001u32, 65002, 3, 7])),
        }
    }
    fn query(&mut self, pop: &Pop) -> String {
        let mut ps: Vec<String> = vec![];
        match self.rng.below(6) { 0 => {} 1 => ps.push("include=lessSpecifics".into()), 2 => ps.push("include=moreSpecifics".into()), 3 => ps.push("include=moreSpecifics,lessSpecifics".into()), _ => ps.push("include=lessSpecifics,moreSpecifics".into()) }
        let nf = *self.rng.pick(&[0u64, 0, 1, 1, 2, 3]);
        for _ in 0..nf { ps.push(self.filter_param(pop)); }
        if nf > 0 && self.rng.chance(1, 2) { ps.push(format!("filter_op={}", self.rng.pick(&["any", "all"]))); }
        if self.rng.chance(1, 8) { ps.push("details=communities".into()); }
        if self.rng.chance(1, 8) { ps.push(format!("sort={}", self.rng.pick(&["/ingress_id", "/prefix,/status", "x"]))); }
        if self.rng.chance(1, 30) { ps.push("format=dump".into()); }
        // shuffle
        for i in (1..ps.len()).rev() { let j = self.rng.below(i as u64 + 1) as usize; ps.swap(i, j); }
        join(ps.iter(), "&")
    }
    /// The malformed stream: junk parameters, duplicates, bad values, odd bracket forms.
    fn junk_query(&mut self, pop: &Pop) -> String {
        let mut q = self.query(pop);
        let junk = ["foo=1", "include=", "include", "include=lessSpecifics,", "include=more", "include[x]=moreSpecifics", "include]x=lessSpecifics", "include=lessSpecifics&include=moreSpecifics",
            "details=none", "details=communities,communities", "details[a]=communities", "filter_op=none", "filter_op=any&filter_op=all", "filter_op[x]=all", "format=json", "format=dump&format=dump", "sort=a&sort=b",
            "select=1", "discard=x", "select[as_path]=", "select[as_path]=1,,2", "select[as_path]=AS", "select[as_path]=as3", "select[as_path]=4294967296", "select[as_path]=+3", "select[as_path]=-1", "discard[as_path]=x",
            "select[peer_as]=", "select[peer_as]=65001,3", "discard[peer_as]=AS65001", "select[community]=xyz", "select[community]=", "discard[community]=1:2:3:4", "select[origin]=1", "select[]=1", "select[as_path]x=3",
            "select[as_path][x]=3", "discard]peer_as]=3", "&", "a", "=", "Include=lessSpecifics", "select[AS_PATH]=1"];
        for _ in 0..self.rng.range(1, 2) {
            let j = self.rng.pick(&junk).to_string();
            if q.is_empty() { q = j } else if self.rng.chance(1, 2) { q = format!("{q}&{j}") } else { q = format!("{j}&{q}") }
        }
        q
    }
    fn query_prefix(&mut self, pop: &Pop, bases: &[u128; 2]) -> Pfx {
        if !pop.recs.is_empty() && self.rng.chance(1, 2) { return self.rng.pick(&pop.recs).pfx; }
        if !pop.recs.is_empty() && self.rng.chance(1, 2) {
            // a parent or child of something stored
            let p = self.rng.pick(&pop.recs).pfx;
            let up = self.rng.chance(1, 2);
            if up && p.len > 0 { let k = self.rng.range(1, p.len.min(6) as u64) as u8; return Pfx { fam: p.fam, len: p.len - k, bits: if p.len - k == 0 { 0 } else { p.bits >> k } }; }
            if !up && p.len < p.width() { return Pfx { fam: p.fam, len: p.len + 1, bits: (p.bits << 1) | self.rng.below(2) as u128 }; }
            return p;
        }
        let fam = if self.rng.chance(1, 3) { 6 } else { 4 };
        self.pfx_near(fam, bases[(fam == 6) as usize])
    }
    fn bad_path(&mut self) -> String {
        self.rng.pick(&["10.0.0.1/8", "10.0.0.0/33", "10.0.0.0/x", "garbage/8", "10.0.0.0/8/9", "::/129", "2001:db8::1/32", "10.0.0/8", "/8", "10.0.0.0/", "1.2.3.4/+8"]).to_string()
    }
}


// ---------------------------------------------------- H stream (RibBridge): history -> HTTP
//
// One case = one C01-style history (BGP UPDATEs of 1-3 sessions incl. framing-damaged ones,
// session-level withdrawals `Withdraw(id, None)`, `WithdrawBulk(ids)`, `Withdraw(id, Some(afi/safi))`)
// fed through the real BGP `Processor::process_update` and the real `RibUnitRunner::process_update`,
// then one GET through a real `PrefixesApi` serving that runner's `Rib`. Case line:
//   `H<v4>,<v6>|I<id>:<asn|->,…|A<aid>~<path>~<communities>;…|E<event> <event> …|P…|X…|S…~…|Q…`
//   (events = tokens of `verif_harness::rib::Ev`; A = what attribute id `aid` stands for; P X S Q as above).
// The model side is the composed Lean function `Bridge.httpOfHistory` (`Model/RibBridge.lean`).
// Oracle (no Lean): the history is replayed by a HashMap replay into the population the RIB should hold
// (with the session-withdrawal / overlap semantics detected on this tree by witness replay: C01-C03 judge
// those, not this stream) and the HTTP answer is judged against that population by C11's own oracle.

#[derive(Clone, Debug)]
struct AttrDef { aid: u32, path: Option<Vec<Hop>>, comms: Vec<Comm> }

#[derive(Clone, Debug)]
struct Hist { limits: (u8, u8), ingress: Vec<(u32, Option<u32>)>, attrs: Vec<AttrDef>, evs: Vec<hr::Ev> }

/// RIB-side semantics detected on this tree (both are C01 / C03 defect sites).
#[derive(Clone, Copy, Debug)]
struct RibSem { overlap_withdraws: bool, sticky_down: bool }

fn conv_pfx(p: &hr::Pfx) -> Pfx { Pfx { fam: if p.v6 { 6 } else { 4 }, len: p.len, bits: p.bits } }

impl Hist {
    fn show(&self) -> String {
        format!("H{},{}|I{}|A{}|E{}", self.limits.0, self.limits.1,
            join(self.ingress.iter().map(|(i, a)| format!("{}:{}", i, a.map_or("-".to_string(), |a| a.to_string()))), ","),
            join(self.attrs.iter().map(|d| format!("{}~{}~{}", d.aid, show_path(&d.path), show_comms(&d.comms))), ";"),
            join(self.evs.iter().map(|e| e.show()), " "))
    }
    fn parse(l: &str, i: &str, a: &str, e: &str) -> Option<Hist> {
        let (v4, v6) = l.strip_prefix('H')?.split_once(',')?;
        let i = i.strip_prefix('I')?; let a = a.strip_prefix('A')?; let e = e.strip_prefix('E')?;
        Some(Hist {
            limits: (v4.parse().ok()?, v6.parse().ok()?),
            ingress: if i.is_empty() { vec![] } else { i.split(',').map(|e| { let (id, a) = e.split_once(':')?; Some((id.parse().ok()?, if a == "-" { None } else { Some(a.parse().ok()?) })) }).collect::<Option<Vec<_>>>()? },
            attrs: if a.is_empty() { vec![] } else { a.split(';').map(|d| { let f: Vec<&str> = d.split('~').collect(); if f.len() != 3 { return None; } Some(AttrDef { aid: f[0].parse().ok()?, path: parse_path(f[1])?, comms: parse_comms(f[2])? }) }).collect::<Option<Vec<_>>>()? },
            evs: e.split_whitespace().map(hr::Ev::parse).collect::<Option<Vec<_>>>()?,
        })
    }
    fn def(&self, aid: u32) -> AttrDef { self.attrs.iter().find(|d| d.aid == aid).cloned().unwrap_or(AttrDef { aid, path: Some(vec![]), comms: vec![] }) }

    /// Feed the history to the real code; returns the runner (kept alive) and a `PrefixesApi` fixture on its `Rib`.
    fn build(&self, notes: &mut Vec<String>) -> Result<(hr::RealRib, RibQueryFixture), String> {
        let rib = hr::RealRib::new();
        let mut bgp = hr::BgpSource::new();
        for e in &self.evs {
            let r = match e {
                hr::Ev::Upd(m, u) => {
                    let d = self.def(u.attr);
                    let (pdu, _) = hr::encode_update_with(u, &d.path.as_deref().map(as_path_segments).unwrap_or_default(), &community_attrs(&d.comms))?;
                    match bgp.ingest(&pdu, *m) {
                        hr::Ingested::Update(up) => { if u.corrupt != 0 { notes.push("malformed-accepted".into()); } rib.process(up) }
                        hr::Ingested::Rejected(_) => { notes.push(if u.corrupt != 0 { "malformed-rejected".into() } else { "wellformed-not-forwarded".into() }); Ok(()) }
                    }
                }
                hr::Ev::Down(m) => rib.process(Update::Withdraw(*m, None)),
                hr::Ev::DownBulk(ms) => rib.process(Update::WithdrawBulk(ms.clone().into())),
                hr::Ev::DownAf(m, af) => rib.process(Update::Withdraw(*m, Some(hr::afisafi(af)))),
            };
            if let Err(p) = r { return Err(format!("panic-in-process-update {p}")); }
        }
        let fx = RibQueryFixture::around(rotonda::verif::rib::rib(&rib.runner), API, self.limits.0, self.limits.1);
        for (id, asn) in &self.ingress { fx.set_ingress(*id, *asn); }
        Ok((rib, fx))
    }

    /// The population the RIB should hold after the history (independent HashMap replay).
    fn expected(&self, sem: RibSem) -> Pop {
        let mut keys: Vec<(bool, hr::Pfx, u32)> = vec![];
        let mut tab: std::collections::HashMap<(bool, hr::Pfx, u32), (bool, u32)> = Default::default();
        let mut marks: BTreeSet<(bool, bool, u32)> = BTreeSet::new();
        // prefixes named by a withdrawal: the store keeps a slot for them even if it never held a record
        let mut slots: BTreeSet<(bool, hr::Pfx)> = BTreeSet::new();
        let table = |s: hr::Safi| match s { hr::Safi::U => Some(false), hr::Safi::M => Some(true), hr::Safi::X => None };
        let mut session_down = |tab: &mut std::collections::HashMap<(bool, hr::Pfx, u32), (bool, u32)>, m: u32, trees: &[(bool, bool)]| {
            for (mc, v6) in trees {
                if sem.sticky_down { marks.insert((*mc, *v6, m)); }
                else { for (k, v) in tab.iter_mut() { if k.2 == m && k.0 == *mc && k.1.v6 == *v6 { v.0 = false; } } }
            }
        };
        const ALL: [(bool, bool); 4] = [(false, false), (false, true), (true, false), (true, true)];
        for e in &self.evs {
            match e {
                hr::Ev::Upd(_, u) if u.corrupt != 0 => {}
                hr::Ev::Upd(m, u) => {
                    for n in &u.ann { if let Some(mc) = table(n.safi) { let k = (mc, n.pfx, *m); if !tab.contains_key(&k) { keys.push(k); } tab.insert(k, (true, u.attr)); } }
                    for n in &u.wd { if let Some(mc) = table(n.safi) {
                        slots.insert((mc, n.pfx));
                        if u.ann.contains(n) && !sem.overlap_withdraws { continue; }
                        if let Some(v) = tab.get_mut(&(mc, n.pfx, *m)) { v.0 = false; }
                    } }
                }
                hr::Ev::Down(m) => session_down(&mut tab, *m, &ALL),
                hr::Ev::DownBulk(ms) => for m in ms { session_down(&mut tab, *m, &ALL) },
                hr::Ev::DownAf(m, af) => match af.as_str() { "v4u" => session_down(&mut tab, *m, &[(false, false)]), "v6u" => session_down(&mut tab, *m, &[(false, true)]), "v4m" => session_down(&mut tab, *m, &[(true, false)]), "v6m" => session_down(&mut tab, *m, &[(true, true)]), _ => {} },
            }
        }
        let recs = keys.iter().map(|k| { let (act, aid) = tab[k]; let d = self.def(aid);
            Rec { mc: k.0, pfx: conv_pfx(&k.1), mui: k.2, active: act && !marks.contains(&(k.0, k.1.v6, k.2)), aid, path: d.path, comms: d.comms } }).collect();
        let empties = slots.iter().filter(|(mc, p)| !keys.iter().any(|k| k.0 == *mc && k.1 == *p)).map(|(mc, p)| (*mc, conv_pfx(p))).collect();
        Pop { limits: self.limits, ingress: self.ingress.clone(), recs, wd: vec![], empties }
    }
}

fn run_h_case(rt: &tokio::runtime::Runtime, rec: &mut Recorder, h: &Hist, exp: &Pop, fx: &RibQueryFixture, path: &str, query: &str) -> Obs {
    let obs = observe(rt, fx, path, query);
    let qp = Pfx::parse_text(path);
    let sm = store_more(fx, qp);
    let x = qp.map_or("bad".to_string(), |p| p.show());
    let case = format!("{}|P{}|X{}|S{}~{}|Q{}", h.show(), path, x, join(sm.0.iter().map(|p| p.show()), ","), join(sm.1.iter().map(|p| p.show()), ","), query);
    let oracle = judge(exp, path, query, &obs, &sm);
    let nontrivial = match &obs { Obs::Json { data, less, more, .. } => !data.is_empty() || less.as_ref().is_some_and(|s| !s.is_empty()) || more.as_ref().is_some_and(|s| !s.is_empty()), _ => false };
    rec.bump("h.cases");
    rec.bump(match &obs { Obs::None => "h.resp.none", Obs::Status(..) => "h.resp.400", Obs::Dump => "h.resp.dump", Obs::Json { .. } => "h.resp.json", Obs::Odd(_) => "h.resp.odd" });
    if let Obs::Json { data, less, more, .. } = &obs {
        if !data.is_empty() { rec.bump("h.json.data-nonempty"); }
        if data.iter().any(|e| !e.2) { rec.bump("h.json.data-with-withdrawn-entry"); }
        if less.as_ref().is_some_and(|s| !s.is_empty()) { rec.bump("h.json.less-nonempty"); }
        if more.as_ref().is_some_and(|s| !s.is_empty()) { rec.bump("h.json.more-nonempty"); }
    }
    if query.contains("select") || query.contains("discard") { rec.bump("h.query.with-filters"); }
    rec.case(case, obs.show(), oracle, nontrivial);
    obs
}

fn replay_h_line(rt: &tokio::runtime::Runtime, rec: &mut Recorder, line: &str, sem: RibSem) -> Option<Obs> {
    let f: Vec<&str> = line.splitn(8, '|').collect();
    if f.len() != 8 { return None; }
    let h = Hist::parse(f[0], f[1], f[2], f[3])?;
    let path = f[4].strip_prefix('P')?;
    let query = f[7].strip_prefix('Q')?;
    let mut notes = vec![];
    let (_rib, fx) = h.build(&mut notes).ok()?;
    Some(run_h_case(rt, rec, &h, &h.expected(sem), &fx, path, query))
}

// Witnesses of `C01_overlap_counterexample` and `C03_counterexample`, seen through HTTP (`Bridge_C03_http`).
const W_H_OVERLAP: &str = "H8,19|I|A7~e~-|Eu:2:7:u4.24.655617:u4.24.655617:c|P10.1.1.0/24|X4/24/655617|S~|Q";
const W_H_FLAP: &str = "H8,19|I|A5~e~-;7~n1~-|Eu:2:5:u4.24.655617:-:c d:2 u:2:7:u4.24.655617:-:c|P10.1.1.0/24|X4/24/655617|S~|Q";

/// `C11_lessstop_counterexample` as a history: 10.0.0.0/8 announced, 10.1.0.0/16 withdrawn without ever having been announced.
const W_H_LESSSTOP: &str = "H8,19|I|A1~n1~-|Eu:2:1:u4.8.10:-:c u:2:1:-:u4.16.2561:c|P10.1.1.0/24|X4/24/655617|S~|Qinclude=lessSpecifics";

/// Is the single `data` entry of the witness reported active? (`None`: the witness did not run.)
fn witness_active(rt: &tokio::runtime::Runtime, line: &str) -> Option<bool> {
    let f: Vec<&str> = line.splitn(8, '|').collect();
    let h = Hist::parse(f[0], f[1], f[2], f[3])?;
    let (_rib, fx) = h.build(&mut vec![]).ok()?;
    match observe(rt, &fx, f[4].strip_prefix('P')?, "") { Obs::Json { data, .. } => data.iter().next().map(|e| e.2), _ => None }
}

impl Gen {
    fn history(&mut self, rec: &mut Recorder) -> Hist {
        let pool: Vec<hr::Pfx> = hr::pool().into_iter().filter(|p| !(self.narrow && p.v6)).collect();
        let limits = match self.rng.below(4) { 0 => (self.rng.range(0, 32) as u8, self.rng.range(0, 128) as u8), _ => (8, 19) };
        let muis: Vec<u32> = (2..2 + self.rng.range(1, 3) as u32).collect();
        let mut ingress = vec![];
        for m in &muis { if self.rng.chance(4, 5) { let a = if self.rng.chance(4, 5) { Some(*self.rng.pick(&[65001u32, 65002, 3])) } else { None }; ingress.push((*m, a)); } }
        let attrs: Vec<AttrDef> = (1..=6u32).map(|aid| { let path = match self.path() { None => Some(vec![]), p => p }; AttrDef { aid, path, comms: (0..self.rng.below(3)).map(|_| self.comm()).collect() } }).collect();
        let focus: Vec<hr::Pfx> = (0..self.rng.range(2, 5)).map(|_| *self.rng.pick(&pool)).collect();
        let n = if self.rng.chance(1, 6) { self.rng.range(12, 30) } else { self.rng.range(1, 10) };
        let mut evs = vec![];
        for _ in 0..n {
            let m = *self.rng.pick(&muis);
            match self.rng.below(20) {
                0..=1 => { evs.push(hr::Ev::Down(m)); rec.bump("h.ev.withdraw-session"); }
                2 => { let k = self.rng.range(0, 2) as usize; let ms: Vec<u32> = (0..k).map(|_| *self.rng.pick(&muis)).collect(); evs.push(hr::Ev::DownBulk(ms)); rec.bump("h.ev.withdraw-bulk"); }
                3 => { evs.push(hr::Ev::DownAf(m, self.rng.pick(&["v4u", "v6u", "v4m", "v6m"]).to_string())); rec.bump("h.ev.withdraw-afisafi"); }
                _ => {
                    // one MP family per half: a half is drawn from one (family, safi)
                    let mut half = |g: &mut Gen, k: u64| -> Vec<hr::Nlri> {
                        if k == 0 { return vec![]; }
                        let v6 = !g.narrow && g.rng.chance(1, 3);
                        let safi = match g.rng.below(20) { 0..=13 => hr::Safi::U, 14..=18 => hr::Safi::M, _ => hr::Safi::X };
                        let mut c: Vec<&hr::Pfx> = focus.iter().filter(|p| p.v6 == v6).collect();
                        if c.is_empty() || g.rng.chance(1, 6) { c = pool.iter().filter(|p| p.v6 == v6).collect(); }
                        (0..k).map(|_| hr::Nlri { pfx: **g.rng.pick(&c), safi }).collect()
                    };
                    let (na, nw) = match self.rng.below(10) { 0..=5 => (self.rng.range(1, 3), 0), 6..=7 => (0, self.rng.range(1, 2)), 8 => (self.rng.range(1, 2), self.rng.range(1, 2)), _ => (0, 0) };
                    let ann = half(self, na);
                    let mut wd = half(self, nw);
                    if !ann.is_empty() && !wd.is_empty() && self.rng.chance(1, 2) { wd = vec![*self.rng.pick(&ann)]; }
                    let mut u = hr::Upd { attr: self.rng.range(1, 6) as u32, ann, wd, mp4: self.rng.chance(1, 4), corrupt: 0 };
                    if hr::encode_update(&u).is_err() { u.wd.clear(); }
                    if self.rng.chance(1, 12) { let k = self.rng.range(1, 4) as u8; if hr::corrupt_applicable(&u, k) { u.corrupt = k; } }
                    rec.bump(if u.corrupt != 0 { "h.ev.update-malformed" } else if u.ann.iter().any(|a| u.wd.contains(a)) { "h.ev.update-overlap" } else if u.ann.is_empty() && u.wd.is_empty() { "h.ev.update-empty" } else if u.ann.is_empty() { "h.ev.update-withdraw-only" } else if u.wd.is_empty() { "h.ev.update-announce-only" } else { "h.ev.update-both" });
                    for nl in u.ann.iter().chain(u.wd.iter()) { rec.bump(match nl.safi { hr::Safi::U => "h.nlri.unicast", hr::Safi::M => "h.nlri.multicast", hr::Safi::X => "h.nlri.unsupported-safi" }); }
                    evs.push(hr::Ev::Upd(m, u));
                }
            }
        }
        Hist { limits, ingress, attrs, evs }
    }
}

// ------------------------------------------------------------------ main

fn store_more(fx: &RibQueryFixture, qp: Option<Pfx>) -> StoreMore {
    let Some(qp) = qp else { return (vec![], vec![]) };
    let conv = |v: Vec<inetnum::addr::Prefix>| v.iter().filter_map(|p| Pfx::parse_text(&p.to_string())).collect::<Vec<_>>();
    let one = |mc: bool| std::panic::catch_unwind(std::panic::AssertUnwindSafe(|| fx.store_specifics(qp.to_inetnum(), mc).1)).map(conv).unwrap_or_default();
    (one(false), one(true))
}

fn run_case(rt: &tokio::runtime::Runtime, rec: &mut Recorder, pop: &Pop, fx: &RibQueryFixture, path: &str, query: &str) -> (Obs, StoreMore) {
    let obs = observe(rt, fx, path, query);
    let qp = Pfx::parse_text(path);
    let sm = store_more(fx, qp);
    let x = qp.map_or("bad".to_string(), |p| p.show());
    let case = format!("{}|P{}|X{}|S{}~{}|Q{}", pop.show(), path, x, join(sm.0.iter().map(|p| p.show()), ","), join(sm.1.iter().map(|p| p.show()), ","), query);
    let oracle = judge(pop, path, query, &obs, &sm);
    let nontrivial = match &obs { Obs::Json { data, less, more, .. } => !data.is_empty() || less.as_ref().is_some_and(|s| !s.is_empty()) || more.as_ref().is_some_and(|s| !s.is_empty()), _ => false };
    rec.bump(match &obs { Obs::None => "resp.none", Obs::Status(..) => "resp.400", Obs::Dump => "resp.dump", Obs::Json { .. } => "resp.json", Obs::Odd(_) => "resp.odd" });
    if let Obs::Status(_, k) = &obs { rec.bump(&format!("err.{k}")); }
    if let Obs::Json { data, less, more, .. } = &obs {
        if !data.is_empty() { rec.bump("json.data-nonempty"); }
        if less.as_ref().is_some_and(|s| !s.is_empty()) { rec.bump("json.less-nonempty"); }
        if more.as_ref().is_some_and(|s| !s.is_empty()) { rec.bump("json.more-nonempty"); }
    }
    if query.contains("select") || query.contains("discard") { rec.bump("query.with-filters"); }
    rec.case(case, obs.show(), oracle, nontrivial);
    (obs, sm)
}

fn replay_line(rt: &tokio::runtime::Runtime, rec: &mut Recorder, line: &str) -> Option<(Obs, StoreMore)> {
    let f: Vec<&str> = line.splitn(8, '|').collect();
    if f.len() != 8 { return None; }
    let pop = Pop::parse(f[0], f[1], f[2], f[3])?;
    let path = f[4].strip_prefix('P')?;
    let query = f[7].strip_prefix('Q')?;
    let fx = pop.build().ok()?;
    Some(run_case(rt, rec, &pop, &fx, path, query))
}

// Witnesses of the Lean counterexample theorems (Props/C11.lean); replayed first, they decide the variants.
const W_COMMUNITY: &str = "L8,19|I1:65001|Ru,4/8/10,1,A,1,n1.n2,c1:2|W|P10.0.0.0/8|X4/8/10|S~|Qselect[community]=1:2";
const W_LESSZERO: &str = "L8,19|I|Ru,4/0/0,1,A,1,n1,-;u,4/8/10,1,A,2,n1,-|W|P10.0.0.0/8|X4/8/10|S~|Qinclude=lessSpecifics";
const W_MCAST: &str = "L8,19|I|Ru,4/8/10,1,A,1,n1,-;m,4/8/10,2,A,2,n2,-|W|P10.0.0.0/8|X4/8/10|S~|Q";
const W_LESSSTOP: &str = "L8,19|I|Ru,4/8/10,1,A,1,n1,-|W;u4/16/2561|P10.1.1.0/24|X4/24/655617|S~|Qinclude=lessSpecifics";
const W_MORE: &str = "L8,19|I|Ru,4/17/77326,1,A,1,n1,-;u,4/18/154655,2,A,2,n2,-|W|P151.7.0.0/17|X4/17/77326|S~|Qinclude=moreSpecifics";

fn main() {
    let args = parse_args();
    let t0 = Instant::now();
    std::panic::set_hook(Box::new(|_| {}));
    let rt = tokio::runtime::Builder::new_current_thread().enable_all().build().unwrap();
    let mut rec = Recorder::new("one case = one population (0-14 records over nested/sibling v4+v6 prefixes incl. /0 and host routes, 1-4 ingress ids, unicast+multicast stores, per-record and per-ingress withdrawals, record-less prefix slots) inserted through the real Rib, or (H lines) one history of BGP UPDATEs and session-level withdrawals fed through the real BGP update handler and RibUnitRunner::process_update, + one GET through the real PrefixesApi::process_request (documented parameters, random filters drawn from the population, plus a malformed stream); non-trivial = a 200 JSON answer with at least one entry in some section; distinct = distinct case lines");

    // RIB-side semantics of this tree (C01 / C03 defect sites), seen through HTTP; they select the
    // `overlap` / `flap` flags of the composed model and of the H stream's expected population.
    let sem = RibSem { overlap_withdraws: witness_active(&rt, W_H_OVERLAP) == Some(false), sticky_down: witness_active(&rt, W_H_FLAP) == Some(false) };

    if let Some(path) = &args.replay {
        for line in verif_harness::replay_cases(path) {
            if line.starts_with('H') { replay_h_line(&rt, &mut rec, &line, sem); } else { replay_line(&rt, &mut rec, &line); }
        }
        rec.variant("overlap", if sem.overlap_withdraws { "as-written" } else { "repaired" });
        rec.variant("flap", if sem.sticky_down { "as-written" } else { "repaired" });
        rec.finish(&args, t0.elapsed().as_secs_f64());
        return;
    }

    // 0. witnesses -> variants
    let has = |o: &Option<(Obs, StoreMore)>, aid: u32, sec: u8| -> bool {
        match o { Some((Obs::Json { data, less, .. }, _)) => (if sec == 0 { Some(data) } else { less.as_ref() }).is_some_and(|s| s.iter().any(|e| e.3 == aid)), _ => false }
    };
    let mut adm = 0u8;
    let o = replay_line(&rt, &mut rec, W_COMMUNITY);
    rec.variant("community", if has(&o, 1, 0) { "repaired" } else { adm |= 1; "as-written" });
    let o = replay_line(&rt, &mut rec, W_LESSZERO);
    rec.variant("lesszero", if has(&o, 1, 1) { "repaired" } else { adm |= 2; "as-written" });
    let o = replay_line(&rt, &mut rec, W_MCAST);
    rec.variant("mcast", if has(&o, 2, 0) { "repaired" } else { adm |= 4; "as-written" });
    let o = replay_line(&rt, &mut rec, W_LESSSTOP);
    rec.variant("lessstop", if has(&o, 1, 1) { "repaired" } else { adm |= 8; "as-written" });
    ADMISSIBLE.store(adm, std::sync::atomic::Ordering::Relaxed);
    // the store reports 151.7.128.0/18 (a child of the sibling /17) as a more-specific of 151.7.0.0/17
    let o = replay_line(&rt, &mut rec, W_MORE);
    rec.variant("more", if o.is_some_and(|(_, sm)| sm.0.is_empty() && sm.1.is_empty()) { "contract" } else { "as-observed" });

    rec.variant("overlap", if sem.overlap_withdraws { "as-written" } else { "repaired" });
    rec.variant("flap", if sem.sticky_down { "as-written" } else { "repaired" });
    replay_h_line(&rt, &mut rec, W_H_OVERLAP, sem);
    replay_h_line(&rt, &mut rec, W_H_FLAP, sem);
    replay_h_line(&rt, &mut rec, W_H_LESSSTOP, sem);

    // probe: does this build of the store accept IPv6 / short IPv4 prefixes?
    let probe = |p: Pfx| { let f = RibQueryFixture::new(API, 0, 0); std::panic::catch_unwind(std::panic::AssertUnwindSafe(|| f.insert(p.to_inetnum(), false, 1, true, vec![], 0))).is_ok() };
    let narrow = !(probe(Pfx { fam: 6, len: 32, bits: 0x20010db8 }) && probe(Pfx { fam: 4, len: 2, bits: 1 }));
    rec.bump(if narrow { "store.overflow-checked-build(v4>=/5-only)" } else { "store.full-prefix-range" });
    let mut g = Gen { rng: Rng::new(args.seed), narrow };
    let (npop, nq) = if args.thorough { (8000, 40) } else { (1500, 30) };
    for _ in 0..npop {
        let (pop, bases) = g.pop();
        let fx = match pop.build() { Ok(f) => f, Err(e) => { rec.bump(&format!("build-error.{}", e.split_whitespace().next().unwrap_or("?"))); if std::env::var("C11_PANICS").is_ok() { eprintln!("{e}"); } continue } };
        rec.bump("populations");
        if pop.recs.iter().any(|r| r.mc) { rec.bump("populations.with-multicast"); }
        if pop.recs.iter().any(|r| r.pfx.len == 0) { rec.bump("populations.with-default-route"); }
        if !pop.empties.is_empty() { rec.bump("populations.with-record-less-slot"); }
        for _ in 0..nq {
            let qp = g.query_prefix(&pop, &bases);
            let (path, query) = match g.rng.below(10) {
                0 => (qp.text(), g.junk_query(&pop)),
                1 if g.rng.chance(1, 2) => (g.bad_path(), g.query(&pop)),
                _ => (qp.text(), g.query(&pop)),
            };
            run_case(&rt, &mut rec, &pop, &fx, &path, &query);
        }
    }

    // H stream: histories through the real BGP update handler + RIB unit, then HTTP (see above)
    let (nh, nhq) = if args.thorough { (6000, 5) } else { (1000, 4) };
    let pool: Vec<Pfx> = hr::pool().iter().filter(|p| !(narrow && p.v6)).map(conv_pfx).collect();
    for _ in 0..nh {
        let h = g.history(&mut rec);
        let mut notes = vec![];
        let (_rib, fx) = match h.build(&mut notes) { Ok(x) => x, Err(e) => { rec.bump(&format!("h.build-error.{}", e.split_whitespace().next().unwrap_or("?"))); continue } };
        rec.bump("h.histories");
        for n in &notes { rec.bump(&format!("h.note.{n}")); }
        let exp = h.expected(sem);
        if exp.recs.iter().any(|r| r.mc) { rec.bump("h.histories.with-multicast-route"); }
        if !exp.empties.is_empty() { rec.bump("h.histories.with-record-less-slot"); }
        for _ in 0..nhq {
            let qp = if !exp.recs.is_empty() && g.rng.chance(2, 3) { g.rng.pick(&exp.recs).pfx } else { *g.rng.pick(&pool) };
            let query = if g.rng.chance(1, 12) { g.junk_query(&exp) } else { g.query(&exp) };
            run_h_case(&rt, &mut rec, &h, &exp, &fx, &qp.text(), &query);
        }
    }
    rec.finish(&args, t0.elapsed().as_secs_f64());
}
