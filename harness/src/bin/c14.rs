//! C14 engine: the real `ingress::Register` vs the Lean model `Model/Ingress.lean`.
//!
//! * `seq`  cases: random sequential histories of register / update_info / get /
//!   ids_for_parent / find_existing_* (free histories, and "disciplined" ones in
//!   which identities enter only through the call sites' find-else-register).
//! * `conc` cases: 2-8 OS threads hammering one real `Register`; the order in
//!   which the operations took the lock is recorded through the pause points
//!   inside the locked sections, the order of the `fetch_add`s is read off the
//!   returned ids; the merged order is written to the case line and the model
//!   replays exactly that merge.
//! * `site` cases: the call sites' `find; else { register; update_info }` as three
//!   separately scheduled steps on the real `Register`.
//! Oracle (independent of the Lean model): a plain BTreeMap reference for the four
//! clauses of the property (unique ids, merge law, children = filter, lookup
//! returns a match / the only match), one id per identity for call-site programs.
use std::collections::{BTreeMap, BTreeSet, HashSet};
use std::net::{IpAddr, Ipv4Addr, Ipv6Addr};
use std::sync::atomic::{AtomicU64, Ordering};
use std::sync::{Arc, Mutex};
use std::time::Instant;

use inetnum::asn::Asn;
use rotonda::verif::ingress::{self as facade, IngressInfo, Register};
use routecore::bmp::message::RibType;
use verif_harness::{join, parse_args, rng::Rng, Recorder};

// ------------------------------------------------------------------ values

/// unit_name, parent, addr, asn, rib_type, filename, name, desc — interned.
type Info = [Option<u64>; 8];
const NONE: Info = [None; 8];
const PARENT: usize = 1;
const ADDR: usize = 2;
const ASN: usize = 3;
const RIB: usize = 4;

fn addr_of(n: u64) -> IpAddr {
    if n % 2 == 0 { IpAddr::V4(Ipv4Addr::from(0x0a00_0000u32 + n as u32)) }
    else { IpAddr::V6(Ipv6Addr::from((0x2001_0db8u128 << 96) + n as u128)) }
}
fn addr_back(a: IpAddr) -> u64 {
    match a { IpAddr::V4(a) => (u32::from(a) - 0x0a00_0000) as u64, IpAddr::V6(a) => (u128::from(a) - (0x2001_0db8u128 << 96)) as u64 }
}
fn rib_of(n: u64) -> RibType { match n % 3 { 0 => RibType::AdjRibIn, 1 => RibType::AdjRibOut, _ => RibType::LocRib } }
fn rib_back(r: RibType) -> u64 { match r { RibType::AdjRibIn => 0, RibType::AdjRibOut => 1, RibType::LocRib => 2 } }

fn to_real(i: &Info) -> IngressInfo {
    let mut r = IngressInfo::new();
    if let Some(n) = i[0] { r = r.with_unit_name(format!("u{n}")); }
    if let Some(n) = i[1] { r = r.with_parent(n as u32); }
    if let Some(n) = i[2] { r = r.with_remote_addr(addr_of(n)); }
    if let Some(n) = i[3] { r = r.with_remote_asn(Asn::from_u32(n as u32)); }
    if let Some(n) = i[4] { r = r.with_rib_type(rib_of(n)); }
    if let Some(n) = i[5] { r = r.with_filename(format!("/f{n}").into()); }
    if let Some(n) = i[6] { r = r.with_name(format!("n{n}")); }
    if let Some(n) = i[7] { r = r.with_desc(format!("d{n}")); }
    r
}
fn from_real(r: &IngressInfo) -> Info {
    let num = |s: &str| s[1..].parse::<u64>().unwrap();
    [
        r.unit_name.as_deref().map(num),
        r.parent_ingress.map(|p| p as u64),
        r.remote_addr.map(addr_back),
        r.remote_asn.map(|a| a.into_u32() as u64),
        r.rib_type.map(rib_back),
        r.filename.as_ref().map(|p| num(&p.to_string_lossy()[1..])),
        r.name.as_deref().map(num),
        r.desc.as_deref().map(num),
    ]
}
fn show_info(i: &Info) -> String { join(i.iter().map(|f| f.map(|n| n.to_string()).unwrap_or("-".into())), ",") }
fn parse_info(s: &str) -> Info {
    let v: Vec<Option<u64>> = s.split(',').map(|f| if f == "-" { None } else { Some(f.parse().unwrap()) }).collect();
    v.try_into().unwrap()
}
fn show_hint(h: &Option<u32>) -> String { h.map(|n| n.to_string()).unwrap_or("-".into()) }
fn parse_hint(s: &str) -> Option<u32> { if s == "-" { None } else { Some(s.parse().unwrap()) } }

#[derive(Clone, Copy, Debug, PartialEq)]
enum Lvl { Peer, Router }
impl Lvl { fn ch(self) -> &'static str { match self { Lvl::Peer => "p", Lvl::Router => "r" } } }
fn parse_lvl(s: &str) -> Lvl { if s == "p" { Lvl::Peer } else { Lvl::Router } }

#[derive(Clone, Debug, PartialEq)]
enum Op {
    Reg,
    Upd(u32, Info),
    Get(u32),
    Kids(u32),
    /// the hint is the id the implementation answered (filled in after execution)
    Find(Lvl, Info, Option<u32>),
    /// call-site program run without interruption: find, else register + update_info
    FindOrReg(Lvl, Info, Option<u32>),
}
#[derive(Clone, Debug, PartialEq)]
enum Ret { Id(u32), Info(Option<Info>), Ids(Vec<u32>), Found(Option<(u32, Info)>) }

fn show_op(o: &Op) -> String {
    match o {
        Op::Reg => "R".into(),
        Op::Upd(id, i) => format!("U.{id}.{}", show_info(i)),
        Op::Get(id) => format!("G.{id}"),
        Op::Kids(p) => format!("K.{p}"),
        Op::Find(l, q, h) => format!("F.{}.{}.{}", l.ch(), show_info(q), show_hint(h)),
        Op::FindOrReg(l, q, h) => format!("A.{}.{}.{}", l.ch(), show_info(q), show_hint(h)),
    }
}
fn parse_op(s: &str) -> Op {
    let p: Vec<&str> = s.split('.').collect();
    match p[0] {
        "R" => Op::Reg,
        "U" => Op::Upd(p[1].parse().unwrap(), parse_info(p[2])),
        "G" => Op::Get(p[1].parse().unwrap()),
        "K" => Op::Kids(p[1].parse().unwrap()),
        "F" => Op::Find(parse_lvl(p[1]), parse_info(p[2]), parse_hint(p[3])),
        _ => Op::FindOrReg(parse_lvl(p[1]), parse_info(p[2]), parse_hint(p[3])),
    }
}
fn show_ret(r: &Ret) -> String {
    match r {
        Ret::Id(n) => format!("i{n}"),
        Ret::Info(None) | Ret::Found(None) => "N".into(),
        Ret::Info(Some(i)) => format!("S{}", show_info(i)),
        Ret::Ids(l) => { let mut l = l.clone(); l.sort(); format!("k[{}]", join(l.iter(), ";")) }
        Ret::Found(Some((id, i))) => format!("f{id}:{}", show_info(i)),
    }
}
fn show_rets(r: &[Ret]) -> String { if r.is_empty() { "-".into() } else { join(r.iter().map(show_ret), " ") } }
fn show_ops(o: &[Op]) -> String { join(o.iter().map(show_op), " ") }

// ------------------------------------------------------------ the real code

fn real_find(reg: &Register, l: Lvl, q: &Info) -> Option<(u32, Info)> {
    let q = to_real(q);
    match l { Lvl::Peer => reg.find_existing_peer(&q), Lvl::Router => reg.find_existing_bmp_router(&q) }
        .map(|(id, i)| (id, from_real(&i)))
}

/// Apply one op to the real Register. Fills in the hint of lookups with the answer.
fn apply(reg: &Register, op: &mut Op) -> Ret {
    match op {
        Op::Reg => Ret::Id(facade::register(reg)),
        Op::Upd(id, i) => Ret::Info(facade::update_info(reg, *id, to_real(i)).map(|x| from_real(&x))),
        Op::Get(id) => Ret::Info(reg.get(*id).map(|x| from_real(&x))),
        Op::Kids(p) => Ret::Ids(reg.ids_for_parent(*p)),
        Op::Find(l, q, hint) => { let r = real_find(reg, *l, q); *hint = r.map(|e| e.0); Ret::Found(r) }
        Op::FindOrReg(l, q, hint) => {
            // bmp_tcp_in/unit.rs:422-432, machine.rs:1220-1232, mrt_file_in/unit.rs:224-243
            let r = real_find(reg, *l, q);
            *hint = r.map(|e| e.0);
            match r {
                Some((id, _)) => Ret::Id(id),
                None => { let id = facade::register(reg); facade::update_info(reg, id, to_real(q)); Ret::Id(id) }
            }
        }
    }
}
fn probes(reg: &Register, ids: &BTreeSet<u32>) -> String {
    let l: Vec<String> = ids.iter().filter_map(|id| reg.get(*id).map(|i| format!("{id}:{}", show_info(&from_real(&i))))).collect();
    if l.is_empty() { "-".into() } else { l.join(" ") }
}
fn mentioned(ops: &[Op], rets: &[Ret], into: &mut BTreeSet<u32>) {
    for o in ops { match o { Op::Upd(id, _) | Op::Get(id) => { into.insert(*id); } _ => {} } }
    for r in rets { match r { Ret::Id(n) => { into.insert(*n); } Ret::Found(Some((n, _))) => { into.insert(*n); } Ret::Ids(l) => into.extend(l.iter()), _ => {} } }
}

// ------------------------------------------------- the independent reference

/// What the property says, as a plain map (used only by the oracle).
#[derive(Clone, Default)]
struct Reference { table: BTreeMap<u32, Info>, handed: Vec<u32> }

fn ref_matches(l: Lvl, q: &Info, i: &Info) -> bool {
    match l {
        Lvl::Peer => i[PARENT].is_some() && i[ADDR].is_some() && i[ASN].is_some()
            && i[PARENT] == q[PARENT] && i[ADDR] == q[ADDR] && i[ASN] == q[ASN] && i[RIB] == q[RIB],
        Lvl::Router => i[PARENT].is_some() && i[ADDR].is_some() && i[PARENT] == q[PARENT] && i[ADDR] == q[ADDR],
    }
}
impl Reference {
    fn upd(&mut self, id: u32, new: &Info) {
        let e = self.table.entry(id).or_insert(NONE);
        for f in 0..8 { if new[f].is_some() { e[f] = new[f]; } }
    }
    /// Judge one executed op against the property; then advance the reference.
    fn judge(&mut self, op: &Op, ret: &Ret) -> Option<String> {
        match (op, ret) {
            (Op::Reg, Ret::Id(n)) => {
                if self.handed.contains(n) { return Some(format!("unique-id:duplicate register() returned {n} twice")); }
                self.handed.push(*n); None
            }
            (Op::Upd(id, new), _) => { self.upd(*id, new); None }
            (Op::Get(id), Ret::Info(got)) => {
                let want = self.table.get(id);
                if got.as_ref() != want {
                    let lost = match (got, want) { (Some(g), Some(w)) => (0..8).find(|f| g[*f] != w[*f]).map(|f| f.to_string()).unwrap_or_default(), _ => "entry".into() };
                    return Some(format!("merge:field-lost get({id}) differs from the field-wise merge of the updates (field {lost})"));
                }
                None
            }
            (Op::Kids(p), Ret::Ids(l)) => {
                let mut got = l.clone(); got.sort();
                let want: Vec<u32> = self.table.iter().filter(|(_, i)| i[PARENT] == Some(*p as u64)).map(|(id, _)| *id).collect();
                if got != want { return Some(format!("children:mismatch ids_for_parent({p}) = {got:?}, registered under it: {want:?}")); }
                None
            }
            (Op::Find(l, q, _), Ret::Found(r)) => self.judge_find(*l, q, r.as_ref().map(|e| e.0)),
            (Op::FindOrReg(l, q, hint), Ret::Id(n)) => {
                if let Some(e) = self.judge_find(*l, q, *hint) { return Some(e); }
                if hint.is_none() {
                    if self.handed.contains(n) { return Some(format!("unique-id:duplicate register() returned {n} twice")); }
                    self.handed.push(*n);
                    self.upd(*n, q);
                }
                None
            }
            _ => Some("shape:unexpected-return".into()),
        }
    }
    fn judge_find(&self, l: Lvl, q: &Info, got: Option<u32>) -> Option<String> {
        let cands: Vec<u32> = self.table.iter().filter(|(_, i)| ref_matches(l, q, i)).map(|(id, _)| *id).collect();
        match got {
            None if !cands.is_empty() => Some(format!("lookup:missed find_existing returned None, matches: {cands:?}")),
            Some(id) if !cands.contains(&id) => Some(format!("lookup:not-a-match find_existing returned {id}, matches: {cands:?}")),
            _ => None,
        }
    }
}

/// One id per identity: every lookup / find-or-register for the same complete identity
/// answered the same id (only meaningful for disciplined histories).
fn stable_ids(ops: &[Op], rets: &[Ret]) -> Option<String> {
    let mut seen: Vec<(Lvl, [Option<u64>; 4], u32)> = vec![];
    for (o, r) in ops.iter().zip(rets) {
        let (l, q, id) = match (o, r) {
            (Op::FindOrReg(l, q, _), Ret::Id(n)) => (*l, q, *n),
            (Op::Find(l, q, _), Ret::Found(Some((n, _)))) => (*l, q, *n),
            _ => continue,
        };
        let key = match l { Lvl::Peer => [q[PARENT], q[ADDR], q[ASN], q[RIB]], Lvl::Router => [q[PARENT], q[ADDR], None, None] };
        if let Some(prev) = seen.iter().find(|s| s.0 == l && s.1 == key) {
            if prev.2 != id { return Some(format!("stable:id-changed identity {key:?} had id {} before, lookup now answers {id}", prev.2)); }
        } else { seen.push((l, key, id)); }
    }
    None
}

// -------------------------------------------------------------- generators

struct Gen { rng: Rng }
impl Gen {
    fn small(&mut self, n: u64) -> u64 { self.rng.below(n) }
    fn opt(&mut self, num: u64, den: u64, n: u64) -> Option<u64> { if self.rng.chance(num, den) { Some(self.small(n)) } else { None } }
    /// identity-bearing info over a small population, so that collisions are frequent
    fn identity(&mut self, l: Lvl, parents: &[u32]) -> Info {
        let mut i = NONE;
        i[PARENT] = Some(*self.rng.pick(parents) as u64);
        i[ADDR] = Some(self.small(3));
        if l == Lvl::Peer { i[ASN] = Some(65000 + self.small(2)); i[RIB] = self.opt(1, 2, 2); }
        i
    }
    fn meta(&mut self) -> Info {
        let mut i = NONE;
        i[0] = self.opt(1, 3, 4); i[5] = self.opt(1, 4, 4); i[6] = self.opt(1, 2, 4); i[7] = self.opt(1, 2, 4);
        i
    }
    fn any_info(&mut self) -> Info {
        let mut i = self.meta();
        i[PARENT] = self.opt(2, 3, 4).map(|x| x + 1); i[ADDR] = self.opt(2, 3, 3); i[ASN] = self.opt(2, 3, 2).map(|x| x + 65000); i[RIB] = self.opt(1, 3, 2);
        i
    }
    fn query(&mut self) -> Info {
        let mut i = NONE;
        i[PARENT] = self.opt(5, 6, 4).map(|x| x + 1); i[ADDR] = self.opt(5, 6, 3); i[ASN] = self.opt(4, 6, 2).map(|x| x + 65000); i[RIB] = self.opt(1, 3, 2);
        i
    }
    fn lvl(&mut self) -> Lvl { if self.rng.chance(2, 3) { Lvl::Peer } else { Lvl::Router } }
    /// free history: anything goes (ids up to a few beyond what was registered)
    fn free_op(&mut self, hi: u32) -> Op {
        match self.rng.below(100) {
            0..=24 => Op::Reg,
            25..=54 => Op::Upd(self.rng.range(0, hi as u64 + 1) as u32, self.any_info()),
            55..=64 => Op::Get(self.rng.range(0, hi as u64 + 1) as u32),
            65..=76 => Op::Kids(self.rng.range(1, 4) as u32),
            77..=92 => { let l = self.lvl(); Op::Find(l, self.query(), None) }
            _ => { let l = self.lvl(); Op::FindOrReg(l, self.any_info(), None) }
        }
    }
}

// ------------------------------------------------------------ seq cases

fn serial_start(g: &mut Gen) -> u32 {
    match g.rng.below(10) { 0 => u32::MAX - g.rng.below(4) as u32, 1 => 0, _ => 1 }
}

fn run_seq(rec: &mut Recorder, start: u32, mut ops: Vec<Op>, disciplined: bool) -> Vec<Ret> {
    let reg = facade::new_register_with_serial(start);
    let rets: Vec<Ret> = ops.iter_mut().map(|o| apply(&reg, o)).collect();
    let mut ids = BTreeSet::new();
    mentioned(&ops, &rets, &mut ids);
    let mut rf = Reference::default();
    let mut verdict = None;
    for (o, r) in ops.iter().zip(&rets) { if let Some(e) = rf.judge(o, r) { verdict = Some(e); break; } }
    if verdict.is_none() {
        // final table = the reference (merge law for everything mentioned)
        for id in &ids { let got = reg.get(*id).map(|i| from_real(&i)); if got.as_ref() != rf.table.get(id) { verdict = Some(format!("merge:field-lost final get({id}) differs from the field-wise merge of the updates")); break; } }
    }
    if verdict.is_none() && disciplined { verdict = stable_ids(&ops, &rets); }
    let kinds: HashSet<_> = ops.iter().map(std::mem::discriminant).collect();
    let multi = ops.iter().any(|o| matches!(o, Op::Find(_, _, Some(_)) | Op::FindOrReg(_, _, Some(_))));
    for o in &ops { rec.bump(&format!("op.{}", &show_op(o)[..1])); }
    if multi { rec.bump("seq.with_lookup_hit"); }
    rec.bump(if disciplined { "seq.disciplined" } else { "seq.free" });
    if start != 1 { rec.bump("seq.serial_near_wrap_or_zero"); }
    let case = format!("seq|{start}|{}|{}", show_ops(&ops), join(ids.iter(), " "));
    let imp = format!("{} => {}", show_rets(&rets), probes(&reg, &ids));
    rec.case(case, imp, verdict.map(|e| format!("fail {e}")).unwrap_or("ok".into()), kinds.len() >= 3 && multi);
    rets
}

fn gen_free(g: &mut Gen) -> (u32, Vec<Op>) {
    let start = serial_start(g);
    let n = g.rng.range(1, 16);
    let mut hi = 2u32;
    let ops = (0..n).map(|_| { let o = g.free_op(hi); if matches!(o, Op::Reg | Op::FindOrReg(..)) { hi += 1; } o }).collect();
    (start, ops)
}

/// Disciplined: units register + describe themselves, routers and peers come and go through the
/// call sites' find-else-register, metadata updates never carry identity fields.
fn gen_disciplined(g: &mut Gen) -> (u32, Vec<Op>) {
    let lvl = g.lvl();
    let mut ops = vec![];
    let nunits = g.rng.range(1, 2) as u32;
    for u in 1..=nunits { ops.push(Op::Reg); let mut m = NONE; m[0] = Some(u as u64); ops.push(Op::Upd(u, m)); }
    let parents: Vec<u32> = (1..=nunits).collect();
    let mut next = nunits + 1;
    let n = g.rng.range(2, 14);
    for _ in 0..n {
        match g.rng.below(100) {
            0..=49 => { ops.push(Op::FindOrReg(lvl, g.identity(lvl, &parents), None)); next += 1; }
            50..=64 => { let id = g.rng.range(1, (next - 1).max(1) as u64) as u32; ops.push(Op::Upd(id, g.meta())); }
            65..=74 => ops.push(Op::Find(lvl, g.identity(lvl, &parents), None)),
            75..=84 => ops.push(Op::Kids(*g.rng.pick(&parents))),
            85..=92 => ops.push(Op::Get(g.rng.range(1, next as u64) as u32)),
            _ => { ops.push(Op::Reg); next += 1; }
        }
    }
    (1, ops)
}

// ------------------------------------------------------------ conc cases

thread_local! {
    /// ticket of the op the calling thread is executing (taken inside the Register's lock)
    static TICKET: std::cell::Cell<Option<u64>> = const { std::cell::Cell::new(None) };
}

/// Symbolic thread program; ids are only known when it runs.
#[derive(Clone, Debug)]
enum Sym {
    Reg,                       // register(); remember the id as "own"
    UpdOwn(usize, Info),       // update_info(k-th own id (mod count), info); skipped if none yet
    UpdShared(u32, Info),      // update_info(pre-registered id, metadata)
    GetOwn(usize),             // get(own id): only this thread writes it
    GetFrozen(u32),            // get(id nobody writes during the concurrent phase)
    Kids(u32),
    Find(Lvl, Info),
    Site(Lvl, Info),           // find; else register; update_info — three separate calls
}

struct Done { op: Op, ret: Ret, ticket: Option<u64> }

fn run_thread(reg: &Register, clock: &Arc<AtomicU64>, prog: &[Sym]) -> Vec<Done> {
    let c = clock.clone();
    rotonda::verif::set_point_handler(Some(Arc::new(move |_name| {
        TICKET.with(|t| if t.get().is_none() { t.set(Some(c.fetch_add(1, Ordering::SeqCst))); });
    })));
    let mut own: Vec<u32> = vec![];
    let mut out: Vec<Done> = vec![];
    let mut exec = |mut op: Op, own: &mut Vec<u32>| -> Ret {
        TICKET.with(|t| t.set(None));
        let ret = apply(reg, &mut op);
        if let (Op::Reg, Ret::Id(n)) = (&op, &ret) { own.push(*n); }
        out.push(Done { op, ret: ret.clone(), ticket: TICKET.with(|t| t.get()) });
        ret
    };
    for s in prog {
        match s {
            Sym::Reg => { exec(Op::Reg, &mut own); }
            Sym::UpdOwn(k, i) => if !own.is_empty() { let id = own[k % own.len()]; exec(Op::Upd(id, *i), &mut own); },
            Sym::UpdShared(id, i) => { exec(Op::Upd(*id, *i), &mut own); }
            Sym::GetOwn(k) => if !own.is_empty() { let id = own[k % own.len()]; exec(Op::Get(id), &mut own); },
            Sym::GetFrozen(id) => { exec(Op::Get(*id), &mut own); }
            Sym::Kids(p) => { exec(Op::Kids(*p), &mut own); }
            Sym::Find(l, q) => { exec(Op::Find(*l, *q, None), &mut own); }
            Sym::Site(l, q) => {
                if let Ret::Found(None) = exec(Op::Find(*l, *q, None), &mut own) {
                    if let Ret::Id(id) = exec(Op::Reg, &mut own) { exec(Op::Upd(id, *q), &mut own); }
                }
            }
        }
    }
    rotonda::verif::set_point_handler(None);
    out
}

/// Merge the threads' executed ops into one order consistent with program order, with the lock
/// order (tickets) and with the fetch_add order (returned ids). `None` if there is no such order.
fn linearize(start: u32, nregs_before: u32, done: &[Vec<Done>]) -> Option<Vec<usize>> {
    let mut pos = vec![0usize; done.len()];
    let mut tickets: Vec<u64> = done.iter().flatten().filter_map(|d| d.ticket).collect();
    tickets.sort(); tickets.reverse();
    let base = start.wrapping_add(nregs_before);
    let mut regs: Vec<u32> = done.iter().flatten().filter_map(|d| if let (Op::Reg, Ret::Id(n)) = (&d.op, &d.ret) { Some(n.wrapping_sub(base)) } else { None }).collect();
    regs.sort(); regs.reverse();
    let total: usize = done.iter().map(|d| d.len()).sum();
    let mut sched = vec![];
    while sched.len() < total {
        let mut progressed = false;
        for t in 0..done.len() {
            let Some(d) = done[t].get(pos[t]) else { continue };
            let enabled = match (&d.op, &d.ret, d.ticket) {
                (Op::Reg, Ret::Id(n), _) => regs.last() == Some(&n.wrapping_sub(base)),
                (_, _, Some(tk)) => tickets.last() == Some(&tk),
                (_, _, None) => true, // get on an id no other thread writes
            };
            if enabled {
                match (&d.op, d.ticket) { (Op::Reg, _) => { regs.pop(); } (_, Some(_)) => { tickets.pop(); } _ => {} }
                pos[t] += 1; sched.push(t); progressed = true;
            }
        }
        if !progressed { return None; }
    }
    Some(sched)
}

fn conc_case(rec: &mut Recorder, start: u32, pre: Vec<Op>, progs: &[Vec<Sym>]) {
    let reg = Arc::new(facade::new_register_with_serial(start));
    let mut pre = pre;
    let pre_rets: Vec<Ret> = pre.iter_mut().map(|o| apply(&reg, o)).collect();
    let nregs_before = pre.iter().filter(|o| matches!(o, Op::Reg)).count() as u32;
    let clock = Arc::new(AtomicU64::new(0));
    let barrier = Arc::new(std::sync::Barrier::new(progs.len()));
    let handles: Vec<_> = progs.iter().cloned().map(|p| {
        let (reg, clock, barrier) = (reg.clone(), clock.clone(), barrier.clone());
        std::thread::spawn(move || { barrier.wait(); run_thread(&reg, &clock, &p) })
    }).collect();
    let done: Vec<Vec<Done>> = handles.into_iter().map(|h| h.join().unwrap()).collect();

    let mut ids = BTreeSet::new();
    mentioned(&pre, &pre_rets, &mut ids);
    for d in &done { let ops: Vec<Op> = d.iter().map(|x| x.op.clone()).collect(); let rets: Vec<Ret> = d.iter().map(|x| x.ret.clone()).collect(); mentioned(&ops, &rets, &mut ids); }

    // oracle 1: ids pairwise distinct across all threads (and the set-up)
    let mut all_ids: Vec<u32> = pre.iter().zip(&pre_rets).chain(done.iter().flatten().map(|d| (&d.op, &d.ret)))
        .filter_map(|(o, r)| if let (Op::Reg, Ret::Id(n)) = (o, r) { Some(*n) } else { None }).collect();
    let nids = all_ids.len();
    all_ids.sort(); all_ids.dedup();
    let mut verdict = if all_ids.len() != nids { Some("unique-id:duplicate two register() calls returned the same id".to_string()) } else { None };

    let sched = linearize(start, nregs_before, &done);
    let overlap = {
        // did the threads really interleave? (the merged order is not a concatenation of the programs)
        sched.as_ref().map(|s| s.windows(2).filter(|w| w[0] != w[1]).count() >= progs.len()).unwrap_or(false)
    };
    let sched_txt = match &sched {
        Some(s) => join(s.iter(), " "),
        None => { if verdict.is_none() { verdict = Some("conc:order-cycle lock order, fetch_add order and program order are inconsistent".into()); } String::new() }
    };
    // oracle 2: the reference run on the merged order explains every result and the final table
    if let (None, Some(s)) = (&verdict, &sched) {
        let mut rf = Reference::default();
        for (o, r) in pre.iter().zip(&pre_rets) { if let Some(e) = rf.judge(o, r) { verdict = Some(e); break; } }
        let mut pos = vec![0usize; done.len()];
        for &t in s {
            let d = &done[t][pos[t]]; pos[t] += 1;
            if verdict.is_none() { if let Some(e) = rf.judge(&d.op, &d.ret) { verdict = Some(format!("{e} (in the recorded linearization)")); } }
        }
        if verdict.is_none() { for id in &ids { if reg.get(*id).map(|i| from_real(&i)).as_ref() != rf.table.get(id) { verdict = Some(format!("conc:final-table entry {id} is not what the recorded linearization produces")); break; } } }
    }
    rec.bump("conc.cases");
    rec.bump_by("conc.ops", done.iter().map(|d| d.len() as u64).sum());
    if overlap { rec.bump("conc.cases_really_interleaved"); }
    let case = format!("conc|{start}|{}|{}|{}|{}", show_ops(&pre),
        join(done.iter().map(|d| join(d.iter().map(|x| show_op(&x.op)), " ")), "/"), sched_txt, join(ids.iter(), " "));
    let imp = format!("{} => {}", join(done.iter().map(|d| { let r: Vec<Ret> = d.iter().map(|x| x.ret.clone()).collect(); show_rets(&r) }), "/"), probes(&reg, &ids));
    rec.case(case, imp, verdict.map(|e| format!("fail {e}")).unwrap_or("ok".into()), overlap);
}

fn gen_conc(g: &mut Gen, nthreads: usize, len: usize) -> (u32, Vec<Op>, Vec<Vec<Sym>>) {
    let start = if g.rng.chance(1, 12) { u32::MAX - g.rng.below(6) as u32 } else { 1 };
    // set-up: two units + two shared, pre-registered sources (so the table is never empty)
    let base = |k: u32| start.wrapping_add(k);
    let mut pre = vec![];
    for k in 0..4u32 {
        pre.push(Op::Reg);
        let mut i = NONE;
        if k < 2 { i[0] = Some(k as u64); } else { i[PARENT] = Some(base(0) as u64); i[ADDR] = Some(k as u64); }
        pre.push(Op::Upd(base(k), i));
    }
    let parents = [base(0), base(1)];
    let progs = (0..nthreads).map(|_| (0..len).map(|_| match g.rng.below(100) {
        0..=29 => Sym::Reg,
        30..=44 => { let mut i = g.meta(); if g.rng.chance(1, 2) { i[PARENT] = Some(*g.rng.pick(&parents) as u64); } Sym::UpdOwn(g.small(4) as usize, i) }
        45..=54 => Sym::UpdShared(base(2 + g.small(2) as u32), g.meta()),
        55..=59 => Sym::GetOwn(g.small(4) as usize),
        60..=62 => Sym::GetFrozen(base(g.small(2) as u32)),
        63..=72 => Sym::Kids(*g.rng.pick(&parents)),
        73..=82 => { let l = g.lvl(); Sym::Find(l, g.identity(l, &parents)) }
        _ => { let l = g.lvl(); Sym::Site(l, g.identity(l, &parents)) }
    }).collect()).collect();
    (start, pre, progs)
}

// ------------------------------------------------------------ site cases

#[derive(Clone, Debug)]
enum Micro { Find(Lvl, Info, Option<u32>), RegIfNone, UpdIfNew(Info) }
fn show_micro(m: &Micro) -> String {
    match m { Micro::Find(l, q, h) => format!("f.{}.{}.{}", l.ch(), show_info(q), show_hint(h)), Micro::RegIfNone => "r".into(), Micro::UpdIfNew(q) => format!("u.{}", show_info(q)) }
}
fn parse_micro(s: &str) -> Micro {
    let p: Vec<&str> = s.split('.').collect();
    match p[0] { "f" => Micro::Find(parse_lvl(p[1]), parse_info(p[2]), parse_hint(p[3])), "r" => Micro::RegIfNone, _ => Micro::UpdIfNew(parse_info(p[1])) }
}
fn site_prog(l: Lvl, q: Info) -> Vec<Micro> { vec![Micro::Find(l, q, None), Micro::RegIfNone, Micro::UpdIfNew(q)] }

/// Returns the ids the programs ended up with.
fn site_case(rec: &mut Recorder, start: u32, mut pre: Vec<Op>, mut progs: Vec<Vec<Micro>>, sched: &[usize]) -> Vec<u32> {
    let reg = facade::new_register_with_serial(start);
    let pre_rets: Vec<Ret> = pre.iter_mut().map(|o| apply(&reg, o)).collect();
    let n = progs.len();
    let mut pc = vec![0usize; n];
    let mut found: Vec<Option<u32>> = vec![None; n];
    let mut cur = vec![0u32; n];
    let mut executed = vec![];
    let tail: Vec<usize> = (0..n).flat_map(|t| std::iter::repeat(t).take(progs[t].len())).collect();
    for &t in sched.iter().chain(tail.iter()) {
        if t >= n || pc[t] >= progs[t].len() { continue; }
        executed.push(t);
        let m = &mut progs[t][pc[t]]; pc[t] += 1;
        match m {
            Micro::Find(l, q, hint) => { let r = real_find(&reg, *l, q).map(|e| e.0); *hint = r; found[t] = r; }
            Micro::RegIfNone => cur[t] = match found[t] { Some(id) => id, None => facade::register(&reg) },
            Micro::UpdIfNew(q) => if found[t].is_none() { facade::update_info(&reg, cur[t], to_real(q)); },
        }
    }
    let mut ids = BTreeSet::new();
    mentioned(&pre, &pre_rets, &mut ids);
    ids.extend(cur.iter());
    // These programs are the harness' own transliteration of the call sites: two ids for one identity
    // here is a fact about the Register API (no atomic find-or-register), counted but not judged;
    // the real call site is judged in `peerup_case`. Judged here: ids handed out are distinct.
    let mut verdict = None;
    let mut seen: Vec<(String, u32)> = vec![];
    let mut two_ids = false;
    for t in 0..n {
        if let Some(Micro::Find(l, q, _)) = progs[t].first() {
            let complete = q[PARENT].is_some() && q[ADDR].is_some() && (*l == Lvl::Router || q[ASN].is_some());
            if !complete || progs[t].len() != 3 { continue; }
            let key = format!("{}{:?}", l.ch(), match l { Lvl::Peer => [q[PARENT], q[ADDR], q[ASN], q[RIB]], Lvl::Router => [q[PARENT], q[ADDR], None, None] });
            match seen.iter().find(|s| s.0 == key) {
                Some(s) if s.1 != cur[t] => two_ids = true,
                Some(_) => {}
                None => seen.push((key, cur[t])),
            }
        }
    }
    {
        let mut fresh: Vec<u32> = (0..n).filter(|t| found[*t].is_none() && pc[*t] >= 2).map(|t| cur[t]).collect();
        let k = fresh.len(); fresh.sort(); fresh.dedup();
        if fresh.len() != k { verdict = Some("unique-id:duplicate two call-site programs registered the same id".to_string()); }
    }
    let raced = executed.windows(2).any(|w| w[0] != w[1]) && executed.len() > n;
    rec.bump("site.cases");
    if two_ids { rec.bump("site.cases_two_ids_for_one_identity"); }
    let case = format!("site|{start}|{}|{}|{}|{}", show_ops(&pre), join(progs.iter().map(|p| join(p.iter().map(show_micro), " ")), "/"), join(executed.iter(), " "), join(ids.iter(), " "));
    let imp = format!("{} => {}", join(cur.iter().map(|c| format!("i{c}")), "/"), probes(&reg, &ids));
    rec.case(case, imp, verdict.map(|e| format!("fail {e}")).unwrap_or("ok".into()), raced);
    cur
}

// ------------------------------------------- the real add_peer_config call site

/// 42 bytes of a BMP per-peer header for the interned (addr, asn, rib).
fn pph_bytes(addr: u64, asn: u64, rib: u64) -> [u8; 42] {
    let mut b = [0u8; 42];
    b[0] = if rib == 2 { 3 } else { 0 };                 // peer type: Loc-RIB instance / global instance
    let a = addr_of(addr);
    let mut flags = 0u8;
    if a.is_ipv6() { flags |= 0x80; }
    if rib == 1 { flags |= 0x10; }                        // O flag: Adj-RIB-Out
    b[1] = flags;
    match a { IpAddr::V4(v4) => b[22..26].copy_from_slice(&v4.octets()), IpAddr::V6(v6) => b[10..26].copy_from_slice(&v6.octets()) }
    b[26..30].copy_from_slice(&(asn as u32).to_be_bytes());
    b[30..34].copy_from_slice(&[192, 0, 2, 1]);
    b
}

/// Two BMP state machines (own `PeerStates` each, one shared `Register`) bring up a peer each.
/// `raced`: machine 0 is parked at the pause point after its lookup missed, machine 1 runs, machine 0
/// resumes — the schedule `0 1 1 1 0 0` of the call-site model. Returns whether machine 0 was parked.
fn peerup_case(rec: &mut Recorder, parents: [u32; 2], peers: [(u64, u64, u64); 2], known_before: bool, raced: bool) -> bool {
    use std::sync::mpsc::channel;
    let reg = Arc::new(facade::new_register());
    let mut pre = vec![Op::Reg, Op::Reg, Op::Reg];
    let _: Vec<Ret> = pre.iter_mut().map(|o| apply(&reg, o)).collect();
    let q = |t: usize| { let mut i = q_peer(parents[t] as u64, peers[t].0, peers[t].1); i[RIB] = Some(peers[t].2); i };
    let mut progs: Vec<Vec<Micro>> = vec![];
    let mut sched: Vec<usize> = vec![];
    if known_before {
        // the peer of machine 0 was up earlier (a previous session of the same router)
        facade::PeerTable::default().add_peer(pph_bytes(peers[0].0, peers[0].1, peers[0].2), reg.clone(), parents[0]);
        progs.push(site_prog(Lvl::Peer, q(0))); sched.extend([0, 0, 0]);
    }
    let base = progs.len();
    progs.push(site_prog(Lvl::Peer, q(0)));
    progs.push(site_prog(Lvl::Peer, q(1)));
    let (paused_tx, paused_rx) = channel::<bool>();
    let (resume_tx, resume_rx) = channel::<()>();
    let regc = reg.clone();
    let (p0, pp0) = (parents[0], peers[0]);
    let h = std::thread::spawn(move || {
        if raced {
            let paused_tx = paused_tx.clone();
            let resume_rx = Mutex::new(resume_rx);
            rotonda::verif::set_point_handler(Some(Arc::new(move |name| {
                if name == "add_peer_config.lookup_missed" { paused_tx.send(true).unwrap(); resume_rx.lock().unwrap().recv().unwrap(); }
            })));
        }
        let r = facade::PeerTable::default().add_peer(pph_bytes(pp0.0, pp0.1, pp0.2), regc, p0);
        rotonda::verif::set_point_handler(None);
        let _ = paused_tx.send(false);
        r
    });
    let mut parked = if raced { paused_rx.recv().unwrap() } else { false };
    if !raced { while !h.is_finished() { std::thread::yield_now(); } }
    // machine 1 runs in its own thread: if a repaired tree holds the Register's lock across the
    // pause point, machine 1 blocks; then machine 0 is released first and the run was sequential.
    let (regb, p1, pp1) = (reg.clone(), parents[1], peers[1]);
    let (done_tx, done_rx) = channel::<()>();
    let hb = std::thread::spawn(move || { facade::PeerTable::default().add_peer(pph_bytes(pp1.0, pp1.1, pp1.2), regb, p1); let _ = done_tx.send(()); });
    if parked {
        if done_rx.recv_timeout(std::time::Duration::from_millis(1500)).is_err() { parked = false; rec.bump("peerup.lock_held_across_pause_point"); }
        resume_tx.send(()).unwrap();
    }
    h.join().unwrap();
    hb.join().unwrap();
    if parked { sched.extend([base, base + 1, base + 1, base + 1, base, base]); } else { sched.extend([base, base, base, base + 1, base + 1, base + 1]); }

    let ids: BTreeSet<u32> = (1..=8).collect();
    // oracle: every identity presented through the real call site has exactly one id in the register
    let mut verdict = None;
    for t in 0..2 {
        let n = ids.iter().filter(|id| reg.get(**id).map(|i| { let i = from_real(&i); ref_matches(Lvl::Peer, &q(t), &i) }).unwrap_or(false)).count();
        if n != 1 { verdict = Some(format!("callsite:find-then-register-race add_peer_config left {n} ids for the peer identity {:?} (lookup and registration are separate critical sections)", [q(t)[PARENT], q(t)[ADDR], q(t)[ASN], q(t)[RIB]])); break; }
    }
    rec.bump("peerup.cases");
    if parked { rec.bump("peerup.parked_after_missed_lookup"); }
    let case = format!("peerup|1|{}|{}|{}|{}", show_ops(&pre), join(progs.iter().map(|p| join(p.iter().map(show_micro), " ")), "/"), join(sched.iter(), " "), join(ids.iter(), " "));
    let imp = format!("=> {}", probes(&reg, &ids));
    rec.case(case, imp, verdict.map(|e| format!("fail {e}")).unwrap_or("ok".into()), parked);
    parked
}

// ------------------------------------------------------------------- main

/// `race` cases: T OS threads, released together, each call the REAL atomic `Register::find_or_register_bmp_router` /
/// `find_or_register_peer` (what the accept loop, `PeerStates::add_peer_config` and mrt-file-in call) for the same K
/// identities under one parent, in a random order, for several rounds of fresh identities. Whatever the interleaving,
/// every identity must end up with exactly one id and the parent with exactly K children: the observation is that
/// shape (`ids 1 1 … kids K`), which is what the model's atomic `findOrReg` yields for any merge of the programs.
fn race_case(rec: &mut Recorder, g: &mut Gen, lvl: Lvl, nt: usize, k: usize) -> bool {
    let reg = Arc::new(facade::new_register());
    let parent = facade::register(&reg);                       // id 1: the unit (router level) or the router (peer level)
    let mut pi = NONE; pi[0] = Some(1);
    facade::update_info(&reg, parent, to_real(&pi));
    let idents: Vec<Info> = (0..k).map(|j| { let mut q = NONE; q[PARENT] = Some(parent as u64); q[ADDR] = Some(10 + 2 * j as u64); if lvl == Lvl::Peer { q[ASN] = Some(65000 + j as u64); q[RIB] = Some(j as u64 % 3); } q }).collect();
    let progs: Vec<Vec<usize>> = (0..nt).map(|_| { let mut v: Vec<usize> = (0..k).collect(); for i in (1..v.len()).rev() { let j = g.rng.below(i as u64 + 1) as usize; v.swap(i, j); } v }).collect();
    let barrier = Arc::new(std::sync::Barrier::new(nt));
    let hs: Vec<_> = progs.iter().cloned().map(|prog| {
        let (reg, barrier, idents) = (reg.clone(), barrier.clone(), idents.clone());
        std::thread::spawn(move || {
            barrier.wait();
            prog.into_iter().map(|j| {
                let q = to_real(&idents[j]);
                (j, match lvl { Lvl::Router => facade::find_or_register_bmp_router(&reg, q), Lvl::Peer => facade::find_or_register_peer(&reg, q) })
            }).collect::<Vec<(usize, u32)>>()
        })
    }).collect();
    let mut per: Vec<BTreeSet<u32>> = vec![BTreeSet::new(); k];
    for h in hs { for (j, id) in h.join().expect("race thread") { per[j].insert(id); } }
    let kids = reg.ids_for_parent(parent);
    let prog_txt = join(progs.iter().map(|pr| join(pr.iter().map(|j| show_op(&Op::FindOrReg(lvl, idents[*j], None))), " ")), "/");
    let line = format!("race|1|R U.1.{}|{}|{}", show_info(&pi), prog_txt, parent);
    let imp = format!("ids {} kids {}", join(per.iter().map(|s| s.len()), " "), kids.len());
    let ok = per.iter().all(|s| s.len() == 1) && kids.len() == k;
    let orc = if ok { "ok".to_string() } else if per.iter().any(|s| s.len() > 1) {
        format!("fail race:one-identity-two-ids {} callers of find_or_register for one {} identity got {} different ids", nt, if lvl == Lvl::Peer { "peer" } else { "router" }, per.iter().map(|s| s.len()).max().unwrap_or(0))
    } else { format!("fail race:children-differ ids_for_parent reports {} children for {k} identities", kids.len()) };
    rec.bump(if lvl == Lvl::Peer { "race.peer" } else { "race.router" });
    rec.case(line, imp, orc, nt >= 2);
    ok
}

fn q_peer(parent: u64, addr: u64, asn: u64) -> Info { let mut i = NONE; i[PARENT] = Some(parent); i[ADDR] = Some(addr); i[ASN] = Some(asn); i }

fn main() {
    let args = parse_args();
    let t0 = Instant::now();
    let mut rec = Recorder::new("seq: random histories (1-16 ops) on the real Register, free (any op, any id, serial near the u32 wrap in 20%) and disciplined (identities enter only through find-else-register); conc: 2-8 OS threads x 6-40 ops on one real Register, merged by the recorded lock order (pause points inside the locked sections) and fetch_add order; site: call-site programs find/register/update as separately scheduled steps. non-trivial = seq with >= 3 op kinds and a lookup that hit, conc whose recorded order switches threads at least once per thread, site whose schedule interleaves two programs; distinct = distinct case lines");

    if let Some(path) = &args.replay {
        for line in verif_harness::replay_cases(path) {
            let p: Vec<&str> = line.split('|').collect();
            let ops = |s: &str| -> Vec<Op> { s.split_whitespace().map(parse_op).collect() };
            match p[0] {
                "seq" => { run_seq(&mut rec, p[1].parse().unwrap(), ops(p[2]).into_iter().map(|o| match o { Op::Find(l, q, _) => Op::Find(l, q, None), Op::FindOrReg(l, q, _) => Op::FindOrReg(l, q, None), o => o }).collect(), false); }
                "site" => { site_case(&mut rec, p[1].parse().unwrap(), ops(p[2]), p[3].split('/').map(|t| t.split_whitespace().map(parse_micro).collect()).collect(), &p[4].split_whitespace().map(|x| x.parse().unwrap()).collect::<Vec<usize>>()); }
                "peerup" => {
                    // re-run the real call site with the identities and the shape (raced / sequential) of the case
                    let progs: Vec<Vec<Micro>> = p[3].split('/').map(|t| t.split_whitespace().map(parse_micro).collect()).collect();
                    let ident = |pr: &Vec<Micro>| match &pr[0] { Micro::Find(_, q, _) => (q[PARENT].unwrap() as u32, (q[ADDR].unwrap(), q[ASN].unwrap(), q[RIB].unwrap_or(0))), _ => (2, (0, 65000, 0)) };
                    let known_before = progs.len() == 3;
                    let (a, b) = (ident(&progs[progs.len() - 2]), ident(&progs[progs.len() - 1]));
                    let sched: Vec<usize> = p[4].split_whitespace().map(|x| x.parse().unwrap()).collect();
                    let raced = sched.len() >= 6 && sched[sched.len() - 6] != sched[sched.len() - 5];
                    peerup_case(&mut rec, [a.0, b.0], [a.1, b.1], known_before, raced);
                }
                "race" => {
                    let progs: Vec<&str> = p[3].split('/').collect();
                    let lvl = if p[3].contains("A.r.") { Lvl::Router } else { Lvl::Peer };
                    let k = progs[0].split_whitespace().count();
                    let mut g = Gen { rng: Rng::new(args.seed) };
                    for _ in 0..200 { if !race_case(&mut rec, &mut g, lvl, progs.len(), k) { break; } }
                }
                "conc" => {
                    // a recorded merge is a sequential history: replay it as one
                    let progs: Vec<Vec<Op>> = p[3].split('/').map(ops).collect();
                    let mut pos = vec![0usize; progs.len()];
                    let mut h = ops(p[2]);
                    for t in p[4].split_whitespace().map(|x| x.parse::<usize>().unwrap()) { if let Some(o) = progs[t].get(pos[t]) { h.push(o.clone()); pos[t] += 1; } }
                    run_seq(&mut rec, p[1].parse().unwrap(), h, false);
                }
                _ => {}
            }
        }
        rec.finish(&args, t0.elapsed().as_secs_f64());
        return;
    }

    // 0. witnesses of the counterexample theorems, replayed on the real Register first.
    // C14_callsite_counterexample: two find-else-register programs for one peer identity, interleaved.
    let q = q_peer(7, 3, 65000);
    // ... first on the real call site `PeerStates::add_peer_config` (two state machines that share a router id,
    // machine 0 parked between its lookup and its registration), then on the bare Register.
    let parked = peerup_case(&mut rec, [2, 2], [(4, 65000, 0), (4, 65000, 0)], false, true);
    rec.variant("callsite", if parked { "as-written" } else { "no-pause-point-reached" });
    peerup_case(&mut rec, [2, 2], [(4, 65000, 0), (4, 65000, 0)], false, false);
    let w = site_case(&mut rec, 1, vec![], vec![site_prog(Lvl::Peer, q), site_prog(Lvl::Peer, q)], &[0, 1, 0, 1, 0, 1]);
    rec.extra.insert("callsite_witness_ids".into(), serde_json::json!(w));
    // the same two programs one after the other: one id
    site_case(&mut rec, 1, vec![], vec![site_prog(Lvl::Peer, q), site_prog(Lvl::Peer, q)], &[0, 0, 0, 1, 1, 1]);
    // C14_undisciplined_counterexample: the MRT dump pattern (register + update_info without a lookup) twice
    run_seq(&mut rec, 1, vec![Op::Reg, Op::Upd(1, q), Op::Reg, Op::Upd(2, q), Op::Find(Lvl::Peer, q, None)], false);
    // serial wrap-around
    run_seq(&mut rec, u32::MAX, vec![Op::Reg, Op::Reg, Op::Reg], false);

    let mut g = Gen { rng: Rng::new(args.seed) };

    // 1. sequential histories
    let nseq = if args.thorough { 1_500_000 } else { 60_000 };
    for k in 0..nseq {
        if k % 2 == 0 { let (s, ops) = gen_free(&mut g); run_seq(&mut rec, s, ops, false); }
        else { let (s, ops) = gen_disciplined(&mut g); run_seq(&mut rec, s, ops, true); }
    }

    // 1b. races on the real atomic find_or_register_* (free-running OS threads released by a barrier)
    let nrace = if args.thorough { 40_000 } else { 3_000 };
    for _ in 0..nrace {
        let lvl = g.lvl();
        let nt = g.rng.range(2, 8) as usize;
        let k = g.rng.range(1, 3) as usize;
        race_case(&mut rec, &mut g, lvl, nt, k);
    }

    // 2. call-site programs under random schedules, distinct identities per thread population
    let nsite = if args.thorough { 300_000 } else { 10_000 };
    for _ in 0..nsite {
        let lvl = g.lvl();
        let nt = g.rng.range(2, 3) as usize;
        // each thread owns its own parent (one accept loop / one state machine per parent): no two
        // programs share an identity, which is the discipline of the partial theorem
        let progs: Vec<Vec<Micro>> = (0..nt).map(|t| {
            let n = g.rng.range(1, 2);
            (0..n).flat_map(|_| site_prog(lvl, g.identity(lvl, &[t as u32 + 1]))).collect()
        }).collect();
        let len = g.rng.range(0, 12);
        let sched: Vec<usize> = (0..len).map(|_| g.rng.below(nt as u64) as usize).collect();
        site_case(&mut rec, 1, vec![Op::Reg, Op::Reg, Op::Reg], progs, &sched);
    }

    // 2b. the real add_peer_config call site: same / different router ids, same / different peers
    let npeer = if args.thorough { 20_000 } else { 600 };
    for _ in 0..npeer {
        let same_router = g.rng.chance(1, 2);
        let same_peer = g.rng.chance(1, 2);
        let p0 = (g.small(6), 65000 + g.small(2), g.small(3));
        let p1 = if same_peer { p0 } else { (g.small(6), 65000 + g.small(2), g.small(3)) };
        // the race on one identity needs a shared router id AND the same peer: that is the known finding's
        // territory (witness above); random cases keep the identities apart so that a *different* defect shows
        let conflict = same_router && p0 == p1;
        let raced = g.rng.chance(2, 3);
        let known_before = g.rng.chance(1, 3);
        if conflict && raced && !known_before { rec.bump("peerup.skipped_known_race_shape"); continue; }
        peerup_case(&mut rec, [2, if same_router { 2 } else { 3 }], [p0, p1], known_before, raced);
    }

    // 3. real threads
    let nconc = if args.thorough { 40_000 } else { 1_500 };
    for _ in 0..nconc {
        let nt = g.rng.range(2, 8) as usize;
        let len = g.rng.range(6, 40) as usize;
        let (start, pre, progs) = gen_conc(&mut g, nt, len);
        conc_case(&mut rec, start, pre, &progs);
    }
    // hammering: many registrations from 16 threads, ids pairwise distinct
    {
        let reg = Arc::new(facade::new_register());
        let per = if args.thorough { 2_000_000 } else { 50_000 };
        let all = Arc::new(Mutex::new(Vec::<u32>::new()));
        let hs: Vec<_> = (0..16).map(|_| { let (reg, all) = (reg.clone(), all.clone()); std::thread::spawn(move || { let v: Vec<u32> = (0..per).map(|_| facade::register(&reg)).collect(); all.lock().unwrap().extend(v); }) }).collect();
        for h in hs { h.join().unwrap(); }
        let mut v = all.lock().unwrap().clone();
        let n = v.len(); v.sort(); v.dedup();
        rec.extra.insert("hammer_registrations".into(), serde_json::json!(n));
        rec.extra.insert("hammer_distinct".into(), serde_json::json!(v.len()));
        rec.extra.insert("hammer_contiguous_from_1".into(), serde_json::json!(v.first() == Some(&1) && v.last() == Some(&(n as u32))));
        // as a case: the model's answer for n sequential registrations is 1..=n as well; recorded as a tiny seq case plus the counts above
        if v.len() != n {
            rec.case(format!("seq|1|{}|", join((0..4).map(|_| "R"), " ")), "hammer".into(), "fail unique-id:duplicate 16 threads hammering register() received a duplicate id".into(), true);
        }
    }
    rec.finish(&args, t0.elapsed().as_secs_f64());
}
