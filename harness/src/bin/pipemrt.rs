//! PipeMrt engine (bridge MRT import ∘ RIB): generated MRT files → the real `MrtInRunner::run`
//! (queue consumer + `process_file`) → every `Update` that leaves the unit's gate, in order, into the
//! real `RibUnitRunner::process_update` → the real `Rib::match_prefix` (exact match, include_withdrawn
//! true and false) for every prefix the generator can write plus three it never writes.
//!
//!   case   `q|<file>#<file>…`   (the case syntax of the c16 engine; MRT writer copied from it)
//!   impl   `<k>:<T>/<F> …|r:<ok|dead,…>|n=<next ingress id>|ids:<id>=<addr>.<asn>,…`
//!          k = `4.<i>` / `6.<i>` (prefix tables below), T/F = sorted `c<id>.<A|W>.<attr>`; an ingress
//!          id is printed as the smallest id registered for the same (parent, address, ASN): which
//!          of several ids of one peer a lookup answers is hash-map order in the real register.
//! The model side is `Rotonda.PipeMrt.importQueue` (`Model/PipeMrt.lean`, driver `rmodel-pipemrt`).
//! Oracle (Rust, no Lean): the expected RIB per (prefix, *peer*) computed from the file descriptions by
//! a tolerant importer (RFC 4271 4.3 per UPDATE; an Established->Idle state change of a known peer
//! withdraws all that peer's routes; later announcements are active again); an importable file must be
//! reflected completely, a file the reader gives up on as any prefix of its records, in queue order.
use std::collections::{BTreeMap, HashMap, HashSet};
use std::io::Write as _;
use std::net::IpAddr;
use std::path::{Path, PathBuf};
use std::str::FromStr;
use std::time::{Duration, Instant};

use rotonda::comms::Gate;
use rotonda::ingress::IngressInfo;
use rotonda::payload::Update;
use rotonda::verif::rib as vrib;
use rotonda_store::prelude::multi::RouteStatus;
use rotonda_store::{MatchOptions, MatchType};
use verif_harness::{join, parse_args, rng::Rng, Recorder};

const ADDRS: &[&str] = &["10.0.0.1", "10.0.0.2", "192.0.2.7", "2001:db8::1", "2001:db8::2", "fe80::7"];
/// The first 5 / 4 are written into files; the rest are only queried (must stay empty).
const PFX4: &[&str] = &["10.0.0.0/8", "10.1.0.0/16", "192.0.2.0/24", "0.0.0.0/0", "203.0.113.7/32", "10.2.0.0/16", "203.0.113.6/32"];
const PFX6: &[&str] = &["2001:db8::/32", "2001:db8:1::/48", "::/0", "2001:db8::1/128", "2001:db8:2::/48"];
const GEN4: usize = 5;
const GEN6: usize = 4;
/// A peer the generator never puts into a peer index table (so it never has two ingress ids).
const SPARE: Peer = Peer { addr: 5, asn: 65010 };

#[derive(Clone, Debug, PartialEq, Eq, Hash, PartialOrd, Ord)]
struct Peer { addr: usize, asn: u32 }

#[derive(Clone, Debug, PartialEq)]
enum Bgp { Update { v6: bool, ann: Vec<usize>, wd: Vec<usize>, attrs: u8 }, Keepalive, Open, Garbage }

#[derive(Clone, Debug, PartialEq)]
enum Rec {
    PeerIndex(Vec<Peer>),
    Rib { v6: bool, pfx: usize, entries: Vec<(u16, u8)> },
    RibOther(u16),
    Msg { as4: bool, peer: Peer, bgp: Bgp },
    State { as4: bool, peer: Peer, old: u16, new: u16 },
    Local(u16),
    OtherType(u16),
    Truncated,
}

#[derive(Clone, Debug, PartialEq)]
struct FileSpec { comp: char, recs: Vec<Rec> }

// ------------------------------------------------------------- MRT writer (copied from bin/c16.rs)

fn be16(v: &mut Vec<u8>, x: u16) { v.extend_from_slice(&x.to_be_bytes()); }
fn be32(v: &mut Vec<u8>, x: u32) { v.extend_from_slice(&x.to_be_bytes()); }
fn addr_bytes(i: usize) -> Vec<u8> { match IpAddr::from_str(ADDRS[i]).unwrap() { IpAddr::V4(a) => a.octets().to_vec(), IpAddr::V6(a) => a.octets().to_vec() } }
fn pfx_bytes(v6: bool, i: usize) -> Vec<u8> {
    let s = if v6 { PFX6[i] } else { PFX4[i] };
    let (a, l) = s.split_once('/').unwrap();
    let len: u8 = l.parse().unwrap();
    let bytes = match IpAddr::from_str(a).unwrap() { IpAddr::V4(a) => a.octets().to_vec(), IpAddr::V6(a) => a.octets().to_vec() };
    let mut v = vec![len];
    v.extend_from_slice(&bytes[..(len as usize + 7) / 8]);
    v
}
/// Path attributes for a RIB entry / conventional UPDATE; the MED carries the attribute-set id.
fn attrs(id: u8, as4: bool) -> Vec<u8> {
    let mut v = vec![0x40, 1, 1, 0];
    if as4 { v.extend_from_slice(&[0x40, 2, 6, 2, 1, 0, 0, 0xfd, 0xe8]); } else { v.extend_from_slice(&[0x40, 2, 4, 2, 1, 0xfd, 0xe8]); }
    v.extend_from_slice(&[0x40, 3, 4, 10, 0, 0, 9]);
    v.extend_from_slice(&[0x80, 4, 4, 0, 0, 0, id]);
    v
}
fn record(out: &mut Vec<u8>, typ: u16, sub: u16, body: &[u8]) { be32(out, 1_700_000_000); be16(out, typ); be16(out, sub); be32(out, body.len() as u32); out.extend_from_slice(body); }
fn bgp4mp_head(as4: bool, p: &Peer) -> Vec<u8> {
    let mut b = vec![];
    if as4 { be32(&mut b, p.asn); be32(&mut b, 64512); } else { be16(&mut b, p.asn as u16); be16(&mut b, 64512); }
    be16(&mut b, 0);
    let a = addr_bytes(p.addr);
    be16(&mut b, if a.len() == 4 { 1 } else { 2 });
    b.extend_from_slice(&a);
    b.extend_from_slice(&vec![0u8; a.len()]);
    b
}
fn bgp_msg(as4: bool, m: &Bgp) -> Vec<u8> {
    let (typ, body): (u8, Vec<u8>) = match m {
        Bgp::Keepalive => (4, vec![]),
        Bgp::Open => (1, vec![4, 0xfd, 0xe8, 0, 180, 10, 0, 0, 1, 0]),
        Bgp::Garbage => (2, vec![0xff, 0xff, 0xff]),
        Bgp::Update { v6, ann, wd, attrs: a } => {
            let mut b = vec![];
            if !*v6 {
                let w: Vec<u8> = wd.iter().flat_map(|i| pfx_bytes(false, *i)).collect();
                be16(&mut b, w.len() as u16); b.extend_from_slice(&w);
                let pa = if ann.is_empty() { vec![] } else { attrs(*a, as4) };
                be16(&mut b, pa.len() as u16); b.extend_from_slice(&pa);
                for i in ann { b.extend_from_slice(&pfx_bytes(false, *i)); }
            } else {
                be16(&mut b, 0);
                let mut pa = vec![];
                if !ann.is_empty() {
                    let n: Vec<u8> = ann.iter().flat_map(|i| pfx_bytes(true, *i)).collect();
                    let mut mp = vec![0, 2, 1, 16]; mp.extend_from_slice(&addr_bytes(3)); mp.push(0); mp.extend_from_slice(&n);
                    pa.extend_from_slice(&[0x90, 14]); be16(&mut pa, mp.len() as u16); pa.extend_from_slice(&mp);
                    pa.extend_from_slice(&[0x40, 1, 1, 0]);
                    if as4 { pa.extend_from_slice(&[0x40, 2, 6, 2, 1, 0, 0, 0xfd, 0xe8]); } else { pa.extend_from_slice(&[0x40, 2, 4, 2, 1, 0xfd, 0xe8]); }
                    pa.extend_from_slice(&[0x80, 4, 4, 0, 0, 0, *a]);
                }
                if !wd.is_empty() {
                    let n: Vec<u8> = wd.iter().flat_map(|i| pfx_bytes(true, *i)).collect();
                    let mut mp = vec![0, 2, 1]; mp.extend_from_slice(&n);
                    pa.extend_from_slice(&[0x90, 15]); be16(&mut pa, mp.len() as u16); pa.extend_from_slice(&mp);
                }
                be16(&mut b, pa.len() as u16); b.extend_from_slice(&pa);
            }
            (2, b)
        }
    };
    let mut v = vec![0xff; 16];
    be16(&mut v, 19 + body.len() as u16); v.push(typ); v.extend_from_slice(&body);
    v
}
fn file_bytes(recs: &[Rec]) -> Vec<u8> {
    let mut out = vec![];
    for (seq, r) in recs.iter().enumerate() {
        match r {
            Rec::PeerIndex(ps) => {
                let mut b = vec![10, 0, 0, 254, 0, 0];
                be16(&mut b, ps.len() as u16);
                for p in ps {
                    let a = addr_bytes(p.addr);
                    let as4 = p.asn > 65535 || p.asn % 2 == 0;
                    b.push((if a.len() == 16 { 1 } else { 0 }) | (if as4 { 2 } else { 0 }));
                    b.extend_from_slice(&[10, 0, 0, p.addr as u8]);
                    b.extend_from_slice(&a);
                    if as4 { be32(&mut b, p.asn) } else { be16(&mut b, p.asn as u16) }
                }
                record(&mut out, 13, 1, &b);
            }
            Rec::Rib { v6, pfx, entries } => {
                let mut b = vec![]; be32(&mut b, seq as u32); b.extend_from_slice(&pfx_bytes(*v6, *pfx)); be16(&mut b, entries.len() as u16);
                for (idx, a) in entries { be16(&mut b, *idx); be32(&mut b, 1_600_000_000); let pa = attrs(*a, true); be16(&mut b, pa.len() as u16); b.extend_from_slice(&pa); }
                record(&mut out, 13, if *v6 { 4 } else { 2 }, &b);
            }
            Rec::RibOther(sub) => { let mut b = vec![]; be32(&mut b, seq as u32); b.extend_from_slice(&pfx_bytes(false, 0)); be16(&mut b, 0); record(&mut out, 13, *sub, &b); }
            Rec::Msg { as4, peer, bgp } => { let mut b = bgp4mp_head(*as4, peer); b.extend_from_slice(&bgp_msg(*as4, bgp)); record(&mut out, 16, if *as4 { 4 } else { 1 }, &b); }
            Rec::State { as4, peer, old, new } => { let mut b = bgp4mp_head(*as4, peer); be16(&mut b, *old); be16(&mut b, *new); record(&mut out, 16, if *as4 { 5 } else { 0 }, &b); }
            Rec::Local(sub) => { let p = Peer { addr: 0, asn: 65000 }; let mut b = bgp4mp_head(true, &p); b.extend_from_slice(&bgp_msg(true, &Bgp::Keepalive)); record(&mut out, 16, *sub, &b); }
            Rec::OtherType(t) => record(&mut out, *t, 0, &[0, 0, 0, 0]),
            Rec::Truncated => { be32(&mut out, 1_700_000_000); be16(&mut out, 16); be16(&mut out, 4); be32(&mut out, 4000); out.extend_from_slice(&[1, 2, 3]); }
        }
    }
    out
}
fn write_file(dir: &Path, k: usize, f: &FileSpec) -> PathBuf {
    let raw = file_bytes(&f.recs);
    let (ext, bytes) = match f.comp {
        'g' => ("mrt.gz", { let mut e = flate2::write::GzEncoder::new(vec![], flate2::Compression::fast()); e.write_all(&raw).unwrap(); e.finish().unwrap() }),
        'b' => ("mrt.bz2", { let mut e = bzip2::write::BzEncoder::new(vec![], bzip2::Compression::fast()); e.write_all(&raw).unwrap(); e.finish().unwrap() }),
        'x' => ("mrt.gz", raw),       // not gzip at all: decoding fails
        _ => ("mrt", raw),
    };
    let path = dir.join(format!("f{k}.{ext}"));
    if f.comp != 'm' { std::fs::write(&path, bytes).unwrap(); } else { let _ = std::fs::remove_file(&path); }
    path
}

// ---------------------------------------------------------------- case text (c16's syntax)

fn show_peer(p: &Peer) -> String { format!("{}.{}", p.addr, p.asn) }
fn show_list(xs: &[usize]) -> String { if xs.is_empty() { "-".into() } else { join(xs.iter(), ",") } }
fn show_rec(r: &Rec) -> String {
    match r {
        Rec::PeerIndex(ps) => format!("PI {}", if ps.is_empty() { "-".into() } else { join(ps.iter().map(show_peer), ",") }),
        Rec::Rib { v6, pfx, entries } => format!("R{} {} {}", if *v6 { 6 } else { 4 }, pfx, if entries.is_empty() { "-".into() } else { join(entries.iter().map(|(i, a)| format!("{i}.{a}")), ",") }),
        Rec::RibOther(s) => format!("RO {s}"),
        Rec::Msg { as4, peer, bgp } => format!("M{} {} {}", *as4 as u8, show_peer(peer), match bgp {
            Bgp::Update { v6, ann, wd, attrs } => format!("U{} {} {} {}", if *v6 { 6 } else { 4 }, show_list(ann), show_list(wd), attrs),
            Bgp::Keepalive => "K".into(), Bgp::Open => "O".into(), Bgp::Garbage => "G".into() }),
        Rec::State { as4, peer, old, new } => format!("SC{} {} {} {}", *as4 as u8, show_peer(peer), old, new),
        Rec::Local(s) => format!("L {s}"),
        Rec::OtherType(t) => format!("OT {t}"),
        Rec::Truncated => "TR".into(),
    }
}
fn show_file(f: &FileSpec) -> String { format!("{}:{}", f.comp, if f.recs.is_empty() { "-".into() } else { join(f.recs.iter().map(show_rec), ";") }) }
fn parse_peer(s: &str) -> Option<Peer> { let (a, n) = s.split_once('.')?; let addr: usize = a.parse().ok()?; if addr >= ADDRS.len() { return None; } Some(Peer { addr, asn: n.parse().ok()? }) }
fn parse_list(s: &str, n: usize) -> Option<Vec<usize>> { if s == "-" { Some(vec![]) } else { s.split(',').map(|x| x.parse::<usize>().ok().filter(|i| *i < n)).collect() } }
fn parse_rec(s: &str) -> Option<Rec> {
    let f: Vec<&str> = s.split(' ').collect();
    Some(match *f.first()? {
        "PI" => Rec::PeerIndex(if *f.get(1)? == "-" { vec![] } else { f[1].split(',').map(parse_peer).collect::<Option<Vec<_>>>()? }),
        "R4" | "R6" => { let v6 = f[0] == "R6"; let pfx: usize = f.get(1)?.parse().ok()?; if pfx >= if v6 { PFX6.len() } else { PFX4.len() } { return None; }
            Rec::Rib { v6, pfx, entries: if *f.get(2)? == "-" { vec![] } else { f[2].split(',').map(|e| { let (i, a) = e.split_once('.')?; Some((i.parse().ok()?, a.parse().ok()?)) }).collect::<Option<Vec<_>>>()? } } }
        "RO" => Rec::RibOther(f.get(1)?.parse().ok()?),
        "M0" | "M1" => Rec::Msg { as4: f[0] == "M1", peer: parse_peer(f.get(1)?)?, bgp: match *f.get(2)? { "K" => Bgp::Keepalive, "O" => Bgp::Open, "G" => Bgp::Garbage,
            u => { let v6 = u == "U6"; let n = if v6 { PFX6.len() } else { PFX4.len() }; Bgp::Update { v6, ann: parse_list(f.get(3)?, n)?, wd: parse_list(f.get(4)?, n)?, attrs: f.get(5)?.parse().ok()? } } } },
        "SC0" | "SC1" => Rec::State { as4: f[0] == "SC1", peer: parse_peer(f.get(1)?)?, old: f.get(2)?.parse().ok()?, new: f.get(3)?.parse().ok()? },
        "L" => Rec::Local(f.get(1)?.parse().ok()?),
        "OT" => Rec::OtherType(f.get(1)?.parse().ok()?),
        "TR" => Rec::Truncated,
        _ => return None,
    })
}
fn parse_file(s: &str) -> Option<FileSpec> { let (c, r) = s.split_once(':')?; Some(FileSpec { comp: c.chars().next()?, recs: if r == "-" { vec![] } else { r.split(';').map(parse_rec).collect::<Option<Vec<_>>>()? } }) }
fn parse_queue(q: &str) -> Option<Vec<FileSpec>> { q.split('#').map(parse_file).collect() }

// -------------------------------------------------------------- real run

type Entry = (u32, char, String, bool);   // ingress id, A|W, attribute id ("?" when the stored blob has no MED), attribute map tagged 4-octet-AS

struct RunObs {
    updates: usize, singles: usize, bulks: usize, withdraws: usize,
    responses: Vec<bool>, next_id: u32, infos: Vec<(u32, IngressInfo)>,
    /// per queried prefix (all of PFX4 then all of PFX6): include_withdrawn = true / false
    rib: Vec<(Vec<Entry>, Vec<Entry>)>,
    rib_panic: Option<String>,
}

/// Phase 1: the real `MrtInRunner::run` on the queue; every `Update` leaving the gate, in order.
async fn run_queue(dir: &Path, files: &[FileSpec]) -> (Vec<Update>, Vec<bool>, u32, Vec<(u32, IngressInfo)>) {
    let paths: Vec<PathBuf> = files.iter().enumerate().map(|(k, f)| write_file(dir, k, f)).collect();
    let (gate, mut agent) = Gate::new(100_000);
    let mut link = agent.create_link();
    let register = rotonda::verif::c17::new_register();
    let parent = rotonda::verif::c17::register(&register);
    rotonda::verif::c17::update_info(&register, parent, IngressInfo::new().with_unit_name("mrt-in").with_desc("mrt-file-in unit"));
    gate.process_until(link.connect(false)).await.unwrap().unwrap();
    let collector = tokio::spawn(async move { let mut v = vec![]; while let Ok(u) = link.query().await { v.push(u); } v });
    let (qtx, qrx) = rotonda::units::verif_mrt_file_in_c16::queue();
    let runner = tokio::spawn(rotonda::units::verif_mrt_file_in_c16::run(gate, register.clone(), parent, qtx.clone(), qrx));
    let mut rxs = vec![];
    for p in &paths { let (tx, rx) = tokio::sync::oneshot::channel(); let _ = qtx.send((p.clone(), Some(tx))).await; rxs.push(rx); }
    let mut responses = vec![];
    for rx in rxs { responses.push(matches!(tokio::time::timeout(Duration::from_secs(20), rx).await, Ok(Ok(_)))); }
    agent.terminate().await;
    let _ = tokio::time::timeout(Duration::from_secs(5), runner).await;
    drop(qtx); drop(agent);
    let updates = tokio::time::timeout(Duration::from_secs(5), collector).await.ok().and_then(|r| r.ok()).unwrap_or_default();
    let next_id = rotonda::verif::c17::register(&register);
    let infos = (1..next_id).filter_map(|i| register.get(i).map(|x| (i, x))).collect();
    (updates, responses, next_id, infos)
}

fn med_of(raw: &[u8]) -> Option<u8> { raw.windows(7).find(|w| w[..6] == [0x80, 4, 4, 0, 0, 0]).map(|w| w[6]) }
fn to_prefix(v6: bool, i: usize) -> inetnum::addr::Prefix { inetnum::addr::Prefix::from_str(if v6 { PFX6[i] } else { PFX4[i] }).unwrap() }

/// Phase 2: a real RIB unit downstream. `process_update` per Update in gate order, then `match_prefix`.
fn run_rib(updates: Vec<Update>) -> (Vec<(Vec<Entry>, Vec<Entry>)>, Option<String>) {
    let (runner, _agent) = vrib::mk_runner();
    let rt = tokio::runtime::Builder::new_current_thread().enable_all().build().unwrap();
    let mut panic = None;
    for u in updates {
        let r = std::panic::catch_unwind(std::panic::AssertUnwindSafe(|| rt.block_on(vrib::process_update(&runner, u))));
        if let Err(e) = r { panic = Some(e.downcast_ref::<String>().cloned().or_else(|| e.downcast_ref::<&str>().map(|s| s.to_string())).unwrap_or_default()); break; }
    }
    let rib = vrib::rib(&runner);
    let q = |v6: bool, i: usize, include_withdrawn: bool| -> Vec<Entry> {
        let opts = MatchOptions { match_type: MatchType::ExactMatch, include_withdrawn, include_less_specifics: false, include_more_specifics: false, mui: None };
        let r = std::panic::catch_unwind(std::panic::AssertUnwindSafe(|| rib.match_prefix(&to_prefix(v6, i), &opts)));
        let mut v: Vec<Entry> = match r {
            Ok(Ok(res)) => res.prefix_meta.iter().map(|r| {
                let st = match r.status { RouteStatus::Active => 'A', RouteStatus::Withdrawn => 'W', _ => 'I' };
                (r.multi_uniq_id, st, med_of(&r.meta.0.clone().into_vec()).map(|a| a.to_string()).unwrap_or_else(|| "?".into()), r.meta.0.pdu_parse_info().four_octet_enabled())
            }).collect(),
            Ok(Err(_)) => vec![(0, 'E', "err".into(), true)],
            Err(_) => vec![(0, 'P', "panic".into(), true)],
        };
        v.sort();
        v
    };
    let mut out = vec![];
    for i in 0..PFX4.len() { out.push((q(false, i, true), q(false, i, false))); }
    for i in 0..PFX6.len() { out.push((q(true, i, true), q(true, i, false))); }
    (out, panic)
}

fn peer_of(infos: &[(u32, IngressInfo)], id: u32) -> Option<(Option<u32>, Peer)> {
    let (_, i) = infos.iter().find(|(x, _)| *x == id)?;
    let addr = ADDRS.iter().position(|a| Some(IpAddr::from_str(a).unwrap()) == i.remote_addr)?;
    Some((i.parent_ingress, Peer { addr, asn: i.remote_asn?.into_u32() }))
}
/// Ids with the same (parent, addr, asn) are interchangeable for `find_existing_peer` (hash-map order): print the smallest.
fn canon_id(infos: &[(u32, IngressInfo)], id: u32) -> u32 {
    let Some(me) = peer_of(infos, id) else { return id };
    infos.iter().filter(|(i, _)| peer_of(infos, *i).as_ref() == Some(&me)).map(|(i, _)| *i).min().unwrap_or(id)
}
fn show_entries(es: &[Entry], infos: &[(u32, IngressInfo)]) -> String {
    let mut v: Vec<(u32, char, String)> = es.iter().map(|(m, s, a, _)| (canon_id(infos, *m), *s, a.clone())).collect();
    v.sort();
    join(v.iter().map(|(m, s, a)| format!("c{m}.{s}.{a}")), ",")
}
fn key_name(k: usize) -> String { if k < PFX4.len() { format!("4.{k}") } else { format!("6.{}", k - PFX4.len()) } }
fn show_obs(o: &RunObs) -> String {
    let rib: Vec<String> = o.rib.iter().enumerate().filter(|(_, (t, f))| !t.is_empty() || !f.is_empty())
        .map(|(k, (t, f))| format!("{}:{}/{}", key_name(k), show_entries(t, &o.infos), show_entries(f, &o.infos))).collect();
    let ids: Vec<String> = o.infos.iter().filter_map(|(i, _)| peer_of(&o.infos, *i).filter(|(par, _)| *par == Some(1)).map(|(_, p)| format!("{i}={}", show_peer(&p)))).collect();
    format!("{}|r:{}|n={}|ids:{}{}", if rib.is_empty() { "-".into() } else { rib.join(" ") }, join(o.responses.iter().map(|r| if *r { "ok" } else { "dead" }), ","), o.next_id,
        if ids.is_empty() { "-".into() } else { ids.join(",") }, o.rib_panic.as_ref().map(|p| format!("|rib-panic {}", p.chars().take(40).collect::<String>())).unwrap_or_default())
}

// ------------------------------------------------------------------ oracle (independent of the Lean model)

/// What one record contributes, in the order the importer applies things: the dump entries of the file, then its BGP4MP records.
#[derive(Clone, Debug)]
enum Tok { S { key: usize, idx: usize, attrs: u8 }, B { peer: Peer, keys_ann: Vec<usize>, keys_wd: Vec<usize>, keys_wd_raw: Vec<usize>, attrs: u8, as4: bool }, W { peer: Peer } }

fn key_of(v6: bool, i: usize) -> usize { if v6 { PFX4.len() + i } else { i } }

/// Is the file one the unit is expected to import completely?
fn file_is_good(f: &FileSpec) -> bool {
    if f.comp == 'm' || f.comp == 'x' { return false; }
    let dump = matches!(f.recs.first(), Some(Rec::PeerIndex(_)));
    let npeers = if let Some(Rec::PeerIndex(ps)) = f.recs.first() { ps.len() } else { 0 };
    f.recs.iter().enumerate().all(|(k, r)| match r {
        Rec::PeerIndex(_) => k == 0,
        Rec::Rib { entries, .. } => dump && !entries.is_empty() && entries.iter().all(|(i, _)| (*i as usize) < npeers),
        Rec::Msg { .. } | Rec::State { .. } => !dump,
        _ => false,
    })
}
fn readable(f: &FileSpec) -> bool { f.comp != 'm' && f.comp != 'x' }
fn tokens(f: &FileSpec) -> Vec<Tok> {
    let mut t = vec![];
    if !readable(f) { return t; }
    if let Some(Rec::PeerIndex(ps)) = f.recs.first() {
        for r in &f.recs[1..] { if let Rec::Rib { v6, pfx, entries } = r { for (i, a) in entries { if (*i as usize) < ps.len() { t.push(Tok::S { key: key_of(*v6, *pfx), idx: *i as usize, attrs: *a }); } } } }
    }
    for r in &f.recs {
        match r {
            Rec::Msg { as4, peer, bgp: Bgp::Update { v6, ann, wd, attrs } } => {
                // RFC 4271 4.3: read as though the withdrawn routes did not contain a prefix the UPDATE also announces
                t.push(Tok::B { peer: peer.clone(), keys_ann: ann.iter().map(|i| key_of(*v6, *i)).collect(), keys_wd: wd.iter().filter(|i| !ann.contains(i)).map(|i| key_of(*v6, *i)).collect(), keys_wd_raw: wd.iter().map(|i| key_of(*v6, *i)).collect(), attrs: *attrs, as4: *as4 });
            }
            Rec::State { peer, old: 6, new: 1, .. } => t.push(Tok::W { peer: peer.clone() }),
            _ => {}
        }
    }
    t
}

/// The two known deviations the oracle can tell apart from anything else.
#[derive(Clone, Copy, PartialEq, Debug)]
struct Sem {
    /// after a state-change withdrawal of a peer everything it announces later is still reported withdrawn (C03)
    sticky: bool,
    /// every dump registers its peers again: a peer named by two peer index tables has two ingress ids
    dup: bool,
    /// no state change ever withdraws anything (C16's fixed finding: the lookup without the parent id)
    no_sc: bool,
    /// a prefix that one UPDATE both withdraws and announces ends withdrawn (C01/C16's fixed overlap finding)
    overlap: bool,
}
impl Sem { const STRICT: Sem = Sem { sticky: false, dup: false, no_sc: false, overlap: false }; }

/// The expected RIB: per (prefix key, registration instance) → (status, attrs). An instance belongs to one peer; the
/// property's reading has one instance per peer (`dup = false`).
#[derive(Clone, Default)]
struct World { inst: Vec<Peer>, tab: BTreeMap<(usize, usize), (char, u8, bool)>, down: HashSet<usize> }
impl World {
    fn of_peer(&self, p: &Peer) -> Vec<usize> { (0..self.inst.len()).filter(|i| self.inst[*i] == *p).collect() }
    /// per prefix the sorted (peer, status, attrs, written with 4-octet AS numbers); `width = false` blanks the last field
    fn view(&self, width: bool) -> Vec<Vec<(Peer, char, u8, bool)>> {
        let mut v = vec![vec![]; PFX4.len() + PFX6.len()];
        for ((k, i), (st, a, as4)) in &self.tab { v[*k].push((self.inst[*i].clone(), if self.down.contains(i) { 'W' } else { *st }, *a, *as4 || !width)); }
        for l in v.iter_mut() { l.sort(); }
        v
    }
}
/// All worlds reachable by importing `files[k..]`: a good file completely, another readable one up to any cut, a lookup that
/// finds several instances of the peer answering any of them. Stops at the first world equal to `want`.
fn explain(files: &[(FileSpec, bool, Vec<Tok>)], k: usize, w: World, sem: Sem, want: &Vec<Vec<(Peer, char, u8, bool)>>, budget: &mut u32) -> Option<World> {
    if *budget == 0 { return None; }
    *budget -= 1;
    if k == files.len() { return if w.view(false) == *want { Some(w) } else { None }; }
    let (f, good, toks) = &files[k];
    if !readable(f) { return explain(files, k + 1, w, sem, want, budget); }
    let mut w = w;
    let mut map: Vec<usize> = vec![];
    if let Some(Rec::PeerIndex(ps)) = f.recs.first() {
        for p in ps {
            let have = w.of_peer(p);
            if sem.dup || have.is_empty() { w.inst.push(p.clone()); map.push(w.inst.len() - 1); } else { map.push(have[0]); }
        }
    }
    fn walk(files: &[(FileSpec, bool, Vec<Tok>)], k: usize, toks: &[Tok], ti: usize, good: bool, map: &[usize], w: World, sem: Sem, want: &Vec<Vec<(Peer, char, u8, bool)>>, budget: &mut u32) -> Option<World> {
        if !good || ti == toks.len() { if let Some(x) = explain(files, k + 1, w.clone(), sem, want, budget) { return Some(x); } }
        if ti == toks.len() || *budget == 0 { return None; }
        match &toks[ti] {
            Tok::S { key, idx, attrs } => { let mut w = w; w.tab.insert((*key, map[*idx]), ('A', *attrs, true)); walk(files, k, toks, ti + 1, good, map, w, sem, want, budget) }
            Tok::B { peer, keys_ann, keys_wd, keys_wd_raw, attrs, as4 } => {
                let keys_wd = if sem.overlap { keys_wd_raw } else { keys_wd };
                let mut cands = w.of_peer(peer);
                let mut w = w;
                if cands.is_empty() { w.inst.push(peer.clone()); cands.push(w.inst.len() - 1); }
                for c in cands {
                    let mut w2 = w.clone();
                    for key in keys_ann { w2.tab.insert((*key, c), ('A', *attrs, *as4)); }
                    for key in keys_wd { if let Some(e) = w2.tab.get_mut(&(*key, c)) { e.0 = 'W'; } }
                    if let Some(x) = walk(files, k, toks, ti + 1, good, map, w2, sem, want, budget) { return Some(x); }
                }
                None
            }
            Tok::W { peer } => {
                let cands = w.of_peer(peer);
                if cands.is_empty() || sem.no_sc { return walk(files, k, toks, ti + 1, good, map, w, sem, want, budget); }
                // the property's reading: the state change withdraws *that peer's* routes, i.e. those of every instance
                let choices: Vec<Vec<usize>> = if sem.dup { cands.iter().map(|c| vec![*c]).collect() } else { vec![cands] };
                for ch in choices {
                    let mut w2 = w.clone();
                    for c in ch { for ((_, i), e) in w2.tab.iter_mut() { if *i == c { e.0 = 'W'; } } if sem.sticky { w2.down.insert(c); } }
                    if let Some(x) = walk(files, k, toks, ti + 1, good, map, w2, sem, want, budget) { return Some(x); }
                }
                None
            }
        }
    }
    walk(files, k, toks, 0, *good, &map, w, sem, want, budget)
}

fn oracle(files: &[FileSpec], o: &RunObs) -> String {
    if let Some(p) = &o.rib_panic { return format!("fail rib:process-update-panicked {}", p.chars().take(80).collect::<String>()); }
    if o.responses.iter().any(|r| !*r) {
        let k = o.responses.iter().position(|r| !*r).unwrap();
        return format!("fail mrt-in:panic-in-file-kills-queue-consumer file {k} of the queue panicked inside process_file: the only consumer task is gone, {} later file(s) never reached the RIB, every future enqueue unanswered", files.len() - k - 1);
    }
    // the observed RIB by peer (through the real register: the id's entry must be a peer of this unit)
    let mut got: Vec<Vec<(Peer, char, u8, bool)>> = vec![];
    let mut got_w: Vec<Vec<(Peer, char, u8, bool)>> = vec![];
    for (k, (t, _)) in o.rib.iter().enumerate() {
        let mut l = vec![];
        let mut lw = vec![];
        for (id, st, a, four) in t {
            let Some((Some(1), p)) = peer_of(&o.infos, *id) else { return format!("fail mrt-rib:entry-of-unknown-ingress prefix {} holds an entry of ingress id {id}, which the register does not know as a peer of this unit", key_name(k)); };
            let Ok(a) = a.parse::<u8>() else { return format!("fail mrt-rib:attributes-lost prefix {} ingress {id}: stored attribute blob does not carry the written MED", key_name(k)); };
            l.push((p.clone(), *st, a, true));
            lw.push((p, *st, a, *four));
        }
        l.sort(); lw.sort();
        got.push(l); got_w.push(lw);
    }
    // include_withdrawn = false must be exactly the active part of the full answer
    for (k, (t, f)) in o.rib.iter().enumerate() {
        let act: Vec<(u32, char, &String)> = t.iter().filter(|e| e.1 == 'A').map(|e| (e.0, e.1, &e.2)).collect();
        if act != f.iter().map(|e| (e.0, e.1, &e.2)).collect::<Vec<_>>() { return format!("fail mrt-rib:active-view-differs prefix {}: the answer without withdrawn routes is not the active part of the answer with them", key_name(k)); }
    }
    let fl: Vec<(FileSpec, bool, Vec<Tok>)> = files.iter().map(|f| (f.clone(), file_is_good(f), tokens(f))).collect();
    let find_sem = |sem: Sem| -> Option<World> { let mut b = 200_000u32; explain(&fl, 0, World::default(), sem, &got, &mut b) };
    let try_sem = |sem: Sem| -> bool { find_sem(sem).is_some() };
    if let Some(w) = find_sem(Sem::STRICT) {
        // the content is right; are the stored attribute maps tagged with the AS-number width they were written with?
        if w.view(true) != got_w {
            return "fail mrt:two-octet-as-record-tagged-four-octet the RIB holds routes of BGP4MP_MESSAGE (2-octet AS) records whose attribute maps are tagged 4-octet-AS, so AS_PATH / AGGREGATOR read back wrongly".into();
        }
        return "ok".into();
    }
    if try_sem(Sem { sticky: true, ..Sem::STRICT }) {
        return "fail flap:global-withdrawn-marker-never-cleared an MRT peer went Established->Idle and announced again later in the queue: the routes it announced after coming back are reported withdrawn".into();
    }
    if try_sem(Sem { dup: true, ..Sem::STRICT }) || try_sem(Sem { sticky: true, dup: true, ..Sem::STRICT }) {
        return "fail mrt-in:dump-registers-known-peer-again a peer named by two peer index tables of the queue (or already known from its messages) has two ingress ids: the RIB holds two entries for one peer and prefix, and an Established->Idle state change withdraws the routes of one of the ids only".into();
    }
    // regressions of defects that are repaired in /repo today keep their signatures
    for dup in [false, true] { for sticky in [false, true] {
        if try_sem(Sem { no_sc: true, dup, sticky, overlap: false }) {
            return "fail mrt-in:state-change-never-withdraws an Established->Idle state change of a peer with imported routes left them active in the RIB".into();
        }
        if try_sem(Sem { overlap: true, dup, sticky, no_sc: false }) {
            return "fail overlap:withdrawal-kept-after-announcement-of-same-update a prefix that one UPDATE of a file both withdraws and announces ended withdrawn in the RIB (RFC 4271 4.3: as though not withdrawn)".into();
        }
    } }
    let diff = (0..got.len()).find_map(|k| { let s = |l: &Vec<(Peer, char, u8, bool)>| join(l.iter().map(|(p, st, a, _)| format!("{}.{st}.{a}", show_peer(p))), ","); if got[k].is_empty() { None } else { Some(format!("e.g. {} holds [{}]", key_name(k), s(&got[k]))) } }).unwrap_or_else(|| "the RIB is empty".into());
    format!("fail mrt-rib:import-mismatch the RIB after the queue is not the files' dump entries and updates applied in order and attributed to the right peers; {diff}")
}

// --------------------------------------------------------------- generator

struct Gen { rng: Rng }
impl Gen {
    fn peer(&mut self) -> Peer { let addr = self.rng.below(ADDRS.len() as u64) as usize; Peer { addr, asn: *self.rng.pick(&[65001u32, 65002, 64496, 4200000001]) } }
    fn peers(&mut self, n: u64, pool: &[Peer]) -> Vec<Peer> {
        let mut v: Vec<Peer> = vec![];
        while (v.len() as u64) < n { let p = if !pool.is_empty() && self.rng.chance(1, 3) { self.rng.pick(pool).clone() } else { self.peer() }; if !v.contains(&p) || self.rng.chance(1, 10) { v.push(p); } }
        v
    }
    fn dump(&mut self, pool: &[Peer]) -> Vec<Rec> {
        let np = self.rng.range(1, 4);
        let ps = self.peers(np, pool);
        let mut recs = vec![Rec::PeerIndex(ps)];
        for _ in 0..self.rng.range(0, 6) {
            let v6 = self.rng.chance(1, 3);
            let pfx = self.rng.below(if v6 { GEN6 } else { GEN4 } as u64) as usize;
            let entries = (0..self.rng.range(1, 3)).map(|_| (self.rng.below(np) as u16, self.rng.below(4) as u8)).collect();
            recs.push(Rec::Rib { v6, pfx, entries });
        }
        recs
    }
    fn update(&mut self, peer: Peer, as4: bool) -> Rec {
        let v6 = self.rng.chance(1, 3); let n = if v6 { GEN6 } else { GEN4 } as u64;
        let ann: Vec<usize> = (0..self.rng.below(3)).map(|_| self.rng.below(n) as usize).collect();
        let wd: Vec<usize> = (0..self.rng.below(3)).map(|_| self.rng.below(n) as usize).collect();
        Rec::Msg { as4, peer, bgp: Bgp::Update { v6, ann, wd, attrs: self.rng.below(4) as u8 } }
    }
    fn bgp_rec(&mut self, pool: &[Peer]) -> Vec<Rec> {
        let peer = if !pool.is_empty() && self.rng.chance(4, 5) { self.rng.pick(pool).clone() } else { self.peer() };
        let as4 = peer.asn > 65535 || self.rng.chance(1, 2);
        match self.rng.below(12) {
            0 => vec![Rec::Msg { as4, peer, bgp: self.rng.pick(&[Bgp::Keepalive, Bgp::Open, Bgp::Garbage]).clone() }],
            1..=2 => { let (old, new) = *self.rng.pick(&[(6u16, 1u16), (6, 1), (6, 1), (1, 6), (6, 6), (5, 6), (3, 1)]); vec![Rec::State { as4, peer, old, new }] }
            // a flap: the peer goes Idle, comes back and announces again
            3 => { let mut v = vec![Rec::State { as4, peer: peer.clone(), old: 6, new: 1 }]; if self.rng.chance(1, 2) { v.push(Rec::State { as4, peer: peer.clone(), old: 5, new: 6 }); } v.push(self.update(peer, as4)); v }
            _ => vec![self.update(peer, as4)],
        }
    }
    fn updates(&mut self, pool: &[Peer]) -> Vec<Rec> { let mut v = vec![]; for _ in 0..self.rng.range(1, 8) { v.extend(self.bgp_rec(pool)); } v }
    fn spoil(&mut self, f: &mut FileSpec, pool: &[Peer]) {
        let k = self.rng.below(f.recs.len() as u64 + 1) as usize;
        match self.rng.below(10) {
            0 => f.comp = 'm', 1 => f.comp = 'x',
            2 => f.recs.insert(k, Rec::RibOther(*self.rng.pick(&[3u16, 5, 6]))),
            3 => f.recs.insert(k, Rec::Local(*self.rng.pick(&[6u16, 7, 9]))),
            4 => f.recs.insert(k, Rec::OtherType(*self.rng.pick(&[12u16, 11, 48]))),
            5 => f.recs.insert(k, Rec::Truncated),
            6 => f.recs.insert(k.max(1).min(f.recs.len()), Rec::Rib { v6: false, pfx: 0, entries: vec![] }),
            7 => f.recs.insert(k.max(1).min(f.recs.len()), Rec::Rib { v6: false, pfx: 1, entries: vec![(0, 1), (9, 2)] }),
            8 => { let r = self.bgp_rec(pool); f.recs.extend(r); let r = self.bgp_rec(pool); f.recs.extend(r); }   // dump followed by BGP4MP (or just more updates)
            _ => { let ps = self.peers(1, &[]); f.recs.insert(k, Rec::PeerIndex(ps)) }
        }
    }
    fn queue(&mut self, dirty: bool) -> Vec<FileSpec> {
        let n = self.rng.range(1, 4);
        let mut pool: Vec<Peer> = vec![];
        let mut files: Vec<FileSpec> = (0..n).map(|k| {
            let comp = *self.rng.pick(&['p', 'p', 'g', 'b']);
            let recs = if (k == 0 && self.rng.chance(2, 3)) || self.rng.chance(1, 4) { let d = self.dump(&pool); if let Rec::PeerIndex(ps) = &d[0] { pool.extend(ps.iter().cloned()); } d } else { self.updates(&pool) };
            FileSpec { comp, recs }
        }).collect();
        if dirty { let k = self.rng.below(n) as usize; let pool2 = pool.clone(); self.spoil(&mut files[k], &pool2); }
        // one queue in six ends with an earlier file of the queue again, byte for byte (the same dump or update file
        // queued twice, something else imported in between): it must be processed again, in its place
        if files.len() >= 2 && self.rng.chance(1, 6) { let k = self.rng.below(files.len() as u64 - 1) as usize; let again = files[k].clone(); files.push(again); }
        disambiguate(&mut files);
        files
    }
}

/// Which of several ids of one peer a lookup answers is hash-map order in the real register (and "the smallest" in the
/// model), so generated queues never look a peer up while it may have two ids: such a record is re-addressed to `SPARE`.
/// The count is an over-approximation (every file is taken to be read completely, every dump to register anew).
fn disambiguate(files: &mut [FileSpec]) -> usize {
    let mut count: HashMap<Peer, u32> = HashMap::new();
    let mut changed = 0;
    for f in files.iter_mut() {
        if let Some(Rec::PeerIndex(ps)) = f.recs.first() { for p in ps { *count.entry(p.clone()).or_insert(0) += 1; } }
        for r in f.recs.iter_mut() {
            let peer = match r { Rec::Msg { peer, bgp: Bgp::Update { .. }, .. } => peer, Rec::State { peer, .. } => peer, _ => continue };
            if count.get(peer).copied().unwrap_or(0) >= 2 { *peer = SPARE; changed += 1; }
            if matches!(r, Rec::Msg { .. }) { let Rec::Msg { peer, .. } = r else { unreachable!() }; let c = count.entry(peer.clone()).or_insert(0); if *c == 0 { *c = 1; } }
        }
    }
    changed
}
fn ambiguous_lookups(files: &[FileSpec]) -> usize { let mut f = files.to_vec(); disambiguate(&mut f) }

// ------------------------------------------------------------------- cases

fn record_case(rec: &mut Recorder, files: &[FileSpec], o: &RunObs) {
    let line = show_obs(o);
    let orc = oracle(files, o);
    for f in files { rec.bump(&format!("file.{}", f.comp)); rec.bump(if file_is_good(f) { "file.good" } else { "file.unreadable" });
        for r in &f.recs { rec.bump(match r { Rec::PeerIndex(_) => "rec.peer-index", Rec::Rib { .. } => "rec.rib", Rec::RibOther(_) => "rec.rib-other", Rec::Msg { bgp: Bgp::Update { .. }, .. } => "rec.update", Rec::Msg { .. } => "rec.bgp-other", Rec::State { old: 6, new: 1, .. } => "rec.state-change-established-idle", Rec::State { .. } => "rec.state-change-other", Rec::Local(_) => "rec.local", Rec::OtherType(_) => "rec.other-type", Rec::Truncated => "rec.truncated" }); } }
    rec.bump(&format!("queue.len-{}", files.len()));
    rec.bump_by("updates.through-the-gate", o.updates as u64);
    rec.bump_by("updates.single", o.singles as u64); rec.bump_by("updates.bulk", o.bulks as u64); rec.bump_by("updates.withdraw", o.withdraws as u64);
    let entries: usize = o.rib.iter().map(|(t, _)| t.len()).sum();
    let withdrawn: usize = o.rib.iter().map(|(t, _)| t.iter().filter(|e| e.1 == 'W').count()).sum();
    rec.bump_by("rib.entries", entries as u64); rec.bump_by("rib.entries-withdrawn", withdrawn as u64);
    if o.rib.iter().any(|(t, _)| t.len() >= 2) { rec.bump("rib.prefix-with-several-peers"); }
    if ambiguous_lookups(files) > 0 { rec.bump("queue.lookup-of-a-peer-with-two-ids"); }
    let mut peers: HashMap<Peer, u32> = HashMap::new();
    for (i, _) in &o.infos { if let Some((Some(1), p)) = peer_of(&o.infos, *i) { *peers.entry(p).or_insert(0) += 1; } }
    if peers.values().any(|c| *c >= 2) { rec.bump("register.peer-with-two-ids"); }
    if orc != "ok" { rec.bump(&format!("oracle.{}", orc.split(' ').nth(1).unwrap())); }
    let nontrivial = files.iter().any(file_is_good) && entries >= 2 && o.updates >= 2;
    rec.case(format!("q|{}", join(files.iter().map(show_file), "#")), line, orc, nontrivial);
}

fn count_updates(us: &[Update]) -> (usize, usize, usize) {
    (us.iter().filter(|u| matches!(u, Update::Single(_))).count(), us.iter().filter(|u| matches!(u, Update::Bulk(_))).count(), us.iter().filter(|u| matches!(u, Update::Withdraw(..))).count())
}
/// Independent cases: phase 1 concurrently on the tokio runtime (own scratch sub-directory each), phase 2 on worker threads.
fn batch(rt: &tokio::runtime::Runtime, dir: &Path, qs: &[Vec<FileSpec>]) -> Vec<RunObs> {
    let p1: Vec<(Vec<Update>, Vec<bool>, u32, Vec<(u32, IngressInfo)>)> = rt.block_on(futures::future::join_all(qs.iter().enumerate().map(|(k, q)| { let d = dir.join(format!("k{k}")); async move { std::fs::create_dir_all(&d).unwrap(); run_queue(&d, q).await } })));
    let mut slots: Vec<Option<RunObs>> = (0..p1.len()).map(|_| None).collect();
    let work: Vec<(usize, (Vec<Update>, Vec<bool>, u32, Vec<(u32, IngressInfo)>))> = p1.into_iter().enumerate().collect();
    let nthreads = 6usize;
    let mut chunks: Vec<Vec<(usize, (Vec<Update>, Vec<bool>, u32, Vec<(u32, IngressInfo)>))>> = (0..nthreads).map(|_| vec![]).collect();
    for (i, w) in work.into_iter().enumerate() { chunks[i % nthreads].push(w); }
    let results: Vec<Vec<(usize, RunObs)>> = std::thread::scope(|s| {
        let hs: Vec<_> = chunks.into_iter().map(|ch| s.spawn(move || ch.into_iter().map(|(k, (ups, responses, next_id, infos))| {
            let (singles, bulks, withdraws) = count_updates(&ups);
            let n = ups.len();
            let (rib, rib_panic) = run_rib(ups);
            (k, RunObs { updates: n, singles, bulks, withdraws, responses, next_id, infos, rib, rib_panic })
        }).collect::<Vec<_>>())).collect();
        hs.into_iter().map(|h| h.join().unwrap()).collect()
    });
    for r in results { for (k, o) in r { slots[k] = Some(o); } }
    slots.into_iter().map(|o| o.unwrap()).collect()
}
fn case(rt: &tokio::runtime::Runtime, dir: &Path, rec: &mut Recorder, files: &[FileSpec]) -> RunObs {
    let o = batch(rt, dir, &[files.to_vec()]).pop().unwrap();
    record_case(rec, files, &o);
    o
}
fn entry_at<'a>(o: &'a RunObs, v6: bool, i: usize) -> &'a Vec<Entry> { &o.rib[key_of(v6, i)].0 }

fn main() {
    let args = parse_args();
    let t0 = Instant::now();
    std::panic::set_hook(Box::new(|_| {}));
    let dir = std::env::temp_dir().join(format!("verif-{}-pipemrt", std::process::id()));
    std::fs::create_dir_all(&dir).unwrap();
    let rt = tokio::runtime::Builder::new_multi_thread().worker_threads(6).enable_all().build().unwrap();
    let mut rec = Recorder::new("queues of 1-4 generated MRT files (TABLE_DUMP_V2 peer index of 1-4 v4/v6 AS2/AS4 peers, a third of them known from earlier files, + 0-6 RIB_IPV4/6_UNICAST records of 1-3 entries; BGP4MP(_AS4) UPDATEs (conventional v4 / MP v6, announce+withdraw, overlaps), OPEN/KEEPALIVE/garbage, state changes, flaps = Established->Idle then announce again; plain/gzip/bzip2); every other queue has one file spoiled (missing, undecodable, multicast/generic RIB subtype, BGP4MP local subtype, unsupported MRT type, truncated record, empty RIB record, peer index out of range, BGP4MP after a dump, misplaced peer index); real MrtInRunner::run -> every Update through the gate -> real RibUnitRunner::process_update -> real Rib::match_prefix (exact, include_withdrawn true/false) for the 9 written and 3 never written prefixes; no generated queue looks a peer up while it may have two ingress ids (hash-map order); non-trivial = at least one fully importable file, >= 2 updates through the gate and >= 2 RIB entries afterwards; distinct = distinct case lines");

    if let Some(path) = &args.replay {
        for line in verif_harness::replay_cases(path) { if let Some(files) = line.strip_prefix("q|").and_then(parse_queue) { case(&rt, &dir, &mut rec, &files); } }
        rec.finish(&args, t0.elapsed().as_secs_f64());
        let _ = std::fs::remove_dir_all(&dir);
        return;
    }

    // 0. witnesses (the counterexamples of Props/PipeMrt.lean): decide the variants of this tree
    let w = |q: &str| parse_queue(q).unwrap();
    // dump, then Established->Idle of its peer: the peer's route must be reported withdrawn
    let o = case(&rt, &dir, &mut rec, &w("p:PI 0.65001;R4 0 0.1#p:SC1 0.65001 6 1"));
    rec.variant("sc", if entry_at(&o, false, 0).iter().any(|e| e.1 == 'W') { "repaired" } else { "as-written" });
    // a panicking file, then a good one: its entry must reach the RIB
    let o = case(&rt, &dir, &mut rec, &w("p:PI 0.65001;RO 3#p:PI 3.4200000001;R6 1 0.2"));
    rec.variant("iso", if o.responses == vec![true, true] && entry_at(&o, true, 1).len() == 1 { "repaired" } else { "as-written" });
    // one UPDATE that withdraws and announces 203.0.113.7/32: it must end active
    let o = case(&rt, &dir, &mut rec, &w("p:M1 0.65001 U4 4 4 1"));
    rec.variant("overlap", if entry_at(&o, false, 4).iter().any(|e| e.1 == 'A') { "repaired" } else { "as-written" });
    // a flap: announce, Established->Idle, announce again: the new route must be active
    let o = case(&rt, &dir, &mut rec, &w("p:M1 0.65001 U4 0 - 1;SC1 0.65001 6 1;M1 0.65001 U4 0 - 2"));
    rec.variant("flap", if entry_at(&o, false, 0).iter().any(|e| e.1 == 'A' && e.2 == "2") { "repaired" } else { "as-written" });
    // the same dump twice: does the peer get a second ingress id?
    let o = case(&rt, &dir, &mut rec, &w("p:PI 0.65001;R4 0 0.1#p:PI 0.65001;R4 0 0.1"));
    rec.variant("dumpreg", if o.next_id == 3 { "repaired" } else { "as-written" });
    // … and then the peer goes Idle: every route of the peer must be withdrawn (symmetric in which id the lookup answers)
    case(&rt, &dir, &mut rec, &w("p:PI 0.65001;R4 0 0.1#p:PI 0.65001;R4 0 0.1#p:SC1 0.65001 6 1"));
    // corpus: c16's probes seen at the RIB, plus RIB-level ones
    for q in ["p:PI 0.65001;R4 0 0.1;M1 0.65001 K#p:PI 3.4200000001;R4 1 0.1", "p:PI 0.65001;R4 0 3.1#p:PI 3.4200000001;R4 1 0.1", "p:M1 0.65001 U4 1 - 2;TR#p:M1 0.65001 G;M1 0.65001 O;L 6#p:M1 0.65001 U4 2 - 2",
              "p:M1 0.65001 U4 1 - 2;OT 12;M1 0.65001 U4 2 - 2", "m:-#x:PI 0.65001#p:PI 3.4200000001;R4 1 0.1", "g:M1 0.65001 U4 0,1 2 1;M0 0.65001 U4 3 - 2;M1 3.4200000001 U6 0 1 3;SC1 0.65001 6 1;M0 0.65001 U4 - 0 0", "p:PI -#p:-",
              "p:M1 0.65001 U4 4,1 4,2 1;M1 3.4200000001 U6 0,1 1,3 2;M0 0.65001 U4 2,2 2,2,0 3;SC1 0.65001 6 1", "g:PI 0.65001;R4 4 0.1#b:M1 0.65001 U4 4 4 2;M1 0.65001 U4 - 4 0",
              // two peers on one prefix, one goes Idle: only its route is withdrawn
              "p:PI 0.65001,1.65002;R4 0 0.1,1.2;R6 0 1.3#p:SC1 1.65002 6 1",
              // a dump cut by an unsupported subtype: the entries before it stay, nothing after it arrives
              "p:PI 0.65001,1.65002;R4 0 0.1;R4 1 1.2;RO 3;R4 2 0.3#p:M1 0.65001 U4 2 - 1",
              // state change of a peer that is not known yet, then its first announcement
              "p:SC1 2.64496 6 1;M1 2.64496 U6 0 - 3",
              // withdrawal of a never announced prefix, duplicate entries of one peer in one RIB record, default routes
              "p:PI 0.65001;R4 3 0.1,0.2;R6 2 0.3#p:M1 0.65001 U4 - 1 0;M1 0.65001 U6 2 - 1;M1 0.65001 U6 - 2 0"] {
        case(&rt, &dir, &mut rec, &w(q));
    }

    let mut g = Gen { rng: Rng::new(args.seed) };
    let n = if args.thorough { 40000 } else { 4000 };
    let qs: Vec<Vec<FileSpec>> = (0..n).map(|k| g.queue(k % 2 == 1)).collect();
    for chunk in qs.chunks(96) { let obs = batch(&rt, &dir, chunk); for (q, o) in chunk.iter().zip(&obs) { record_case(&mut rec, q, o); } }
    rec.finish(&args, t0.elapsed().as_secs_f64());
    let _ = std::fs::remove_dir_all(&dir);
}
