//! Bridge engine RotoRib: roto filters composed with the RIB, end to end.
//!
//! P cases: a generated `bgp-in` program (C10's grammar and generator) installed in the real bgp-in
//! `Processor::process` and a generated `rib-in-pre` program installed in the real `RibUnitRunner`;
//! a history of UPDATEs from several sources (one real in-memory BGP session per UPDATE, ingress id =
//! source), session-level `Withdraw` / `WithdrawBulk`; every `Update` leaving the ingress gate is
//! handed to the real `RibUnitRunner::process_update`; afterwards the real `Rib::match_prefix` for
//! every prefix of the pool (include_withdrawn = true and false) and everything that left the RIB
//! unit's gate. Lean driver: `rmodel-rotorib` (`Model/RotoRib.lean`).
//! F cases: the real `filter` unit (`units/filter/unit.rs`) update by update.
//!
//! Oracle (no Lean): a Rust evaluation of the *documented* predicate meaning of both programs on every
//! UPDATE / route, then the C01 replay (`verif_harness::rib::spec_observe`) of exactly the accepted
//! announcements and withdrawals; output calls in call order; forwarded updates = accepted payloads.
//!
//! The syntax / generator / reference evaluator below (down to the marker) are copied from `c10.rs`
//! (a bin cannot be imported); the case-line syntax of programs is the C10 driver's.
#![allow(dead_code)]
use std::collections::HashMap;
use std::net::{IpAddr, Ipv4Addr};
use std::sync::Arc;
use std::time::Instant;

use bytes::Bytes;
use inetnum::addr::Prefix;
use rotonda::payload::Update;
use rotonda::roto_runtime::types::{Output, OutputStreamMessage};
use rotonda::roto_runtime::create_runtime;
use rotonda::verif::roto as vr;
use rotonda::verif::rotorib as vfu;
use rotonda_store::prelude::multi::RouteStatus;
use rotonda_store::{MatchOptions, MatchType};
use routecore::bgp::message::{SessionConfig, UpdateMessage};
use verif_harness::rib as hr;
use verif_harness::{join, parse_args, rng::Rng, Recorder};

// ===================================================================== syntax

#[derive(Clone, Copy, Debug, PartialEq, Eq, Hash)]
struct P { addr: u32, len: u8 }
impl P {
    fn show(&self) -> String { format!("4.{}/{}", self.addr, self.len) }
    fn roto(&self) -> String { format!("{}/{}", Ipv4Addr::from(self.addr), self.len) }
    fn prefix(&self) -> Prefix { Prefix::new(IpAddr::V4(Ipv4Addr::from(self.addr)), self.len).unwrap() }
    fn parse(s: &str) -> P {
        let s = s.strip_prefix("4.").unwrap();
        let (a, l) = s.split_once('/').unwrap();
        P { addr: a.parse().unwrap(), len: l.parse().unwrap() }
    }
}

#[derive(Clone, Debug, PartialEq)]
enum Const { Asn(u32), Comm(u32), Pfx(P), U8(u8) }
#[derive(Clone, Debug, PartialEq)]
enum Arg { Lit(Const), Var(usize) }
#[derive(Clone, Debug, PartialEq)]
enum Pred { AspathContains(Arg), OriginIs(Arg), HasComm(Arg), HasAttr(Arg), PeerAsnIs(Arg), IsIbgp(Arg), IsRouteMon, IsPeerDown, PrefixIs(Arg) }
#[derive(Clone, Debug, PartialEq)]
enum Cond { T, F, Pred(Pred), Not(Box<Cond>), And(Box<Cond>, Box<Cond>), Or(Box<Cond>, Box<Cond>) }
#[derive(Clone, Debug, PartialEq)]
enum OutCall { LogPrefix(Arg), LogAsn(Arg), LogOrigin(Arg), LogComm(Arg), LogPeerDown, LogCustom(u32, u32), WriteEntry }
#[derive(Clone, Debug, PartialEq)]
enum Prog { Ret(bool), Fall, Out(OutCall, Box<Prog>), Ite(Cond, Box<Prog>, Box<Prog>), Blk(Box<Prog>, Box<Prog>) }
#[derive(Clone, Debug, PartialEq)]
struct Program { lets: Vec<Const>, body: Prog }

#[derive(Clone, Copy, Debug, PartialEq, Eq)]
enum Unit { Bgp, Bmp, Rib }
impl Unit {
    fn name(self) -> &'static str { match self { Unit::Bgp => "bgp", Unit::Bmp => "bmp", Unit::Rib => "rib" } }
    fn parse(s: &str) -> Unit { match s { "bgp" => Unit::Bgp, "bmp" => Unit::Bmp, _ => Unit::Rib } }
}

const WELLKNOWN: [(u32, &str); 4] = [(0xFFFFFF01, "NO_EXPORT"), (0xFFFFFF02, "NO_ADVERTISE"), (0xFFFFFF03, "NO_EXPORT_SUBCONFED"), (0xFFFFFF04, "NO_PEER")];

// ---- tokens (the Lean driver parses exactly this)
impl Const {
    fn tok(&self) -> String { match self { Const::Asn(n) => format!("a{n}"), Const::Comm(n) => format!("c{n}"), Const::Pfx(p) => format!("p{}", p.show()), Const::U8(n) => format!("u{n}") } }
    fn parse(s: &str) -> Const {
        let (k, r) = s.split_at(1);
        match k { "a" => Const::Asn(r.parse().unwrap()), "c" => Const::Comm(r.parse().unwrap()), "p" => Const::Pfx(P::parse(r)), _ => Const::U8(r.parse().unwrap()) }
    }
    /// roto source text; well-known communities by their registered constant name
    fn roto(&self) -> String {
        match self {
            Const::Asn(n) => format!("AS{n}"),
            Const::Comm(n) => WELLKNOWN.iter().find(|w| w.0 == *n).map(|w| w.1.to_string()).unwrap_or_else(|| format!("Community(0x{n:08x})")),
            Const::Pfx(p) => p.roto(),
            Const::U8(n) => format!("{n}"),
        }
    }
}
impl Arg {
    fn tok(&self) -> String { match self { Arg::Lit(c) => format!("l{}", c.tok()), Arg::Var(i) => format!("v{i}") } }
    fn parse(s: &str) -> Arg { if let Some(r) = s.strip_prefix('l') { Arg::Lit(Const::parse(r)) } else { Arg::Var(s[1..].parse().unwrap()) } }
    fn roto(&self) -> String { match self { Arg::Lit(c) => c.roto(), Arg::Var(i) => format!("k{i}") } }
    fn get<'a>(&'a self, env: &'a [Const]) -> &'a Const { match self { Arg::Lit(c) => c, Arg::Var(i) => &env[*i] } }
}
impl Pred {
    fn toks(&self, o: &mut Vec<String>) {
        match self {
            Pred::AspathContains(a) => { o.push("ac".into()); o.push(a.tok()) }
            Pred::OriginIs(a) => { o.push("or".into()); o.push(a.tok()) }
            Pred::HasComm(a) => { o.push("hc".into()); o.push(a.tok()) }
            Pred::HasAttr(a) => { o.push("ha".into()); o.push(a.tok()) }
            Pred::PeerAsnIs(a) => { o.push("pa".into()); o.push(a.tok()) }
            Pred::IsIbgp(a) => { o.push("ib".into()); o.push(a.tok()) }
            Pred::IsRouteMon => o.push("rm".into()),
            Pred::IsPeerDown => o.push("pd".into()),
            Pred::PrefixIs(a) => { o.push("px".into()); o.push(a.tok()) }
        }
    }
    fn roto(&self, u: Unit) -> String {
        let m = match u { Unit::Rib => "route", _ => "msg" };
        match self {
            Pred::AspathContains(a) => format!("{m}.aspath_contains({})", a.roto()),
            Pred::OriginIs(a) => format!("{m}.match_aspath_origin({})", a.roto()),
            Pred::HasComm(a) => format!("{m}.contains_community({})", a.roto()),
            Pred::HasAttr(a) => format!("{m}.has_attribute({})", a.roto()),
            Pred::PeerAsnIs(a) => format!("prov.peer_asn() == {}", a.roto()),
            Pred::IsIbgp(a) => format!("{m}.is_ibgp({})", a.roto()),
            Pred::IsRouteMon => format!("{m}.is_route_monitoring()"),
            Pred::IsPeerDown => format!("{m}.is_peer_down()"),
            Pred::PrefixIs(a) => format!("{m}.prefix_matches({})", a.roto()),
        }
    }
}
impl Cond {
    fn toks(&self, o: &mut Vec<String>) {
        match self {
            Cond::T => o.push("t".into()), Cond::F => o.push("f".into()),
            Cond::Pred(p) => { o.push("p".into()); p.toks(o) }
            Cond::Not(c) => { o.push("~".into()); c.toks(o) }
            Cond::And(a, b) => { o.push("*".into()); a.toks(o); b.toks(o) }
            Cond::Or(a, b) => { o.push("+".into()); a.toks(o); b.toks(o) }
        }
    }
    fn roto(&self, u: Unit) -> String {
        match self {
            Cond::T => "true".into(), Cond::F => "false".into(),
            Cond::Pred(p) => format!("({})", p.roto(u)),
            Cond::Not(c) => format!("(not {})", c.roto(u)),
            Cond::And(a, b) => format!("({} && {})", a.roto(u), b.roto(u)),
            Cond::Or(a, b) => format!("({} || {})", a.roto(u), b.roto(u)),
        }
    }
}
impl OutCall {
    fn toks(&self, o: &mut Vec<String>) {
        match self {
            OutCall::LogPrefix(a) => { o.push("lp".into()); o.push(a.tok()) }
            OutCall::LogAsn(a) => { o.push("la".into()); o.push(a.tok()) }
            OutCall::LogOrigin(a) => { o.push("lo".into()); o.push(a.tok()) }
            OutCall::LogComm(a) => { o.push("lc".into()); o.push(a.tok()) }
            OutCall::LogPeerDown => o.push("pd".into()),
            OutCall::LogCustom(i, v) => { o.push("cu".into()); o.push(i.to_string()); o.push(v.to_string()) }
            OutCall::WriteEntry => o.push("we".into()),
        }
    }
    fn roto(&self) -> String {
        match self {
            OutCall::LogPrefix(a) => format!("output.log_prefix({});", a.roto()),
            OutCall::LogAsn(a) => format!("output.log_matched_asn({});", a.roto()),
            OutCall::LogOrigin(a) => format!("output.log_matched_origin({});", a.roto()),
            OutCall::LogComm(a) => format!("output.log_matched_community({});", a.roto()),
            OutCall::LogPeerDown => "output.log_peer_down();".into(),
            OutCall::LogCustom(i, v) => format!("output.log_custom({i}, {v});"),
            OutCall::WriteEntry => "output.write_entry();".into(),
        }
    }
}
impl Prog {
    fn toks(&self, o: &mut Vec<String>) {
        match self {
            Prog::Ret(true) => o.push("A".into()), Prog::Ret(false) => o.push("R".into()), Prog::Fall => o.push("F".into()),
            Prog::Out(c, k) => { o.push("O".into()); c.toks(o); k.toks(o) }
            Prog::Ite(c, t, e) => { o.push("I".into()); c.toks(o); t.toks(o); e.toks(o) }
            Prog::Blk(b, k) => { o.push("B".into()); b.toks(o); k.toks(o) }
        }
    }
    fn roto(&self, u: Unit, ind: usize, o: &mut String) {
        let pad = "  ".repeat(ind);
        match self {
            Prog::Ret(true) => { o.push_str(&pad); o.push_str("accept\n") }
            Prog::Ret(false) => { o.push_str(&pad); o.push_str("reject\n") }
            Prog::Fall => {}
            Prog::Out(c, k) => { o.push_str(&pad); o.push_str(&c.roto()); o.push('\n'); k.roto(u, ind, o) }
            Prog::Ite(c, t, e) => {
                o.push_str(&format!("{pad}if {} {{\n", c.roto(u)));
                t.roto(u, ind + 1, o);
                if **e == Prog::Fall { o.push_str(&format!("{pad}}}\n")); } else {
                    o.push_str(&format!("{pad}}} else {{\n"));
                    e.roto(u, ind + 1, o);
                    o.push_str(&format!("{pad}}}\n"));
                }
            }
            Prog::Blk(b, k) => { b.roto(u, ind, o); k.roto(u, ind, o) }
        }
    }
    fn closed(&self) -> bool {
        match self { Prog::Ret(_) => true, Prog::Fall => false, Prog::Out(_, k) => k.closed(), Prog::Ite(_, t, e) => t.closed() && e.closed(), Prog::Blk(b, k) => b.closed() || k.closed() }
    }
}
impl Program {
    fn tok(&self) -> String {
        let mut o = vec![format!("L{}", self.lets.len())];
        for c in &self.lets { o.push(c.tok()); }
        self.body.toks(&mut o);
        o.join(" ")
    }
    fn roto(&self, u: Unit) -> String {
        let mut s = match u {
            Unit::Bgp => "filter bgp-in(msg: BgpMsg, prov: Provenance) {\n".to_string(),
            Unit::Bmp => "filter bmp-in(msg: BmpMsg, prov: Provenance) {\n".to_string(),
            Unit::Rib => "filter rib-in-pre(route: Route) {\n".to_string(),
        };
        for (i, c) in self.lets.iter().enumerate() { s.push_str(&format!("  let k{i} = {};\n", c.roto())); }
        self.body.roto(u, 1, &mut s);
        s.push_str("}\n");
        s
    }
    fn parse(s: &str) -> Program {
        let t: Vec<&str> = s.split_whitespace().collect();
        let mut i = 0;
        let n: usize = t[0][1..].parse().unwrap();
        i += 1;
        let lets = (0..n).map(|_| { i += 1; Const::parse(t[i - 1]) }).collect();
        let body = parse_prog(&t, &mut i);
        Program { lets, body }
    }
}
fn parse_pred(t: &[&str], i: &mut usize) -> Pred {
    let k = t[*i]; *i += 1;
    let mut arg = || { *i += 1; Arg::parse(t[*i - 1]) };
    match k { "ac" => Pred::AspathContains(arg()), "or" => Pred::OriginIs(arg()), "hc" => Pred::HasComm(arg()), "ha" => Pred::HasAttr(arg()), "pa" => Pred::PeerAsnIs(arg()), "ib" => Pred::IsIbgp(arg()), "rm" => Pred::IsRouteMon, "pd" => Pred::IsPeerDown, _ => Pred::PrefixIs(arg()) }
}
fn parse_cond(t: &[&str], i: &mut usize) -> Cond {
    let k = t[*i]; *i += 1;
    match k {
        "t" => Cond::T, "f" => Cond::F, "p" => Cond::Pred(parse_pred(t, i)),
        "~" => Cond::Not(Box::new(parse_cond(t, i))),
        "*" => { let a = parse_cond(t, i); let b = parse_cond(t, i); Cond::And(Box::new(a), Box::new(b)) }
        _ => { let a = parse_cond(t, i); let b = parse_cond(t, i); Cond::Or(Box::new(a), Box::new(b)) }
    }
}
fn parse_out(t: &[&str], i: &mut usize) -> OutCall {
    let k = t[*i]; *i += 1;
    let mut arg = || { *i += 1; Arg::parse(t[*i - 1]) };
    match k {
        "lp" => OutCall::LogPrefix(arg()), "la" => OutCall::LogAsn(arg()), "lo" => OutCall::LogOrigin(arg()), "lc" => OutCall::LogComm(arg()),
        "pd" => OutCall::LogPeerDown, "we" => OutCall::WriteEntry,
        _ => { *i += 2; OutCall::LogCustom(t[*i - 2].parse().unwrap(), t[*i - 1].parse().unwrap()) }
    }
}
fn parse_prog(t: &[&str], i: &mut usize) -> Prog {
    let k = t[*i]; *i += 1;
    match k {
        "A" => Prog::Ret(true), "R" => Prog::Ret(false), "F" => Prog::Fall,
        "O" => { let c = parse_out(t, i); let k = parse_prog(t, i); Prog::Out(c, Box::new(k)) }
        "I" => { let c = parse_cond(t, i); let a = parse_prog(t, i); let b = parse_prog(t, i); Prog::Ite(c, Box::new(a), Box::new(b)) }
        _ => { let a = parse_prog(t, i); let b = parse_prog(t, i); Prog::Blk(Box::new(a), Box::new(b)) }
    }
}

// ===================================================================== inputs

#[derive(Clone, Debug, PartialEq)]
enum Hop { Asn(u32), Set(Vec<u32>) }
#[derive(Clone, Debug, PartialEq, Default)]
struct Upd { aspath: Option<Vec<Hop>>, comms: Vec<u32>, extra: Vec<u8>, nlri: Vec<P>, wd: Vec<P> }

fn dots<T: std::fmt::Display>(xs: impl IntoIterator<Item = T>) -> String { let s = join(xs, "."); if s.is_empty() { "-".into() } else { s } }
fn undots(s: &str) -> Vec<&str> { if s == "-" { vec![] } else { s.split('.').collect() } }

impl Upd {
    fn has_attrs(&self) -> bool { !self.nlri.is_empty() || self.aspath.is_some() || !self.comms.is_empty() || !self.extra.is_empty() }
    /// type codes the encoder writes, in order
    fn codes(&self) -> Vec<u8> {
        let mut c = vec![];
        if self.has_attrs() { c.push(1); }
        if self.aspath.is_some() { c.push(2); }
        if !self.nlri.is_empty() { c.push(3); }
        for x in [4u8, 5] { if self.extra.contains(&x) { c.push(x); } }
        if !self.comms.is_empty() { c.push(8); }
        for x in [32u8, 35] { if self.extra.contains(&x) { c.push(x); } }
        c
    }
    fn tok(&self) -> String {
        let h = match &self.aspath {
            None => "~".to_string(),
            Some(h) => dots(h.iter().map(|x| match x { Hop::Asn(a) => a.to_string(), Hop::Set(s) => format!("s{}", join(s.iter(), ":")) })),
        };
        let ps = |v: &Vec<P>| { let s = join(v.iter().map(|p| p.show()), ","); if s.is_empty() { "-".to_string() } else { s } };
        format!("h={} c={} t={} x={} n={} w={}", h, dots(self.comms.iter()), dots(self.codes().iter()), dots(self.extra.iter()), ps(&self.nlri), ps(&self.wd))
    }
    fn parse(kv: &std::collections::HashMap<&str, &str>) -> Upd {
        let aspath = match kv["h"] { "~" => None, h => Some(undots(h).iter().map(|x| if let Some(r) = x.strip_prefix('s') { Hop::Set(r.split(':').map(|y| y.parse().unwrap()).collect()) } else { Hop::Asn(x.parse().unwrap()) }).collect()) };
        let ps = |s: &str| -> Vec<P> { if s == "-" { vec![] } else { s.split(',').map(P::parse).collect() } };
        Upd { aspath, comms: undots(kv["c"]).iter().map(|x| x.parse().unwrap()).collect(), extra: undots(kv["x"]).iter().map(|x| x.parse().unwrap()).collect(), nlri: ps(kv["n"]), wd: ps(kv["w"]) }
    }
    fn encode(&self, four: bool) -> Bytes {
        fn pfx(buf: &mut Vec<u8>, p: &P) { buf.push(p.len); let n = (p.len as usize + 7) / 8; buf.extend_from_slice(&p.addr.to_be_bytes()[..n]); }
        fn attr(buf: &mut Vec<u8>, flags: u8, code: u8, val: &[u8]) { buf.push(flags); buf.push(code); buf.push(val.len() as u8); buf.extend_from_slice(val); }
        let mut wd = vec![]; for p in &self.wd { pfx(&mut wd, p); }
        let mut at = vec![];
        if self.has_attrs() { attr(&mut at, 0x40, 1, &[0]); }
        if let Some(h) = &self.aspath {
            let mut v = vec![];
            let put = |v: &mut Vec<u8>, a: u32| if four { v.extend_from_slice(&a.to_be_bytes()) } else { v.extend_from_slice(&(a as u16).to_be_bytes()) };
            let mut i = 0;
            while i < h.len() {
                match &h[i] {
                    Hop::Set(s) => { v.push(1); v.push(s.len() as u8); for a in s { put(&mut v, *a); } i += 1; }
                    Hop::Asn(_) => {
                        let mut j = i; while j < h.len() && matches!(h[j], Hop::Asn(_)) { j += 1; }
                        v.push(2); v.push((j - i) as u8);
                        for x in &h[i..j] { if let Hop::Asn(a) = x { put(&mut v, *a); } }
                        i = j;
                    }
                }
            }
            attr(&mut at, 0x40, 2, &v);
        }
        if !self.nlri.is_empty() { attr(&mut at, 0x40, 3, &[10, 0, 0, 1]); }
        if self.extra.contains(&4) { attr(&mut at, 0x80, 4, &[0, 0, 0, 5]); }
        if self.extra.contains(&5) { attr(&mut at, 0x40, 5, &[0, 0, 0, 100]); }
        if !self.comms.is_empty() { let mut v = vec![]; for c in &self.comms { v.extend_from_slice(&c.to_be_bytes()); } attr(&mut at, 0xC0, 8, &v); }
        if self.extra.contains(&32) { attr(&mut at, 0xC0, 32, &[0, 0, 0xfd, 0xe8, 0, 0, 0, 1, 0, 0, 0, 2]); }
        if self.extra.contains(&35) { attr(&mut at, 0xC0, 35, &[0, 0, 0xfd, 0xe8]); }
        let mut nl = vec![]; for p in &self.nlri { pfx(&mut nl, p); }
        let mut b = vec![0xFFu8; 16];
        let total = 19 + 2 + wd.len() + 2 + at.len() + nl.len();
        b.extend_from_slice(&(total as u16).to_be_bytes()); b.push(2);
        b.extend_from_slice(&(wd.len() as u16).to_be_bytes()); b.extend_from_slice(&wd);
        b.extend_from_slice(&(at.len() as u16).to_be_bytes()); b.extend_from_slice(&at);
        b.extend_from_slice(&nl);
        Bytes::from(b)
    }
}
fn kvs(s: &str) -> std::collections::HashMap<&str, &str> { s.split_whitespace().filter_map(|t| t.split_once('=')).collect() }
// ============================================================== reference spec

/// What the predicates are documented to see (independent of the Lean model).
struct SpecView<'a> { upd: Option<&'a Upd>, pfx: Option<P>, peer_asn: u32, pph_asn: Option<u32>, is_rm: bool, is_pd: bool }

fn spec_pred(p: &Pred, env: &[Const], v: &SpecView) -> bool {
    let asn = |a: &Arg| if let Const::Asn(n) = a.get(env) { Some(*n) } else { None };
    match p {
        Pred::AspathContains(a) => match (asn(a), v.upd.and_then(|u| u.aspath.as_ref())) { (Some(n), Some(h)) => h.iter().any(|x| *x == Hop::Asn(n)), _ => false },
        Pred::OriginIs(a) => match (asn(a), v.upd.and_then(|u| u.aspath.as_ref())) { (Some(n), Some(h)) => h.last() == Some(&Hop::Asn(n)), _ => false },
        Pred::HasComm(a) => match (a.get(env), v.upd) { (Const::Comm(c), Some(u)) => u.comms.contains(c), _ => false },
        Pred::HasAttr(a) => match (a.get(env), v.upd) { (Const::U8(t), Some(u)) => u.codes().contains(t), _ => false },
        Pred::PeerAsnIs(a) => asn(a) == Some(v.peer_asn),
        Pred::IsIbgp(a) => v.pph_asn.is_some() && asn(a) == v.pph_asn,
        Pred::IsRouteMon => v.is_rm,
        Pred::IsPeerDown => v.is_pd,
        Pred::PrefixIs(a) => match (a.get(env), v.pfx) { (Const::Pfx(q), Some(r)) => *q == r, _ => false },
    }
}
fn spec_cond(c: &Cond, env: &[Const], v: &SpecView) -> bool {
    match c { Cond::T => true, Cond::F => false, Cond::Pred(p) => spec_pred(p, env, v), Cond::Not(c) => !spec_cond(c, env, v), Cond::And(a, b) => spec_cond(a, env, v) && spec_cond(b, env, v), Cond::Or(a, b) => spec_cond(a, env, v) || spec_cond(b, env, v) }
}
fn spec_out(o: &OutCall, env: &[Const]) -> String {
    match o {
        OutCall::LogPrefix(a) => if let Const::Pfx(p) = a.get(env) { format!("pfx:{}", p.show()) } else { "?".into() },
        OutCall::LogAsn(a) => if let Const::Asn(n) = a.get(env) { format!("asn:{n}") } else { "?".into() },
        OutCall::LogOrigin(a) => if let Const::Asn(n) = a.get(env) { format!("org:{n}") } else { "?".into() },
        OutCall::LogComm(a) => if let Const::Comm(n) = a.get(env) { format!("com:{n}") } else { "?".into() },
        OutCall::LogPeerDown => "pd".into(),
        OutCall::LogCustom(i, v) => format!("cus:{i}:{v}"),
        OutCall::WriteEntry => "ent".into(),
    }
}
fn spec_exec(p: &Prog, env: &[Const], v: &SpecView, outs: &mut Vec<String>) -> Option<bool> {
    match p {
        Prog::Ret(x) => Some(*x), Prog::Fall => None,
        Prog::Out(o, k) => { outs.push(spec_out(o, env)); spec_exec(k, env, v, outs) }
        Prog::Ite(c, t, e) => if spec_cond(c, env, v) { spec_exec(t, env, v, outs) } else { spec_exec(e, env, v, outs) },
        Prog::Blk(b, k) => match spec_exec(b, env, v, outs) { Some(x) => Some(x), None => spec_exec(k, env, v, outs) },
    }
}
fn spec_run(p: &Program, v: &SpecView) -> (bool, Vec<String>) { let mut o = vec![]; let r = spec_exec(&p.body, &p.lets, v, &mut o); (r.unwrap_or(true), o) }
// ================================================================ real runtime

type BgpFunc = vr::bgp::BgpInFunc;
type BmpFunc = vr::bmp::BmpInFunc;
type RibFunc = vr::rib::RibInPreFunc;

fn compile(src: &str) -> Result<roto::Compiled, String> {
    let src2 = src.to_string();
    match std::panic::catch_unwind(move || roto::test_file("gen.roto", &src2, 0).compile(create_runtime().unwrap(), usize::BITS / 8).map_err(|e| e.to_string())) {
        Ok(r) => r,
        Err(_) => Err("compiler-panic".into()),
    }
}
fn show_output(o: &Output) -> String {
    match o {
        Output::Prefix(p) => match p.addr() { IpAddr::V4(a) => format!("pfx:4.{}/{}", u32::from(a), p.len()), IpAddr::V6(a) => format!("pfx:6.{}/{}", u128::from(a), p.len()) },
        Output::Asn(a) => format!("asn:{}", a.into_u32()),
        Output::Origin(a) => format!("org:{}", a.into_u32()),
        Output::Community(c) => format!("com:{c}"),
        Output::PeerDown => "pd".into(),
        Output::Custom((i, v)) => format!("cus:{i}:{v}"),
        Output::Entry(_) => "ent".into(),
    }
}
fn show_obs(v: bool, outs: &[String]) -> String { format!("{} {}", if v { "A" } else { "R" }, if outs.is_empty() { "-".to_string() } else { outs.join(",") }) }

// canonical rendering of what reaches the gate
fn show_osm(m: &OutputStreamMessage) -> String {
    let rec = serde_json::to_value(m.get_record()).unwrap_or(serde_json::Value::Null);
    match m.get_topic().as_str() {
        "custom" => format!("custom:{}:{}", rec["id"], rec["value"]),
        t => t.to_string(),
    }
}
fn show_update(u: &Update) -> String {
    match u {
        Update::Single(_) => "single".into(),
        Update::Bulk(v) => format!("bulk:{}", v.len()),
        Update::Withdraw(..) => "withdraw".into(),
        Update::WithdrawBulk(v) => format!("wbulk:{}", v.len()),
        Update::OutputStream(v) => format!("os({})", join(v.iter().map(show_osm), ",")),
        Update::UpstreamStatusChange(_) => "eos".into(),
        Update::QueryResult(..) => "qr".into(),
    }
}
/// spec-level topic of one output token (what the drain loops are documented to forward)
fn osm_of_output(o: &str) -> String {
    let k = o.split(':').next().unwrap();
    match k { "pfx" => "prefix".into(), "asn" => "asn".into(), "org" => "origin".into(), "com" => "community".into(), "pd" => "peerdown".into(), "ent" => "log_entry".into(), _ => format!("custom:{}", o.split_once(':').unwrap().1) }
}
fn emitted_of(downs: &[String]) -> Vec<String> {
    downs.iter().filter_map(|d| d.strip_prefix("os(").and_then(|r| r.strip_suffix(')'))).flat_map(|r| r.split(',').filter(|x| !x.is_empty()).map(|x| x.to_string()).collect::<Vec<_>>()).collect()
}
fn routing_of(downs: &[String]) -> Vec<String> { downs.iter().filter(|d| !d.starts_with("os(")).cloned().collect() }
struct Rt(tokio::runtime::Runtime);
impl Rt { fn new() -> Rt { Rt(tokio::runtime::Builder::new_current_thread().enable_all().build().unwrap()) } }

fn take(c: &Arc<vr::Collector>) -> Vec<String> { c.0.lock().unwrap().drain(..).map(|u| show_update(&u)).collect() }
// ================================================================== generator

const ASNS: [u32; 7] = [1, 2, 200, 12345, 64512, 65000, 65536];
const COMMS: [u32; 6] = [0xFFFFFF01, 0xFFFFFF04, 0xffff029a, 0xfde80001, 77, 0xFFFFFF02];
const PFXS: [P; 5] = [P { addr: 0x0A000000, len: 8 }, P { addr: 0x0A010000, len: 16 }, P { addr: 0xC0000200, len: 24 }, P { addr: 0xB9318D00, len: 24 }, P { addr: 0, len: 0 }];
const CODES: [u8; 10] = [1, 2, 3, 4, 5, 8, 14, 32, 35, 99];

struct Gen { rng: Rng }
impl Gen {
    fn asn(&mut self, legacy: bool) -> u32 { loop { let a = *self.rng.pick(&ASNS); if !legacy || a < 65536 { return a; } } }
    fn upd(&mut self, legacy: bool) -> Upd {
        let aspath = match self.rng.below(10) {
            0 => None,
            1 => Some(vec![]),
            _ => {
                let n = self.rng.range(1, 4);
                let mut h: Vec<Hop> = (0..n).map(|_| Hop::Asn(self.asn(legacy))).collect();
                if !legacy && self.rng.chance(1, 8) { let s = Hop::Set((0..self.rng.range(1, 2)).map(|_| self.asn(legacy)).collect()); let at = self.rng.below(h.len() as u64 + 1) as usize; h.insert(at, s); }
                Some(h)
            }
        };
        let comms = if self.rng.chance(1, 2) { vec![] } else { (0..self.rng.range(1, 3)).map(|_| *self.rng.pick(&COMMS)).collect() };
        let extra: Vec<u8> = [4u8, 5, 32, 35].into_iter().filter(|_| self.rng.chance(1, 3)).collect();
        let mut pool: Vec<P> = PFXS.to_vec();
        let mut pickp = |g: &mut Gen, n: u64| -> Vec<P> { (0..n).filter_map(|_| if pool.is_empty() { None } else { let i = g.rng.below(pool.len() as u64) as usize; Some(pool.remove(i)) }).collect() };
        let nn = self.rng.below(4); let nlri = pickp(self, nn);
        let nw = self.rng.below(3); let wd = pickp(self, nw);
        Upd { aspath, comms, extra, nlri, wd }
    }
    fn arg(&mut self, lets: &[Const], kind: u8) -> Arg {
        // kind: 0 asn 1 comm 2 pfx 3 u8; prefer a let-bound constant of the right type half of the time
        let idx: Vec<usize> = lets.iter().enumerate().filter(|(_, c)| matches!((kind, c), (0, Const::Asn(_)) | (1, Const::Comm(_)) | (2, Const::Pfx(_)) | (3, Const::U8(_)))).map(|(i, _)| i).collect();
        if !idx.is_empty() && self.rng.chance(1, 2) { return Arg::Var(*self.rng.pick(&idx)); }
        Arg::Lit(self.konst(kind))
    }
    fn konst(&mut self, kind: u8) -> Const {
        match kind { 0 => Const::Asn(*self.rng.pick(&ASNS)), 1 => Const::Comm(*self.rng.pick(&COMMS)), 2 => Const::Pfx(*self.rng.pick(&PFXS)), _ => Const::U8(*self.rng.pick(&CODES)) }
    }
    fn pred(&mut self, u: Unit, lets: &[Const]) -> Pred {
        let n = match u { Unit::Bgp => 5, Unit::Bmp => 8, Unit::Rib => 5 };
        match (u, self.rng.below(n)) {
            (_, 0) => Pred::AspathContains(self.arg(lets, 0)),
            (_, 1) => Pred::OriginIs(self.arg(lets, 0)),
            (_, 2) => Pred::HasComm(self.arg(lets, 1)),
            (_, 3) => Pred::HasAttr(self.arg(lets, 3)),
            (Unit::Rib, _) => Pred::PrefixIs(self.arg(lets, 2)),
            (_, 4) => Pred::PeerAsnIs(self.arg(lets, 0)),
            (_, 5) => Pred::IsIbgp(self.arg(lets, 0)),
            (_, 6) => Pred::IsRouteMon,
            _ => Pred::IsPeerDown,
        }
    }
    fn cond(&mut self, u: Unit, lets: &[Const], depth: u32) -> Cond {
        let k = if depth == 0 { self.rng.below(12) } else { self.rng.below(20) };
        match k {
            0 => Cond::T, 1 => Cond::F,
            2..=11 => Cond::Pred(self.pred(u, lets)),
            12..=14 => Cond::Not(Box::new(self.cond(u, lets, depth - 1))),
            15..=17 => Cond::And(Box::new(self.cond(u, lets, depth - 1)), Box::new(self.cond(u, lets, depth - 1))),
            _ => Cond::Or(Box::new(self.cond(u, lets, depth - 1)), Box::new(self.cond(u, lets, depth - 1))),
        }
    }
    fn out(&mut self, lets: &[Const]) -> OutCall {
        match self.rng.below(8) {
            0 => OutCall::LogPrefix(self.arg(lets, 2)), 1 => OutCall::LogAsn(self.arg(lets, 0)), 2 => OutCall::LogOrigin(self.arg(lets, 0)),
            3 => OutCall::LogComm(self.arg(lets, 1)), 4 => if self.rng.chance(1, 4) { OutCall::LogPeerDown } else { OutCall::WriteEntry }, 5 => OutCall::LogCustom(7, self.rng.below(9) as u32), 6 => OutCall::LogCustom(self.rng.below(5) as u32, self.rng.below(100) as u32),
            _ => OutCall::WriteEntry,
        }
    }
    /// A statement that falls through on at least one path. roto 0.4.0 treats an `if/else` of which
    /// only one branch returns as diverging (type error "unreachable", or a panic in codegen), so early
    /// returns are only generated as `if c { …; accept|reject }` without `else`; a two-branch
    /// `if/else` in statement position contains no return at all.
    fn stmt(&mut self, u: Unit, lets: &[Const], depth: u32, allow_ret: bool, budget: &mut i32) -> Prog {
        let c = self.cond(u, lets, 2);
        if self.rng.chance(1, 2) {
            let t = self.seq(u, lets, depth.saturating_sub(1), 1, false, budget);
            let e = self.seq(u, lets, depth.saturating_sub(1), 1, false, budget);
            Prog::Ite(c, Box::new(t), Box::new(e))
        } else {
            let t = self.seq(u, lets, depth.saturating_sub(1), 1, allow_ret, budget);
            Prog::Ite(c, Box::new(t), Box::new(Prog::Fall))
        }
    }
    /// mode 0: every path must end in accept/reject; mode 1: open (may end in a return only if `allow_ret`)
    fn seq(&mut self, u: Unit, lets: &[Const], depth: u32, mode: u8, allow_ret: bool, budget: &mut i32) -> Prog {
        *budget -= 1;
        let stop = *budget <= 0 || depth == 0;
        let k = if stop { self.rng.below(2) } else { self.rng.below(10) };
        match k {
            0 | 1 => if mode == 0 { Prog::Ret(self.rng.chance(3, 5)) } else if allow_ret && self.rng.chance(1, 3) { Prog::Ret(self.rng.chance(1, 2)) } else { Prog::Fall },
            2..=4 => { let o = self.out(lets); Prog::Out(o, Box::new(self.seq(u, lets, depth, mode, allow_ret, budget))) }
            5 | 6 if mode == 0 => { let c = self.cond(u, lets, 2); let t = self.seq(u, lets, depth - 1, 0, true, budget); let e = self.seq(u, lets, depth - 1, 0, true, budget); Prog::Ite(c, Box::new(t), Box::new(e)) }
            _ => { let st = self.stmt(u, lets, depth, mode == 0 || allow_ret, budget); let k = self.seq(u, lets, depth, mode, allow_ret, budget); Prog::Blk(Box::new(st), Box::new(k)) }
        }
    }
    fn program(&mut self, u: Unit) -> Program {
        let nl = self.rng.below(4);
        let lets: Vec<Const> = (0..nl).map(|_| { let k = self.rng.below(4) as u8; self.konst(k) }).collect();
        let mut budget = self.rng.range(4, 14) as i32;
        let body = self.seq(u, &lets, 3, 0, true, &mut budget);
        Program { lets, body }
    }
}
// ======================================================= end of the part copied from c10.rs

/// the path-attribute section `Upd::encode` writes (what the store keeps as the route's attribute blob)
fn attr_section(pdu: &[u8]) -> Vec<u8> {
    let wl = u16::from_be_bytes([pdu[19], pdu[20]]) as usize;
    let al = u16::from_be_bytes([pdu[21 + wl], pdu[22 + wl]]) as usize;
    pdu[23 + wl..23 + wl + al].to_vec()
}

#[derive(Clone, Debug, PartialEq)]
enum Evt { Upd { m: u32, aid: u32, n: Vec<P>, w: Vec<P> }, Down(u32), DownBulk(Vec<u32>) }

fn plist(v: &[P]) -> String { if v.is_empty() { "-".into() } else { join(v.iter().map(|p| p.show()), ",") } }
fn parse_plist(s: &str) -> Vec<P> { if s == "-" { vec![] } else { s.split(',').map(P::parse).collect() } }

impl Evt {
    fn tok(&self) -> String {
        match self {
            Evt::Upd { m, aid, n, w } => format!("u:{m}:{aid}:{}:{}", plist(n), plist(w)),
            Evt::Down(m) => format!("d:{m}"),
            Evt::DownBulk(ms) => format!("D:{}", if ms.is_empty() { "-".to_string() } else { join(ms.iter(), ",") }),
        }
    }
    fn parse(s: &str) -> Evt {
        let p: Vec<&str> = s.split(':').collect();
        match p[0] {
            "u" => Evt::Upd { m: p[1].parse().unwrap(), aid: p[2].parse().unwrap(), n: parse_plist(p[3]), w: parse_plist(p[4]) },
            "d" => Evt::Down(p[1].parse().unwrap()),
            _ => Evt::DownBulk(if p[1] == "-" { vec![] } else { p[1].split(',').map(|x| x.parse().unwrap()).collect() }),
        }
    }
}

/// One attribute set of the table: AS_PATH, communities, optional attributes (`Upd` without NLRI).
#[derive(Clone, Debug, PartialEq)]
struct Attrs { aspath: Option<Vec<Hop>>, comms: Vec<u32>, extra: Vec<u8> }
impl Attrs {
    fn upd(&self, n: &[P], w: &[P]) -> Upd { Upd { aspath: self.aspath.clone(), comms: self.comms.clone(), extra: self.extra.clone(), nlri: n.to_vec(), wd: w.to_vec() } }
    fn empty() -> Attrs { Attrs { aspath: None, comms: vec![], extra: vec![] } }
}

struct Case { ing: Option<Program>, pre: Option<Program>, table: Vec<(u32, Attrs)>, queries: Vec<P>, events: Vec<Evt> }

impl Case {
    fn attrs(&self, aid: u32) -> Attrs { self.table.iter().find(|e| e.0 == aid).map(|e| e.1.clone()).unwrap_or_else(Attrs::empty) }
    fn line(&self) -> String {
        let table = if self.table.is_empty() { "-".to_string() } else {
            join(self.table.iter().map(|(a, at)| { let u = at.upd(&[PFXS[0]], &[]); let t = u.tok(); let cut = t.find(" x=").unwrap(); format!("a={a} {} x={}", &t[..cut], dots(at.extra.iter())) }), ";")
        };
        format!("P|{}|{}|{}|{}|{}", self.ing.as_ref().map(|p| p.tok()).unwrap_or("-".into()), self.pre.as_ref().map(|p| p.tok()).unwrap_or("-".into()),
            table, join(self.queries.iter().map(|p| p.show()), " "), join(self.events.iter().map(|e| e.tok()), " "))
    }
    fn parse(line: &str) -> Case {
        let f: Vec<&str> = line.split('|').collect();
        let prog = |s: &str| if s == "-" { None } else { Some(Program::parse(s)) };
        let table = if f[3] == "-" { vec![] } else { f[3].split(';').map(|e| { let kv = kvs(e); let mut kv2 = kv.clone(); kv2.insert("n", "-"); kv2.insert("w", "-"); let u = Upd::parse(&kv2); (kv["a"].parse().unwrap(), Attrs { aspath: u.aspath, comms: u.comms, extra: u.extra }) }).collect() };
        Case { ing: prog(f[1]), pre: prog(f[2]), table, queries: f[4].split_whitespace().map(P::parse).collect(), events: f[5].split_whitespace().map(Evt::parse).collect() }
    }
}

fn hp(p: &P) -> hr::Pfx { hr::Pfx::v4(p.addr.to_be_bytes(), p.len) }

// ------------------------------------------------------------------ the real pipeline

struct RealRun { answers: String, downs: Vec<String>, panicked: Option<String> }

fn panic_text(e: Box<dyn std::any::Any + Send>) -> String {
    e.downcast_ref::<String>().cloned().or_else(|| e.downcast_ref::<&str>().map(|s| s.to_string())).unwrap_or_default()
}

fn run_real(rt: &Rt, case: &Case) -> Option<RealRun> {
    let mut ing_c = match &case.ing { Some(p) => Some(compile(&p.roto(Unit::Bgp)).ok()?), None => None };
    let mut pre_c = match &case.pre { Some(p) => Some(compile(&p.roto(Unit::Rib)).ok()?), None => None };
    let pre_f: Option<RibFunc> = pre_c.as_mut().map(|c| c.get_function("rib-in-pre").unwrap());
    let (runner, mut agent) = vr::rib::mk_runner(pre_f);
    let out = Arc::new(vr::Collector::default());
    let mut link = agent.create_link();
    link.set_direct_update_target(out.clone());
    rt.0.block_on(async {
        tokio::select! {
            _ = link.connect(false) => {}
            _ = async { loop { vr::rib::gate_process(&runner).await; } } => {}
        }
    });
    let mut blobs: HashMap<Vec<u8>, u32> = HashMap::new();
    let mut panicked = None;
    let feed = |u: Update, panicked: &mut Option<String>| {
        if panicked.is_some() { return; }
        let r = std::panic::catch_unwind(std::panic::AssertUnwindSafe(|| rt.0.block_on(vr::rib::process_update(&runner, u))));
        if let Err(e) = r { *panicked = Some(panic_text(e)); }
    };
    for ev in &case.events {
        match ev {
            Evt::Upd { m, aid, n, w } => {
                let upd = case.attrs(*aid).upd(n, w);
                let pdu = upd.encode(true);
                blobs.insert(attr_section(&pdu), *aid);
                let Ok(msg) = UpdateMessage::from_octets(pdu, &SessionConfig::modern()) else { continue };
                let f: Option<BgpFunc> = ing_c.as_mut().map(|c| c.get_function("bgp-in").unwrap());
                let ing_out = Arc::new(vr::Collector::default());
                rt.0.block_on(vr::bgp::run_session(f, *m, vec![msg], ing_out.clone()));
                let mut ups: Vec<Update> = ing_out.0.lock().unwrap().drain(..).collect();
                // one in-memory session per UPDATE: its closing `Withdraw(ingress id)` is an artefact of the
                // harness (the history's own session ends are explicit `d:` events), cut it off
                if matches!(ups.last(), Some(Update::Withdraw(..))) { ups.pop(); }
                for u in ups { feed(u, &mut panicked); }
            }
            Evt::Down(m) => feed(Update::Withdraw(*m, None), &mut panicked),
            Evt::DownBulk(ms) => feed(Update::WithdrawBulk(ms.iter().copied().collect()), &mut panicked),
        }
    }
    let downs = take(&out);
    let rib = vr::rib::rib(&runner);
    let q = |p: &P, iw: bool| -> String {
        let opts = MatchOptions { match_type: MatchType::ExactMatch, include_withdrawn: iw, include_less_specifics: false, include_more_specifics: false, mui: None };
        let mut v: Vec<(u32, char, String)> = match rib.match_prefix(&p.prefix(), &opts) {
            Ok(res) => res.prefix_meta.iter().map(|r| {
                let st = match r.status { RouteStatus::Active => 'A', RouteStatus::Withdrawn => 'W', _ => 'I' };
                (r.multi_uniq_id, st, blobs.get(&r.meta.0.clone().into_vec()).map(|a| a.to_string()).unwrap_or_else(|| "?".into()))
            }).collect(),
            Err(_) => vec![(0, 'E', "err".into())],
        };
        v.sort();
        hr::show_recs(&v)
    };
    let answers = join(case.queries.iter().map(|p| format!("{}/{}", q(p, true), q(p, false))), " ");
    drop(link); drop(agent);
    Some(RealRun { answers, downs, panicked })
}

// ------------------------------------------------------------------ the oracle

struct Judged { oracle: String, accepted: usize, rejected: usize }

fn judge(case: &Case, real: &RealRun) -> Judged {
    if let Some(p) = &real.panicked { return Judged { oracle: format!("fail rotorib:rib-unit-panicked {}", p.replace(' ', "_")), accepted: 0, rejected: 0 }; }
    let (mut acc, mut rej) = (0usize, 0usize);
    // sieved histories: intended (RFC 4271 4.3: an announced prefix is not withdrawn by the same UPDATE) and as-written overlap
    let mut h_int: Vec<hr::Ev> = vec![]; let mut h_ovl: Vec<hr::Ev> = vec![];
    // expected output calls: (site, token); expected routing updates
    let mut outs: Vec<(&'static str, String)> = vec![]; let mut fwd: Vec<String> = vec![];
    let mut accepted_ann: Vec<(P, u32, u32)> = vec![];
    for ev in &case.events {
        match ev {
            Evt::Upd { m, aid, n, w } => {
                let upd = case.attrs(*aid).upd(n, w);
                let vi = SpecView { upd: Some(&upd), pfx: None, peer_asn: 12345, pph_asn: None, is_rm: false, is_pd: false };
                let (ok_i, o_i) = match &case.ing { Some(p) => spec_run(p, &vi), None => (true, vec![]) };
                for o in o_i { outs.push(("bgp-in", o)); }
                if !ok_i { rej += 1; continue; }
                let call = |pfx: P, u: Option<&Upd>, outs: &mut Vec<(&'static str, String)>| -> bool {
                    let v = SpecView { upd: u, pfx: Some(pfx), peer_asn: 0, pph_asn: None, is_rm: false, is_pd: false };
                    let (ok, o) = match &case.pre { Some(p) => spec_run(p, &v), None => (true, vec![]) };
                    for x in o { outs.push(("rib-in-pre", x)); }
                    ok
                };
                let nl = |v: &[P]| -> Vec<hr::Nlri> { v.iter().map(|p| hr::Nlri { pfx: hp(p), safi: hr::Safi::U }).collect() };
                let mut ann = vec![]; let mut wd_int = vec![]; let mut wd_ovl = vec![]; let mut k = 0usize; let mut k_ovl = 0usize;
                for p in n { if call(*p, Some(&upd), &mut outs) { ann.push(*p); accepted_ann.push((*p, *m, *aid)); acc += 1; k += 1; k_ovl += 1; } else { rej += 1; } }
                let mut outs_ovl_extra = 0usize;
                for p in w {
                    if n.contains(p) {
                        // intended: dropped before the filter; as written (overlap defect): offered to the filter as a withdrawal
                        let mut scratch = vec![];
                        if call(*p, None, &mut scratch) { wd_ovl.push(*p); k_ovl += 1; }
                        outs_ovl_extra += scratch.len();
                        continue;
                    }
                    if call(*p, None, &mut outs) { wd_int.push(*p); wd_ovl.push(*p); acc += 1; k += 1; k_ovl += 1; } else { rej += 1; }
                }
                let _ = (k_ovl, outs_ovl_extra);
                fwd.push(match k { 0 => String::new(), 1 => "single".into(), k => format!("bulk:{k}") });
                h_int.push(hr::Ev::Upd(*m, hr::Upd { attr: *aid, ann: nl(&ann), wd: nl(&wd_int), mp4: false, corrupt: 0 }));
                h_ovl.push(hr::Ev::Upd(*m, hr::Upd { attr: *aid, ann: nl(&ann), wd: nl(&wd_ovl), mp4: false, corrupt: 0 }));
            }
            Evt::Down(m) => { h_int.push(hr::Ev::Down(*m)); h_ovl.push(hr::Ev::Down(*m)); }
            Evt::DownBulk(ms) => { h_int.push(hr::Ev::DownBulk(ms.clone())); h_ovl.push(hr::Ev::DownBulk(ms.clone())); }
        }
    }
    fwd.retain(|s| !s.is_empty());
    let qs: Vec<hr::Pfx> = case.queries.iter().map(hp).collect();
    let render = |h: &[hr::Ev], overlap: bool, sticky: bool| -> String {
        let t = hr::spec_observe(h, &qs, hr::SpecFlags { overlap_withdraws: overlap, per_safi: true, sticky_down: sticky });
        join(t.iter().map(|recs| { let f: Vec<(u32, char, String)> = recs.iter().filter(|r| r.1 == 'A').cloned().collect(); format!("{}/{}", hr::show_recs(recs), hr::show_recs(&f)) }), " ")
    };
    let want = render(&h_int, false, false);
    let oracle = if real.answers != want {
        if real.answers == render(&h_int, false, true) { "fail flap:global-withdrawn-marker-never-cleared a source that was withdrawn session-wide announces again and is still reported withdrawn (seen behind the filters)".to_string() }
        else if real.answers == render(&h_ovl, true, false) || real.answers == render(&h_ovl, true, true) { "fail overlap:withdrawal-applied-after-announcement-of-same-update (seen behind the filters)".to_string() }
        else {
            // classify: a record whose (prefix, source, attributes) was never an accepted announcement
            let mut stray = None;
            for (qi, ans) in real.answers.split(' ').enumerate() {
                let t = ans.split('/').next().unwrap_or("-");
                if t == "-" { continue; }
                for r in t.split(',') { let f: Vec<&str> = r.split('.').collect(); let (m, a): (u32, u32) = (f[0].parse().unwrap_or(0), f[2].parse().unwrap_or(u32::MAX));
                    if !accepted_ann.contains(&(case.queries[qi], m, a)) { stray = Some(format!("{}:{}", case.queries[qi].show(), r)); } }
            }
            match stray {
                Some(s) => format!("fail rotorib:rejected-route-in-rib {s} was never accepted by both filters; want {} got {}", want.replace(' ', "_"), real.answers.replace(' ', "_")),
                None => format!("fail rotorib:rib-differs-from-replay-of-accepted want {} got {}", want.replace(' ', "_"), real.answers.replace(' ', "_")),
            }
        }
    } else if routing_of(&real.downs) != fwd {
        format!("fail rotorib:forwarded-differs-from-accepted want [{}] got [{}]", fwd.join(","), routing_of(&real.downs).join(","))
    } else {
        let got = emitted_of(&real.downs);
        let all: Vec<String> = outs.iter().map(|o| osm_of_output(&o.1)).collect();
        let minus = |site: &[&str]| -> Vec<String> { outs.iter().filter(|o| !(o.1 == "pd" && site.contains(&o.0))).map(|o| osm_of_output(&o.1)).collect() };
        if got == all { "ok".to_string() }
        else if got == minus(&["bgp-in"]) { format!("fail output-dropped:peer-down:bgp-in script made {} output calls, {} reached the gate", all.len(), got.len()) }
        else if got == minus(&["rib-in-pre"]) || got == minus(&["bgp-in", "rib-in-pre"]) { format!("fail output-dropped:peer-down:rib-in-pre script made {} output calls, {} reached the gate", all.len(), got.len()) }
        else { format!("fail rotorib:output-stream-mismatch want [{}] got [{}]", all.join(","), got.join(",")) }
    };
    Judged { oracle, accepted: acc, rejected: rej }
}

// ------------------------------------------------------------------ the filter unit (F cases)

fn run_fu(rt: &Rt, items: &[String]) -> (String, String) {
    let (unit, mut agent) = vfu::mk_runner("rib-in-pre");
    let out = Arc::new(vr::Collector::default());
    let mut link = agent.create_link();
    link.set_direct_update_target(out.clone());
    rt.0.block_on(async {
        tokio::select! {
            _ = link.connect(false) => {}
            _ = async { loop { vfu::gate_process(&unit).await; } } => {}
        }
    });
    let show_in = |u: &Update| -> String { match u { Update::OutputStream(_) => "os".into(), u => show_update(u) } };
    let mut imp = vec![]; let mut oracle = "ok".to_string();
    'outer: for it in items {
        let ups: Vec<Update> = if it == "o" { vec![Update::OutputStream(Default::default())] }
            else if let Some(m) = it.strip_prefix("e:") { vec![Update::UpstreamStatusChange(rotonda::payload::UpstreamStatus::EndOfStream { ingress_id: m.parse().unwrap() })] }
            else { match Evt::parse(it) {
                Evt::Upd { m, aid: _, n, w } => {
                    let upd = Attrs { aspath: Some(vec![Hop::Asn(65000)]), comms: vec![], extra: vec![] }.upd(&n, &w);
                    let Ok(msg) = UpdateMessage::from_octets(upd.encode(true), &SessionConfig::modern()) else { continue };
                    let c = Arc::new(vr::Collector::default());
                    rt.0.block_on(vr::bgp::run_session(None, m, vec![msg], c.clone()));
                    let mut ups: Vec<Update> = c.0.lock().unwrap().drain(..).collect();
                    if matches!(ups.last(), Some(Update::Withdraw(..))) { ups.pop(); }
                    ups
                }
                Evt::Down(m) => vec![Update::Withdraw(m, None)],
                Evt::DownBulk(ms) => vec![Update::WithdrawBulk(ms.iter().copied().collect())],
            } };
        for u in ups {
            let what = show_in(&u);
            let r = std::panic::catch_unwind(std::panic::AssertUnwindSafe(|| rt.0.block_on(vfu::direct_update(&unit, u))));
            if r.is_err() {
                imp.push("panic".to_string());
                if oracle == "ok" { oracle = format!("fail filter-unit:filter_payload-unimplemented-panic a `filter` unit panics (todo!()) in the sender's task on {what}"); }
                break 'outer;
            }
            let got: Vec<String> = out.0.lock().unwrap().drain(..).map(|u| show_in(&u)).collect();
            if got != vec![what.clone()] && oracle == "ok" && !what.starts_with("single") && !what.starts_with("bulk") {
                oracle = format!("fail filter-unit:non-route-update-dropped a `filter` unit does not pass on {what} (forwarded: [{}])", got.join(","));
            }
            imp.push(if got.is_empty() { "-".into() } else { got.join(",") });
        }
    }
    drop(link); drop(agent);
    (imp.join(" "), oracle)
}

// ------------------------------------------------------------------ generator of histories

const SOURCES: [u32; 3] = [2, 3, 5];

impl Gen {
    fn attrs(&mut self) -> Attrs { let u = self.upd(false); Attrs { aspath: u.aspath, comms: u.comms, extra: u.extra } }
    fn pfxs(&mut self, lo: u64, hi: u64) -> Vec<P> {
        let mut pool: Vec<P> = PFXS.to_vec();
        (0..self.rng.range(lo, hi)).filter_map(|_| if pool.is_empty() { None } else { let i = self.rng.below(pool.len() as u64) as usize; Some(pool.remove(i)) }).collect()
    }
    fn history(&mut self, naid: u32, len: u64) -> Vec<Evt> {
        (0..len).map(|_| {
            let m = *self.rng.pick(&SOURCES);
            match self.rng.below(20) {
                0..=11 => { let n = self.pfxs(1, 3); let w = if self.rng.chance(1, 4) { if self.rng.chance(1, 3) { vec![n[0]] } else { self.pfxs(1, 2) } } else { vec![] }; Evt::Upd { m, aid: self.rng.range(1, naid as u64) as u32, n, w } }
                12..=16 => Evt::Upd { m, aid: 0, n: vec![], w: self.pfxs(1, 3) },
                17 => Evt::Upd { m, aid: self.rng.range(1, naid as u64) as u32, n: self.pfxs(2, 4), w: vec![] },
                18 => Evt::Down(m),
                _ => if self.rng.chance(1, 2) { Evt::Down(m) } else { Evt::DownBulk(SOURCES.iter().copied().filter(|_| self.rng.chance(1, 2)).collect()) },
            }
        }).collect()
    }
    fn case(&mut self, corpus: &[(Unit, Program)]) -> Case {
        let pick = |g: &mut Gen, u: Unit, none: u64| -> Option<Program> {
            if g.rng.chance(1, none) { None } else if g.rng.chance(1, 3) { let c: Vec<&(Unit, Program)> = corpus.iter().filter(|c| c.0 == u).collect(); Some(g.rng.pick(&c).1.clone()) } else { Some(g.program(u)) }
        };
        let ing = pick(self, Unit::Bgp, 3);
        let pre = pick(self, Unit::Rib, 6);
        let mut table: Vec<(u32, Attrs)> = vec![];
        while table.len() < 3 { let a = self.attrs(); if !table.iter().any(|e| e.1 == a) && a != Attrs::empty() { table.push((table.len() as u32 + 1, a)); } }
        let len = self.rng.range(4, 14);
        let events = self.history(3, len);
        Case { ing, pre, table, queries: PFXS.to_vec(), events }
    }
}

fn lit_asn(n: u32) -> Arg { Arg::Lit(Const::Asn(n)) }
/// realistic hand-written filters (next to the generated ones)
fn corpus() -> Vec<(Unit, Program)> {
    let ite = |c: Cond, t: bool, e: bool| Prog::Ite(c, Box::new(Prog::Ret(t)), Box::new(Prog::Ret(e)));
    let p = |body: Prog| Program { lets: vec![], body };
    let logged = |o: OutCall, k: Prog| Prog::Out(o, Box::new(k));
    vec![
        // accept only routes that carry an ORIGIN: rejects every withdrawal (empty attribute map)
        (Unit::Rib, p(ite(Cond::Pred(Pred::HasAttr(Arg::Lit(Const::U8(1)))), true, false))),
        // drop NO_EXPORT routes
        (Unit::Rib, p(ite(Cond::Pred(Pred::HasComm(Arg::Lit(Const::Comm(0xFFFFFF01)))), false, true))),
        // one prefix only
        (Unit::Rib, p(ite(Cond::Pred(Pred::PrefixIs(Arg::Lit(Const::Pfx(PFXS[1])))), true, false))),
        // everything but one prefix, logging every call
        (Unit::Rib, p(logged(OutCall::LogCustom(1, 2), ite(Cond::Pred(Pred::PrefixIs(Arg::Lit(Const::Pfx(PFXS[0])))), false, true)))),
        // origin AS filter with a log line on reject
        (Unit::Rib, p(Prog::Ite(Cond::Pred(Pred::OriginIs(lit_asn(200))), Box::new(Prog::Ret(true)), Box::new(logged(OutCall::LogOrigin(lit_asn(200)), Prog::Ret(false)))))),
        (Unit::Rib, p(logged(OutCall::LogPeerDown, Prog::Ret(true)))),
        (Unit::Bgp, p(ite(Cond::Pred(Pred::AspathContains(lit_asn(65000))), true, false))),
        (Unit::Bgp, p(ite(Cond::Pred(Pred::HasComm(Arg::Lit(Const::Comm(0xFFFFFF01)))), false, true))),
        (Unit::Bgp, p(logged(OutCall::LogCustom(3, 4), ite(Cond::Pred(Pred::HasAttr(Arg::Lit(Const::U8(2)))), true, false)))),
        (Unit::Bgp, p(logged(OutCall::LogPeerDown, Prog::Ret(false)))),
    ]
}

// ------------------------------------------------------------------ main

struct Eng { rec: Recorder, rt: Rt }
impl Eng {
    fn p_case(&mut self, case: &Case) -> Option<String> {
        let real = run_real(&self.rt, case)?;
        let j = judge(case, &real);
        let imp = match &real.panicked { Some(_) => "panic".to_string(), None => format!("{} | {}", real.answers, if real.downs.is_empty() { "-".into() } else { real.downs.join(" ") }) };
        self.rec.bump("P");
        self.rec.bump(match (&case.ing, &case.pre) { (None, None) => "P.no-filter", (Some(_), None) => "P.ingress-only", (None, Some(_)) => "P.rib-in-pre-only", _ => "P.both" });
        self.rec.bump_by("P.events", case.events.len() as u64);
        self.rec.bump_by("P.items.accepted", j.accepted as u64);
        self.rec.bump_by("P.items.rejected", j.rejected as u64);
        for e in &case.events { self.rec.bump(match e { Evt::Upd { aid: 0, .. } => "ev.withdraw-only", Evt::Upd { n, w, .. } if w.iter().any(|p| n.contains(p)) => "ev.overlap", Evt::Upd { .. } => "ev.update", Evt::Down(_) => "ev.down", Evt::DownBulk(_) => "ev.downbulk" }); }
        self.rec.case(case.line(), imp.clone(), j.oracle, j.accepted > 0 && j.rejected > 0);
        Some(imp)
    }
    fn f_case(&mut self, items: &[String]) -> String {
        let (imp, oracle) = run_fu(&self.rt, items);
        self.rec.bump("F");
        self.rec.case(format!("F|{}", items.join(" ")), imp.clone(), oracle, items.len() > 1);
        imp
    }
    fn run_line(&mut self, line: &str) {
        if let Some(items) = line.strip_prefix("F|") { self.f_case(&items.split_whitespace().map(|s| s.to_string()).collect::<Vec<_>>()); }
        else { self.p_case(&Case::parse(line)); }
    }
}

fn main() {
    let args = parse_args();
    if std::env::var("ROTORIB_DEBUG").is_err() { std::panic::set_hook(Box::new(|_| {})); }
    let t0 = Instant::now();
    let rec = Recorder::new("P: a history of 4-14 events (UPDATEs of 3 sources with 1-3 announced and 0-2 withdrawn prefixes out of a pool of 5, withdraw-only UPDATEs, session-level Withdraw / WithdrawBulk) through the real bgp-in handler with a generated or hand-written bgp-in filter and the real RIB unit with a generated or hand-written rib-in-pre filter, then Rib::match_prefix for the 5 prefixes; non-trivial = the filters accepted at least one and rejected at least one UPDATE / route of the history; F: 1-5 updates through the real `filter` unit; distinct = distinct case lines");
    let rt0 = Rt::new();
    let handle = rt0.0.handle().clone();
    let _guard = handle.enter();
    let mut e = Eng { rec, rt: rt0 };
    if let Some(path) = &args.replay {
        for line in verif_harness::replay_cases(path) { e.run_line(&line); }
        e.rec.finish(&args, t0.elapsed().as_secs_f64());
        return;
    }
    let corp = corpus();
    let a1 = Attrs { aspath: Some(vec![Hop::Asn(65000), Hop::Asn(200)]), comms: vec![], extra: vec![] };
    let a2 = Attrs { aspath: Some(vec![Hop::Asn(1)]), comms: vec![0xFFFFFF01], extra: vec![5] };
    let table = vec![(1, a1), (2, a2)];
    let mk = |ing: Option<Program>, pre: Option<Program>, events: Vec<Evt>| Case { ing, pre, table: table.clone(), queries: PFXS.to_vec(), events };
    let u = |m: u32, aid: u32, n: &[P], w: &[P]| Evt::Upd { m, aid, n: n.to_vec(), w: w.to_vec() };
    // ---- 0. witnesses of the counterexample theorems / variant detection
    let imp = e.p_case(&mk(None, None, vec![u(2, 1, &[PFXS[0]], &[PFXS[0]])])).unwrap_or_default();
    e.rec.variant("overlap", if imp.starts_with("2.A.1") { "repaired" } else { "as-written" });
    let imp = e.p_case(&mk(None, None, vec![u(2, 1, &[PFXS[0]], &[]), Evt::Down(2), u(2, 2, &[PFXS[0]], &[])])).unwrap_or_default();
    e.rec.variant("flap", if imp.starts_with("2.A.2") { "repaired" } else { "as-written" });
    let pd = Program { lets: vec![], body: Prog::Out(OutCall::LogPeerDown, Box::new(Prog::Out(OutCall::LogCustom(1, 2), Box::new(Prog::Ret(true))))) };
    let imp = e.p_case(&mk(Some(pd.clone()), None, vec![u(2, 1, &[PFXS[0]], &[])])).unwrap_or_default();
    e.rec.variant("pd_bgp", if imp.contains("peerdown") { "repaired" } else { "as-written" });
    let imp = e.p_case(&mk(None, Some(pd.clone()), vec![u(2, 1, &[PFXS[0]], &[])])).unwrap_or_default();
    e.rec.variant("pd_rib", if imp.contains("peerdown") { "repaired" } else { "as-written" });
    // withdrawals are filtered: `accept only routes with an ORIGIN` keeps a withdrawn route active (theorem RotoRib_withdrawal_filtered_counterexample)
    e.p_case(&mk(None, Some(corp[0].1.clone()), vec![u(2, 1, &[PFXS[0]], &[]), u(2, 0, &[], &[PFXS[0]])]));
    // a rejected re-announcement keeps the old route (RotoRib_rejected_reannounce_keeps_old): NO_EXPORT filter, second announcement carries NO_EXPORT
    e.p_case(&mk(None, Some(corp[1].1.clone()), vec![u(2, 1, &[PFXS[0]], &[]), u(2, 2, &[PFXS[0]], &[])]));
    // ingress reject shields rib-in-pre: the rib filter logs every call
    e.p_case(&mk(Some(corp[7].1.clone()), Some(corp[3].1.clone()), vec![u(2, 2, &[PFXS[1]], &[]), u(3, 1, &[PFXS[1], PFXS[0]], &[])]));
    let imp = e.f_case(&["u:2:1:4.167772160/8:-".to_string()]);
    e.rec.variant("filter_unit", if imp.contains("panic") { "as-written" } else { "repaired" });
    e.f_case(&["d:2".to_string(), "e:2".to_string(), "o".to_string(), "D:2,3".to_string()]);

    // ---- 1. generated histories
    let mut g = Gen { rng: Rng::new(args.seed) };
    let n = if args.thorough { 40000 } else { 3000 };
    let mut skipped = 0;
    for _ in 0..n { let c = g.case(&corp); if e.p_case(&c).is_none() { skipped += 1; } }
    e.rec.extra.insert("compile_failures".into(), serde_json::json!(skipped));
    // ---- 2. filter unit
    for _ in 0..(if args.thorough { 200 } else { 30 }) {
        let k = g.rng.range(1, 5);
        let items: Vec<String> = (0..k).map(|_| match g.rng.below(6) { 0 => "o".to_string(), 1 => format!("e:{}", g.rng.pick(&SOURCES)), 2 => Evt::Down(*g.rng.pick(&SOURCES)).tok(), 3 => Evt::DownBulk(vec![2, 3]).tok(), _ => { let n = g.pfxs(1, 2); Evt::Upd { m: *g.rng.pick(&SOURCES), aid: 1, n, w: vec![] }.tok() } }).collect();
        e.f_case(&items);
    }
    e.rec.finish(&args, t0.elapsed().as_secs_f64());
}
