//! C01 engine: RIB content = replay of every peer's announce/withdraw stream.
//!
//! A case is a history of BGP UPDATEs (well-formed and framing-damaged) from 1-4 sources over a
//! pool of 12 nested prefixes, followed by one exact-match query per pool prefix.
//!   case   `h|<prefixes>|<events>`            (tokens of `verif_harness::rib::Ev`)
//!   impl   per prefix `T/F`: sorted `(ingress, status, attr-id)` of the real
//!          `Rib::match_prefix` with include_withdrawn = true / false
//! Real code exercised per UPDATE: bytes -> routecore parse -> one of
//!   bmp  the real BMP state machine (`extract_route_monitoring_routes`),
//!   bgp  the real BGP session `Processor::process_update`,
//!   mrt  real `explode_*` + the MRT call site's Bulk assembly copied into the harness,
//! -> the real `RibUnitRunner::process_update` -> the real `Rib::match_prefix`.
//! Oracle (Rust, independent of the Lean model): `rib::spec_observe`, the property's own reading of
//! the history; a deviation is classified as one of the known defects only if switching on exactly
//! that defect's semantics reproduces the implementation's answer on the whole case.
use std::collections::HashMap;
use std::time::Instant;

use verif_harness::rib::*;
use verif_harness::{join, parse_args, replay_cases, rng::Rng, Recorder};

#[derive(Clone, Copy, PartialEq, Eq, Debug)]
enum Src { Bmp, Bgp, Mrt }

struct Outcome { case: String, imp: String, oracle: String, nontrivial: bool, notes: Vec<String> }

fn run_case(src: Src, peers: usize, evs_idx: &[Ev], queries: &[Pfx], overlap_known: bool) -> Outcome {
    let mut notes = vec![];
    let mut rib = RealRib::new();
    // sources and their ingress ids
    let mut router = if src == Src::Bmp { Some(BmpRouter::new()) } else { None };
    let mut bgp = if src == Src::Bgp { Some(BgpSource::new()) } else { None };
    let mut ids: Vec<u32> = vec![];
    for i in 0..peers {
        match router.as_mut() {
            Some(r) => { r.peers.push(BmpPeer::plain(i as u32)); ids.push(r.peer_up(i).unwrap_or(9000 + i as u32)); }
            None => ids.push(2 + i as u32),
        }
    }
    let mut evs: Vec<Ev> = vec![];
    let mut malformed_applied = false;
    let mut bad = false;
    for e in evs_idx {
        let Ev::Upd(pi, u) = e else { bad = true; break };
        let pi = *pi as usize;
        if pi >= peers { bad = true; break; }
        let (pdu, blob) = match encode_update(u) { Ok(x) => x, Err(_) => { bad = true; break } };
        if u.corrupt == 0 && !u.ann.is_empty() { rib.blobs.insert(blob, u.attr); }
        let ing = match src {
            Src::Bmp => router.as_mut().unwrap().route_monitoring(pi, &pdu),
            Src::Bgp => bgp.as_mut().unwrap().ingest(&pdu, ids[pi]),
            Src::Mrt => glue_ingest(&pdu, ids[pi], true),
        };
        match ing {
            Ingested::Update(up) => {
                let n = match &up { rotonda::payload::Update::Bulk(b) => b.len(), rotonda::payload::Update::Single(_) => 1, _ => 0 };
                if u.corrupt != 0 && n > 0 { malformed_applied = true; }
                if u.corrupt != 0 { notes.push(format!("corrupt{}-accepted-{}", u.corrupt, n)); }
                if let Err(p) = rib.process(up) { notes.push(format!("panic:{p}")); }
            }
            Ingested::Rejected(why) => {
                if u.corrupt == 0 && u.ann.is_empty() && u.wd.is_empty() { notes.push("empty-update-not-forwarded".into()); } else if u.corrupt == 0 { notes.push(format!("wellformed-rejected:{why}:{}", Ev::Upd(ids[pi], u.clone()).show().replace(':', ";"))); } else { notes.push(format!("corrupt{}-rejected", u.corrupt)); }
            }
        }
        evs.push(Ev::Upd(ids[pi], u.clone()));
    }
    if bad {
        return Outcome { case: "bad-case".into(), imp: "bad-case".into(), oracle: "ok".into(), nontrivial: false, notes };
    }
    let case = format!("h|{}|{}", join(queries.iter().map(|p| p.show()), " "), join(evs.iter().map(|e| e.show()), " "));
    let imp = rib.observe(queries);
    // ---- oracle
    let got: Vec<Vec<(u32, char, String)>> = queries.iter().map(|p| rib.query(p, true)).collect();
    let dup = got.iter().any(|l| { let mut m: Vec<u32> = l.iter().map(|r| r.0).collect(); m.dedup(); m.len() != l.len() });
    let full = spec_observe(&evs, queries, SpecFlags::default());
    let wellformed_rejected = notes.iter().any(|n| n.starts_with("wellformed-rejected"));
    let oracle = if malformed_applied {
        "fail malformed-update-applied an UPDATE with broken framing produced routes".to_string()
    } else if dup {
        "fail duplicate-entry-for-peer more than one entry for one ingress id".to_string()
    } else if got == full {
        "ok".to_string()
    } else if wellformed_rejected {
        format!("fail wellformed-update-rejected {}", notes.iter().find(|n| n.starts_with("wellformed-rejected")).unwrap())
    } else {
        let first = queries.iter().zip(got.iter().zip(full.iter())).find(|(_, (g, f))| g != f).map(|(p, (g, f))| format!("prefix {} got {} want {}", p.show(), show_recs(g), show_recs(f))).unwrap_or_default();
        let ov = SpecFlags { overlap_withdraws: true, ..Default::default() };
        let xs = SpecFlags { per_safi: true, ..Default::default() };
        let both = SpecFlags { overlap_withdraws: true, per_safi: true, ..Default::default() };
        if overlap_known && got == spec_observe(&evs, queries, ov) {
            format!("fail overlap:withdrawal-applied-after-announcement-of-same-update {first}")
        } else if got == spec_observe(&evs, queries, xs) {
            format!("fail xsafi:multicast-route-hidden-by-unicast-answer {first}")
        } else if overlap_known && got == spec_observe(&evs, queries, both) {
            format!("fail overlap:withdrawal-applied-after-announcement-of-same-update (and xsafi) {first}")
        } else {
            format!("fail replay-mismatch {first}")
        }
    };
    // non-trivial: some (prefix, source) is touched by at least two well-formed UPDATEs
    let mut touched: HashMap<(Pfx, u32), u32> = HashMap::new();
    for e in &evs { if let Ev::Upd(m, u) = e { if u.corrupt == 0 { for n in u.ann.iter().chain(u.wd.iter()) { *touched.entry((n.pfx, *m)).or_insert(0) += 1; } } } }
    let nontrivial = touched.values().any(|c| *c >= 2);
    Outcome { case, imp, oracle, nontrivial, notes }
}

fn gen_upd(rng: &mut Rng, pool: &[Pfx], allow_overlap: bool) -> Upd {
    let all = verif_harness::rib::pool();
    let pick_fam = |rng: &mut Rng| -> (bool, Safi) {
        match rng.below(10) { 0..=3 => (false, Safi::U), 4 | 5 => (true, Safi::U), 6 => (false, Safi::M), 7 => (true, Safi::M), 8 => (false, Safi::X), _ => (true, Safi::X) }
    };
    let half = |rng: &mut Rng, n: usize| -> Vec<Nlri> {
        if n == 0 { return vec![]; }
        let (v6, safi) = pick_fam(rng);
        let mut out = vec![];
        let mut cands: Vec<&Pfx> = pool.iter().filter(|p| p.v6 == v6).collect();
        if cands.is_empty() { cands = all.iter().filter(|p| p.v6 == v6).collect(); }
        for _ in 0..n { out.push(Nlri { pfx: **rng.pick(&cands), safi }); }
        // sometimes add conventional IPv4 unicast next to an MP family
        if (v6 || safi != Safi::U) && rng.chance(1, 3) {
            let c4: Vec<&Pfx> = all.iter().filter(|p| !p.v6).collect();
            out.push(Nlri { pfx: **rng.pick(&c4), safi: Safi::U });
        }
        out
    };
    let shape = rng.below(10);
    let (na, nw) = match shape { 0..=4 => (rng.range(1, 3) as usize, 0), 5..=7 => (0, rng.range(1, 3) as usize), 8 => (rng.range(1, 2) as usize, rng.range(1, 2) as usize), _ => (0, 0) };
    let ann = half(rng, na);
    let mut wd = half(rng, nw);
    if shape == 8 && allow_overlap && rng.chance(1, 2) && !ann.is_empty() {
        // withdraw and announce the same NLRI in one UPDATE (RFC 4271 4.3)
        let n = *rng.pick(&ann);
        let fam_ok = wd.iter().all(|w| (w.pfx.v6, w.safi) == (n.pfx.v6, n.safi) || (!w.pfx.v6 && w.safi == Safi::U));
        if fam_ok || wd.is_empty() { wd.push(n); } else { wd = vec![n]; }
    }
    if !allow_overlap { wd.retain(|w| !ann.iter().any(|a| a.pfx == w.pfx)); }
    Upd { attr: rng.range(1, 9) as u32, ann, wd, mp4: rng.chance(1, 4), corrupt: 0 }
}

fn gen_history(rng: &mut Rng, pool: &[Pfx], src: Src, rec: &mut Recorder) -> (usize, Vec<Ev>) {
    let peers = rng.range(1, 4) as usize;
    let n = if rng.chance(1, 5) { rng.range(20, 60) } else { rng.range(1, 14) } as usize;
    // a history concentrates on a few prefixes so that collisions are the norm
    let focus: Vec<Pfx> = { let k = rng.range(2, 6) as usize; (0..k).map(|_| *rng.pick(pool)).collect() };
    let mut evs = vec![];
    for _ in 0..n {
        let use_focus = rng.chance(4, 5);
        let mut u = gen_upd(rng, if use_focus { &focus } else { pool }, src != Src::Mrt);
        // one MP family per half must hold; regenerate the rare invalid mix
        if encode_update(&u).is_err() { u.wd.clear(); }
        if rng.chance(1, 10) {
            let k = rng.range(1, 6) as u8;
            if corrupt_applicable(&u, k) { u.corrupt = k; rec.bump(&format!("corrupt-kind-{k}")); }
        }
        rec.bump(if u.corrupt != 0 { "ev-malformed" } else if u.ann.is_empty() && u.wd.is_empty() { "ev-empty-update" } else if u.ann.is_empty() { "ev-withdraw-only" } else if u.wd.is_empty() { "ev-announce-only" } else { "ev-both" });
        if u.corrupt == 0 && u.ann.iter().any(|a| u.wd.contains(a)) { rec.bump("ev-overlap"); }
        for nl in u.ann.iter().chain(u.wd.iter()) { rec.bump(match nl.safi { Safi::U => "nlri-unicast", Safi::M => "nlri-multicast", Safi::X => "nlri-unsupported-safi" }); }
        evs.push(Ev::Upd(rng.below(peers as u64) as u32, u));
    }
    (peers, evs)
}

fn nl(s: &str) -> Nlri { Nlri::parse(s).unwrap() }

fn main() {
    if std::env::var("VERIF_VERBOSE").is_err() { std::panic::set_hook(Box::new(|_| {})); }
    let args = parse_args();
    let t0 = Instant::now();
    let mut rec = Recorder::new("a history is non-trivial when some (prefix, source) pair is touched by at least two well-formed UPDATEs");
    let pool = pool();
    let p24 = pool[2];

    // ---- variant detection: replay the overlap witness on the real BMP and BGP call sites
    let w_overlap = vec![Ev::Upd(0, Upd { attr: 7, ann: vec![Nlri { pfx: p24, safi: Safi::U }], wd: vec![Nlri { pfx: p24, safi: Safi::U }], mp4: false, corrupt: 0 })];
    let mut as_written = 0;
    for src in [Src::Bmp, Src::Bgp] {
        let o = run_case(src, 1, &w_overlap, &[p24], true);
        if o.imp.contains(".W.7/") { as_written += 1; }
    }
    let overlap_known = as_written > 0;
    rec.variant("overlap", if as_written == 2 { "as-written" } else if as_written == 0 { "repaired" } else { "mixed" });

    let mut emit = |rec: &mut Recorder, src: Src, peers: usize, evs: &[Ev], queries: &[Pfx]| {
        let o = run_case(src, peers, evs, queries, overlap_known);
        rec.bump(&format!("src-{:?}", src).to_lowercase());
        for n in &o.notes { rec.bump(&format!("note-{}", n.split(':').next().unwrap())); }
        rec.bump(if o.oracle == "ok" { "oracle-ok" } else { "oracle-fail" });
        rec.case(o.case, o.imp, o.oracle, o.nontrivial);
    };

    if let Some(path) = &args.replay {
        for line in replay_cases(path) {
            let parts: Vec<&str> = line.split('|').collect();
            if parts.len() != 3 || parts[0] != "h" { continue; }
            let queries: Vec<Pfx> = parts[1].split_whitespace().filter_map(Pfx::parse).collect();
            let evs: Vec<Ev> = parts[2].split_whitespace().filter_map(Ev::parse).collect();
            // map the ingress ids of the line to source indices in order of id
            let mut ms: Vec<u32> = evs.iter().flat_map(|e| e.mui()).collect();
            ms.sort(); ms.dedup();
            let evs_idx: Vec<Ev> = evs.iter().map(|e| match e { Ev::Upd(m, u) => Ev::Upd(ms.iter().position(|x| x == m).unwrap() as u32, u.clone()), o => o.clone() }).collect();
            for src in [Src::Bmp, Src::Bgp] { emit(&mut rec, src, ms.len().max(1), &evs_idx, &queries); }
        }
        rec.finish(&args, t0.elapsed().as_secs_f64());
        return;
    }

    // ---- witnesses and corpus first
    let u = |m: u32, attr: u32, ann: &[&str], wd: &[&str]| Ev::Upd(m, Upd { attr, ann: ann.iter().map(|s| nl(s)).collect(), wd: wd.iter().map(|s| nl(s)).collect(), mp4: false, corrupt: 0 });
    let x = |m: u32, k: u8, ann: &[&str], wd: &[&str]| Ev::Upd(m, Upd { attr: 9, ann: ann.iter().map(|s| nl(s)).collect(), wd: wd.iter().map(|s| nl(s)).collect(), mp4: false, corrupt: k });
    let p = p24.show();
    let up = format!("u{p}"); let mp = format!("m{p}");
    let corpus: Vec<(usize, Vec<Ev>)> = vec![
        (1, w_overlap.clone()),                                                        // C01_overlap_counterexample
        (1, vec![u(0, 3, &[&up], &[]), u(0, 7, &[&up], &[&up])]),                      // overlap after an earlier announcement
        (2, vec![u(0, 3, &[&up], &[]), u(1, 5, &[&mp], &[])]),                         // C01_xsafi_counterexample
        (1, vec![u(0, 3, &[&up], &[]), x(0, 3, &["u4.16.2561"], &[]), x(0, 1, &[], &[&up]), x(0, 4, &[], &[&up])]), // malformed is a no-op
        (2, vec![u(0, 3, &[&up], &[]), u(1, 4, &[&up], &[]), u(0, 0, &[], &[&up]), u(0, 6, &[&up], &[]), u(1, 0, &[], &[&up])]),
        (1, vec![u(0, 0, &[], &[&up]), u(0, 0, &[], &[&up]), u(0, 2, &[&up], &[])]),   // withdrawal of an unknown prefix, twice
    ];
    for (peers, evs) in &corpus {
        for src in [Src::Bmp, Src::Bgp, Src::Mrt] {
            if src == Src::Mrt && evs.iter().any(|e| matches!(e, Ev::Upd(_, u) if u.ann.iter().any(|a| u.wd.contains(a)))) { continue; }
            // the witnesses are queried at their own prefix (short replay lines), then at the whole pool
            emit(&mut rec, src, *peers, evs, &[p24]);
            emit(&mut rec, src, *peers, evs, &pool);
        }
    }

    // ---- generated histories
    let mut rng = Rng::new(args.seed);
    let budget = if args.thorough { 300.0 } else { 35.0 };
    let max_cases = if args.thorough { 40_000 } else { 5000 };
    let mut n = 0;
    while n < max_cases && t0.elapsed().as_secs_f64() < budget {
        let src = match rng.below(5) { 0 | 1 => Src::Bmp, 2 | 3 => Src::Bgp, _ => Src::Mrt };
        let (peers, evs) = gen_history(&mut rng, &pool, src, &mut rec);
        emit(&mut rec, src, peers, &evs, &pool);
        n += 1;
    }
    rec.finish(&args, t0.elapsed().as_secs_f64());
}
