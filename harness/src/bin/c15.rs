//! C15 engine (state machine part): after every message the real
//! `RouterBmpMetrics` atomics (read through `BmpStepper::metrics`) are compared
//! with the metric record of the Lean model (`Model/Bmp.lean`, `mstep`), over
//! histories that include Peer Up/Down cycles, invalid messages, Termination
//! and reconnects of the same router (new state machine, same metrics entry
//! and ingress register — exactly what `BmpTcpInRunner` does).
//!
//! Oracle (independent of the Lean model): a reference that derives every
//! value from the traffic — peers up = size of the up set, EoR-capable = its
//! GR-capable subset, still dumping = up peers with a pending End-of-RIB,
//! state = phase, invalid = number of rejected messages, announcements /
//! withdrawals = sums over what was delivered, connected routers = live
//! connections; counters must not decrease; the Prometheus text must parse.
use std::collections::BTreeMap;
use std::time::Instant;

use rotonda::verif::bmp_sm::{BmpStepper, SmMetrics};
use verif_harness::bmp::{self, Built, Down, Spec, NHDR, RM_KINDS};
use verif_harness::{join, parse_args, replay_cases, rng::Rng, Recorder};

type Ev = Option<Spec>; // None = reconnect

#[derive(Default)]
struct Truth {
    started: bool,
    terminated: bool,
    up: BTreeMap<usize, bool>,
    // totals over the life of the metrics entry
    cum_ups: usize, downs: usize, cum_eor_ups: usize, eor_downs: usize,
    dropped: usize, eor_dropped: usize,
    invalid: usize, unknown: usize, ann: usize, wd: usize,
    /// Route Monitoring messages of peers that are up whose UPDATE routecore parses with exactly one of the two
    /// AS-number widths (the token's `<p4><p2>` field, from the parser alone): the only messages that can have been
    /// "parsed by not obeying the header flags"
    one_width: usize,
    touched: bool,
}

fn hdr_index(p: &rotonda::verif::bmp_sm::PeerView) -> usize {
    (0..NHDR).find(|i| {
        let h = bmp::header(*i);
        h.peer_address == p.address && h.peer_as.into_u32() == p.asn && h.peer_bgp_id == p.bgp_id && h.peer_flags == p.flags
    }).unwrap_or(99)
}

/// `name{label="v",…} value` / `name value` / `# HELP|TYPE …`
fn prometheus_line_ok(l: &str) -> bool {
    if l.is_empty() { return true; }
    if let Some(r) = l.strip_prefix("# ") { return r.starts_with("HELP ") || r.starts_with("TYPE "); }
    let (head, val) = match l.rsplit_once(' ') { Some(x) => x, None => return false };
    if val.parse::<f64>().is_err() { return false; }
    let name_ok = |n: &str| !n.is_empty() && n.chars().all(|c| c.is_ascii_alphanumeric() || c == '_' || c == ':') && !n.chars().next().unwrap().is_ascii_digit();
    match head.split_once('{') {
        None => name_ok(head),
        Some((n, rest)) => {
            if !name_ok(n) || !rest.ends_with('}') { return false; }
            let body = &rest[..rest.len() - 1];
            // label="value" pairs; values may not contain unescaped quotes or newlines
            let mut chars = body.chars().peekable();
            loop {
                let mut lname = String::new();
                while let Some(c) = chars.peek() { if *c == '=' { break; } lname.push(*c); chars.next(); }
                if !name_ok(&lname) || chars.next() != Some('=') || chars.next() != Some('"') { return false; }
                loop { match chars.next() { Some('\\') => { chars.next(); } Some('"') => break, Some('\n') | None => return false, _ => {} } }
                match chars.next() { None => return true, Some(',') => { if chars.peek().is_none() { return true; } } _ => return false }
            }
        }
    }
}

fn run_case(keys: &str, evs: &[(Ev, Option<Built>)], rec: &mut Recorder) -> (String, String, String, bool) {
    let case = format!("mx|{}|{}", keys, join(evs.iter().map(|e| match &e.1 { Some(b) => b.token.clone(), None => "/".into() }), " "));
    let mut st = BmpStepper::new();
    let mut t = Truth::default();
    let mut obs = vec![];
    let mut known: Vec<String> = vec![];
    let mut unknown: Vec<String> = vec![];
    let mut prev: Option<SmMetrics> = None;
    let (mut cycles, mut n_inv) = (0, 0);
    for (ev, built) in evs {
        let Some(spec) = ev else {
            // the connection ends: nothing may be counted as connected any more
            if st.num_router_entries() != 0 { known.push("connected-routers:counts-metric-entries-not-connections after disconnect the gauge is still 1".into()); }
            let text = st.metrics_text("bmp-in");
            if let Some(bad) = text.lines().find(|l| !prometheus_line_ok(l)) { unknown.push(format!("prometheus-text-unparsable {}", bad.replace(' ', "_"))); }
            t.dropped += t.up.len(); t.eor_dropped += t.up.values().filter(|e| **e).count();
            t.up.clear(); t.started = false; t.terminated = false;
            st = BmpStepper::with_parts(st.register(), st.bmp_ingress_id(), "1", st.sm_metrics());
            obs.push("/".to_string());
            rec.bump("reconnect");
            continue;
        };
        let built = built.as_ref().unwrap();
        let o = bmp::step(&mut st, built.bytes.clone());
        // ---- the reference, from the traffic alone
        let violation = if !t.started { *spec != Spec::Init } else if t.terminated { true } else {
            match spec { Spec::Rm(h, _) | Spec::PeerDown(h) => !t.up.contains_key(h), Spec::PeerUp(h, _) => t.up.contains_key(h), _ => false } };
        if o.invalid { t.invalid += 1; n_inv += 1; }
        if let Spec::Rm(h, _) = spec { if t.started && !t.terminated && !t.up.contains_key(h) { t.unknown += 1; } }
        if let Down::Routes(_, a, w) = &o.down { t.ann += a; t.wd += w; }
        if let Spec::Rm(h, _) = spec { if t.started && !t.terminated && t.up.contains_key(h) { let f = built.token.split('.').nth(2).unwrap_or(""); if f == "01" || f == "10" { t.one_width += 1; } } }
        if !violation && !o.invalid {
            match spec {
                Spec::Init => t.started = true,
                Spec::Term => { t.terminated = true; t.dropped += t.up.len(); t.eor_dropped += t.up.values().filter(|e| **e).count(); t.up.clear(); }
                Spec::PeerUp(h, e) => { t.up.insert(*h, *e); t.cum_ups += 1; if *e { t.cum_eor_ups += 1; } }
                Spec::PeerDown(h) => { if let Some(e) = t.up.remove(h) { t.downs += 1; cycles += 1; if e { t.eor_downs += 1; } } }
                _ => {}
            }
        }
        if o.mx.is_some() { t.touched = true; }
        // ---- compare
        let want_up = t.up.len();
        let want_ec = t.up.values().filter(|e| **e).count();
        let want_dumping = st.peers().iter().filter(|p| !p.pending_eors.is_empty()).count();
        match &o.mx {
            None => {
                // no entry yet although a router is connected and has sent a message
                known.push(format!("connected-routers:counts-metric-entries-not-connections gauge 0 after {}", built.token));
            }
            Some(m) => {
                if st.num_router_entries() != 1 { unknown.push(format!("router-entries {}", st.num_router_entries())); }
                if m.peers_up != want_up {
                    if m.peers_up == t.cum_ups - t.downs && t.dropped > 0 { known.push(format!("gauge-drift:peers-not-cleared-at-session-end peers_up {} want {}", m.peers_up, want_up)); }
                    else { unknown.push(format!("metrics-disagree:peers_up {} want {}", m.peers_up, want_up)); }
                }
                if m.peers_up_eor_capable != want_ec {
                    if m.peers_up_eor_capable == t.cum_eor_ups && t.eor_downs > 0 { known.push(format!("eor-capable-gauge:never-decremented got {} want {}", m.peers_up_eor_capable, want_ec)); }
                    else if (m.peers_up_eor_capable == t.cum_eor_ups || m.peers_up_eor_capable == t.cum_eor_ups - t.eor_downs) && t.eor_dropped > 0 { known.push(format!("gauge-drift:peers-not-cleared-at-session-end eor_capable {} want {}", m.peers_up_eor_capable, want_ec)); }
                    else { unknown.push(format!("metrics-disagree:eor_capable {} want {}", m.peers_up_eor_capable, want_ec)); }
                }
                if m.peers_up_dumping != want_dumping { known.push(format!("still-dumping-gauge:not-a-peer-count got {} want {}", m.peers_up_dumping, want_dumping)); }
                if m.state != o.phase {
                    if (o.phase == 0 && m.state != 0) || (o.phase == 3 && m.state != 3) { known.push(format!("state-metric:stale says {} in phase {}", m.state, o.phase)); }
                    else { unknown.push(format!("metrics-disagree:state {} phase {}", m.state, o.phase)); }
                }
                if m.unprocessable_msgs != t.invalid { unknown.push(format!("metrics-disagree:invalid {} want {}", m.unprocessable_msgs, t.invalid)); }
                // a message that parses with both widths or with neither was never re-parsed successfully
                if m.reparsed_updates > t.one_width { unknown.push(format!("metrics-disagree:reparsed {} but only {} message(s) parse with exactly one AS-number width", m.reparsed_updates, t.one_width)); }
                if m.unknown_peer_msgs != t.unknown { unknown.push(format!("metrics-disagree:unknown_peer {} want {}", m.unknown_peer_msgs, t.unknown)); }
                if m.announcements != t.ann || m.withdrawals != t.wd || m.received_prefixes != t.ann { unknown.push(format!("metrics-disagree:routes a{} w{} r{} want a{} w{}", m.announcements, m.withdrawals, m.received_prefixes, t.ann, t.wd)); }
                if let Some(p) = &prev {
                    if m.unprocessable_msgs < p.unprocessable_msgs || m.unknown_peer_msgs < p.unknown_peer_msgs || m.reparsed_updates < p.reparsed_updates
                        || m.announcements < p.announcements || m.withdrawals < p.withdrawals || m.received_prefixes < p.received_prefixes { unknown.push("counter-decreased".into()); }
                }
                if m.peers_up > (1 << 40) || m.peers_up_eor_capable > (1 << 40) || m.peers_up_dumping > (1 << 40) { unknown.push("gauge-underflow".into()); }
                prev = Some(m.clone());
            }
        }
        obs.push(format!("{}:{}{}", o.phase, o.out, bmp::show_mx(&o.mx)));
    }
    let text = st.metrics_text("bmp-in");
    if let Some(bad) = text.lines().find(|l| !prometheus_line_ok(l)) { unknown.push(format!("prometheus-text-unparsable {}", bad.replace(' ', "_"))); }
    for k in &known { rec.bump(&format!("known.{}", k.split_whitespace().next().unwrap())); }
    let oracle = match (unknown.first(), known.first()) {
        (Some(u), _) => format!("fail {u}"),
        (None, Some(k)) => format!("fail {k}"),
        _ => "ok".into(),
    };
    (case, join(obs, " "), oracle, cycles > 0 && n_inv > 0)
}

fn build_all(evs: &[Ev]) -> Option<Vec<(Ev, Option<Built>)>> {
    // wire-level variation (timestamps, Peer Down reasons) for every second case, as in the c05 engine
    let specs: Vec<Spec> = evs.iter().flatten().cloned().collect();
    let salt = bmp::flavour_of(&specs);
    bmp::set_flavour(if salt & 2 == 0 { salt } else { 0 });
    let r = evs.iter().map(|e| match e { None => Some((None, None)), Some(s) => bmp::build(s).map(|b| (Some(s.clone()), Some(b))) }).collect();
    bmp::set_flavour(0);
    r
}

fn main() {
    std::panic::set_hook(Box::new(|_| {}));
    let args = parse_args();
    let t0 = Instant::now();
    let mut rec = Recorder::new("a history is non-trivial if it contains at least one completed Peer Up / Peer Down cycle and at least one rejected message");
    let keys = join(bmp::key_classes(), ",");
    let mut emit = |evs: &[Ev], rec: &mut Recorder| -> Option<String> {
        match build_all(evs) {
            Some(m) => { let (c, i, o, nt) = run_case(&keys, &m, rec); rec.case(c, i.clone(), o, nt); Some(i) }
            None => { rec.bump("unbuildable-skipped"); None }
        }
    };
    use Spec::*;
    let rm = |h: usize, k: &str| Some(Rm(h, k.to_string()));

    if let Some(path) = &args.replay {
        for line in replay_cases(path) {
            let parts: Vec<&str> = line.split('|').collect();
            let evs: Option<Vec<Ev>> = parts.get(2).map(|m| m.split_whitespace().map(|t| if t == "/" { Some(None) } else { bmp::parse_token(t).map(Some) }).collect()).flatten();
            match evs { Some(e) => { emit(&e, &mut rec); } None => rec.bump("unparsable-replay-line") }
        }
        rec.finish(&args, t0.elapsed().as_secs_f64());
        return;
    }

    // ---- witnesses first
    // (a) three GR-capable Peer Up / Peer Down cycles: the EoR-capable gauge ends at 3 (as written) or 0 (repaired)
    let w = emit(&[Some(Init), Some(PeerUp(0, true)), Some(PeerDown(0)), Some(PeerUp(0, true)), Some(PeerDown(0)), Some(PeerUp(0, true)), Some(PeerDown(0))], &mut rec).unwrap();
    rec.variant("eorgauge", if w.ends_with("ec3,d0}") { "as-written" } else { "repaired" });
    // the End-of-RIB variant is shared with C05
    let w = emit(&[Some(Init), Some(PeerUp(0, true)), rm(0, "E2")], &mut rec).unwrap();
    rec.variant("eorswallow", if w.contains(" 2:tr{") { "as-written" } else { "repaired" });
    // (b) Termination with a peer up, then the router reconnects and brings the peer up again
    emit(&[Some(Init), Some(PeerUp(0, false)), Some(Term), None, Some(Init), Some(PeerUp(0, false))], &mut rec);
    // (c) two peers still dumping
    emit(&[Some(Init), Some(PeerUp(0, true)), Some(PeerUp(1, true)), rm(0, "a1"), rm(1, "a1")], &mut rec);
    // (d) state metric: invalid first message; Termination with a peer up
    emit(&[Some(PeerUp(0, true)), Some(Init)], &mut rec);
    emit(&[Some(Init), Some(PeerUp(0, false)), Some(Term)], &mut rec);
    // (e) plain disconnect (no Termination) and reconnect
    emit(&[Some(Init), Some(PeerUp(0, true)), Some(PeerUp(1, false)), rm(0, "a3"), None, Some(Init), Some(PeerUp(0, true)), Some(PeerDown(0))], &mut rec);
    // clean histories that must agree completely
    emit(&[Some(Init), Some(PeerUp(0, false)), rm(0, "a3"), rm(0, "w2"), rm(1, "a1"), Some(PeerDown(1)), Some(PeerDown(0))], &mut rec);

    // ---- exhaustive: `i` followed by every sequence of length L over a small alphabet
    let alphabet: Vec<Ev> = vec![Some(Init), Some(Term), Some(PeerUp(0, true)), Some(PeerUp(1, false)), Some(PeerDown(0)), Some(PeerDown(1)),
        rm(0, "a1"), rm(0, "e4"), rm(1, "x2"), rm(0, "E2"), None];
    let n = alphabet.len();
    let depth = if args.thorough { 5 } else { 4 };
    let mut idx = vec![0usize; depth];
    let mut exhaustive = 0u64;
    'outer: loop {
        let mut evs: Vec<Ev> = vec![Some(Init)];
        evs.extend(idx.iter().map(|i| alphabet[*i].clone()));
        emit(&evs, &mut rec);
        exhaustive += 1;
        let mut k = depth;
        loop {
            if k == 0 { break 'outer; }
            k -= 1;
            idx[k] += 1;
            if idx[k] < n { break; }
            idx[k] = 0;
        }
    }
    rec.bump_by("exhaustive-cases", exhaustive);

    // ---- random long histories with reconnects
    let mut rng = Rng::new(args.seed);
    let n_random = if args.thorough { 40_000 } else { 2_500 };
    for _ in 0..n_random {
        let len = rng.range(4, 45) as usize;
        let mut evs: Vec<Ev> = vec![];
        let mut guess_up: Vec<usize> = vec![];
        if !rng.chance(1, 15) { evs.push(Some(Init)); }
        while evs.len() < len {
            let r = rng.below(100);
            let any_h = rng.below(NHDR as u64) as usize;
            let up_h = if guess_up.is_empty() { any_h } else { *rng.pick(&guess_up) };
            let e: Ev = if r < 20 { if !guess_up.contains(&any_h) { guess_up.push(any_h); } Some(PeerUp(any_h, rng.chance(2, 3))) }
                else if r < 36 { let h = if rng.chance(5, 6) { up_h } else { any_h }; guess_up.retain(|x| *x != h); Some(PeerDown(h)) }
                else if r < 80 { let h = if rng.chance(9, 10) { up_h } else { any_h }; rm(h, RM_KINDS[rng.below(RM_KINDS.len() as u64) as usize]) }
                else if r < 85 { Some(Stats(any_h)) }
                else if r < 88 { Some(Init) }
                else if r < 91 { guess_up.clear(); Some(Term) }
                else if r < 96 { guess_up.clear(); evs.push(None); Some(Init) }
                else { rm(any_h, "e4") };
            evs.push(e);
        }
        emit(&evs, &mut rec);
    }
    rec.finish(&args, t0.elapsed().as_secs_f64());
}
