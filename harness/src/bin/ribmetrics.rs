//! RibMetrics engine (C15, RIB unit): the metrics of `rib_unit/{metrics,status_reporter,statistics}.rs`
//! against the traffic that produced them.
//!
//! A case is a history of source events over 1-4 ingress ids and a pool of 12 nested prefixes:
//!   case   `m|<tokens>`   tokens of `verif_harness::rib::Ev` (`u: x: d: D: da:`) plus `u1:` (a Bulk of
//!          exactly one payload goes out as `Update::Single`), `um:` (Mrt context), `ur:` (Reprocess context)
//!   impl   after every token one record
//!          `unique,items,retries,hard,announced,modified,withdrawn,wd_no_ann,insdur,upddur,e2e,g_updates,g_dropped,g_setsize`
//!          read from the text the real `metrics::Source::append` of the unit's `RibUnitMetrics` writes into
//!          a real Prometheus `metrics::Target` (`e2e`: `<ingress><a|z>` per `router` label, `a` = the sample
//!          shows the 3 s age every payload is given, `z` = 0; `insdur`: `z` = 0, `-` when the duration defect
//!          is repaired and the value is a real measurement).
//! Real code per token: bytes -> routecore parse -> the real BGP-session `Processor::process_update`
//! (`u`, `u1`) or real `explode_*` + the MRT call site's Bulk assembly copied in `harness/src/rib.rs`
//! (`um`, `ur`) -> the real `RibUnitRunner::process_update` on a runner wired to a real `RibUnitMetrics` exactly
//! as `RibUnitRunner::new` wires it (`rotonda::verif::ribmetrics`).
//! Oracle (Rust, independent of the Lean model): a ledger of the traffic (records per (table, prefix, ingress),
//! status, attribute id) from which every metric's *named* quantity and its per-token change are derived; a
//! token whose real change disagrees is explained by one of six known mechanisms only if that mechanism's
//! trigger is present in the token, anything else is `ribmetrics:<metric>-disagrees`.
use std::collections::{BTreeMap, HashMap, HashSet};
use std::sync::Arc;
use std::time::{Duration, Instant};

use rotonda::metrics::{OutputFormat, Source, Target};
use rotonda::payload::Update;
use rotonda::roto_runtime::types::RouteContext;
use rotonda::verif::rib as vrib;
use rotonda::verif::ribmetrics as vrm;
use verif_harness::rib::*;
use verif_harness::{join, parse_args, replay_cases, rng::Rng, Recorder};

const AGE_MS: u64 = 3000;

// ------------------------------------------------------------------ tokens

#[derive(Clone, Copy, PartialEq, Eq, Debug)]
enum Kind { Bulk, Single1, Mrt, Reprocess }

#[derive(Clone, PartialEq, Eq, Debug)]
struct Tok { kind: Kind, ev: Ev }

impl Tok {
    fn show(&self) -> String {
        let s = self.ev.show();
        match (&self.ev, self.kind) {
            (Ev::Upd(_, u), k) if u.corrupt == 0 => match k { Kind::Bulk => s, Kind::Single1 => format!("u1{}", &s[1..]), Kind::Mrt => format!("um{}", &s[1..]), Kind::Reprocess => format!("ur{}", &s[1..]) },
            _ => s,
        }
    }
    fn parse(s: &str) -> Option<Tok> {
        let (head, rest) = s.split_once(':')?;
        let (kind, canon) = match head { "u1" => (Kind::Single1, format!("u:{rest}")), "um" => (Kind::Mrt, format!("u:{rest}")), "ur" => (Kind::Reprocess, format!("u:{rest}")), _ => (Kind::Bulk, s.to_string()) };
        Some(Tok { kind, ev: Ev::parse(&canon)? })
    }
}

// ------------------------------------------------------------------ the real unit

struct Real { runner: vrib::RibUnitRunner, _agent: rotonda::comms::GateAgent, rt: tokio::runtime::Runtime, src: Arc<dyn Source>, bgp: BgpSource }

#[derive(Clone, Default, PartialEq, Debug)]
struct Snap { simple: BTreeMap<String, String>, e2e: Vec<(String, u64)>, parse_errors: Vec<String>, hist_nonzero: bool }

impl Real {
    fn new() -> Real {
        let (runner, agent, src) = vrm::mk_runner_with_metrics("rib");
        let rt = tokio::runtime::Builder::new_current_thread().enable_all().build().unwrap();
        Real { runner, _agent: agent, rt, src, bgp: BgpSource::new() }
    }
    fn process(&self, u: Update) -> Result<(), String> {
        let r = std::panic::catch_unwind(std::panic::AssertUnwindSafe(|| self.rt.block_on(vrib::process_update(&self.runner, u))));
        match r { Ok(_) => Ok(()), Err(_) => Err("panic".into()) }
    }
    fn text(&self) -> String {
        let mut t = Target::new(OutputFormat::Prometheus);
        self.src.append("rib", &mut t);
        t.into_string()
    }
    /// Parse the exposition: `name{component="rib"[,router="N"]} value`.
    fn snap(&self) -> Snap {
        let mut s = Snap::default();
        for line in self.text().lines() {
            if line.is_empty() || line.starts_with('#') { continue; }
            let Some((lhs, val)) = line.rsplit_once(' ') else { s.parse_errors.push(line.to_string()); continue };
            let (name, labels) = match lhs.split_once('{') { Some((n, l)) => (n, l.trim_end_matches('}')), None => (lhs, "") };
            let mut lab: Vec<(String, String)> = vec![];
            for p in labels.split(',').filter(|p| !p.is_empty()) {
                match p.split_once('=') { Some((k, v)) => lab.push((k.to_string(), v.trim_matches('"').to_string())), None => s.parse_errors.push(line.to_string()) }
            }
            if !lab.iter().any(|(k, v)| k == "component" && v == "rib") { s.parse_errors.push(format!("no-component-label:{line}")); }
            if name.starts_with("rotonda_rib_unit_e2e_duration") {
                let r = lab.iter().find(|(k, _)| k == "router").map(|(_, v)| v.clone()).unwrap_or_else(|| "?".into());
                match val.parse::<u64>() { Ok(v) => s.e2e.push((r, v)), Err(_) => s.parse_errors.push(line.to_string()) }
            } else if name == "rotonda_since_last_update_seconds" {
                // wall-clock age of the last gate update (-1 before the first): parsable, otherwise not judged
                if val.parse::<i64>().is_err() { s.parse_errors.push(line.to_string()); }
            } else if name.starts_with("rotonda_rib_merge_update") {
                if val.parse::<f64>().map(|v| v != 0.0).unwrap_or(true) { s.hist_nonzero = true; }
            } else {
                if val.parse::<u64>().is_err() { s.parse_errors.push(line.to_string()); }
                if s.simple.insert(name.to_string(), val.to_string()).is_some() { s.parse_errors.push(format!("duplicate-sample:{name}")); }
            }
        }
        s.e2e.sort_by_key(|(r, _)| r.parse::<u64>().unwrap_or(u64::MAX));
        s
    }
}

const NAMES: [(&str, &str); 13] = [
    ("unique", "rotonda_rib_unit_num_unique_prefixes_total"),
    ("items", "rotonda_rib_unit_num_items_total"),
    ("retries", "rotonda_rib_unit_num_insert_retries_total"),
    ("hard", "rotonda_rib_unit_num_insert_hard_failures_total"),
    ("announced", "rotonda_rib_unit_num_routes_announced_total"),
    ("modified", "rotonda_rib_unit_num_modified_route_announcements_total"),
    ("withdrawn", "rotonda_rib_unit_num_routes_withdrawn_total"),
    ("wd_no_ann", "rotonda_rib_unit_num_route_withdrawals_without_announcements_total"),
    ("insdur", "rotonda_rib_unit_insert_duration_microseconds"),
    ("upddur", "rotonda_rib_unit_update_duration_microseconds"),
    ("g_updates", "rotonda_num_updates_total"),
    ("g_dropped", "rotonda_num_dropped_updates_total"),
    ("g_setsize", "rotonda_update_set_size_total"),
];

impl Snap {
    fn get(&self, short: &str) -> Option<u64> {
        let full = NAMES.iter().find(|(s, _)| *s == short)?.1;
        self.simple.get(full)?.parse().ok()
    }
    fn show(&self, duration_repaired: bool) -> String {
        let g = |k: &str| self.get(k).map(|v| v.to_string()).unwrap_or_else(|| "missing".into());
        let insdur = if duration_repaired { "-".to_string() } else { match self.get("insdur") { Some(0) => "z".into(), Some(_) => "n".into(), None => "missing".into() } };
        let e2e = if self.e2e.is_empty() { "-".to_string() } else { join(self.e2e.iter().map(|(r, v)| format!("{r}{}", if *v >= AGE_MS { "a".to_string() } else if *v == 0 { "z".to_string() } else { format!("?{v}") })), ";") };
        format!("{},{},{},{},{},{},{},{},{},{},{},{},{},{}", g("unique"), g("items"), g("retries"), g("hard"), g("announced"), g("modified"), g("withdrawn"), g("wd_no_ann"), insdur, g("upddur"), e2e, g("g_updates"), g("g_dropped"), g("g_setsize"))
    }
}

// ------------------------------------------------------------------ the ledger (oracle)

#[derive(Default)]
struct Ledger {
    /// (multicast table, prefix, ingress) -> (active, attribute id)
    recs: HashMap<(bool, Pfx, u32), (bool, u32)>,
    /// (table, prefix) named by any earlier announcement or withdrawal payload
    named: HashSet<(bool, Pfx)>,
    ok_ingress: HashSet<u32>,
}

/// What one token should do to each metric (ranges where the help text leaves a choice) and which
/// known mechanisms it could trigger.
#[derive(Default, Debug)]
struct Expect {
    unique: i64, items: i64, announced: i64, hard: i64,
    modified: (i64, i64), wd_no_ann: (i64, i64), wd_events: i64, wd_gauge: i64,
    forwards: i64, setsize: Option<u64>,
    t_wd_accepted: bool, t_wd_absent: bool, t_wd_blind: bool, t_known_prefix_route: bool, t_session_hits: i64,
}

#[derive(Clone, Copy)]
struct Pl { mc: bool, pfx: Pfx, mui: u32, active: bool, attr: u32, reprocess: bool }

impl Ledger {
    fn payload(&mut self, p: Pl, e: &mut Expect) {
        if p.reprocess { e.hard += 1; return; }
        let key = (p.mc, p.pfx, p.mui);
        let existing = self.recs.get(&key).copied();
        let named_before = self.named.contains(&(p.mc, p.pfx));
        if p.active {
            match existing {
                None => {
                    e.items += 1; e.announced += 1;
                    if !self.recs.keys().any(|k| k.0 == p.mc && k.1 == p.pfx) { e.unique += 1; }
                    if named_before { e.t_known_prefix_route = true; }
                }
                Some((false, _)) => { e.announced += 1; e.wd_gauge -= 1; e.modified.1 += 1; e.t_known_prefix_route = true; }
                Some((true, a)) => { e.modified.1 += 1; if a != p.attr { e.modified.0 += 1; } }
            }
            self.recs.insert(key, (true, p.attr));
            self.ok_ingress.insert(p.mui);
        } else {
            match existing {
                Some((true, a)) => { e.announced -= 1; e.wd_events += 1; e.wd_gauge += 1; e.t_wd_accepted = true; self.recs.insert(key, (false, a)); }
                Some((false, _)) => { e.wd_no_ann.1 += 1; e.t_wd_accepted = true; e.t_wd_absent = true; }
                None => { e.wd_no_ann.0 += 1; e.wd_no_ann.1 += 1; if named_before { e.t_wd_accepted = true; e.t_wd_absent = true; } else { e.t_wd_blind = true; } }
            }
            if named_before { self.ok_ingress.insert(p.mui); }
        }
        self.named.insert((p.mc, p.pfx));
    }
    fn session_withdraw(&mut self, mui: u32, sel: &dyn Fn(bool, &Pfx) -> bool, e: &mut Expect) {
        for (k, v) in self.recs.iter_mut() {
            if k.2 == mui && v.0 && sel(k.0, &k.1) { v.0 = false; e.announced -= 1; e.wd_events += 1; e.wd_gauge += 1; e.t_session_hits += 1; }
        }
    }
}

const SIGS: [&str; 7] = [
    "ribmetrics:withdrawal-of-absent-route-decrements-announced",
    "ribmetrics:withdrawal-without-announcement-never-counted",
    "ribmetrics:route-on-known-prefix-uncounted",
    "ribmetrics:session-withdrawal-unmetered",
    "ribmetrics:withdrawal-counted-as-modified-announcement",
    "ribmetrics:durations-always-zero",
    "",
];

/// Judge one token: `(priority index into SIGS or usize::MAX for unknown, detail)` per disagreement.
fn judge(prev: &Snap, cur: &Snap, e: &Expect, led: &Ledger) -> Vec<(usize, String)> {
    let mut out = vec![];
    let d = |k: &str| -> i64 { (cur.get(k).unwrap_or(0) as i64).wrapping_sub(prev.get(k).unwrap_or(0) as i64) };
    let mut mis = |metric: &str, real: i64, want: String, sig: Option<usize>| {
        out.push((sig.unwrap_or(usize::MAX), format!("{metric} changed by {real}, the traffic implies {want}")));
    };
    let known_route = e.t_known_prefix_route;
    // unique / items
    for (k, want) in [("unique", e.unique), ("items", e.items)] {
        let r = d(k);
        if r != want { mis(k, r, want.to_string(), if r < want && known_route { Some(2) } else { None }); }
    }
    // announced
    let r = d("announced");
    if r != e.announced {
        let sig = if r < e.announced && e.t_wd_absent { Some(0) } else if r < e.announced && known_route { Some(2) } else if r > e.announced && e.t_session_hits > 0 { Some(3) }
            else if r > e.announced && e.t_wd_absent && known_route { Some(2) } else { None };
        mis("announced", r, e.announced.to_string(), sig);
    }
    // withdrawn: counter of withdrawal events or gauge of withdrawn routes stored
    let r = d("withdrawn");
    if r != e.wd_events && r != e.wd_gauge {
        let sig = if r > e.wd_events && e.t_wd_absent { Some(0) } else if r < e.wd_events && e.t_session_hits > 0 { Some(3) } else { None };
        mis("withdrawn", r, format!("{} (events) or {} (stored)", e.wd_events, e.wd_gauge), sig);
    }
    // modified
    let r = d("modified");
    if r < e.modified.0 || r > e.modified.1 {
        let sig = if r > e.modified.1 && e.t_wd_accepted { Some(4) } else if r > e.modified.1 && known_route { Some(2) } else { None };
        mis("modified", r, format!("{}..{}", e.modified.0, e.modified.1), sig);
    }
    // withdrawals without announcement
    let r = d("wd_no_ann");
    if r < e.wd_no_ann.0 || r > e.wd_no_ann.1 {
        let sig = if r < e.wd_no_ann.0 && (e.t_wd_absent || e.t_wd_blind) { Some(1) } else { None };
        mis("wd_no_ann", r, format!("{}..{}", e.wd_no_ann.0, e.wd_no_ann.1), sig);
    }
    let r = d("hard");
    if r != e.hard { mis("hard", r, e.hard.to_string(), if r > e.hard && e.t_wd_blind { Some(1) } else { None }); }
    let r = d("retries");
    if r != 0 { mis("retries", r, "0 (one thread)".into(), None); }
    for k in ["g_updates", "g_dropped"] { let r = d(k); if r != e.forwards { mis(k, r, e.forwards.to_string(), None); } }
    match e.setsize {
        Some(n) => if cur.get("g_setsize") != Some(n) { mis("g_setsize", cur.get("g_setsize").unwrap_or(0) as i64, n.to_string(), None); },
        // (the sample is absent until the first gate update: absent = 0)
        None => if cur.get("g_setsize").unwrap_or(0) != prev.get("g_setsize").unwrap_or(0) { mis("g_setsize", cur.get("g_setsize").unwrap_or(0) as i64, "unchanged".into(), None); },
    }
    // counters never decrease (announced is typed Counter but is covered by the signatures above)
    for k in ["unique", "retries", "hard", "modified", "withdrawn", "wd_no_ann", "g_updates", "g_dropped"] {
        if cur.get(k).unwrap_or(0) < prev.get(k).unwrap_or(0) { mis(k, d(k), "a counter never decreases".into(), None); }
    }
    // per-ingress e2e samples: one per ingress with an accepted payload, showing the payload's age
    let have: HashSet<String> = cur.e2e.iter().map(|(r, _)| r.clone()).collect();
    let want: HashSet<String> = led.ok_ingress.iter().map(|m| m.to_string()).collect();
    if !want.is_subset(&have) { mis("e2e", have.len() as i64, format!("a sample for each of {} ingresses", want.len()), if known_route || e.t_wd_blind || e.t_wd_absent { Some(1) } else { None }); }
    if cur.e2e.iter().any(|(_, v)| *v < AGE_MS) { mis("e2e", 0, format!("at least {AGE_MS} ms"), Some(5)); }
    if !cur.parse_errors.is_empty() { mis("exposition", 0, format!("parsable text: {}", cur.parse_errors[0]), None); }
    if cur.hist_nonzero { mis("merge-update-histogram", 1, "0 (nothing feeds it)".into(), None); }
    out
}

// ------------------------------------------------------------------ one case

struct Outcome { case: String, imp: String, oracle: String, nontrivial: bool, notes: Vec<String> }

fn aged() -> Instant { Instant::now().checked_sub(Duration::from_millis(AGE_MS + 200)).expect("uptime > 4 s") }

fn run_case(toks: &[Tok], duration_repaired: bool, overlap_repaired: bool) -> Outcome {
    let mut notes = vec![];
    let mut real = Real::new();
    let mut led = Ledger::default();
    let mut recs: Vec<String> = vec![];
    let mut prev = real.snap();
    let mut verdicts: Vec<(usize, usize, String)> = vec![];
    let mut bad = false;
    let (mut n_ann, mut n_wd_acc) = (0, 0);
    for (ti, t) in toks.iter().enumerate() {
        let mut e = Expect::default();
        match &t.ev {
            Ev::Upd(m, u) => {
                let Ok((pdu, _)) = encode_update(u) else { bad = true; break };
                let ing = match t.kind { Kind::Bulk | Kind::Single1 => real.bgp.ingest(&pdu, *m), Kind::Mrt => glue_ingest(&pdu, *m, true), Kind::Reprocess => glue_ingest(&pdu, *m, false) };
                match ing {
                    Ingested::Update(Update::Bulk(mut ps)) => {
                        if u.corrupt != 0 { notes.push(format!("corrupt{}-accepted-{}", u.corrupt, ps.len())); if !ps.is_empty() { bad = true; break; } }
                        let at = aged();
                        for p in ps.iter_mut() { p.received = at; if t.kind == Kind::Reprocess { p.context = RouteContext::Reprocess; } }
                        // ledger: announcements then withdrawals, unsupported SAFIs skipped (what the ingress sends)
                        let mut pls = vec![];
                        for n in &u.ann { if n.safi != Safi::X { pls.push(Pl { mc: n.safi == Safi::M, pfx: n.pfx, mui: *m, active: true, attr: u.attr, reprocess: t.kind == Kind::Reprocess }); } }
                        for n in &u.wd { if n.safi != Safi::X && !(overlap_repaired && u.ann.contains(n)) { pls.push(Pl { mc: n.safi == Safi::M, pfx: n.pfx, mui: *m, active: false, attr: 0, reprocess: t.kind == Kind::Reprocess }); } }
                        if pls.len() != ps.len() { notes.push(format!("payload-count:{}-vs-{}", ps.len(), pls.len())); }
                        for p in &pls { led.payload(*p, &mut e); if p.active { n_ann += 1; } }
                        if e.t_wd_accepted { n_wd_acc += 1; }
                        let n = ps.len();
                        e.forwards = if n == 0 { 0 } else { 1 };
                        let up = if t.kind == Kind::Single1 && n == 1 { Update::Single(ps.into_iter().next().unwrap()) } else { if n >= 2 { e.setsize = Some(n as u64); } Update::Bulk(ps) };
                        if real.process(up).is_err() { notes.push("panic".into()); }
                    }
                    Ingested::Update(_) => { bad = true; break; }
                    Ingested::Rejected(_) => { if u.corrupt == 0 && !(u.ann.is_empty() && u.wd.is_empty()) { notes.push("wellformed-rejected".into()); bad = true; break; } }
                }
            }
            Ev::Down(m) => { led.session_withdraw(*m, &|_, _| true, &mut e); let _ = real.process(Update::Withdraw(*m, None)); }
            Ev::DownBulk(ms) => { for m in ms { led.session_withdraw(*m, &|_, _| true, &mut e); } let _ = real.process(Update::WithdrawBulk(ms.clone().into())); }
            Ev::DownAf(m, af) => {
                let (mc, v6, any) = match af.as_str() { "v4u" => (false, false, true), "v6u" => (false, true, true), "v4m" => (true, false, true), "v6m" => (true, true, true), _ => (false, false, false) };
                if any { led.session_withdraw(*m, &|t, p| t == mc && p.v6 == v6, &mut e); }
                if real.process(Update::Withdraw(*m, Some(afisafi(af)))).is_err() { notes.push("panic-unsupported-afisafi".into()); }
            }
        }
        let cur = real.snap();
        recs.push(cur.show(duration_repaired));
        for (sig, detail) in judge(&prev, &cur, &e, &led) { verdicts.push((sig, ti, detail)); }
        prev = cur;
    }
    if bad { return Outcome { case: "bad-case".into(), imp: "bad-case".into(), oracle: "ok".into(), nontrivial: false, notes }; }
    let case = format!("m|{}", join(toks.iter().map(|t| t.show()), " "));
    let imp = join(recs.iter(), " ");
    // unknown first, then the known mechanisms in the order of SIGS
    verdicts.sort_by_key(|(s, t, _)| (if *s == usize::MAX { 0 } else { 1 + *s }, *t));
    let oracle = match verdicts.first() {
        None => "ok".to_string(),
        Some((s, t, detail)) if *s == usize::MAX => { let m = detail.split(' ').next().unwrap_or("metric"); format!("fail ribmetrics:{m}-disagrees token {} ({}): {detail}", t + 1, toks[*t].show()) }
        Some((s, t, detail)) => format!("fail {} token {} ({}): {detail}", SIGS[*s], t + 1, toks[*t].show()),
    };
    Outcome { case, imp, oracle, nontrivial: toks.len() >= 3 && n_ann >= 1 && n_wd_acc >= 1, notes }
}

// ------------------------------------------------------------------ generator

fn gen_upd(rng: &mut Rng, pool: &[Pfx], allow_overlap: bool) -> Upd {
    let all = verif_harness::rib::pool();
    let pick_fam = |rng: &mut Rng| -> (bool, Safi) {
        match rng.below(10) { 0..=3 => (false, Safi::U), 4 | 5 => (true, Safi::U), 6 => (false, Safi::M), 7 => (true, Safi::M), 8 => (false, Safi::X), _ => (true, Safi::X) }
    };
    let half = |rng: &mut Rng, n: usize| -> Vec<Nlri> {
        if n == 0 { return vec![]; }
        let (v6, safi) = pick_fam(rng);
        let mut out = vec![];
        let mut cands: Vec<&Pfx> = pool.iter().filter(|p| p.v6 == v6).collect();
        if cands.is_empty() { cands = all.iter().filter(|p| p.v6 == v6).collect(); }
        for _ in 0..n { out.push(Nlri { pfx: **rng.pick(&cands), safi }); }
        if (v6 || safi != Safi::U) && rng.chance(1, 3) {
            let c4: Vec<&Pfx> = all.iter().filter(|p| !p.v6).collect();
            out.push(Nlri { pfx: **rng.pick(&c4), safi: Safi::U });
        }
        out
    };
    let shape = rng.below(10);
    let (na, nw) = match shape { 0..=4 => (rng.range(1, 3) as usize, 0), 5..=7 => (0, rng.range(1, 3) as usize), 8 => (rng.range(1, 2) as usize, rng.range(1, 2) as usize), _ => (0, 0) };
    let ann = half(rng, na);
    let mut wd = half(rng, nw);
    if shape == 8 && allow_overlap && rng.chance(1, 2) && !ann.is_empty() {
        let n = *rng.pick(&ann);
        let fam_ok = wd.iter().all(|w| (w.pfx.v6, w.safi) == (n.pfx.v6, n.safi) || (!w.pfx.v6 && w.safi == Safi::U));
        if fam_ok || wd.is_empty() { wd.push(n); } else { wd = vec![n]; }
    }
    if !allow_overlap { wd.retain(|w| !ann.iter().any(|a| a.pfx == w.pfx)); }
    Upd { attr: rng.range(1, 9) as u32, ann, wd, mp4: rng.chance(1, 4), corrupt: 0 }
}

fn gen_history(rng: &mut Rng, pool: &[Pfx], rec: &mut Recorder) -> Vec<Tok> {
    let peers = rng.range(1, 4) as u32;
    let n = if rng.chance(1, 6) { rng.range(20, 60) } else { rng.range(1, 14) } as usize;
    let focus: Vec<Pfx> = { let k = rng.range(2, 5) as usize; (0..k).map(|_| *rng.pick(pool)).collect() };
    let mut toks = vec![];
    for _ in 0..n {
        let m = 2 + rng.below(peers as u64) as u32;
        let r = rng.below(100);
        let tok = if r < 80 {
            let kind = match rng.below(20) { 0..=12 => Kind::Bulk, 13..=15 => Kind::Single1, 16..=18 => Kind::Mrt, _ => Kind::Reprocess };
            let use_focus = rng.chance(4, 5);
            let mut u = gen_upd(rng, if use_focus { &focus } else { pool }, matches!(kind, Kind::Bulk | Kind::Single1));
            if encode_update(&u).is_err() { u.wd.clear(); }
            if rng.chance(1, 12) { let k = rng.range(1, 5) as u8; if corrupt_applicable(&u, k) { u.corrupt = k; } }
            rec.bump(if u.corrupt != 0 { "tok-malformed" } else { match kind { Kind::Bulk => "tok-update-bulk", Kind::Single1 => "tok-update-single-if-one", Kind::Mrt => "tok-update-mrt-context", Kind::Reprocess => "tok-update-reprocess-context" } });
            if u.corrupt == 0 { rec.bump(if u.ann.is_empty() && u.wd.is_empty() { "upd-empty" } else if u.ann.is_empty() { "upd-withdraw-only" } else if u.wd.is_empty() { "upd-announce-only" } else { "upd-both" }); }
            Tok { kind, ev: Ev::Upd(m, u) }
        } else if r < 89 { rec.bump("tok-withdraw-ingress"); Tok { kind: Kind::Bulk, ev: Ev::Down(m) } }
        else if r < 94 { rec.bump("tok-withdraw-bulk"); let k = rng.below(3) as usize; Tok { kind: Kind::Bulk, ev: Ev::DownBulk((0..k).map(|_| 2 + rng.below(peers as u64 + 1) as u32).collect()) } }
        else { let af = *rng.pick(&["v4u", "v6u", "v4m", "v6m", "v4u", "v6u", "other"]); rec.bump(if af == "other" { "tok-withdraw-unsupported-afisafi" } else { "tok-withdraw-afisafi" }); Tok { kind: Kind::Bulk, ev: Ev::DownAf(m, af.to_string()) } };
        toks.push(tok);
    }
    toks
}

fn main() {
    if std::env::var("VERIF_VERBOSE").is_err() { std::panic::set_hook(Box::new(|_| {})); }
    let args = parse_args();
    let t0 = Instant::now();
    let mut rec = Recorder::new("a history is non-trivial when it has at least three tokens, at least one announcement payload and at least one withdrawal payload for a prefix the unit had seen before");
    let pool = pool();
    let p24 = pool[2];
    let p = p24.show();
    let tk = |s: &str| Tok::parse(s).unwrap();

    if std::env::var("VERIF_DUMP").is_ok() {
        let r = Real::new();
        let _ = r.process(match glue_ingest(&encode_update(&Upd { attr: 1, ann: vec![Nlri { pfx: p24, safi: Safi::U }], wd: vec![], mp4: false, corrupt: 0 }).unwrap().0, 2, true) { Ingested::Update(u) => u, _ => unreachable!() });
        eprintln!("{}", r.text());
    }

    // ---- variant detection: replay the witnesses of the Lean counterexamples on the real code
    // overlap (C01, repaired in /repo by an earlier fix): does the BGP call site send the withdrawal half of an overlap?
    let overlap_repaired = {
        let mut b = BgpSource::new();
        let u = Upd { attr: 7, ann: vec![Nlri { pfx: p24, safi: Safi::U }], wd: vec![Nlri { pfx: p24, safi: Safi::U }], mp4: false, corrupt: 0 };
        match b.ingest(&encode_update(&u).unwrap().0, 2) { Ingested::Update(Update::Bulk(ps)) => ps.len() == 1, _ => false }
    };
    rec.variant("overlap", if overlap_repaired { "repaired" } else { "as-written" });
    // durations: one announcement of a payload received 3 s ago
    let w_dur = vec![tk(&format!("u:2:3:u{p}:-:c"))];
    let duration_repaired = { let o = run_case(&w_dur, false, overlap_repaired); o.imp.contains(";2a") || o.imp.contains(",2a,") };
    rec.variant("ribmetrics-duration", if duration_repaired { "repaired" } else { "as-written" });
    // withdrawal effect: announce, withdraw -> is the withdrawal also counted as a modified announcement?
    let w_wde = vec![tk(&format!("u:2:3:u{p}:-:c")), tk(&format!("u:2:0:-:u{p}:c"))];
    let wde_repaired = { let o = run_case(&w_wde, duration_repaired, overlap_repaired); o.imp.split(' ').nth(1).map(|r| r.split(',').nth(5) == Some("0")).unwrap_or(false) };
    rec.variant("ribmetrics-wdeffect", if wde_repaired { "repaired" } else { "as-written" });

    let mut emit = |rec: &mut Recorder, toks: &[Tok]| {
        let o = run_case(toks, duration_repaired, overlap_repaired);
        for n in &o.notes { rec.bump(&format!("note-{}", n.split(':').next().unwrap())); }
        rec.bump(if o.oracle == "ok" { "oracle-ok".to_string() } else { format!("oracle-{}", o.oracle.split(' ').nth(1).unwrap_or("fail")) }.as_str());
        rec.case(o.case, o.imp, o.oracle, o.nontrivial);
    };

    if let Some(path) = &args.replay {
        for line in replay_cases(path) {
            let parts: Vec<&str> = line.split('|').collect();
            if parts.len() < 2 || parts[0] != "m" { continue; }
            let toks: Option<Vec<Tok>> = parts[1].split_whitespace().map(Tok::parse).collect();
            if let Some(toks) = toks { emit(&mut rec, &toks); }
        }
        rec.finish(&args, t0.elapsed().as_secs_f64());
        return;
    }

    // ---- witnesses (the Lean counterexamples) and corpus first
    let a = |m: u32, attr: u32, n: &str| tk(&format!("u:{m}:{attr}:{n}:-:c"));
    let w = |m: u32, n: &str| tk(&format!("u:{m}:0:-:{n}:c"));
    let up = format!("u{p}"); let mp = format!("m{p}");
    let corpus: Vec<Vec<Tok>> = vec![
        w_dur.clone(),                                                   // durations_counterexample
        w_wde.clone(),                                                   // modified_counterexample
        vec![a(2, 3, &up), w(2, &up), w(2, &up)],                        // announced_underflow_counterexample: wraps to 2^64-1
        vec![a(2, 3, &up), a(3, 4, &up)],                                // items_counterexample: second route of a prefix
        vec![a(2, 3, &up), a(3, 4, &up), w(2, &up), w(3, &up)],          // announced wraps with two ingresses
        vec![w(2, &up), a(2, 3, &up)],                                   // unique_prefixes_counterexample: blind withdrawal hides the prefix
        vec![w(2, &up)],                                                 // wd_without_announcement_counterexample
        vec![a(2, 3, &up), tk("d:2")],                                   // session_withdraw_counterexample
        vec![a(2, 3, &up), a(3, 3, &up), tk("D:2,3")],
        vec![a(2, 3, &up), w(2, &up), a(2, 3, &up)],                     // re-announcement of a withdrawn route
        vec![a(2, 3, &up), a(2, 3, &up), a(2, 4, &up)],                  // identical and modified re-announcement
        vec![a(2, 3, &up), a(2, 3, &mp), w(2, &mp), w(2, &up)],          // both SAFI tables
        vec![tk(&format!("ur:2:3:u{p}:-:c")), a(2, 3, &up)],             // Reprocess context = hard failure
        vec![tk(&format!("u1:2:3:u{p}:-:c")), tk(&format!("um:3:4:u{p},u4.16.2561:-:c")), tk("da:2:v4u"), tk("da:3:other")],
        vec![tk(&format!("x:2:3:u{p}:-:c:1")), a(2, 3, &up)],            // malformed is a no-op
    ];
    for toks in &corpus { emit(&mut rec, toks); }

    // ---- generated histories
    let mut rng = Rng::new(args.seed);
    let budget = if args.thorough { 150.0 } else { 10.0 };
    let max_cases = if args.thorough { 40_000 } else { 2500 };
    let mut n = 0;
    while n < max_cases && t0.elapsed().as_secs_f64() < budget {
        let toks = gen_history(&mut rng, &pool, &mut rec);
        emit(&mut rec, &toks);
        n += 1;
    }
    rec.finish(&args, t0.elapsed().as_secs_f64());
}
