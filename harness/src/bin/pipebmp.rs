//! PipeBmp engine: the composition BMP state machine ∘ RIB unit on the real code.
//!
//! One case = a whole history over several router connections of one real `bmp-tcp-in` unit
//! (`rotonda::verif::bmp_conn::World`: the real accept loop `BmpTcpInRunner::run` — `find_or_register_bmp_router`,
//! `router_connected` — and per connection the real `RouterHandler::read_from_router` on an in-memory reader):
//!   real BMP bytes (Initiation, Peer Up ± Graceful Restart, Route Monitoring with announcements /
//!   withdrawals / End-of-RIB markers / damaged UPDATEs, Peer Down, Statistics, Termination), a new connection,
//!   **end of input without a Termination** (the handler's epilogue `WithdrawBulk(ids_for_parent)` + EndOfStream)
//!   -> every `Update` leaving the unit's real gate, in order -> real `RibUnitRunner::process_update` -> real
//!   `Rib::match_prefix` for the 12 pool prefixes, after every session-level withdrawal and at the end.
//! case   `P|<prefixes>|<events>|<scenario>`: events carry, per Route Monitoring message, what the real
//!        parser reported (`bmp::rm_fields`) and the route content that was encoded; the Lean driver
//!        `rmodel-pipebmp` runs `Model/PipeBmp.lean` (`Bmp.step` feeding `Rib.apply`, ids from the modelled
//!        register) on them. The 4th field rebuilds the population for `--replay`.
//! impl   `<snapshot> | … | <final T/F>`  (+ ` ## ` one informational token per event)
//! oracle Rust only, no Lean model, and it does not look at the `Update`s the state machine emitted: a
//!        ten-line RFC 7854 tracker (session live between Initiation and Termination, peer up between an
//!        accepted Peer Up and its Peer Down) turns the history into the route data of peers that were up
//!        when they sent it, labelled with the ingress id the real code gave the peer; `rib::spec_observe`
//!        replays it (property reading: a session end withdraws, a later announcement is active again).
//!        (a) every snapshot and the final answer equal that replay; (b) around every Peer Down / Termination
//!        of up peers: entries of other ids identical, entries of the named ids withdrawn with unchanged
//!        attributes, the `Update` names exactly the expected ids, a rejected message sends nothing;
//!        (c) is (a) on histories with a Peer Down / Peer Up (or Termination / reconnect) cycle.
//!        A deviation is reported under a known signature only if exactly that defect's semantics
//!        reproduces every compared answer of the case.
use std::collections::{BTreeMap, HashMap};
use std::net::{IpAddr, Ipv4Addr, SocketAddr};
use std::time::{Duration, Instant};

use bytes::Bytes;
use rotonda::bgp::encode::{
    mk_initiation_msg, mk_peer_down_notification_msg, mk_raw_route_monitoring_msg,
    mk_statistics_report_msg, mk_termination_msg,
};
use rotonda::payload::Update;
use rotonda::verif::bmp_conn::{Conn, Item, TracingMode, World};
use routecore::bmp::message::Message as BmpMsg;
use verif_harness::bmp::{rm_fields, summarize};
use verif_harness::rib::*;
use verif_harness::{join, parse_args, replay_cases, rng::Rng, Recorder};

// ------------------------------------------------------------------ scenario

/// One monitored peer of a router: `BmpPeer::plain(base)`; `alt` = same address and AS but another BGP id
/// (a different per-peer header with the *same* register key class); `gr` = Graceful Restart in its OPEN.
#[derive(Clone, Debug, PartialEq)]
struct PeerSpec { base: u32, /** 0 = the plain header, 1 = another BGP id (same register key class), 2 = the O flag: the Adj-RIB-Out view of the same neighbour (RFC 8671; same address and AS, another key class) */ alt: u8, gr: bool }

#[derive(Clone, Debug, PartialEq)]
struct RouterSpec { addr: u8, peers: Vec<PeerSpec> }

/// `mark`: an empty MP_UNREACH_NLRI (IPv6 unicast) is appended to the path attributes — what
/// `UpdateMessage::is_eor()` keys on (alone: the IPv6 End-of-RIB marker).
#[derive(Clone, Debug, PartialEq)]
struct RmSpec { upd: Upd, mark: bool, /** number of standard communities carried besides (0 = none): 2500 of them make the UPDATE longer than 9 KiB, legal in BMP (RFC 8654 extended messages) and far beyond the usual 4096 */ fat: u16 }

#[derive(Clone, Debug, PartialEq)]
enum M { Init, Term, PeerUp(usize), PeerDown(usize), Stats(usize), Rm(usize, RmSpec) }

#[derive(Clone, Debug, PartialEq)]
enum Op { Connect(usize), Msg(usize, M), Disconnect(usize) }

#[derive(Clone, Debug, PartialEq)]
struct Scn { routers: Vec<RouterSpec>, ops: Vec<Op> }

fn peer_of(p: &PeerSpec) -> BmpPeer {
    let mut b = BmpPeer::plain(p.base);
    if p.alt == 1 { b.bgp_id = [9, 9, 9, 1 + p.base as u8]; }
    if p.alt == 2 { b.flags |= 0x10; }
    b.gr = p.gr;
    b
}

fn show_nlris(ns: &[Nlri]) -> String { if ns.is_empty() { "-".into() } else { join(ns.iter().map(|n| n.show()), ",") } }
fn parse_nlris(s: &str) -> Option<Vec<Nlri>> { if s == "-" { Some(vec![]) } else { s.split(',').map(Nlri::parse).collect() } }

fn show_scn_routers(rs: &[RouterSpec]) -> String {
    join(rs.iter().map(|r| format!("{}:{}", r.addr, join(r.peers.iter().map(|p| format!("{}.{}.{}", p.base, p.alt, p.gr as u8)), ","))), ";")
}
fn parse_scn_routers(s: &str) -> Option<Vec<RouterSpec>> {
    s.split(';').map(|r| {
        let (a, ps) = r.split_once(':')?;
        let peers = ps.split(',').map(|p| { let f: Vec<&str> = p.split('.').collect(); if f.len() != 3 { return None; } Some(PeerSpec { base: f[0].parse().ok()?, alt: f[1].parse().ok()?, gr: f[2] == "1" }) }).collect::<Option<Vec<_>>>()?;
        Some(RouterSpec { addr: a.parse().ok()?, peers })
    }).collect()
}

/// `attr;ann;wd;mp4;corrupt;mark` — the informational 4th part of a Route Monitoring token (replay).
fn show_rmspec(s: &RmSpec) -> String {
    format!("{};{};{};{};{};{};{}", s.upd.attr, show_nlris(&s.upd.ann), show_nlris(&s.upd.wd), s.upd.mp4 as u8, s.upd.corrupt, s.mark as u8, s.fat)
}
fn parse_rmspec(s: &str) -> Option<RmSpec> {
    let f: Vec<&str> = s.split(';').collect();
    if f.len() != 6 && f.len() != 7 { return None; }
    Some(RmSpec { upd: Upd { attr: f[0].parse().ok()?, ann: parse_nlris(f[1])?, wd: parse_nlris(f[2])?, mp4: f[3] == "1", corrupt: f[4].parse().ok()? }, mark: f[5] == "1", fat: f.get(6).and_then(|x| x.parse().ok()).unwrap_or(0) })
}

/// Rebuild the ops from the event tokens of a case line.
fn parse_ops(evs: &str) -> Option<Vec<Op>> {
    evs.split_whitespace().map(|t| {
        if let Some(rest) = t.strip_prefix("c.") { return Some(Op::Connect(rest.split('.').next()?.parse().ok()?)); }
        let (i, m) = t.split_once(':')?;
        let i: usize = i.parse().ok()?;
        if m == "x" { return Some(Op::Disconnect(i)); }
        let parts: Vec<&str> = m.split('~').collect();
        let hd: Vec<&str> = parts[0].split('.').collect();
        let h = || -> Option<usize> { hd.get(1)?.parse().ok() };
        Some(Op::Msg(i, match hd[0] {
            "i" => M::Init, "t" => M::Term, "u" => M::PeerUp(h()?), "d" => M::PeerDown(h()?), "s" => M::Stats(h()?),
            "r" => M::Rm(h()?, parse_rmspec(parts.get(3)?)?),
            _ => return None,
        }))
    }).collect()
}

// ------------------------------------------------------------------ bytes

const MARK: [u8; 6] = [0x80, 15, 3, 0, 2, 1];

/// Append an empty MP_UNREACH_NLRI (AFI 2, SAFI 1) to the path attributes of a well-formed PDU.
fn mark_pdu(pdu: &[u8], pas: &[u8]) -> (Vec<u8>, Vec<u8>) {
    let wlen = u16::from_be_bytes([pdu[19], pdu[20]]) as usize;
    let pa_off = 21 + wlen;
    let palen = u16::from_be_bytes([pdu[pa_off], pdu[pa_off + 1]]) as usize;
    let end = pa_off + 2 + palen;
    let mut out = pdu[..end].to_vec();
    out.extend_from_slice(&MARK);
    out.extend_from_slice(&pdu[end..]);
    let np = (palen + MARK.len()) as u16;
    out[pa_off..pa_off + 2].copy_from_slice(&np.to_be_bytes());
    let l = out.len() as u16;
    out[16..18].copy_from_slice(&l.to_be_bytes());
    let mut p = pas.to_vec();
    p.extend_from_slice(&MARK);
    (out, p)
}

fn rm_pdu(s: &RmSpec) -> Option<(Vec<u8>, Vec<u8>)> {
    let (pdu, pas) = if s.fat > 0 && s.upd.corrupt == 0 && !s.upd.ann.is_empty() {
        let mut val = Vec::with_capacity(4 * s.fat as usize);
        for i in 0..s.fat as u32 { val.extend_from_slice(&(64512u32 << 16 | (i & 0xffff)).to_be_bytes()); }
        let mut extra = vec![0xC0 | 0x10, 8]; extra.extend_from_slice(&(val.len() as u16).to_be_bytes()); extra.extend_from_slice(&val);
        verif_harness::rib::encode_update_with(&s.upd, &[], &extra).ok()?
    } else { encode_update(&s.upd).ok()? };
    Some(if s.mark && s.upd.corrupt == 0 { mark_pdu(&pdu, &pas) } else { (pdu, pas) })
}

// ------------------------------------------------------------------ running one scenario on the real code

/// One accepted connection of the real unit: the harness' end of the in-memory connection, the router ingress
/// id the real accept loop gave it, and whether its handler task has ended.
struct Session { router: usize, conn: Conn, rid: u32, closed: bool }

type Snap = Vec<Vec<(u32, char, String)>>;

fn snapshot(rib: &RealRib, qs: &[Pfx]) -> Snap { qs.iter().map(|p| rib.query(p, true)).collect() }
fn show_snap(s: &Snap) -> String { join(s.iter().map(|v| show_recs(v)), " ") }

/// (b) judged on two snapshots of the real RIB around a session-level withdrawal that should name `ids`.
fn isolation(before: &Snap, after: &Snap, ids: &[u32]) -> Option<String> {
    for (b, a) in before.iter().zip(after.iter()) {
        let bo: Vec<_> = b.iter().filter(|r| !ids.contains(&r.0)).collect();
        let ao: Vec<_> = a.iter().filter(|r| !ids.contains(&r.0)).collect();
        if bo != ao { return Some(format!("isolation:other-source-changed before {} after {}", show_recs(b), show_recs(a))); }
        let bn: Vec<(u32, String)> = b.iter().filter(|r| ids.contains(&r.0)).map(|r| (r.0, r.2.clone())).collect();
        let an: Vec<(u32, String)> = a.iter().filter(|r| ids.contains(&r.0)).map(|r| (r.0, r.2.clone())).collect();
        if bn != an { return Some(format!("isolation:withdrawn-source-lost-attributes before {} after {}", show_recs(b), show_recs(a))); }
        if a.iter().any(|r| ids.contains(&r.0) && r.1 != 'W') { return Some(format!("completeness:route-of-ended-session-still-active {}", show_recs(a))); }
    }
    None
}

/// The oracle's view of one connection.
#[derive(Default)]
struct OSess { life: u8, up: BTreeMap<usize, u32> }

struct Outcome { case: String, imp: String, oracle: String, nontrivial: bool, notes: Vec<String> }

fn key_class(tab: &mut Vec<(u8, Ipv4Addr, u32, u8)>, k: (u8, Ipv4Addr, u32, u8)) -> usize {
    match tab.iter().position(|x| *x == k) { Some(p) => 100 + p, None => { tab.push(k); 100 + tab.len() - 1 } }
}

const SHARED_SIG: &str = "identity:routers-from-one-address-share-router-id";

static NEXT_PORT: std::sync::atomic::AtomicU32 = std::sync::atomic::AtomicU32::new(0);

fn run_scn(scn: &Scn, queries: &[Pfx]) -> Outcome {
    // wire-level variation the tokens do not show (per-peer-header timestamps 0 / small / large, every Peer Down
    // reason code 1-6), for every second scenario and as a function of the scenario, so that a replay builds the
    // same bytes
    let shape: Vec<u64> = scn.ops.iter().map(|o| match o {
        Op::Connect(i) => 100 + *i as u64, Op::Disconnect(i) => 200 + *i as u64,
        Op::Msg(i, m) => 1000 * (1 + *i as u64) + match m { M::Init => 1, M::Term => 2, M::PeerUp(h) => 10 + *h as u64, M::PeerDown(h) => 30 + *h as u64, M::Stats(h) => 50 + *h as u64, M::Rm(h, _) => 70 + *h as u64 },
    }).collect();
    let salt = shape.iter().fold(0xcbf29ce484222325u64, |h, b| (h ^ *b).wrapping_mul(0x100000001b3));
    verif_harness::bmp::set_flavour(if salt & 1 == 1 { salt | 1 } else { 0 });
    let fl = verif_harness::bmp::flavoured;
    let mut rib = RealRib::new();
    // the real unit: accept loop (`BmpTcpInRunner::run`: find_or_register_bmp_router, router_connected) and, per
    // connection, the real `RouterHandler::read_from_router` (framing, process_msg, the epilogue) on an in-memory reader;
    // a direct link on the unit's real gate collects every `Update` in order
    let rt = tokio::runtime::Builder::new_multi_thread().worker_threads(1).enable_all().build().unwrap();
    let w = rt.block_on(World::new(true, None, TracingMode::Off));
    let register = w.register.clone();
    let settle = |c: &Conn| -> Option<bool> { rt.block_on(async { tokio::time::timeout(Duration::from_secs(10), c.settled()).await.ok() }) };
    let drain = |w: &World| -> Vec<Update> { std::mem::take(&mut *w.sink.updates.lock().unwrap()) };
    let mut sessions: Vec<Session> = vec![];
    let mut osess: Vec<OSess> = vec![];
    let mut keytab: Vec<(u8, Ipv4Addr, u32, u8)> = vec![];
    let mut tokens: Vec<String> = vec![];
    let mut info: Vec<String> = vec![];
    let mut notes: Vec<String> = vec![];
    let mut fails: Vec<String> = vec![];
    let mut snaps: Vec<String> = vec![];
    let mut evs: Vec<Ev> = vec![];                  // the oracle's RIB history: what the property asks for
    let mut evs_code: Vec<Ev> = vec![];             // the same with, at every session end, the ids the code named
    let mut checkpoints: Vec<(usize, usize, Snap)> = vec![]; // (oracle events so far, in evs / evs_code, real snapshot)
    let mut swallowed: Vec<usize> = vec![];         // oracle events (UPDATEs with an End-of-RIB marker next to routes) for which nothing was emitted
    let mut shared_seen = false;
    for op in &scn.ops {
        // ---- which connection, which bytes
        let (i, m): (usize, Option<&M>) = match op {
            Op::Connect(r) => {
                let Some(rs) = scn.routers.get(*r) else { continue };
                let port = 1024 + (NEXT_PORT.fetch_add(1, std::sync::atomic::Ordering::SeqCst) % 60000) as u16;
                let addr = SocketAddr::new(IpAddr::V4(Ipv4Addr::new(203, 0, 113, rs.addr)), port);
                let conn = match rt.block_on(async { tokio::time::timeout(Duration::from_secs(10), w.connect(addr)).await }) {
                    Ok(c) => c,
                    Err(_) => { fails.push("engine-stuck accept".into()); break }
                };
                let rid = w.router_ingress_id(addr.ip()).unwrap_or(0);
                if rid == 0 { fails.push("lifecycle:accepted-connection-has-no-router-ingress-id".into()); }
                if !drain(&w).is_empty() { fails.push("lifecycle:update-sent-on-accept".into()); }
                sessions.push(Session { router: *r, conn, rid, closed: false });
                osess.push(OSess::default());
                let keys: Vec<usize> = rs.peers.iter().map(|p| { let b = peer_of(p); key_class(&mut keytab, (rs.addr, b.addr, b.asn, if b.peer_type == 3 { 2 } else if b.flags & 0x10 != 0 { 1 } else { 0 })) }).collect();
                tokens.push(format!("c.{}.{}", r, if keys.is_empty() { "-".to_string() } else { join(keys.iter(), ",") }));
                info.push(format!("c{rid}"));
                notes.push("connect".into());
                continue;
            }
            Op::Disconnect(i) => (*i, None),
            Op::Msg(i, m) => (*i, Some(m)),
        };
        let h = match m { Some(M::PeerUp(h)) | Some(M::PeerDown(h)) | Some(M::Stats(h)) | Some(M::Rm(h, _)) => Some(*h), _ => None };
        let npeers = sessions.get(i).map(|s| scn.routers[s.router].peers.len()).unwrap_or(usize::MAX);
        if let Some(h) = h { if npeers != usize::MAX && h >= npeers { continue; } }
        let sess_router: Option<usize> = sessions.get(i).map(|s| s.router);
        let peer = |h: usize| -> BmpPeer { match sess_router { Some(r) => peer_of(&scn.routers[r].peers[h]), None => BmpPeer::plain(h as u32) } };
        let (bytes, token, wellformed_rm): (Option<Bytes>, String, Option<(u32, Upd)>) = match m {
            None => (None, "x".into(), None),
            Some(M::Init) => (Some(mk_initiation_msg("verif-router", "verif")), "i".into(), None),
            Some(M::Term) => (Some(mk_termination_msg()), "t".into(), None),
            Some(M::PeerDown(h)) => (Some(fl(mk_peer_down_notification_msg(&peer(*h).pph()))), format!("d.{h}"), None),
            Some(M::Stats(h)) => (Some(fl(mk_statistics_report_msg(&peer(*h).pph()))), format!("s.{h}"), None),
            Some(M::PeerUp(h)) => {
                let b = BmpRouter::peer_up_msg(&peer(*h));
                let (gr, c4) = match BmpMsg::from_octets(b.clone()) {
                    Ok(BmpMsg::PeerUpNotification(pu)) => (pu.bgp_open_rcvd().capabilities().any(|c| c.typ() == routecore::bgp::message::open::CapabilityType::GracefulRestart), pu.session_config().four_octet_enabled()),
                    _ => (false, true),
                };
                (Some(fl(b)), format!("u.{h}.{}.{}", gr as u8, c4 as u8), None)
            }
            Some(M::Rm(h, spec)) => {
                let Some((pdu, pas)) = rm_pdu(spec) else { continue };
                let b = mk_raw_route_monitoring_msg(&peer(*h).pph(), Bytes::from(pdu));
                let Some(f) = rm_fields(&b) else { continue };
                let content = if spec.upd.corrupt != 0 { "M".to_string() } else { format!("{};{};{}", spec.upd.attr, show_nlris(&spec.upd.ann), show_nlris(&spec.upd.wd)) };
                if spec.upd.corrupt == 0 && !spec.upd.ann.is_empty() { rib.blobs.insert(pas, spec.upd.attr); }
                (Some(b), format!("r.{h}~{f}~{content}~{}", show_rmspec(spec)), if spec.upd.corrupt == 0 { Some((0, spec.upd.clone())) } else { None })
            }
        };
        tokens.push(format!("{i}:{token}"));
        if sessions.get(i).is_none() { info.push("nc".into()); notes.push("no-such-connection".into()); continue }
        if sessions[i].closed { info.push("closed".into()); notes.push(format!("{}-on-closed-connection", if m.is_none() { "loss" } else { "msg" })); continue }
        // ---- the oracle's expectation, from its own tracker (before the step)
        let o = &mut osess[i];
        enum Want { Nothing, Upd(u32, Upd), Down(u32), Bulk(Vec<u32>) }
        let mut want = Want::Nothing;
        let mut new_up: Option<usize> = None;
        let mut ends = false;
        match m {
            None => { let ids: Vec<u32> = o.up.values().copied().collect(); o.up.clear(); o.life = 2; ends = true; if !ids.is_empty() { want = Want::Bulk(ids); } }
            Some(m) => {
                if o.life == 0 { if *m == M::Init { o.life = 1; } }
                else if o.life == 1 {
                    match m {
                        M::PeerUp(h) => if !o.up.contains_key(h) { new_up = Some(*h); },
                        M::PeerDown(h) => if let Some(id) = o.up.remove(h) { want = Want::Down(id); },
                        M::Rm(h, _) => if let (Some(id), Some((_, u))) = (o.up.get(h), &wellformed_rm) { want = Want::Upd(*id, u.clone()); },
                        M::Term => { let ids: Vec<u32> = o.up.values().copied().collect(); o.up.clear(); o.life = 2; ends = true; if !ids.is_empty() { want = Want::Bulk(ids); } }
                        _ => {}
                    }
                }
            }
        }
        // ids of peers that are up on *other* connections that are still read: (id, same router address?)
        let up_elsewhere: Vec<(u32, bool)> = (0..sessions.len()).filter(|j| *j != i && !sessions[*j].closed)
            .flat_map(|j| { let same = scn.routers[sessions[j].router].addr == scn.routers[sessions[i].router].addr; osess[j].up.values().map(move |id| (*id, same)).collect::<Vec<_>>() }).collect();
        let before = snapshot(&rib, queries);
        // ---- the real step: bytes (or end of input) into the real connection, until the handler waits for more or has ended
        match &bytes { Some(b) => sessions[i].conn.push(Item::Data(b.to_vec())), None => sessions[i].conn.push(Item::Eof) }
        let done = match settle(&sessions[i].conn) { Some(d) => d, None => { fails.push(format!("engine-stuck on {token}")); info.push("stuck".into()); break } };
        if done { sessions[i].closed = true; }
        if done != ends { fails.push(format!("lifecycle:connection-{} {token}", if done { "closed-unexpectedly" } else { "still-read-after-session-end" })); }
        let ups = drain(&w);
        info.push(if ups.is_empty() { "-".to_string() } else { join(ups.iter().map(|u| match u { Update::UpstreamStatusChange(_) => "eos".to_string(), u => summarize(u).0 }), "+") });
        notes.push(format!("{}-{}", match m { None => "loss".to_string(), Some(_) => format!("msg-{}", token.split(|c| c == '.' || c == '~').next().unwrap_or("")) }, if ups.is_empty() { "nothing".to_string() } else { join(ups.iter().map(|u| match u { Update::Bulk(_) => "b", Update::Withdraw(..) => "w", Update::WithdrawBulk(_) => "wb", Update::UpstreamStatusChange(_) => "eos", _ => "other" }), "+") }));
        if let Some(h) = new_up {
            let b = peer(h);
            let rid = sessions[i].rid;
            let mut ids = register.ids_for_parent(rid);
            ids.sort();
            // the documented identity of a monitored peer: parent, address, AS and RIB view (two views of one neighbour
            // are two sources)
            let view = if b.peer_type == 3 { routecore::bmp::message::RibType::LocRib } else if b.flags & 0x10 != 0 { routecore::bmp::message::RibType::AdjRibOut } else { routecore::bmp::message::RibType::AdjRibIn };
            match ids.iter().find(|id| register.get(**id).is_some_and(|x| x.remote_addr == Some(IpAddr::V4(b.addr)) && x.remote_asn.map(|a| a.into_u32()) == Some(b.asn) && x.rib_type.map(|t| t == view).unwrap_or(true))) {
                Some(id) => { osess[i].up.insert(h, *id); }
                None => fails.push(format!("lifecycle:peer-up-on-live-session-not-registered {token}")),
            }
        }
        // ---- (b) what left the unit vs. what the tracker expects
        let sl: Vec<Vec<u32>> = ups.iter().filter_map(|u| match u { Update::Withdraw(id, None) => Some(vec![*id]), Update::WithdrawBulk(ids) => { let mut v: Vec<u32> = ids.iter().copied().collect(); v.sort(); v.dedup(); Some(v) } _ => None }).collect();
        let routes: Vec<&Update> = ups.iter().filter(|u| matches!(u, Update::Bulk(ps) if !ps.is_empty()) || matches!(u, Update::Single(_))).collect();
        let sorted = |v: &Vec<u32>| { let mut w = v.clone(); w.sort(); w.dedup(); w };
        let named: Vec<u32> = sorted(&sl.iter().flatten().copied().collect());
        match &want {
            Want::Upd(..) => if !sl.is_empty() { fails.push(format!("lifecycle:route-monitoring-sent-a-session-level-withdrawal {token} {:?}", sl)); },
            Want::Down(id) => if sl != vec![vec![*id]] { fails.push(format!("completeness:peer-down-did-not-withdraw-exactly-the-peer id {id} got {:?}", sl)); },
            Want::Nothing if !ends => { if !sl.is_empty() || !routes.is_empty() { fails.push(format!("lifecycle:update-from-a-message-that-carries-no-route-data {token} -> {}", info.last().unwrap())); } },
            _ => {}
        }
        if ends {
            let ids = match &want { Want::Bulk(ids) => sorted(ids), _ => vec![] };
            // the state machine's own withdrawal (Termination with peers up) names exactly the up peers
            if m.is_some() && !ids.is_empty() && sl.first() != Some(&ids) { fails.push(format!("completeness:termination-did-not-withdraw-exactly-the-up-peers ids {:?} got {:?}", ids, sl)); }
            if let Some(id) = ids.iter().find(|id| !named.contains(id)) { fails.push(format!("completeness:up-peer-not-withdrawn-at-session-end id {id} named {:?}", named)); }
            if !routes.is_empty() { fails.push(format!("lifecycle:route-data-sent-at-session-end {token}")); }
            if !matches!(ups.last(), Some(Update::UpstreamStatusChange(_))) { fails.push(format!("session-end:no-end-of-stream {token} -> {}", info.last().unwrap())); }
            // exactness: no id of a peer that is up on another connection that is still read
            if let Some((id, same)) = up_elsewhere.iter().find(|(id, _)| named.contains(id) && !ids.contains(id)) {
                if *same { shared_seen = true; fails.push(format!("{SHARED_SIG} end of connection {i} withdrew id {id} of a peer that is up on another connection from the same address")); }
                else { fails.push(format!("isolation:session-end-withdrew-peer-of-another-router connection {i} id {id}")); }
            }
        }
        // ---- the RIB unit, update by update; a snapshot after every session-level withdrawal
        let emitted_some = !ups.is_empty();
        for u in ups {
            let is_sl = matches!(u, Update::Withdraw(..) | Update::WithdrawBulk(..));
            if let Err(p) = rib.process(u) { fails.push(format!("panic:rib-unit {p}")); }
            if is_sl { let s = snapshot(&rib, queries); snaps.push(show_snap(&s)); }
        }
        let after = snapshot(&rib, queries);
        match want {
            Want::Nothing => {
                if ends { evs_code.push(Ev::DownBulk(named.clone())); }
                // nothing the property names: the RIB must not change (a session end with no peer up included)
                if before != after {
                    let sh = ends && up_elsewhere.iter().any(|(id, same)| *same && named.contains(id));
                    if sh { shared_seen = true; fails.push(format!("{SHARED_SIG} end of connection {i} (no peer up on it) changed the RIB")); }
                    else { fails.push(format!("isolation:rib-changed-by-an-event-that-names-no-route {token} before {} after {}", show_snap(&before), show_snap(&after))); }
                }
                if ends { checkpoints.push((evs.len(), evs_code.len(), after)); }
            }
            Want::Upd(id, u) => {
                if !emitted_some && matches!(m, Some(M::Rm(_, sp)) if sp.mark && !(sp.upd.ann.is_empty() && sp.upd.wd.is_empty())) { swallowed.push(evs.len()); }
                evs.push(Ev::Upd(id, u.clone())); evs_code.push(Ev::Upd(id, u));
            }
            Want::Down(id) => {
                evs.push(Ev::Down(id)); evs_code.push(Ev::Down(id));
                if let Some(f) = isolation(&before, &after, &[id]) { fails.push(f); }
                checkpoints.push((evs.len(), evs_code.len(), after));
            }
            Want::Bulk(ids) => {
                evs.push(Ev::DownBulk(ids.clone())); evs_code.push(Ev::DownBulk(named.clone()));
                if let Some(f) = isolation(&before, &after, &ids) {
                    let sh = up_elsewhere.iter().any(|(id, same)| *same && named.contains(id) && !ids.contains(id));
                    if sh { shared_seen = true; fails.push(format!("{SHARED_SIG} end of connection {i}: {f}")); } else { fails.push(f); }
                }
                checkpoints.push((evs.len(), evs_code.len(), after));
            }
        }
    }
    let fin = snapshot(&rib, queries);
    checkpoints.push((evs.len(), evs_code.len(), fin));
    // ---- (a)/(c): every checkpoint equals the replay of the tracker's history
    let agree = |f: SpecFlags| checkpoints.iter().all(|(n, _, s)| *s == spec_observe(&evs[..*n], queries, f));
    if !agree(SpecFlags::default()) {
        let (n, _, s) = checkpoints.iter().find(|(n, _, s)| *s != spec_observe(&evs[..*n], queries, SpecFlags::default())).unwrap();
        let want = spec_observe(&evs[..*n], queries, SpecFlags::default());
        let first = queries.iter().zip(s.iter().zip(want.iter())).find(|(_, (g, w))| g != w).map(|(p, (g, w))| format!("after {} route events, prefix {} got {} want {}", n, p.show(), show_recs(g), show_recs(w))).unwrap_or_default();
        let sticky = SpecFlags { sticky_down: true, ..Default::default() };
        let overlap = SpecFlags { overlap_withdraws: true, ..Default::default() };
        let agree_code = |f: SpecFlags| checkpoints.iter().all(|(_, n, s)| *s == spec_observe(&evs_code[..*n], queries, f));
        // (a shared router id is tried before the overlap reading: a withdrawal by another connection's epilogue in front of
        // an UPDATE that names a prefix twice looks like the repaired overlap defect otherwise)
        if agree(sticky) { fails.push(format!("flap:global-withdrawn-marker-never-cleared {first}")); }
        else if shared_seen && (agree_code(SpecFlags::default()) || agree_code(sticky)) { fails.push(format!("{SHARED_SIG} {first}")); }
        else if agree(overlap) { fails.push(format!("overlap:withdrawal-applied-after-announcement-of-same-update {first}")); }
        else {
            // an End-of-RIB marker next to routes that was swallowed: dropping exactly those UPDATEs explains everything
            let without = |n: usize| -> Vec<Ev> { evs[..n].iter().enumerate().filter(|(k, _)| !swallowed.contains(k)).map(|(_, e)| e.clone()).collect() };
            let agree_sw = |f: SpecFlags| !swallowed.is_empty() && checkpoints.iter().all(|(n, _, s)| *s == spec_observe(&without(*n), queries, f));
            if agree_sw(SpecFlags::default()) || agree_sw(sticky) { fails.push(format!("downstream-depends-on-pending-eor:eor-marker-with-routes {first}")); }
            else { fails.push(format!("replay-mismatch {first}")); }
        }
    }
    // the World's links and gates must be dropped on a worker of the (multi-thread) runtime
    rt.block_on(async move { let _ = tokio::spawn(async move { w.runner.abort(); drop(w); }).await; });
    rt.shutdown_timeout(Duration::from_millis(200));
    let case = format!("P|{}|{}|{}", join(queries.iter().map(|p| p.show()), " "), tokens.join(" "), show_scn_routers(&scn.routers));
    let mut all = snaps.clone();
    all.push(rib.observe(queries));
    let imp = format!("{} ## {}", all.join(" | "), info.join(" "));
    // the most specific unknown failure first, known ones last
    fails.sort_by_key(|f| (f.starts_with("flap:") as u8) * 2 + f.starts_with(SHARED_SIG) as u8);
    let oracle = match fails.first() { None => "ok".to_string(), Some(f) => format!("fail {f}") };
    let n_ann = evs.iter().filter(|e| matches!(e, Ev::Upd(_, u) if !u.ann.is_empty())).count();
    let n_down = evs.iter().filter(|e| matches!(e, Ev::Down(_) | Ev::DownBulk(_))).count();
    Outcome { case, imp, oracle, nontrivial: n_ann >= 2 && n_down >= 1, notes }
}

// ------------------------------------------------------------------ generator

fn gen_upd(rng: &mut Rng, focus: &[Pfx], safi_of: &HashMap<Pfx, Safi>) -> Upd {
    loop {
        let class = |p: &Pfx| (p.v6, safi_of[p]);
        let c1 = class(rng.pick(focus));
        let pick_from = |rng: &mut Rng, c: (bool, Safi), n: u64| -> Vec<Nlri> {
            let cands: Vec<&Pfx> = focus.iter().filter(|p| class(p) == c).collect();
            let mut v: Vec<Nlri> = (0..n).map(|_| { let p = **rng.pick(&cands); Nlri { pfx: p, safi: c.1 } }).collect();
            v.sort_by_key(|n| n.pfx); v.dedup(); v
        };
        let kind = rng.below(10);
        let (n1, n2) = (rng.range(1, 3), rng.range(1, 2));
        let mut ann = if kind < 7 { pick_from(rng, c1, n1) } else { vec![] };
        let mut wd = if kind >= 6 { let c2 = if rng.chance(2, 3) { c1 } else { class(rng.pick(focus)) }; pick_from(rng, c2, n2) } else { vec![] };
        if rng.chance(1, 12) && !ann.is_empty() { wd.push(ann[0]); }           // announce + withdraw of one NLRI in one UPDATE
        if rng.chance(1, 20) { ann.clear(); wd.clear(); }                       // no NLRI at all: the IPv4 End-of-RIB marker
        let mut u = Upd { attr: rng.range(1, 9) as u32, ann, wd, mp4: rng.chance(1, 4), corrupt: 0 };
        if rng.chance(1, 12) { let k = rng.range(1, 6) as u8; if corrupt_applicable(&u, k) { u.corrupt = k; } }
        if encode_update(&u).is_ok() { return u; }
    }
}

fn gen_scn(rng: &mut Rng, pool: &[Pfx], rec: &mut Recorder) -> Scn {
    let nr = rng.range(1, 3) as usize;
    let mut routers: Vec<RouterSpec> = (0..nr).map(|r| {
        let gr_all = rng.chance(1, 3);
        let n = rng.range(1, 3) as u32;
        // peer 0 of every router is the same neighbour (same address and AS seen from different routers)
        RouterSpec { addr: 1 + r as u8, peers: (0..n).map(|k| PeerSpec { base: if k == 0 { 0 } else { 4 * r as u32 + k }, alt: 0, gr: gr_all || rng.chance(1, 5) }).collect() }
    }).collect();
    if rng.chance(1, 8) { let r = rng.below(nr as u64) as usize; let (g, b0) = (routers[r].peers[0].gr, routers[r].peers[0].base); routers[r].peers.push(PeerSpec { base: b0, alt: 1, gr: g }); rec.bump("world-two-headers-one-key-class"); }
    // the same neighbour monitored in two views (Adj-RIB-In and Adj-RIB-Out): two sources with one address and AS
    if rng.chance(1, 5) { let r = rng.below(nr as u64) as usize; let k = rng.below(routers[r].peers.len() as u64) as usize; if routers[r].peers[k].alt == 0 { let (g, b0) = (routers[r].peers[k].gr, routers[r].peers[k].base); routers[r].peers.push(PeerSpec { base: b0, alt: 2, gr: g }); rec.bump("world-one-neighbour-two-views"); } }
    // one world in ten has a router with many monitored peers (9-33: around 8, 16, 32), so that the withdrawal of a lost
    // connection names many ids at once and anything that batches, chunks or caps such a list is driven past its size
    if rng.chance(1, 10) {
        let r = rng.below(nr as u64) as usize;
        let n = *rng.pick(&[9u32, 10, 12, 15, 16, 17, 20, 31, 33]);
        let have = routers[r].peers.len() as u32;
        for k in have..n { routers[r].peers.push(PeerSpec { base: 40 + 40 * r as u32 + k, alt: 0, gr: false }); }
        rec.bump("world-router-with-many-peers");
    }
    if routers.iter().any(|r| r.peers.iter().any(|p| p.gr)) { rec.bump("world-graceful-restart-peers"); }
    let focus: Vec<Pfx> = { let mut f: Vec<Pfx> = (0..rng.range(2, 5)).map(|_| *rng.pick(pool)).collect(); f.sort(); f.dedup(); f };
    // every prefix is used with one SAFI per case (C01's cross-SAFI finding is C01's business)
    let safi_of: HashMap<Pfx, Safi> = pool.iter().map(|p| (*p, match rng.below(20) { 0..=14 => Safi::U, 15..=18 => Safi::M, _ => Safi::X })).collect();
    let mut ops: Vec<Op> = vec![];
    let mut cur: Vec<usize> = vec![0; nr];     // the generator's idea of each router's current connection
    let mut nsess = 0usize;
    let connect = |ops: &mut Vec<Op>, cur: &mut Vec<usize>, nsess: &mut usize, rng: &mut Rng, routers: &Vec<RouterSpec>, r: usize, eager: bool| {
        ops.push(Op::Connect(r)); cur[r] = *nsess; *nsess += 1;
        if eager || rng.chance(9, 10) { ops.push(Op::Msg(cur[r], M::Init)); }
        for k in 0..routers[r].peers.len() { if eager || rng.chance(4, 5) { ops.push(Op::Msg(cur[r], M::PeerUp(k))); } }
    };
    for r in 0..nr { let eager = rng.chance(3, 4); connect(&mut ops, &mut cur, &mut nsess, rng, &routers, r, eager); }
    for _ in 0..rng.range(8, 40) {
        let r = rng.below(nr as u64) as usize;
        let i = if rng.chance(1, 15) { rng.below(nsess as u64 + 1) as usize } else { cur[r] };   // sometimes an old or missing connection
        let k = rng.below(routers[r].peers.len() as u64) as usize;
        match rng.below(100) {
            0..=54 => {
                let mut s = RmSpec { upd: gen_upd(rng, &focus, &safi_of), mark: false, fat: 0 };
                // one announcing UPDATE in forty is fat: 900 / 2500 / 8000 communities make it 4 / 10 / 32 KiB long
                if s.upd.corrupt == 0 && !s.upd.ann.is_empty() && rng.chance(1, 40) { s.fat = *rng.pick(&[900u16, 2500, 8000]); rec.bump("rm-fat-update"); }
                if s.upd.corrupt == 0 && rng.chance(1, 14) { s.mark = true; rec.bump(if s.upd.ann.is_empty() && s.upd.wd.is_empty() { "rm-ipv6-end-of-rib" } else { "rm-eor-marker-next-to-routes" }); }
                rec.bump(if s.upd.corrupt != 0 { "rm-damaged" } else if s.upd.ann.is_empty() && s.upd.wd.is_empty() { "rm-no-nlri" } else if s.upd.ann.iter().any(|a| s.upd.wd.contains(a)) { "rm-overlap" } else { "rm-routes" });
                ops.push(Op::Msg(i, M::Rm(k, s.clone())));
                // now and then the same Route Monitoring message again, byte for byte
                if rng.chance(1, 10) { ops.push(Op::Msg(i, M::Rm(k, s))); rec.bump("rm-repeated-verbatim"); }
            }
            55..=68 => { ops.push(Op::Msg(i, M::PeerDown(k))); rec.bump("op-peer-down"); if rng.chance(3, 5) { ops.push(Op::Msg(i, M::PeerUp(k))); rec.bump("op-peer-up-again"); } }
            69..=71 => { ops.push(Op::Msg(i, M::Term)); rec.bump("op-termination"); if rng.chance(8, 10) { connect(&mut ops, &mut cur, &mut nsess, rng, &routers, r, false); rec.bump("op-reconnect-after-termination"); } }
            72..=75 => { ops.push(Op::Disconnect(i)); rec.bump("op-connection-lost"); if rng.chance(8, 10) { connect(&mut ops, &mut cur, &mut nsess, rng, &routers, r, false); rec.bump("op-reconnect-after-loss"); } }
            76..=83 => { ops.push(Op::Msg(i, M::PeerUp(k))); rec.bump("op-peer-up"); }
            84..=88 => { ops.push(Op::Msg(i, M::Stats(k))); rec.bump("op-statistics"); }
            89..=91 => { ops.push(Op::Msg(i, M::Init)); rec.bump("op-initiation"); }
            92 => { connect(&mut ops, &mut cur, &mut nsess, rng, &routers, r, false); rec.bump("op-second-connection-of-a-router"); }
            93 => { ops.push(Op::Disconnect(i)); rec.bump("op-connection-lost"); }
            _ => { ops.push(Op::Msg(i, M::PeerDown(k))); rec.bump("op-peer-down"); }
        }
    }
    // a run of one kind of message the state machine rejects (all but possibly the first), at a boundary
    // length, on a live session with routes in the RIB; then the session ends (or goes on): whatever a
    // receiver counts in a row must not change what the end of the session withdraws
    if rng.chance(1, 5) {
        const RUNS: [u64; 14] = [3, 8, 9, 10, 11, 16, 17, 31, 32, 33, 64, 65, 128, 129];
        let r = rng.below(nr as u64) as usize;
        let k = rng.below(routers[r].peers.len() as u64) as usize;
        let n = *rng.pick(&RUNS);
        let kind = rng.below(3);
        let at = ops.len();
        for _ in 0..n {
            ops.push(Op::Msg(cur[r], match kind {
                0 => M::PeerUp(k),
                1 => M::PeerDown(k),
                _ => { let mut u = gen_upd(rng, &focus, &safi_of); if u.corrupt == 0 { u.corrupt = 1 + rng.below(3) as u8; } M::Rm(k, RmSpec { upd: u, mark: false, fat: 0 }) }
            }));
        }
        if kind == 1 { ops.insert(at, Op::Msg(cur[r], M::PeerUp(((k + 1) % routers[r].peers.len()) as usize))); }
        rec.bump("op-rejected-run");
        match rng.below(4) {
            0 => { ops.push(Op::Disconnect(cur[r])); rec.bump("op-connection-lost"); }
            1 => { ops.push(Op::Msg(cur[r], M::Term)); rec.bump("op-termination"); }
            _ => { let s = RmSpec { upd: gen_upd(rng, &focus, &safi_of), mark: false, fat: 0 }; ops.push(Op::Msg(cur[r], M::Rm(k, s))); ops.push(Op::Disconnect(cur[r])); }
        }
    }
    Scn { routers, ops }
}

fn main() {
    if std::env::var("VERIF_VERBOSE").is_err() { std::panic::set_hook(Box::new(|_| {})); }
    let args = parse_args();
    let t0 = Instant::now();
    let mut rec = Recorder::new("a history is non-trivial when peers that were up delivered at least two announcing UPDATEs and at least one Peer Down / Termination of up peers reached the RIB");
    let pool = pool();
    let p24 = pool[2];
    let n24 = Nlri { pfx: p24, safi: Safi::U };
    let ann = |attr: u32| RmSpec { upd: Upd { attr, ann: vec![n24], wd: vec![], mp4: false, corrupt: 0 }, mark: false, fat: 0 };
    let one = |gr: bool| vec![RouterSpec { addr: 1, peers: vec![PeerSpec { base: 0, alt: 0, gr }] }];
    let start = vec![Op::Connect(0), Op::Msg(0, M::Init), Op::Msg(0, M::PeerUp(0))];
    let with = |tail: Vec<Op>| -> Vec<Op> { let mut v = start.clone(); v.extend(tail); v };

    // ---- variant detection: the three witnesses, replayed on the real code first
    let w_flap = Scn { routers: one(false), ops: with(vec![Op::Msg(0, M::Rm(0, ann(5))), Op::Msg(0, M::PeerDown(0)), Op::Msg(0, M::PeerUp(0)), Op::Msg(0, M::Rm(0, ann(7)))]) };
    let w_eor = Scn { routers: one(true), ops: with(vec![Op::Msg(0, M::Rm(0, RmSpec { mark: true, ..ann(5) }))]) };
    let w_overlap = Scn { routers: one(false), ops: with(vec![Op::Msg(0, M::Rm(0, RmSpec { upd: Upd { attr: 7, ann: vec![n24], wd: vec![n24], mp4: false, corrupt: 0 }, mark: false, fat: 0 }))]) };
    let fin = |o: &Outcome| o.imp.split(" ## ").next().unwrap_or("").rsplit(" | ").next().unwrap_or("").to_string();
    rec.variant("flap", if fin(&run_scn(&w_flap, &[p24])).contains(".W.7/") { "as-written" } else { "repaired" });
    rec.variant("eorswallow", if fin(&run_scn(&w_eor, &[p24])).contains(".A.5/") { "repaired" } else { "as-written" });
    rec.variant("overlap", if fin(&run_scn(&w_overlap, &[p24])).contains(".A.7/") { "repaired" } else { "as-written" });

    let emit = |rec: &mut Recorder, scn: &Scn, queries: &[Pfx]| {
        let o = run_scn(scn, queries);
        for n in &o.notes { rec.bump(&format!("note-{n}")); }
        rec.bump(if o.oracle == "ok" { "oracle-ok" } else { "oracle-fail" });
        if o.nontrivial { rec.bump("nontrivial"); }
        rec.case(o.case, o.imp, o.oracle, o.nontrivial);
    };

    if let Some(path) = &args.replay {
        for line in replay_cases(path) {
            let parts: Vec<&str> = line.split('|').collect();
            if parts.len() != 4 || parts[0] != "P" { continue; }
            let queries: Vec<Pfx> = parts[1].split_whitespace().filter_map(Pfx::parse).collect();
            if let (Some(ops), Some(routers)) = (parse_ops(parts[2]), parse_scn_routers(parts[3])) { emit(&mut rec, &Scn { routers, ops }, &queries); }
        }
        rec.finish(&args, t0.elapsed().as_secs_f64());
        return;
    }

    // ---- witnesses / corpus
    let wd24 = RmSpec { upd: Upd { attr: 0, ann: vec![], wd: vec![n24], mp4: false, corrupt: 0 }, mark: false, fat: 0 };
    let eor4 = RmSpec { upd: Upd { attr: 0, ann: vec![], wd: vec![], mp4: false, corrupt: 0 }, mark: false, fat: 0 };
    let two = vec![RouterSpec { addr: 1, peers: vec![PeerSpec { base: 0, alt: 0, gr: true }, PeerSpec { base: 1, alt: 0, gr: true }] }, RouterSpec { addr: 2, peers: vec![PeerSpec { base: 0, alt: 0, gr: false }] }];
    let corpus = vec![
        w_flap.clone(), w_eor.clone(), w_overlap.clone(),
        // Termination + reconnect: the router id and the peer id come back
        Scn { routers: one(false), ops: with(vec![Op::Msg(0, M::Rm(0, ann(5))), Op::Msg(0, M::Term), Op::Connect(0), Op::Msg(1, M::Init), Op::Msg(1, M::PeerUp(0)), Op::Msg(1, M::Rm(0, ann(7))), Op::Msg(0, M::Rm(0, ann(9)))]) },
        // clause 2 of C03: not re-announced stays withdrawn
        Scn { routers: one(false), ops: with(vec![Op::Msg(0, M::Rm(0, ann(5))), Op::Msg(0, M::PeerDown(0)), Op::Msg(0, M::PeerUp(0)), Op::Msg(0, M::Rm(0, wd24.clone()))]) },
        // Props/PipeBmp.lean `dumpH`: Peer Down and Termination in phase Dumping with End-of-RIB markers pending, a second router
        Scn { routers: two.clone(), ops: vec![Op::Connect(0), Op::Msg(0, M::Init), Op::Msg(0, M::PeerUp(0)), Op::Msg(0, M::PeerUp(1)), Op::Msg(0, M::Rm(0, ann(5))), Op::Msg(0, M::Rm(1, ann(6))),
            Op::Connect(1), Op::Msg(1, M::Init), Op::Msg(1, M::PeerUp(0)), Op::Msg(1, M::Rm(0, ann(7))), Op::Msg(0, M::PeerDown(1)), Op::Msg(0, M::Term)] },
        // the dump is completed by End-of-RIB markers, then traffic in phase Updating
        Scn { routers: two.clone(), ops: vec![Op::Connect(0), Op::Msg(0, M::Init), Op::Msg(0, M::PeerUp(0)), Op::Msg(0, M::Rm(0, ann(5))), Op::Msg(0, M::Rm(0, eor4.clone())), Op::Msg(0, M::Rm(0, ann(6))), Op::Msg(0, M::PeerDown(0))] },
        // lifecycle violations carry no route data: before Initiation, for a peer that is not up, after Termination
        Scn { routers: one(false), ops: vec![Op::Connect(0), Op::Msg(0, M::PeerUp(0)), Op::Msg(0, M::Rm(0, ann(4))), Op::Msg(0, M::Init), Op::Msg(0, M::Rm(0, ann(5))), Op::Msg(0, M::PeerDown(0)), Op::Msg(0, M::PeerUp(0)),
            Op::Msg(0, M::PeerUp(0)), Op::Msg(0, M::Rm(0, ann(6))), Op::Msg(0, M::Term), Op::Msg(0, M::Rm(0, ann(8))), Op::Msg(0, M::PeerDown(0)), Op::Msg(3, M::Init)] },
    ];
    let corpus2 = vec![
        // connection lost with a peer up, reconnect: the router id and the peer id come back, the new announcement (C03)
        Scn { routers: one(false), ops: with(vec![Op::Msg(0, M::Rm(0, ann(5))), Op::Disconnect(0), Op::Connect(0), Op::Msg(1, M::Init), Op::Msg(1, M::PeerUp(0)), Op::Msg(1, M::Rm(0, ann(7)))]) },
        // ... not re-announced stays withdrawn; a second loss of the closed connection and traffic on it change nothing
        Scn { routers: one(false), ops: with(vec![Op::Msg(0, M::Rm(0, ann(5))), Op::Disconnect(0), Op::Disconnect(0), Op::Msg(0, M::Rm(0, ann(6))), Op::Connect(0), Op::Msg(1, M::Init), Op::Msg(1, M::PeerUp(0)), Op::Msg(1, M::Rm(0, wd24.clone()))]) },
        // two routers: losing one leaves the other's routes alone; a peer that went down earlier is named again by the epilogue
        Scn { routers: two.clone(), ops: vec![Op::Connect(0), Op::Msg(0, M::Init), Op::Msg(0, M::PeerUp(0)), Op::Msg(0, M::PeerUp(1)), Op::Msg(0, M::Rm(0, ann(5))), Op::Msg(0, M::Rm(1, ann(6))),
            Op::Connect(1), Op::Msg(1, M::Init), Op::Msg(1, M::PeerUp(0)), Op::Msg(1, M::Rm(0, ann(7))), Op::Msg(0, M::PeerDown(1)), Op::Disconnect(0), Op::Msg(1, M::Rm(0, ann(8))), Op::Disconnect(1)] },
        // lost before the Initiation message / with no peer up
        Scn { routers: one(false), ops: vec![Op::Connect(0), Op::Disconnect(0), Op::Connect(0), Op::Msg(1, M::Init), Op::Disconnect(1), Op::Connect(0), Op::Msg(2, M::Init), Op::Msg(2, M::PeerUp(0)), Op::Msg(2, M::Rm(0, ann(5)))] },
        // KNOWN (C02): a second connection from the same address shares the router id; the end of the stale one withdraws the live one's routes
        Scn { routers: one(false), ops: with(vec![Op::Msg(0, M::Rm(0, ann(5))), Op::Connect(0), Op::Msg(1, M::Init), Op::Msg(1, M::PeerUp(0)), Op::Msg(1, M::Rm(0, ann(7))), Op::Disconnect(0)]) },
    ];
    for scn in corpus.iter().chain(corpus2.iter()) { emit(&mut rec, scn, &[p24]); emit(&mut rec, scn, &pool); }

    // ---- generated histories
    let mut rng = Rng::new(args.seed);
    let budget = if args.thorough { 240.0 } else { 16.0 };
    let max_cases = if args.thorough { 40_000 } else { 2500 };
    let mut n = 0;
    while n < max_cases && t0.elapsed().as_secs_f64() < budget {
        let scn = gen_scn(&mut rng, &pool, &mut rec);
        emit(&mut rec, &scn, &pool);
        n += 1;
    }
    rec.finish(&args, t0.elapsed().as_secs_f64());
}
