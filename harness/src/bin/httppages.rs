//! HttpPages engine (stage 1: exploration).
use std::net::SocketAddr;
use std::sync::Arc;
use std::time::Duration;

use hyper::{Body, Request};
use rotonda::verif::http as vh;
use rotonda::verif::httppages as hp;
use tokio::io::AsyncWriteExt;
use verif_harness::{bmpio, parse_args};

fn initiation(sys_name: &[u8], sys_desc: &[u8], extra: &[Vec<u8>]) -> Vec<u8> {
    let mut tlvs = vec![];
    let mut tlv = |t: u16, v: &[u8]| { tlvs.extend_from_slice(&t.to_be_bytes()); tlvs.extend_from_slice(&(v.len() as u16).to_be_bytes()); tlvs.extend_from_slice(v); };
    tlv(1, sys_desc);
    tlv(2, sys_name);
    for e in extra { tlv(0, e); }
    let mut m = vec![3u8];
    m.extend_from_slice(&((6 + tlvs.len()) as u32).to_be_bytes());
    m.push(4);
    m.extend_from_slice(&tlvs);
    m
}

struct Live {
    manager: rotonda::manager::Manager,
    resources: vh::Resources,
    metrics: vh::MetricsCollection,
    port: u16,
    conns: Vec<Option<tokio::net::TcpStream>>,
    sent: u64,
}

fn free_port() -> u16 { std::net::TcpListener::bind("127.0.0.1:0").unwrap().local_addr().unwrap().port() }

fn build_live(rt: &tokio::runtime::Runtime, api_path: &str, template: &str, tracing: &str) -> Option<Live> {
    use rotonda::config::{ConfigFile, Source};
    for _attempt in 0..5 {
        let port = free_port();
        let toml = format!(r#"
http_listen = ["127.0.0.1:0"]

[units.bmp-in]
type = "bmp-tcp-in"
listen = "127.0.0.1:{port}"
http_api_path = "{api_path}"
router_id_template = "{template}"
tracing_mode = "{tracing}"

[units.rib]
type = "rib"
sources = ["bmp-in"]

[targets.null]
type = "null-out"
sources = ["rib"]
"#);
        let _g = rt.enter();
        rotonda::verif::manager::reset_loader();
        let mut manager = rotonda::manager::Manager::new();
        let file = ConfigFile::new(toml.as_bytes().to_vec(), Source::default()).ok()?;
        let mut config = manager.load(&file).ok()?;
        manager.prepare(&config, &file).ok()?;
        let before = manager.link_report_updated_at();
        manager.spawn(&mut config);
        let ready = rt.block_on(async {
            for _ in 0..1500 {
                if manager.link_report_updated_at() != before { return true; }
                tokio::time::sleep(Duration::from_millis(5)).await;
            }
            false
        });
        if !ready { continue; }
        let resources = manager.http_resources();
        let metrics = manager.metrics();
        let mut live = Live { manager, resources, metrics, port, conns: vec![], sent: 0 };
        // is the listener ours? connect a probe router and see the accepted count go up
        if live.connect(rt, 250).is_some() { live.disconnect(rt, 0); return Some(live); }
    }
    None
}

impl Live {
    fn metric(&self, name: &str) -> u64 {
        let text = self.metrics.assemble(rotonda::metrics::OutputFormat::Prometheus);
        bmpio::metric_sum(&text, name)
    }
    fn wait(&self, rt: &tokio::runtime::Runtime, name: &str, want: u64) -> bool {
        rt.block_on(async {
            for _ in 0..2000 {
                if self.metric(name) >= want { return true; }
                tokio::time::sleep(Duration::from_millis(2)).await;
            }
            false
        })
    }
    /// A router connects from 127.0.0.<host>.
    fn connect(&mut self, rt: &tokio::runtime::Runtime, host: u8) -> Option<usize> {
        let before = self.metric("bmp_tcp_in_connection_accepted_count");
        let port = self.port;
        let s = rt.block_on(async {
            let sock = tokio::net::TcpSocket::new_v4().ok()?;
            sock.bind(SocketAddr::from(([127, 0, 0, host], 0))).ok()?;
            sock.connect(SocketAddr::from(([127, 0, 0, 1], port))).await.ok()
        })?;
        if !self.wait(rt, "bmp_tcp_in_connection_accepted_count", before + 1) { return None; }
        self.conns.push(Some(s));
        Some(self.conns.len() - 1)
    }
    fn disconnect(&mut self, rt: &tokio::runtime::Runtime, i: usize) {
        let before = self.metric("bmp_tcp_in_connection_lost_count");
        if let Some(s) = self.conns[i].take() { drop(s); }
        self.wait(rt, "bmp_tcp_in_connection_lost_count", before + 1);
        rt.block_on(tokio::time::sleep(Duration::from_millis(10)));
    }
    fn send(&mut self, rt: &tokio::runtime::Runtime, i: usize, msg: &[u8]) -> bool {
        let before = self.metric("bmp_tcp_in_num_bmp_messages_processed");
        let ok = rt.block_on(async {
            match self.conns[i].as_mut() { Some(s) => s.write_all(msg).await.is_ok(), None => false }
        });
        self.sent += 1;
        ok && self.wait(rt, "bmp_tcp_in_num_bmp_messages_processed", before + 1)
    }
    fn get(&self, rt: &tokio::runtime::Runtime, uri: &str) -> (u16, String, Vec<u8>) {
        let req = Request::get(uri).body(Body::empty()).unwrap();
        rt.block_on(async {
            let res = vh::handle_request(req, &self.metrics, &self.resources).await;
            let status = res.status().as_u16();
            let ct = res.headers().get("Content-Type").map(|v| String::from_utf8_lossy(v.as_bytes()).into_owned()).unwrap_or_default();
            let body = hyper::body::to_bytes(res.into_body()).await.map(|b| b.to_vec()).unwrap_or_default();
            (status, ct, body)
        })
    }
}

fn main() {
    let args = parse_args();
    let rt = tokio::runtime::Builder::new_multi_thread().worker_threads(2).enable_all().build().unwrap();
    let t0 = std::time::Instant::now();
    let mut w = build_live(&rt, "/routers/", "{sys_name}", "On").expect("live world");
    eprintln!("world up in {:?}", t0.elapsed());
    let a = w.connect(&rt, 2).unwrap();
    let b = w.connect(&rt, 3).unwrap();
    let c = w.connect(&rt, 4).unwrap();
    w.send(&rt, a, &initiation(b"<b>rtr-a</b>", b"desc 'a'", &[b"x<y".to_vec()]));
    w.send(&rt, b, &initiation(b"rtr-b", b"d", &[]));
    for i in 0..3 { w.send(&rt, a, &bmpio::peer_up(i)); }
    w.send(&rt, a, &bmpio::route_monitoring(0, 1));
    w.send(&rt, a, &bmpio::route_monitoring(0, 2));
    w.send(&rt, a, &bmpio::route_monitoring(1, 3));
    let _ = c;
    eprintln!("msgs sent in {:?}", t0.elapsed());
    for uri in args.rest.iter().skip(1) {
        let (s, ct, body) = w.get(&rt, uri);
        println!("=== {uri} -> {s} {ct}\n{}", String::from_utf8_lossy(&body));
    }
    let tr = hp::tracer(&w.manager);
    for (name, id) in hp::graph_gates(&w.manager) {
        println!("gate {name} {:?} {}", id, id.map(|g| hp::extract_msg_indices(&tr.get_trace(5), g)).unwrap_or_default());
    }
    eprintln!("done in {:?}", t0.elapsed());
    std::process::exit(0);
}
